(* The condition-combination function REGENERATED from tealer's Python source (Gen/AssertedGen.v:
   flatten_ast_gen, compute_equations_gen, get_asserted_gen, translated statement by statement from
   stack_ast_builder._flatten_ast / compute_equations and DataflowTransactionContext._get_asserted) against the
   hand-written mutual fixpoint asserted / and_parts / or_parts of Model/Analysis.v (Section Domain) over the
   condition tree StackAst.cond_of.

   Result.  For all domain parameters, on every KNOWN value whose And/Or nodes have exactly two operands and whose
   Not nodes have exactly one (aon_ok; implied by the table arity KeysGenLemmas.arity_ok, hence true of every value
   built by the stack emulation), and for every recursion budget fuel > cdepth (cond_of v):
        get_asserted_gen fuel v = Some (asserted (cond_of v))                      (get_asserted_gen_eq)
   They DIFFER outside these hypotheses (witnesses below; the generated side mirrors the Python):
     - on an And with three operands Python combines args[0], args[1] and ignores the third, cond_of makes such a
       node a leaf (get_asserted_gen_eq_refuted);
     - on an And with fewer than two operands Python raises IndexError (get_asserted_gen_short_and);
     - on an UnknownStackValue root Python raises AttributeError (`.instruction`), asserted CUnknown = (univ, univ)
       (get_asserted_gen_unknown); every caller tests isinstance(arg, UnknownStackValue) first, and so does the
       model (block_constraint / edge_constraint).
   The soundness theorem AssertedLemmas.asserted_sound is transported to the generated function
   (get_asserted_gen_sound). *)
From Coq Require Import String List NArith ZArith Bool Arith Lia.
From Tealer Require Import Tables Syntax Parse Cfg StackAst Keys KeysGen Analysis AssertedGen
  StackLemmas AssertedLemmas KeysGenLemmas.
Import ListNotations.
Open Scope list_scope.

(* ====================================================================== *)
(* 0. Well-formedness of the And/Or/Not skeleton, recursion depth          *)
(* ====================================================================== *)
(* And/Or nodes have two operands, Not nodes one, hereditarily along the And/Or/Not skeleton (nothing is asked of the
   operands of other instructions: _get_asserted hands those values to _get_asserted_single) *)
Inductive aon_ok : sval -> Prop :=
| aon_unknown : aon_ok SUnknown
| aon_and : forall pos a b out, aon_ok a -> aon_ok b -> aon_ok (SKnown IAnd pos [a; b] out)
| aon_or : forall pos a b out, aon_ok a -> aon_ok b -> aon_ok (SKnown IOr pos [a; b] out)
| aon_not : forall pos a out, aon_ok a -> aon_ok (SKnown INot pos [a] out)
| aon_leaf : forall op pos args out, op <> IAnd -> op <> IOr -> op <> INot -> aon_ok (SKnown op pos args out).

(* depth of the And/Or/Not skeleton: the recursion depth of _get_asserted *)
Fixpoint cdepth (c : cond) : nat :=
  match c with
  | CUnknown => 1
  | CLeaf _ _ _ => 1
  | CNot a => S (cdepth a)
  | CAnd a b => S (Nat.max (cdepth a) (cdepth b))
  | COr a b => S (Nat.max (cdepth a) (cdepth b))
  end.

Lemma cdepth_pos : forall c, 1 <= cdepth c.
Proof. destruct c; cbn [cdepth]; lia. Qed.

Lemma cond_of_leaf : forall op pos args out,
  op <> IAnd -> op <> IOr -> op <> INot -> cond_of (SKnown op pos args out) = CLeaf op pos args.
Proof. intros op pos args out H1 H2 H3. destruct op; try reflexivity; contradiction. Qed.

Lemma cond_of_known : forall op pos args out, cond_of (SKnown op pos args out) <> CUnknown.
Proof.
  intros op pos args out. destruct op; cbn [cond_of]; try discriminate;
    destruct args as [| a [| b [| c r]]]; discriminate.
Qed.

(* table arity (every node has stack_pop_size operands) implies the skeleton arity *)
Lemma pop_and : stack_pop_size IAnd = Some 2. Proof. reflexivity. Qed.
Lemma pop_or : stack_pop_size IOr = Some 2. Proof. reflexivity. Qed.
Lemma pop_not : stack_pop_size INot = Some 1. Proof. reflexivity. Qed.

Lemma arity_ok_aon : forall v, arity_ok v -> aon_ok v.
Proof.
  induction v as [| op pos args out IH] using sval_ind'; intros H; [constructor|].
  inversion H as [| op' pos' args' j HQ HF]; subst. unfold arityQ in HQ.
  assert (Hargs : Forall aon_ok args).
  { rewrite Forall_forall in *. intros a Ha. apply IH; [exact Ha | apply HF; exact Ha]. }
  destruct op; try (apply aon_leaf; discriminate).
  - (* And *) rewrite pop_and in HQ. injection HQ as Hl.
    destruct args as [| a [| b [| c r]]]; try discriminate.
    inversion Hargs as [| ? ? Ha Hr]; subst. inversion Hr; subst. constructor; assumption.
  - (* Or *) rewrite pop_or in HQ. injection HQ as Hl.
    destruct args as [| a [| b [| c r]]]; try discriminate.
    inversion Hargs as [| ? ? Ha Hr]; subst. inversion Hr; subst. constructor; assumption.
  - (* Not *) rewrite pop_not in HQ. injection HQ as Hl.
    destruct args as [| a [| b r]]; try discriminate.
    inversion Hargs; subst. constructor; assumption.
Qed.

(* ====================================================================== *)
(* 1. _flatten_ast / compute_equations                                      *)
(* ====================================================================== *)
Notation isU := isinstance_UnknownStackValue.
Definition notU (v : sval) : bool := negb (isU v).

(* leaves of the maximal And / Or spine (StackAst.and_leaves_c / or_leaves_c) *)
Definition kleaves (k : nodeclass) (c : cond) : list cond :=
  match k with K_And => and_leaves_c c | K_Or => or_leaves_c c end.

(* one-step equations of the generated function *)
Lemma flatten_eq_unknown : forall n k, flatten_ast_gen (S n) SUnknown k = Some [SUnknown].
Proof. reflexivity. Qed.

Lemma flatten_eq_leaf : forall n op pos args out k,
  isinstance_node op k = false ->
  flatten_ast_gen (S n) (SKnown op pos args out) k = Some [SKnown op pos args out].
Proof. intros n op pos args out k H. cbn. rewrite H. reflexivity. Qed.

Lemma flatten_eq_node : forall n op pos a b rest out k,
  isinstance_node op k = true ->
  flatten_ast_gen (S n) (SKnown op pos (a :: b :: rest) out) k =
  bind (flatten_ast_gen n a k) (fun x => bind (flatten_ast_gen n b k) (fun y => Some (x ++ y))).
Proof. intros n op pos a b rest out k H. cbn. rewrite H. reflexivity. Qed.

Lemma isinstance_node_leaf : forall op k,
  op <> IAnd -> op <> IOr -> isinstance_node op k = false.
Proof. intros op k H1 H2. destruct k; destruct op; try reflexivity; contradiction. Qed.

Lemma kleaves_other : forall k c,
  match k, c with K_And, CAnd _ _ => False | K_Or, COr _ _ => False | _, _ => True end ->
  kleaves k c = [c].
Proof. intros k c H. destruct k; destruct c; try reflexivity; contradiction. Qed.

Definition below (d : nat) (e : sval) : Prop := aon_ok e /\ cdepth (cond_of e) <= d.

Lemma below_mono : forall d d' l, d <= d' -> Forall (below d) l -> Forall (below d') l.
Proof.
  intros d d' l Hd H. eapply Forall_impl; [| exact H]. intros e [H1 H2]. split; [exact H1 | lia].
Qed.

(* _flatten_ast returns (no exception) the values whose conditions are the leaves of the spine *)
Lemma flatten_spec : forall k fuel v,
  aon_ok v -> cdepth (cond_of v) <= fuel ->
  exists l, flatten_ast_gen fuel v k = Some l /\
            map cond_of l = kleaves k (cond_of v) /\
            Forall (below (cdepth (cond_of v))) l.
Proof.
  intros k. induction fuel as [| n IH]; intros v Hok Hd.
  { pose proof (cdepth_pos (cond_of v)). lia. }
  assert (Hself : forall w, aon_ok w -> Forall (below (cdepth (cond_of w))) [w]).
  { intros w Hw. constructor; [split; [exact Hw | lia] | constructor]. }
  inversion Hok as [| pos a b out Ha Hb | pos a b out Ha Hb | pos a out Ha | op pos args out N1 N2 N3]; subst.
  - exists [SUnknown]. split; [apply flatten_eq_unknown|]. split; [destruct k; reflexivity | apply Hself; exact Hok].
  - (* And *)
    destruct k.
    + cbn [cond_of cdepth] in Hd.
      destruct (IH a Ha ltac:(lia)) as (la & Ea & Ma & Fa).
      destruct (IH b Hb ltac:(lia)) as (lb & Eb & Mb & Fb).
      exists (la ++ lb). split; [| split].
      * rewrite flatten_eq_node by reflexivity. rewrite Ea, Eb. reflexivity.
      * rewrite map_app, Ma, Mb. reflexivity.
      * cbn [cond_of cdepth]. apply Forall_app. split; eapply below_mono; try eassumption; lia.
    + exists [SKnown IAnd pos [a; b] out]. split; [apply flatten_eq_leaf; reflexivity|].
      split; [reflexivity | apply Hself; exact Hok].
  - (* Or *)
    destruct k.
    + exists [SKnown IOr pos [a; b] out]. split; [apply flatten_eq_leaf; reflexivity|].
      split; [reflexivity | apply Hself; exact Hok].
    + cbn [cond_of cdepth] in Hd.
      destruct (IH a Ha ltac:(lia)) as (la & Ea & Ma & Fa).
      destruct (IH b Hb ltac:(lia)) as (lb & Eb & Mb & Fb).
      exists (la ++ lb). split; [| split].
      * rewrite flatten_eq_node by reflexivity. rewrite Ea, Eb. reflexivity.
      * rewrite map_app, Ma, Mb. reflexivity.
      * cbn [cond_of cdepth]. apply Forall_app. split; eapply below_mono; try eassumption; lia.
  - (* Not *)
    exists [SKnown INot pos [a] out]. split; [apply flatten_eq_leaf; destruct k; reflexivity|].
    split; [destruct k; reflexivity | apply Hself; exact Hok].
  - (* any other instruction *)
    exists [SKnown op pos args out]. split; [apply flatten_eq_leaf; apply isinstance_node_leaf; assumption|].
    split; [| apply Hself; exact Hok].
    cbn [map]. rewrite (cond_of_leaf op pos args out N1 N2 N3). destruct k; reflexivity.
Qed.

(* at an And (Or) root flattened along And (Or): the leaves are strictly below the root *)
Lemma flatten_node : forall k op pos a b out fuel,
  isinstance_node op k = true ->
  aon_ok a -> aon_ok b ->
  S (Nat.max (cdepth (cond_of a)) (cdepth (cond_of b))) <= fuel ->
  exists l, flatten_ast_gen fuel (SKnown op pos [a; b] out) k = Some l /\
            map cond_of l = kleaves k (cond_of a) ++ kleaves k (cond_of b) /\
            Forall (below (Nat.max (cdepth (cond_of a)) (cdepth (cond_of b)))) l.
Proof.
  intros k op pos a b out fuel Hk Ha Hb Hd.
  destruct fuel as [| n]; [lia|].
  destruct (flatten_spec k n a Ha ltac:(lia)) as (la & Ea & Ma & Fa).
  destruct (flatten_spec k n b Hb ltac:(lia)) as (lb & Eb & Mb & Fb).
  exists (la ++ lb). split; [| split].
  - rewrite flatten_eq_node by exact Hk. rewrite Ea, Eb. reflexivity.
  - rewrite map_app, Ma, Mb. reflexivity.
  - apply Forall_app. split; eapply below_mono; try eassumption; lia.
Qed.

(* compute_equations: the known leaves, and whether there is an unknown one *)
Lemma compute_equations_gen_eq : forall fuel root k l,
  flatten_ast_gen fuel root k = Some l ->
  compute_equations_gen fuel root k = Some (filter notU l, existsb isU l).
Proof.
  intros fuel root k l H. unfold compute_equations_gen. rewrite H. cbn [bind]. unfold ret.
  match goal with |- context [fold_left ?f l (Some (false, []))] =>
    assert (HF : forall l0 h k0, fold_left f l0 (Some (h, k0)) = Some (orb h (existsb isU l0), k0 ++ filter notU l0))
  end.
  { induction l0 as [| e t IHt]; intros h k0; cbn [fold_left existsb filter].
    - rewrite orb_false_r, app_nil_r. reflexivity.
    - cbn [bind fst snd]. unfold notU at 1. destruct (isU e); cbn [negb].
      + rewrite IHt, orb_true_r. reflexivity.
      + rewrite IHt, <- app_assoc, orb_false_l. reflexivity. }
  rewrite HF. reflexivity.
Qed.

(* ====================================================================== *)
(* 2. _get_asserted                                                         *)
(* ====================================================================== *)
Section Dom.
  Variable T : Type.
  Variable univ null : T.
  Variable union inter : T -> T -> T.
  Variable single : instr -> nat -> list sval -> T * T.

  Notation gen := (get_asserted_gen T univ null union inter single).
  Notation ass := (asserted T univ null union inter single).
  Notation aparts := (and_parts T univ null union inter single).
  Notation oparts := (or_parts T univ null union inter single).
  Notation fin_and := (finish_and T univ null union inter).
  Notation fin_or := (finish_or T univ null union inter).
  Notation negc := (neg_case T univ).

  (* ---- one-step equations of the generated function, branch by branch *)
  Lemma gen_eq_leaf : forall n op pos args out,
    op <> IAnd -> op <> IOr -> op <> INot ->
    gen (S n) (SKnown op pos args out) = Some (single op pos args).
  Proof.
    intros n op pos args out H1 H2 H3.
    destruct op; try contradiction; cbn; rewrite <- surjective_pairing; reflexivity.
  Qed.

  Lemma gen_eq_not_unknown : forall n pos rest out,
    gen (S n) (SKnown INot pos (SUnknown :: rest) out) = Some (univ, univ).
  Proof. reflexivity. Qed.

  Lemma gen_eq_not_known : forall n pos o p a u rest out,
    gen (S n) (SKnown INot pos (SKnown o p a u :: rest) out) =
    bind (gen n (SKnown o p a u)) (fun r => Some (snd r, fst r)).
  Proof. reflexivity. Qed.

  Lemma gen_eq_and : forall n pos args out,
    gen (S n) (SKnown IAnd pos args out) =
    bind (compute_equations_gen n (SKnown IAnd pos args out) K_And) (fun ce =>
      bind (fold_left (fun acc e => bind acc (fun st => bind (gen n e) (fun r =>
                Some (inter (fst st) (fst r), union (snd st) (snd r))))) (fst ce) (Some (univ, null)))
           (fun fin => if snd ce then Some (fst fin, univ) else Some (fst fin, snd fin))).
  Proof. reflexivity. Qed.

  (* the Or branch carries (final_false_values, final_true_values), in the order of their assignment *)
  Lemma gen_eq_or : forall n pos args out,
    gen (S n) (SKnown IOr pos args out) =
    bind (compute_equations_gen n (SKnown IOr pos args out) K_Or) (fun ce =>
      bind (fold_left (fun acc e => bind acc (fun st => bind (gen n e) (fun r =>
                Some (inter (fst st) (snd r), union (snd st) (fst r))))) (fst ce) (Some (univ, null)))
           (fun fin => if snd ce then Some (univ, fst fin) else Some (snd fin, fst fin))).
  Proof. reflexivity. Qed.

  Lemma gen_unknown : forall fuel, gen fuel SUnknown = None.
  Proof. destruct fuel; reflexivity. Qed.

  (* ---- the spine functions of the model as a map over the leaves *)
  Definition part (c : cond) : option (T * T) :=
    match c with CUnknown => None | _ => Some (ass c) end.

  Lemma and_parts_leaves : forall c, aparts c = map part (and_leaves_c c).
  Proof.
    induction c as [| a IHa b IHb | a IHa b IHb | a IHa | op pos args]; try reflexivity.
    cbn [and_leaves_c]. rewrite map_app, <- IHa, <- IHb. reflexivity.
  Qed.

  Lemma or_parts_leaves : forall c, oparts c = map part (or_leaves_c c).
  Proof.
    induction c as [| a IHa b IHb | a IHa b IHb | a IHa | op pos args]; try reflexivity.
    cbn [or_leaves_c]. rewrite map_app, <- IHa, <- IHb. reflexivity.
  Qed.

  Lemma part_known : forall op pos args out,
    part (cond_of (SKnown op pos args out)) = Some (ass (cond_of (SKnown op pos args out))).
  Proof.
    intros op pos args out. pose proof (cond_of_known op pos args out) as H.
    destruct (cond_of (SKnown op pos args out)); [contradiction | reflexivity ..].
  Qed.

  Definition isNone (o : option (T * T)) : bool := match o with None => true | Some _ => false end.

  Lemma exists_none_parts : forall l,
    existsb isNone (map part (map cond_of l)) = existsb isU l.
  Proof.
    induction l as [| e t IH]; [reflexivity|]. cbn [map existsb]. rewrite IH.
    destruct e as [| op pos args out]; [reflexivity|]. rewrite part_known. reflexivity.
  Qed.

  (* folding the model's option list (unknown parts skipped) = folding the known equations *)
  Lemma fold_parts_T : forall (g : T -> T -> T) l acc,
    fold_left (fun acc o => match o with Some (t, _) => g acc t | None => acc end) (map part (map cond_of l)) acc =
    fold_left (fun acc e => g acc (fst (ass (cond_of e)))) (filter notU l) acc.
  Proof.
    intros g. induction l as [| e t IH]; intros acc; [reflexivity|].
    destruct e as [| op pos args out]; cbn [map filter notU isU negb fold_left].
    - apply IH.
    - rewrite part_known, IH. destruct (ass (cond_of (SKnown op pos args out))); reflexivity.
  Qed.

  Lemma fold_parts_F : forall (g : T -> T -> T) l acc,
    fold_left (fun acc o => match o with Some (_, f) => g acc f | None => acc end) (map part (map cond_of l)) acc =
    fold_left (fun acc e => g acc (snd (ass (cond_of e)))) (filter notU l) acc.
  Proof.
    intros g. induction l as [| e t IH]; intros acc; [reflexivity|].
    destruct e as [| op pos args out]; cbn [map filter notU isU negb fold_left].
    - apply IH.
    - rewrite part_known, IH. destruct (ass (cond_of (SKnown op pos args out))); reflexivity.
  Qed.

  (* the translated loop, when every recursive call returns what the model says *)
  Lemma loop_eq : forall n (g1 g2 : T -> T -> T) (p1 p2 : T * T -> T) l,
    Forall (fun e => gen n e = Some (ass (cond_of e))) l ->
    forall a1 a2,
    fold_left (fun acc e => bind acc (fun st => bind (gen n e) (fun r =>
                 Some (g1 (fst st) (p1 r), g2 (snd st) (p2 r))))) l (Some (a1, a2)) =
    Some (fold_left (fun acc e => g1 acc (p1 (ass (cond_of e)))) l a1,
          fold_left (fun acc e => g2 acc (p2 (ass (cond_of e)))) l a2).
  Proof.
    intros n g1 g2 p1 p2 l H. induction H as [| e t He Ht IH]; intros a1 a2; [reflexivity|].
    cbn [fold_left bind]. rewrite He. cbn [bind fst snd]. apply IH.
  Qed.

  Lemma filter_Forall : forall (P : sval -> Prop) f l, Forall P l -> Forall P (filter f l).
  Proof.
    intros P f l H. induction H as [| e t He Ht IH]; cbn [filter]; [constructor|].
    destruct (f e); [constructor; assumption | assumption].
  Qed.

  Lemma filter_notU_known : forall l, Forall (fun e => e <> SUnknown) (filter notU l).
  Proof.
    induction l as [| e t IH]; cbn [filter]; [constructor|].
    destruct e; cbn; [exact IH | constructor; [discriminate | exact IH]].
  Qed.

  (* ---- the main theorem *)
  Theorem get_asserted_gen_eq : forall fuel v,
    aon_ok v -> v <> SUnknown -> cdepth (cond_of v) < fuel ->
    gen fuel v = Some (ass (cond_of v)).
  Proof.
    induction fuel as [| n IH]; intros v Hok Hk Hd; [lia|].
    (* the recursive calls of the loop, on the known equations returned by compute_equations *)
    assert (Hloop : forall d l, d < n -> Forall (below d) l ->
              Forall (fun e => gen n e = Some (ass (cond_of e))) (filter notU l)).
    { intros d l Hdn Hl.
      pose proof (filter_Forall _ notU l Hl) as H1. pose proof (filter_notU_known l) as H2.
      rewrite Forall_forall in *. intros e He. destruct (H1 e He) as [Hoe Hde].
      apply IH; [exact Hoe | exact (H2 e He) | lia]. }
    inversion Hok as [| pos a b out Ha Hb | pos a b out Ha Hb | pos a out Ha | op pos args out N1 N2 N3]; subst.
    - contradiction.
    - (* And *)
      cbn [cond_of cdepth] in Hd.
      assert (Hdn : Nat.max (cdepth (cond_of a)) (cdepth (cond_of b)) < n) by lia.
      destruct (flatten_node K_And IAnd pos a b out n eq_refl Ha Hb ltac:(lia)) as (l & El & Ml & Fl).
      rewrite gen_eq_and, (compute_equations_gen_eq _ _ _ _ El). cbn [bind fst snd].
      rewrite (loop_eq n inter union fst snd _ (Hloop _ l Hdn Fl)). cbn [bind fst snd].
      cbn [cond_of asserted]. unfold finish_and.
      cbn [kleaves] in Ml. rewrite !and_parts_leaves, <- map_app, <- Ml.
      rewrite (fold_parts_T inter), (fold_parts_F union).
      change (fun o : option (T * T) => match o with None => true | Some _ => false end) with isNone.
      rewrite exists_none_parts. destruct (existsb isU l); reflexivity.
    - (* Or *)
      cbn [cond_of cdepth] in Hd.
      assert (Hdn : Nat.max (cdepth (cond_of a)) (cdepth (cond_of b)) < n) by lia.
      destruct (flatten_node K_Or IOr pos a b out n eq_refl Ha Hb ltac:(lia)) as (l & El & Ml & Fl).
      rewrite gen_eq_or, (compute_equations_gen_eq _ _ _ _ El). cbn [bind fst snd].
      rewrite (loop_eq n inter union snd fst _ (Hloop _ l Hdn Fl)). cbn [bind fst snd].
      cbn [cond_of asserted]. unfold finish_or.
      cbn [kleaves] in Ml. rewrite !or_parts_leaves, <- map_app, <- Ml.
      rewrite (fold_parts_F inter), (fold_parts_T union).
      change (fun o : option (T * T) => match o with None => true | Some _ => false end) with isNone.
      rewrite exists_none_parts. destruct (existsb isU l); reflexivity.
    - (* Not *)
      cbn [cond_of cdepth] in Hd. cbn [cond_of asserted].
      destruct a as [| o p r u]; [rewrite gen_eq_not_unknown; reflexivity|].
      rewrite gen_eq_not_known, (IH _ Ha ltac:(discriminate) ltac:(lia)). cbn [bind].
      pose proof (cond_of_known o p r u) as Hc. unfold neg_case, swap.
      destruct (cond_of (SKnown o p r u)); [contradiction | reflexivity ..].
    - (* single equation *)
      rewrite (cond_of_leaf op pos args out N1 N2 N3). apply gen_eq_leaf; assumption.
  Qed.

  (* the explicit sufficient budget *)
  Corollary get_asserted_gen_eq_depth : forall v,
    aon_ok v -> v <> SUnknown ->
    gen (S (cdepth (cond_of v))) v = Some (ass (cond_of v)).
  Proof. intros v Hok Hk. apply get_asserted_gen_eq; [exact Hok | exact Hk | lia]. Qed.

  (* values of table arity (KeysGenLemmas.arity_ok: every node has stack_pop_size operands) *)
  Corollary get_asserted_gen_eq_arity_ok : forall fuel v,
    arity_ok v -> v <> SUnknown -> cdepth (cond_of v) < fuel ->
    gen fuel v = Some (ass (cond_of v)).
  Proof. intros fuel v Hw. apply get_asserted_gen_eq. apply arity_ok_aon. exact Hw. Qed.

  (* ... in particular the operands the stack emulation of a block hands to _get_asserted *)
  Corollary emulate_get_asserted_gen_eq : forall p poss ast,
    emulate p poss [] = Some ast ->
    forall k op args a fuel, In (k, op, args) ast -> In a args -> a <> SUnknown ->
      cdepth (cond_of a) < fuel ->
      gen fuel a = Some (ass (cond_of a)).
  Proof.
    intros p poss ast H k op args a fuel Hin Ha.
    destruct (emulate_arity_ok p poss ast H k op args Hin) as [HF _].
    rewrite Forall_forall in HF. apply get_asserted_gen_eq_arity_ok. apply HF. exact Ha.
  Qed.

  (* UnknownStackValue().instruction: AttributeError, whatever the budget (the callers never pass one) *)
  Theorem get_asserted_gen_unknown : forall fuel,
    gen fuel SUnknown = None /\ ass (cond_of SUnknown) = (univ, univ).
  Proof. intros fuel. split; [apply gen_unknown | reflexivity]. Qed.

  (* an And / Or with fewer than two operands, a Not without operand: IndexError *)
  Theorem get_asserted_gen_short_and : forall fuel pos out a,
    gen fuel (SKnown IAnd pos [] out) = None /\ gen fuel (SKnown IAnd pos [a] out) = None /\
    gen fuel (SKnown IOr pos [] out) = None /\ gen fuel (SKnown IOr pos [a] out) = None /\
    gen fuel (SKnown INot pos [] out) = None.
  Proof.
    intros fuel pos out a. destruct fuel as [| n]; [split; [| split; [| split; [| split]]]; reflexivity|].
    assert (HA : forall args, length args < 2 -> compute_equations_gen n (SKnown IAnd pos args out) K_And = None).
    { intros args Hl. unfold compute_equations_gen. destruct n as [| m]; [reflexivity|].
      destruct args as [| x [| y r]]; [reflexivity | reflexivity | cbn in Hl; lia]. }
    assert (HO : forall args, length args < 2 -> compute_equations_gen n (SKnown IOr pos args out) K_Or = None).
    { intros args Hl. unfold compute_equations_gen. destruct n as [| m]; [reflexivity|].
      destruct args as [| x [| y r]]; [reflexivity | reflexivity | cbn in Hl; lia]. }
    split; [| split; [| split; [| split]]].
    - rewrite gen_eq_and, HA; [reflexivity | cbn; lia].
    - rewrite gen_eq_and, HA; [reflexivity | cbn; lia].
    - rewrite gen_eq_or, HO; [reflexivity | cbn; lia].
    - rewrite gen_eq_or, HO; [reflexivity | cbn; lia].
    - reflexivity.
  Qed.

  (* ---- transport of AssertedLemmas.asserted_sound (soundness w.r.t. a nondeterministic evaluation of the
          condition tree) to the generated function *)
  Section Sound.
    Variable V : Type.
    Variable gamma : T -> V -> Prop.
    Hypothesis gamma_univ : forall x, gamma univ x.
    Hypothesis gamma_union_l : forall a b x, gamma a x -> gamma (union a b) x.
    Hypothesis gamma_union_r : forall a b x, gamma b x -> gamma (union a b) x.
    Hypothesis gamma_inter : forall a b x, gamma a x -> gamma b x -> gamma (inter a b) x.
    Variable rho : instr -> nat -> list sval -> bool.

    Theorem get_asserted_gen_sound : forall x, leaf_sound T single V gamma rho x ->
      forall fuel v b,
        aon_ok v -> v <> SUnknown -> cdepth (cond_of v) < fuel ->
        ceval rho (cond_of v) b ->
        exists r, gen fuel v = Some r /\ (if b then gamma (fst r) x else gamma (snd r) x).
    Proof.
      intros x Hl fuel v b Hok Hk Hd Hev.
      exists (ass (cond_of v)). split; [apply get_asserted_gen_eq; assumption|].
      exact (asserted_sound T univ null union inter single V gamma
               gamma_univ gamma_union_l gamma_union_r gamma_inter rho x Hl (cond_of v) b Hev).
    Qed.
  End Sound.
End Dom.

Print Assumptions get_asserted_gen_eq.
Print Assumptions get_asserted_gen_eq_arity_ok.
Print Assumptions emulate_get_asserted_gen_eq.
Print Assumptions get_asserted_gen_sound.

(* ====================================================================== *)
(* 3. Outside the arity hypothesis the two readings differ                  *)
(* ====================================================================== *)
(* An And with THREE operands: Python's _flatten_ast reads args[0], args[1] and ignores the third operand, so
   _get_asserted combines the two comparisons; cond_of matches the operand list against [a; b] exactly and makes the
   node a leaf handed to _get_asserted_single.  The generated function mirrors the Python; the value is ill-formed
   (And pops two values) and cannot be built by the stack emulation (emulate_get_asserted_gen_eq). *)
Definition w_leaf (n : N) : sval := SKnown (IInt (IANum n)) 0 [] 0.
Definition and3_witness : sval := SKnown IAnd 0 [w_leaf 1; w_leaf 2; SUnknown] 0.
Definition w_single (op : instr) (pos : nat) (args : list sval) : nat * nat :=
  match op with IAnd => (7, 7) | _ => (2, 3) end.

Theorem get_asserted_gen_witness :
  get_asserted_gen nat 0 1 Nat.mul Nat.add w_single 3 and3_witness = Some (4, 9) /\
  asserted nat 0 1 Nat.mul Nat.add w_single (cond_of and3_witness) = (7, 7).
Proof. split; vm_compute; reflexivity. Qed.

Theorem get_asserted_gen_eq_refuted :
  exists (T : Type) (univ null : T) (union inter : T -> T -> T) (single : instr -> nat -> list sval -> T * T)
         (fuel : nat) (v : sval) (r : T * T),
    v <> SUnknown /\ cdepth (cond_of v) < fuel /\
    get_asserted_gen T univ null union inter single fuel v = Some r /\
    r <> asserted T univ null union inter single (cond_of v).
Proof.
  exists nat, 0, 1, Nat.mul, Nat.add, w_single, 3, and3_witness, (4, 9).
  split; [discriminate|]. split; [vm_compute; lia|]. split; [vm_compute; reflexivity|].
  vm_compute. discriminate.
Qed.
Print Assumptions get_asserted_gen_eq_refuted.
