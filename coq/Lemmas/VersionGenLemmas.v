(* The version / mode / cost reporting logic REGENERATED from tealer's Python source (Gen/VersionGen.v:
   detect_execution_mode_gen, verify_version_gen, parse_teal_version_gen, teal_init_contract_type_gen, bb_cost_gen;
   tools/translate_version.py) against the hand-written model (Model/Cfg.v: detect_mode, verify_ins / verify_version,
   the version of parse_teal, block_cost; Model/Driver.v: "contract_type").

   The reading.  An Instruction object is a position of the parsed program p; a Python list of Instruction objects l
   DENOTES the instruction list `is` when the k-th object of l is the k-th element of `is` (denotes p l is); the list
   `instructions` of parse_teal is seq 0 (length p) and denotes p itself (denotes_seq; CfgGenLemmas.first_pass_gen_spec).
   An attribute read on an instruction whose class is not in Tables.classes is an exception of the generated code,
   whereas the model skips such an instruction: the equalities are stated for instruction lists all of whose
   classes are known (known); every instruction the parser produces is (parse_line_known, parse_program_known).

   1. detect_execution_mode_gen_eq        generated = Cfg.detect_mode, on every list of known instructions
      detect_execution_mode_gen_first_iff (transported VersionLemmas.detect_mode_first_iff)
   2. verify_version_gen_eq               generated = (vv_error, vv_events), where vv_events is the model's flag list
                                          (in order, with multiplicity) followed, iff the model's mixed flag is set, by
                                          the report of the mode-specific instructions; vv_error = "some flag or mixed"
      flags_of_vv_events / mixed_of_vv_events    what the harness reads back from stderr = Cfg.verify_version
      verify_version_gen_FlagField_iff    (transported VersionLemmas.verify_version_FlagField_iff)
      verify_version_gen_mixed_iff        (transported VersionLemmas.verify_version_mixed_iff)
   3. parse_teal_version_gen_eq / _parse_teal   the mode, the declared version and the report of parse_teal
      parse_teal_version_gen_classification      (transported VersionLemmas.C19_mode_classification, first part)
   4. teal_init_contract_type_gen_eq      = VersionLemmas.contract_type_of = the "contract_type" of Driver.teal_fields
      teal_init_contract_type_gen_application_iff (transported VersionLemmas.application_iff_stateful)
   5. bb_cost_gen_eq                      generated = Cfg.block_cost, on every block whose positions are known instructions
      bb_cost_gen_parse_teal              ... in particular on every block of a parsed contract
      bb_cost_gen_sum                     (transported VersionLemmas.block_cost_sum)
   6. parse_line_known / parse_program_known     every instruction of a parsed program has a class of Tables.classes;
      version_gen_on_sources              so all of the above holds for every source text the model parses
      version_gen_eq_unknown_class_refuted       and is false without `known` (the generated code raises on an
                                          instruction of an unknown class, the model skips it; no such Python object exists)
   7. probe_..                            instances by computation (the PROBE section, used by tools/test_translate_version.py)
*)
From Coq Require Import String List NArith ZArith Bool Arith Lia.
From Tealer Require Import Tables Syntax Parse Cfg KeysGen CfgGen VersionGen CfgLemmas SubLemmas CfgGenLemmas TableLemmas TotalParse Driver VersionLemmas.
Import ListNotations.
Open Scope string_scope.
Open Scope list_scope.

(* ====================================================================== *)
(* 0. Objects and what they denote; known classes                          *)
(* ====================================================================== *)
Definition denotes (p : prog) (l : list nat) (is : list ins) : Prop :=
  Forall2 (fun k i => nth_error p k = Some i) l is.
Definition known_ins (i : instr) : Prop := lookup_class (cls_of i) <> None.
Definition known (is : list ins) : Prop := Forall (fun i => known_ins (i_op i)) is.

Lemma denotes_seq_from : forall p2 p1, denotes (p1 ++ p2) (seq (length p1) (length p2)) p2.
Proof.
  induction p2 as [ | i p2 IH]; intro p1; [constructor | ].
  cbn [length seq]. constructor; [apply nth_error_app_mid | ].
  replace (p1 ++ i :: p2) with ((p1 ++ [i]) ++ p2) by (rewrite <- app_assoc; reflexivity).
  replace (S (length p1)) with (length (p1 ++ [i])) by (rewrite app_length; cbn [length]; lia).
  apply IH.
Qed.

Lemma denotes_seq p : denotes p (seq 0 (length p)) p.
Proof. exact (denotes_seq_from p []). Qed.

Lemma denotes_length p l is : denotes p l is -> length l = length is.
Proof. intro H. induction H as [ | k i l is _ _ IH]; [reflexivity | cbn [length]; rewrite IH; reflexivity]. Qed.

Lemma denotes_app p l1 is1 l2 is2 : denotes p l1 is1 -> denotes p l2 is2 -> denotes p (l1 ++ l2) (is1 ++ is2).
Proof. intros H1 H2. apply Forall2_app; assumption. Qed.

(* the attribute reads on an object that denotes i *)
Section Reads.
  Variables (p : prog) (k : nat) (i : ins).
  Hypothesis Hk : nth_error p k = Some i.

  Lemma op_at_den : op_at p k = Some (i_op i).
  Proof. unfold op_at. rewrite Hk. reflexivity. Qed.
  Lemma ins_attr_mode_den : ins_attr_mode p k = ins_mode (i_op i).
  Proof. unfold ins_attr_mode. rewrite op_at_den. reflexivity. Qed.
  Lemma ins_attr_version_den : ins_attr_version p k = ins_version (i_op i).
  Proof. unfold ins_attr_version. rewrite op_at_den. reflexivity. Qed.
  Lemma ins_attr_line_den : ins_attr_line p k = Some (i_line i).
  Proof. unfold ins_attr_line. rewrite Hk. reflexivity. Qed.
  Lemma ins_class_den : ins_class p k = Some (i_op i).
  Proof. unfold ins_class. exact op_at_den. Qed.
  Lemma ins_getattr_field_den :
    ins_getattr_field p k = Some (match ins_field (i_op i) with
                                  | Some (kind, v) => Some (FieldObj kind v)
                                  | None => if String.eqb (cls_of (i_op i)) "Block" then Some OtherObj else None
                                  end).
  Proof. unfold ins_getattr_field. rewrite op_at_den. reflexivity. Qed.
End Reads.

Lemma known_mode i : known_ins i -> ins_mode i = Some (eff_mode i).
Proof.
  unfold known_ins, eff_mode, ins_mode. intro H. destruct (lookup_class (cls_of i)); [reflexivity | contradiction].
Qed.

Lemma known_version i : known_ins i -> exists iv, ins_version i = Some iv.
Proof.
  unfold known_ins, ins_version. intro H. destruct (lookup_class (cls_of i)) as [ci | ]; [ | contradiction].
  exists (c_version ci). reflexivity.
Qed.

Lemma known_cost v i : known_ins i -> exists c, ins_cost v i = Some c.
Proof.
  unfold known_ins, ins_cost. intro H. destruct (lookup_class (cls_of i)) as [ci | ]; [ | contradiction].
  eexists. reflexivity.
Qed.

Lemma foldM_none_absorb {S X : Type} (F : S -> X -> py S) (l : list X) : bind None (foldM F l) = None.
Proof. reflexivity. Qed.

(* ====================================================================== *)
(* 1. _detect_execution_mode                                               *)
(* ====================================================================== *)
Definition dm_step (p : prog) (st : option xmode) (ins : nat) : py (option xmode) :=
  match st with
  | Some _ => ret st
  | None =>
      ifE (bind (ins_attr_mode p ins) (fun tmp1 => ret (negb (execmode_eqb tmp1 MAny))))
          (bind (ins_attr_mode p ins) (fun tmp2 => ret (Some tmp2)))
          (ret (@None xmode))
  end.

Lemma detect_execution_mode_gen_unfold p l :
  detect_execution_mode_gen p l =
  bind (foldM (dm_step p) l None) (fun r => match r with Some m => ret m | None => ret MAny end).
Proof.
  rewrite <- (fold_left_bind (dm_step p)). reflexivity.
Qed.

Lemma dm_fold_some p m : forall l, foldM (dm_step p) l (Some m) = Some (Some m).
Proof. induction l as [ | k l IH]; [reflexivity | ]. cbn [foldM dm_step]. unfold ret at 1. cbn [bind]. exact IH. Qed.

Lemma dm_fold p : forall l is, denotes p l is -> known is ->
  foldM (dm_step p) l None =
  Some (match find (fun i => mode_specific (i_op i)) is with Some i => Some (eff_mode (i_op i)) | None => None end).
Proof.
  intros l is H. induction H as [ | k i l is Hk _ IH]; intro Hkn; [reflexivity | ].
  inversion Hkn as [ | ? ? Hi Hrest]; subst.
  cbn [foldM find]. unfold dm_step at 1. rewrite (ins_attr_mode_den p k i Hk), (known_mode _ Hi).
  unfold mode_specific at 1. rewrite (known_mode _ Hi).
  destruct (eff_mode (i_op i)) eqn:E; cbn [bind ret execmode_eqb negb ifE]; rewrite ?E.
  - apply dm_fold_some.
  - apply dm_fold_some.
  - apply IH. exact Hrest.
Qed.

(* generated = model, on every instruction list *)
Theorem detect_execution_mode_gen_eq p l is : denotes p l is -> known is ->
  detect_execution_mode_gen p l = Some (detect_mode is).
Proof.
  intros H Hkn. rewrite detect_execution_mode_gen_unfold, (dm_fold p l is H Hkn), detect_mode_find.
  cbn [bind]. destruct (find (fun i => mode_specific (i_op i)) is); reflexivity.
Qed.

Corollary detect_execution_mode_gen_eq_prog p : known p ->
  detect_execution_mode_gen p (seq 0 (length p)) = Some (detect_mode p).
Proof. intro H. exact (detect_execution_mode_gen_eq p _ p (denotes_seq p) H). Qed.

(* transported: VersionLemmas.detect_mode_first_iff -- the mode is that of the FIRST mode-specific instruction *)
Theorem detect_execution_mode_gen_first_iff : forall p m, known p -> m <> MAny ->
  (detect_execution_mode_gen p (seq 0 (length p)) = Some m <->
   exists p1 i p2, p = p1 ++ i :: p2 /\ (forall j, In j p1 -> mode_specific (i_op j) = false) /\
                   ins_mode (i_op i) = Some m).
Proof.
  intros p m Hkn Hm. rewrite (detect_execution_mode_gen_eq_prog p Hkn), <- (detect_mode_first_iff p m Hm).
  split; [intro H; inversion H; reflexivity | intro H; rewrite H; reflexivity].
Qed.

(* ====================================================================== *)
(* 2. _verify_version                                                      *)
(* ====================================================================== *)
Definition checked_kinds : list string :=
  ["TransactionField"; "GlobalField"; "AssetHoldingField"; "AssetParamsField"; "AppParamsField"; "AcctParamsField"].
(* the tuple of the isinstance in the Python source is the one regenerated into Gen/Tables.v *)
Lemma checked_kinds_table : checked_kinds = version_checked_field_kinds.
Proof. reflexivity. Qed.

Definition vv_state : Type := list event * list nat * list nat * bool.

(* the body of the loop over ins_list (the text of Gen/VersionGen.v) *)
Definition vv_step (p : prog) (program_version : N) (st : vv_state) (ins : nat) : py vv_state :=
  let stderr := fst (fst (fst st)) in
  let stateful_ins := snd (fst (fst st)) in
  let stateless_ins := snd (fst st) in
  let error := snd st in
  let k1 := fun (stderr : list event) (error : bool) =>
    ifE (bind (ins_attr_mode p ins) (fun tmp1 => ret (execmode_eqb tmp1 MStateful)))
        (let stateful_ins := stateful_ins ++ [ins] in ret (stderr, stateful_ins, stateless_ins, error))
        (ifE (bind (ins_attr_mode p ins) (fun tmp2 => ret (execmode_eqb tmp2 MStateless)))
             (let stateless_ins := stateless_ins ++ [ins] in ret (stderr, stateful_ins, stateless_ins, error))
             (ret (stderr, stateful_ins, stateless_ins, error))) in
  ifE (bind (ins_attr_version p ins) (fun tmp3 => ret (N.ltb program_version tmp3)))
      (bind (ins_attr_line p ins) (fun tmp4 =>
       bind (ins_attr_version p ins) (fun _ =>
       let stderr := stderr ++ [EvInsUnsupported tmp4] in
       let error := true in
       k1 stderr error)))
      (bind (ins_getattr_field p ins) (fun field =>
       if andb (opt_is_some field) (isinstance_field field checked_kinds)
       then ifE (bind (field_attr_version field) (fun tmp5 => ret (N.ltb program_version tmp5)))
                (bind (ins_attr_line p ins) (fun tmp6 =>
                 bind (field_attr_version field) (fun _ =>
                 let stderr := stderr ++ [EvFieldUnsupported tmp6] in
                 let error := true in
                 k1 stderr error)))
                (k1 stderr error)
       else k1 stderr error)).

(* the two loops of the mixed-mode report *)
Definition listed_step (p : prog) (st : list event) (ins : nat) : py (list event) :=
  bind (ins_attr_line p ins) (fun tmp => ret (st ++ [EvListed tmp])).

Definition vv_report (p : prog) (st : vv_state) : py (bool * list event) :=
  let stderr := fst (fst (fst st)) in
  let stateful_ins := snd (fst (fst st)) in
  let stateless_ins := snd (fst st) in
  let error := snd st in
  if andb (lst_nonempty stateless_ins) (lst_nonempty stateful_ins)
  then bind (fold_left (fun acc ins => bind acc (fun st => listed_step p st ins)) stateless_ins
                        (ret ((stderr ++ [EvMixed]) ++ [EvStatelessHeader]))) (fun tmp9 =>
       bind (fold_left (fun acc ins => bind acc (fun st => listed_step p st ins)) stateful_ins
                       (ret (tmp9 ++ [EvStatefulHeader]))) (fun tmp11 =>
       ret (true, tmp11)))
  else ret (error, stderr).

Lemma verify_version_gen_unfold p l v :
  verify_version_gen p l v = bind (foldM (vv_step p v) l ([], [], [], false)) (vv_report p).
Proof.
  rewrite <- (fold_left_bind (vv_step p v)). reflexivity.
Qed.

(* ---- the model, per instruction *)
Definition ins_flags (v : N) (i : ins) : list (nat * vflag) :=
  match verify_ins v (i_op i) with Some fl => [(i_line i, fl)] | None => [] end.
Definition ev_of_flag (f : nat * vflag) : event :=
  match snd f with FlagIns => EvInsUnsupported (fst f) | FlagField => EvFieldUnsupported (fst f) end.
Definition is_stateful (i : ins) : bool := match ins_mode (i_op i) with Some MStateful => true | _ => false end.
Definition is_stateless (i : ins) : bool := match ins_mode (i_op i) with Some MStateless => true | _ => false end.

Lemma verify_version_unfold is v :
  verify_version is v = (flat_map (ins_flags v) is, existsb is_stateful is && existsb is_stateless is).
Proof. reflexivity. Qed.

Lemma vv_step_spec p v k i e sf sl err : nth_error p k = Some i -> known_ins (i_op i) ->
  vv_step p v (e, sf, sl, err) k =
  Some (e ++ map ev_of_flag (ins_flags v i),
        sf ++ (if is_stateful i then [k] else []),
        sl ++ (if is_stateless i then [k] else []),
        err || lst_nonempty (ins_flags v i)).
Proof.
  intros Hk Hkn. unfold vv_step. cbn [fst snd]. cbv zeta.
  rewrite (ins_attr_version_den p k i Hk), (ins_attr_mode_den p k i Hk), (ins_attr_line_den p k i Hk),
          (ins_getattr_field_den p k i Hk).
  unfold ins_flags, verify_ins, is_stateful, is_stateless. rewrite checked_kinds_table.
  rewrite (known_mode _ Hkn). destruct (known_version _ Hkn) as [iv Hv]. rewrite Hv.
  cbn [bind ret ifE].
  destruct (N.ltb v iv).
  - cbn [ifE bind ret map ev_of_flag snd fst lst_nonempty app].
    destruct (eff_mode (i_op i)); cbn [execmode_eqb ifE]; rewrite ?app_nil_r, orb_true_r; reflexivity.
  - cbn [ifE].
    destruct (ins_field (i_op i)) as [[kind fv] | ].
    + cbn [opt_is_some isinstance_field andb field_attr_version].
      destruct (existsb (String.eqb kind) version_checked_field_kinds); cbn [andb].
      * cbn [bind ret]. destruct (N.ltb v fv); cbn [ifE bind ret map ev_of_flag snd fst lst_nonempty app];
          destruct (eff_mode (i_op i)); cbn [execmode_eqb ifE]; rewrite ?app_nil_r, ?orb_true_r, ?orb_false_r; reflexivity.
      * cbn [map lst_nonempty app]. destruct (eff_mode (i_op i)); cbn [execmode_eqb ifE]; rewrite ?app_nil_r, ?orb_false_r; reflexivity.
    + destruct (String.eqb (cls_of (i_op i)) "Block"); cbn [opt_is_some isinstance_field andb map lst_nonempty app];
        destruct (eff_mode (i_op i)); cbn [execmode_eqb ifE]; rewrite ?app_nil_r, ?orb_false_r; reflexivity.
Qed.

Lemma lst_nonempty_app {A} (a b : list A) : lst_nonempty (a ++ b) = lst_nonempty a || lst_nonempty b.
Proof. destruct a; reflexivity. Qed.

Lemma vv_fold p v : forall l is, denotes p l is -> known is -> forall e sf sl err,
  exists sf' sl',
    foldM (vv_step p v) l (e, sf, sl, err) =
    Some (e ++ map ev_of_flag (flat_map (ins_flags v) is), sf ++ sf', sl ++ sl',
          err || lst_nonempty (flat_map (ins_flags v) is)) /\
    denotes p sf' (filter is_stateful is) /\ denotes p sl' (filter is_stateless is).
Proof.
  intros l is H. induction H as [ | k i l is Hk _ IH]; intros Hkn e sf sl err.
  - exists [], []. cbn [foldM flat_map map filter lst_nonempty]. rewrite !app_nil_r, orb_false_r.
    split; [reflexivity | split; constructor].
  - inversion Hkn as [ | ? ? Hi Hrest]; subst.
    cbn [foldM]. rewrite (vv_step_spec p v k i e sf sl err Hk Hi). cbn [bind].
    destruct (IH Hrest (e ++ map ev_of_flag (ins_flags v i)) (sf ++ (if is_stateful i then [k] else []))
                 (sl ++ (if is_stateless i then [k] else [])) (err || lst_nonempty (ins_flags v i)))
      as [sf' [sl' [E [D1 D2]]]].
    exists ((if is_stateful i then [k] else []) ++ sf'), ((if is_stateless i then [k] else []) ++ sl').
    split; [ | split].
    + rewrite E. cbn [flat_map]. rewrite map_app, lst_nonempty_app, !app_assoc, orb_assoc. reflexivity.
    + cbn [filter]. destruct (is_stateful i); [constructor; assumption | exact D1].
    + cbn [filter]. destruct (is_stateless i); [constructor; assumption | exact D2].
Qed.

Lemma listed_fold p : forall l is, denotes p l is -> forall e,
  foldM (listed_step p) l e = Some (e ++ map (fun i => EvListed (i_line i)) is).
Proof.
  intros l is H. induction H as [ | k i l is Hk _ IH]; intro e.
  - cbn [foldM map]. rewrite app_nil_r. reflexivity.
  - cbn [foldM]. unfold listed_step at 1. rewrite (ins_attr_line_den p k i Hk). cbn [bind ret].
    rewrite IH. cbn [map]. rewrite <- app_assoc. reflexivity.
Qed.

Lemma lst_nonempty_filter {A} (f : A -> bool) l : lst_nonempty (filter f l) = existsb f l.
Proof. induction l as [ | x l IH]; [reflexivity | ]. cbn [filter existsb]. destruct (f x); [reflexivity | exact IH]. Qed.

Lemma lst_nonempty_denotes p l is : denotes p l is -> lst_nonempty l = lst_nonempty is.
Proof. intro H. destruct H; reflexivity. Qed.

(* ---- what the generated function returns, in terms of the model *)
(* the report of a mixed program: header, the Signature-only instructions, header, the Application-only ones *)
Definition vv_mixed_report (is : prog) : list event :=
  [EvMixed; EvStatelessHeader] ++ map (fun i => EvListed (i_line i)) (filter is_stateless is) ++
  [EvStatefulHeader] ++ map (fun i => EvListed (i_line i)) (filter is_stateful is).
Definition vv_events (is : prog) (v : N) : list event :=
  map ev_of_flag (fst (verify_version is v)) ++ (if snd (verify_version is v) then vv_mixed_report is else []).
Definition vv_error (is : prog) (v : N) : bool :=
  lst_nonempty (fst (verify_version is v)) || snd (verify_version is v).

(* generated = model, on every instruction list and every declared version *)
Theorem verify_version_gen_eq p l is v : denotes p l is -> known is ->
  verify_version_gen p l v = Some (vv_error is v, vv_events is v).
Proof.
  intros H Hkn. rewrite verify_version_gen_unfold.
  destruct (vv_fold p v l is H Hkn [] [] [] false) as [sf [sl [E [D1 D2]]]]. rewrite E. cbn [bind app orb].
  unfold vv_report. cbn [fst snd].
  rewrite (lst_nonempty_denotes _ _ _ D1), (lst_nonempty_denotes _ _ _ D2), !lst_nonempty_filter.
  unfold vv_error, vv_events. rewrite verify_version_unfold. cbn [fst snd].
  rewrite (andb_comm (existsb is_stateful is)).
  destruct (existsb is_stateless is && existsb is_stateful is).
  - rewrite (fold_left_bind (listed_step p)), (listed_fold p sl _ D2). cbn [bind].
    rewrite (fold_left_bind (listed_step p)), (listed_fold p sf _ D1). cbn [bind ret].
    rewrite orb_true_r. unfold vv_mixed_report. rewrite <- !app_assoc. reflexivity.
  - rewrite orb_false_r, app_nil_r. reflexivity.
Qed.

Corollary verify_version_gen_eq_prog p v : known p ->
  verify_version_gen p (seq 0 (length p)) v = Some (vv_error p v, vv_events p v).
Proof. intro H. exact (verify_version_gen_eq p _ p v (denotes_seq p) H). Qed.

(* what is read back from stderr (tools/implrun.py: version_flags): the flags in order, and the mixed flag *)
Definition flags_of_events (evs : list event) : list (nat * vflag) :=
  flat_map (fun e => match e with
                     | EvInsUnsupported ln => [(ln, FlagIns)]
                     | EvFieldUnsupported ln => [(ln, FlagField)]
                     | _ => [] end) evs.
Definition mixed_of_events (evs : list event) : bool :=
  existsb (fun e => match e with EvMixed => true | _ => false end) evs.

Lemma flags_of_events_app a b : flags_of_events (a ++ b) = flags_of_events a ++ flags_of_events b.
Proof. unfold flags_of_events. apply flat_map_app. Qed.

Lemma flags_of_events_flags fl : flags_of_events (map ev_of_flag fl) = fl.
Proof.
  induction fl as [ | [ln [ | ]] fl IH]; [reflexivity | | ];
    cbn [map flags_of_events flat_map ev_of_flag fst snd app]; fold (flags_of_events (map ev_of_flag fl)); rewrite IH; reflexivity.
Qed.

Lemma flags_of_events_listed (l : list ins) : flags_of_events (map (fun i => EvListed (i_line i)) l) = [].
Proof. induction l as [ | i l IH]; [reflexivity | exact IH]. Qed.

Lemma flags_of_events_report is : flags_of_events (vv_mixed_report is) = [].
Proof.
  unfold vv_mixed_report. rewrite !flags_of_events_app, !flags_of_events_listed. reflexivity.
Qed.

Theorem flags_of_vv_events is v : flags_of_events (vv_events is v) = fst (verify_version is v).
Proof.
  unfold vv_events. rewrite flags_of_events_app, flags_of_events_flags.
  destruct (snd (verify_version is v)); [rewrite flags_of_events_report | ]; apply app_nil_r.
Qed.

Lemma mixed_of_events_flags fl : mixed_of_events (map ev_of_flag fl) = false.
Proof. induction fl as [ | [ln [ | ]] fl IH]; [reflexivity | exact IH | exact IH]. Qed.

Theorem mixed_of_vv_events is v : mixed_of_events (vv_events is v) = snd (verify_version is v).
Proof.
  unfold vv_events, mixed_of_events. rewrite existsb_app. fold (mixed_of_events (map ev_of_flag (fst (verify_version is v)))).
  rewrite mixed_of_events_flags. destruct (snd (verify_version is v)); reflexivity.
Qed.

(* the returned flag: some instruction / field is not supported, or the program is mixed *)
Theorem vv_error_iff is v :
  vv_error is v = true <-> fst (verify_version is v) <> [] \/ snd (verify_version is v) = true.
Proof.
  unfold vv_error. rewrite orb_true_iff. destruct (fst (verify_version is v)); cbn [lst_nonempty]; split; intros [H | H];
    try discriminate; try (right; exact H); try (left; discriminate); try (left; reflexivity); try contradiction.
Qed.

Lemma In_vv_events_flag is v e : (forall ln, e <> EvListed ln) -> e <> EvMixed -> e <> EvStatelessHeader -> e <> EvStatefulHeader ->
  (In e (vv_events is v) <-> In e (map ev_of_flag (fst (verify_version is v)))).
Proof.
  intros H1 H2 H3 H4. unfold vv_events. rewrite in_app_iff. split; [ | intro H; left; exact H].
  intros [H | H]; [exact H | ]. exfalso. destruct (snd (verify_version is v)); [ | exact H].
  unfold vv_mixed_report in H. repeat (rewrite in_app_iff in H; cbn [In] in H).
  destruct H as [[H | [H | []]] | [H | [[H | []] | H]]]; try (symmetry in H; contradiction);
    apply in_map_iff in H; destruct H as [i [H _]]; symmetry in H; exact (H1 _ H).
Qed.

Lemma In_ev_of_flag ln fl (l : list (nat * vflag)) : In (ev_of_flag (ln, fl)) (map ev_of_flag l) <-> In (ln, fl) l.
Proof.
  split; [ | apply in_map]. intro H. apply in_map_iff in H. destruct H as [[ln' fl'] [H Hin]].
  destruct fl, fl'; cbn in H; inversion H; subst; exact Hin.
Qed.

(* transported: VersionLemmas.verify_version_FlagField_iff -- a field is reported exactly when the instruction itself
   is supported and its field is not *)
Theorem verify_version_gen_FlagField_iff : forall p v err evs ln, known p ->
  verify_version_gen p (seq 0 (length p)) v = Some (err, evs) ->
  (In (EvFieldUnsupported ln) evs <->
   exists i iv kind fv, In i p /\ i_line i = ln /\ ins_version (i_op i) = Some iv /\ (iv <= v)%N /\
                        ins_field (i_op i) = Some (kind, fv) /\ (v < fv)%N).
Proof.
  intros p v err evs ln Hkn H. rewrite (verify_version_gen_eq_prog p v Hkn) in H. inversion H; subst; clear H.
  rewrite <- verify_version_FlagField_iff, In_vv_events_flag; try discriminate.
  exact (In_ev_of_flag ln FlagField _).
Qed.

(* and the instruction flag (VersionLemmas.verify_version_FlagIns_iff) *)
Theorem verify_version_gen_FlagIns_iff : forall p v err evs ln, known p ->
  verify_version_gen p (seq 0 (length p)) v = Some (err, evs) ->
  (In (EvInsUnsupported ln) evs <->
   exists i iv, In i p /\ i_line i = ln /\ ins_version (i_op i) = Some iv /\ (v < iv)%N).
Proof.
  intros p v err evs ln Hkn H. rewrite (verify_version_gen_eq_prog p v Hkn) in H. inversion H; subst; clear H.
  rewrite <- verify_version_FlagIns_iff, In_vv_events_flag; try discriminate.
  exact (In_ev_of_flag ln FlagIns _).
Qed.

(* transported: VersionLemmas.verify_version_mixed_iff *)
Theorem verify_version_gen_mixed_iff : forall p v err evs, known p ->
  verify_version_gen p (seq 0 (length p)) v = Some (err, evs) ->
  (In EvMixed evs <->
   (exists i, In i p /\ ins_mode (i_op i) = Some MStateful) /\
   (exists j, In j p /\ ins_mode (i_op j) = Some MStateless)).
Proof.
  intros p v err evs Hkn H. rewrite (verify_version_gen_eq_prog p v Hkn) in H. inversion H; subst; clear H.
  rewrite <- (verify_version_mixed_iff p v), <- mixed_of_vv_events. unfold mixed_of_events. rewrite existsb_exists. split.
  - intro Hin. exists EvMixed. split; [exact Hin | reflexivity].
  - intros [e [Hin He]]. destruct e; try discriminate. exact Hin.
Qed.

(* ====================================================================== *)
(* 3. parse_teal: the declared version, the mode, the report               *)
(* ====================================================================== *)
Theorem parse_teal_version_gen_eq p : known p ->
  parse_teal_version_gen p (seq 0 (length p)) =
  match p with
  | [] => None      (* instructions[0]: IndexError (Cfg.parse_teal: Err "IndexError: empty program") *)
  | _ :: _ => Some (detect_mode p, declared_version p, vv_events p (declared_version p))
  end.
Proof.
  intro Hkn. unfold parse_teal_version_gen. rewrite (detect_execution_mode_gen_eq_prog p Hkn). cbn [bind].
  destruct p as [ | i0 p']; [reflexivity | ].
  cbn [length seq lst_first nth_error bind]. unfold ins_class, ins_attr_program_version, op_at. cbn [nth_error option_map bind].
  cbv zeta.
  change (0 :: seq 1 (length p')) with (seq 0 (length (i0 :: p'))).
  cbn [declared_version].
  destruct (i_op i0); cbn [ret ifE bind];
    rewrite (verify_version_gen_eq_prog (i0 :: p') _ Hkn); reflexivity.
Qed.

(* on a contract the model parses: exactly the version and mode the model stores (Teal(version, mode, ..)), and the
   report the model exports as "flags" / "mixed" *)
Theorem parse_teal_version_gen_parse_teal p t : known p -> parse_teal p = Ok t ->
  parse_teal_version_gen p (seq 0 (length p)) = Some (t_mode t, t_version t, vv_events (t_prog t) (t_version t)).
Proof.
  intros Hkn H. destruct (parse_teal_version_mode p t H) as [Hv [Hm Hp]]. rewrite Hv, Hm, Hp.
  rewrite (parse_teal_version_gen_eq p Hkn). destruct p; [discriminate H | reflexivity].
Qed.

(* transported: VersionLemmas.C19_mode_classification (the characterisation of the mode of the parsed contract) *)
Theorem parse_teal_version_gen_classification : forall p t mode version evs, known p -> parse_teal p = Ok t ->
  parse_teal_version_gen p (seq 0 (length p)) = Some (mode, version, evs) ->
  (mode = MAny <-> forall i, In i p -> mode_specific (i_op i) = false) /\
  (forall m, m <> MAny ->
     (mode = m <->
      exists p1 i p2, p = p1 ++ i :: p2 /\ (forall j, In j p1 -> mode_specific (i_op j) = false) /\
                      ins_mode (i_op i) = Some m)) /\
  (mixed_of_events evs = false ->
     forall m, m <> MAny -> (mode = m <-> exists i, In i p /\ ins_mode (i_op i) = Some m)).
Proof.
  intros p t mode version evs Hkn H E. rewrite (parse_teal_version_gen_parse_teal p t Hkn H) in E.
  inversion E; subst; clear E. rewrite mixed_of_vv_events.
  destruct (C19_mode_classification p t H) as [H1 [H2 [H3 _]]].
  split; [exact H1 | ]. split; [exact H2 | ].
  exact H3.
Qed.

(* ====================================================================== *)
(* 4. Teal.__init__: the contract type                                     *)
(* ====================================================================== *)
Theorem teal_init_contract_type_gen_eq t :
  option_map contract_type_str (teal_init_contract_type_gen (t_mode t)) = Some (contract_type_of t).
Proof. unfold teal_init_contract_type_gen, contract_type_of. destruct (t_mode t); reflexivity. Qed.

(* the "contract_type" of the exported record (Driver.teal_fields) is the string of the generated value *)
Corollary teal_init_contract_type_gen_exported t :
  option_map (fun c => jstr (contract_type_str c)) (teal_init_contract_type_gen (t_mode t)) =
  field_value "contract_type" (teal_fields t).
Proof. rewrite teal_fields_contract_type. unfold teal_init_contract_type_gen, contract_type_of. destruct (t_mode t); reflexivity. Qed.

(* transported: VersionLemmas.application_iff_stateful *)
Theorem teal_init_contract_type_gen_application_iff : forall m,
  (teal_init_contract_type_gen m = Some CT_ApprovalProgram <-> m = MStateful) /\
  (teal_init_contract_type_gen m = Some CT_LogicSig <-> m <> MStateful).
Proof.
  intro m. unfold teal_init_contract_type_gen. destruct m; cbn [execmode_eqb ret]; repeat split; intro H;
    try reflexivity; try discriminate; try (exfalso; apply H; reflexivity).
Qed.

(* ====================================================================== *)
(* 5. BasicBlock.cost                                                      *)
(* ====================================================================== *)
Definition cost_step (t : teal) (st : N) (ins : nat) : py N :=
  bind (ins_attr_cost t ins) (fun tmp1 => ret (st + tmp1)%N).

Lemma bb_cost_gen_unfold t b : bb_cost_gen t b = foldM (cost_step t) (b_ins b) 0%N.
Proof. rewrite <- (fold_left_bind (cost_step t)). reflexivity. Qed.

Definition known_pos (t : teal) (k : nat) : Prop := exists i, op_at (t_prog t) k = Some i /\ known_ins i.

Lemma cost_fold t : forall l acc, (forall k, In k l -> known_pos t k) ->
  foldM (cost_step t) l acc =
  Some (fold_left (fun acc k => match op_at (t_prog t) k with
                                | Some i => match ins_cost (t_version t) i with Some c => (acc + c)%N | None => acc end
                                | None => acc end) l acc).
Proof.
  induction l as [ | k l IH]; intros acc H; [reflexivity | ].
  destruct (H k (or_introl eq_refl)) as [i [Hi Hkn]]. destruct (known_cost (t_version t) i Hkn) as [c Hc].
  cbn [foldM fold_left]. unfold cost_step at 1, ins_attr_cost. rewrite Hi. cbn [bind]. rewrite Hc. cbn [bind ret].
  apply IH. intros k' Hk'. apply H. right. exact Hk'.
Qed.

(* generated = model, on every block whose positions are instructions of a known class *)
Theorem bb_cost_gen_eq t b : (forall k, In k (b_ins b) -> known_pos t k) -> bb_cost_gen t b = Some (block_cost t b).
Proof. intro H. rewrite bb_cost_gen_unfold. unfold block_cost. apply cost_fold. exact H. Qed.

(* transported: VersionLemmas.block_cost_sum -- the sum of the instructions' costs at the declared version *)
Theorem bb_cost_gen_sum : forall t b, (forall k, In k (b_ins b) -> known_pos t k) ->
  bb_cost_gen t b = Some (Nsum (map (cost_at t) (b_ins b))).
Proof. intros t b H. rewrite (bb_cost_gen_eq t b H), block_cost_sum. reflexivity. Qed.

(* ... in particular on every block of a contract the model parses from known instructions *)
Lemma parse_teal_block_positions p t b k : parse_teal p = Ok t -> In b (t_blocks t) -> In k (b_ins b) -> k < length p.
Proof.
  intros H Hb Hk. destruct (parse_teal_inv p t H) as (bs & subs0 & Hne & Hbs & _ & _ & Hblocks & _).
  rewrite Hblocks in Hb. unfold prune in Hb. apply in_map_iff in Hb. destruct Hb as [b0 [Hb0 Hin]].
  apply filter_In in Hin. destruct Hin as [Hin _].
  assert (Hins : b_ins b = b_ins b0) by (rewrite <- Hb0; reflexivity). rewrite Hins in Hk.
  destruct (In_nth_error _ _ Hin) as [n Hn].
  destruct (build_blocks_spec p bs Hbs) as (rbs & nexts & Hc & _ & _ & _ & Hspec).
  destruct (Hspec n b0 Hn) as (rb & nx & Hrb & _ & _ & Hb0eq). rewrite Hb0eq in Hk. cbn [b_ins] in Hk.
  assert (Hcat : In k (concat (map rb_ins rbs))).
  { apply in_concat. exists (rb_ins rb). split; [ | exact Hk]. apply in_map. exact (nth_error_In _ _ Hrb). }
  rewrite (blocks_partition p rbs Hc Hne) in Hcat. apply in_seq in Hcat. lia.
Qed.

Theorem bb_cost_gen_parse_teal p t b : known p -> parse_teal p = Ok t -> In b (t_blocks t) ->
  bb_cost_gen t b = Some (block_cost t b).
Proof.
  intros Hkn H Hb. apply bb_cost_gen_eq. intros k Hk.
  pose proof (parse_teal_block_positions p t b k H Hb Hk) as Hlt.
  destruct (parse_teal_version_mode p t H) as [_ [_ Hp]].
  destruct (nth_error p k) as [i | ] eqn:E; [ | apply nth_error_None in E; lia].
  exists (i_op i). split; [unfold op_at; rewrite Hp, E; reflexivity | ].
  unfold known in Hkn. rewrite Forall_forall in Hkn. exact (Hkn i (nth_error_In _ _ E)).
Qed.

(* ====================================================================== *)
(* 6. The hypothesis `known`: every instruction the parser produces has a class of Tables.classes *)
(* ====================================================================== *)
Lemma first_rule_In line : forall rules key cls sh, first_rule line rules = Some (key, cls, sh) -> In (key, (cls, sh)) rules.
Proof.
  induction rules as [ | [k0 [c0 s0]] rules IH]; intros key cls sh H; [discriminate | ].
  cbn [first_rule] in H. destruct (starts_with k0 line).
  - inversion H; subst. left. reflexivity.
  - right. exact (IH key cls sh H).
Qed.

Lemma parser_rules_known :
  forallb (fun r => match lookup_class (fst (snd r)) with Some _ => true | None => false end) parser_rules = true.
Proof. vm_compute. reflexivity. Qed.

Lemma rule_class_known key cls sh : In (key, (cls, sh)) parser_rules -> lookup_class cls <> None.
Proof.
  intro H. pose proof parser_rules_known as F. rewrite forallb_forall in F. specialize (F _ H). cbn [fst snd] in F.
  destruct (lookup_class cls); [discriminate | discriminate F].
Qed.

Ltac known_closed := cbn [cls_of]; vm_compute; discriminate.
Ltac step_if H := match type of H with (if ?b then _ else _) = _ => destruct b end.
Ltac step_bind H := match type of H with Parse.bind ?x _ = _ => destruct x; cbn [Parse.bind] in H; [ | discriminate H] end.

Theorem parse_line_known l i : parse_line l = Ok (Some i) -> known_ins i.
Proof.
  unfold parse_line, known_ins. intro H.
  step_if H; [discriminate H | ]. step_bind H. cbv zeta in H.
  match type of H with (match ?x with [] => _ | _ :: _ => _ end) = _ => destruct x as [ | f0 rest] end; [discriminate H | ].
  step_if H.
  - destruct rest; [ | discriminate H]. inversion H; subst; clear H. known_closed.
  - step_if H.
    + step_bind H.
      match type of H with (match ?x with [] => _ | _ :: _ => _ end) = _ => destruct x as [ | b [ | b2 imm]] end; try discriminate H.
      inversion H; subst; clear H. cbn [cls_of].
      destruct (f0 =? "byte"); [vm_compute; discriminate | ]. destruct (f0 =? "pushbytes"); vm_compute; discriminate.
    + step_if H; [step_bind H; inversion H; subst; clear H; known_closed | ].
      step_if H; [step_bind H; inversion H; subst; clear H; known_closed | ].
      match type of H with (match ?x with Some _ => _ | None => _ end) = _ => destruct x as [[[key cls] sh] | ] eqn:E end.
      * step_bind H. inversion H; subst; clear H.
        rewrite (proj1 (of_generic_inv _ _)). exact (rule_class_known key cls sh (first_rule_In _ _ _ _ _ E)).
      * inversion H; subst; clear H. known_closed.
Qed.

Theorem parse_lines_known : forall ls n p, parse_lines ls n = Ok p -> known p.
Proof.
  induction ls as [ | l ls IH]; intros n p H.
  - inversion H. constructor.
  - cbn [parse_lines] in H. destruct (starts_with "//" (strip l)); [exact (IH _ _ H) | ].
    destruct (parse_line l) as [oi | ] eqn:El; cbn [Parse.bind] in H; [ | discriminate].
    destruct (parse_lines ls (S n)) as [r | ] eqn:Er; cbn [Parse.bind] in H; [ | discriminate].
    destruct oi as [i | ]; inversion H; subst; clear H.
    + constructor; [exact (parse_line_known l i El) | exact (IH _ _ Er)].
    + exact (IH _ _ Er).
Qed.

Corollary parse_program_known src p : parse_program src = Ok p -> known p.
Proof. apply parse_lines_known. Qed.

(* so, for every source text the model parses: the regenerated reporting logic is the model's *)
Theorem version_gen_on_sources src p t : parse_program src = Ok p -> parse_teal p = Ok t ->
  parse_teal_version_gen p (seq 0 (length p)) = Some (t_mode t, t_version t, vv_events (t_prog t) (t_version t)) /\
  (forall v, verify_version_gen p (seq 0 (length p)) v = Some (vv_error p v, vv_events p v)) /\
  detect_execution_mode_gen p (seq 0 (length p)) = Some (detect_mode p) /\
  (forall b, In b (t_blocks t) -> bb_cost_gen t b = Some (block_cost t b)).
Proof.
  intros Hsrc H. pose proof (parse_program_known src p Hsrc) as Hkn.
  split; [exact (parse_teal_version_gen_parse_teal p t Hkn H) | ].
  split; [intro v; exact (verify_version_gen_eq_prog p v Hkn) | ].
  split; [exact (detect_execution_mode_gen_eq_prog p Hkn) | ].
  intros b Hb. exact (bb_cost_gen_parse_teal p t b Hkn H Hb).
Qed.

(* without `known` the equalities are false: on an instruction whose class is not in Tables.classes (no Python object
   corresponds to it, and the parser never produces one: parse_line_known) the generated code raises where the model
   skips the instruction *)
Theorem version_gen_eq_unknown_class_refuted :
  exists p t b, ~ known p /\
    detect_execution_mode_gen p (seq 0 (length p)) <> Some (detect_mode p) /\
    (forall v, verify_version_gen p (seq 0 (length p)) v <> Some (vv_error p v, vv_events p v)) /\
    t_prog t = p /\ bb_cost_gen t b <> Some (block_cost t b).
Proof.
  exists [mkIns 1 (IOther "NoSuchClass" [])],
         (mkTeal 1 MAny [mkIns 1 (IOther "NoSuchClass" [])] [0] [mkBlock 0 [0] [] []] (mkSub "__main__" 0 [0] []) [] None),
         (mkBlock 0 [0] [] []).
  split; [ | split; [ | split; [ | split]]].
  - intro H. inversion H as [ | ? ? Hi _]; subst. apply Hi. vm_compute. reflexivity.
  - vm_compute. discriminate.
  - intro v. vm_compute. discriminate.
  - reflexivity.
  - vm_compute. discriminate.
Qed.

(* ====================================================================== *)
(* 7. Instances (statements about the generated functions alone, by computation; tools/test_translate_version.py  *)
(*    compiles this section on its own against every mutant the translator accepts)                              *)
(* ====================================================================== *)
(* PROBE BEGIN *)
(* #pragma version 2 / txna ApplicationArgs 0 / txn NumAssets / arg 0 / app_params_get AppCreator / app_global_get /
   sha256 / bnz done / int 1 / done: / return *)
Definition probe_p1 : prog :=
  [mkIns 1 (IPragma 2); mkIns 2 (IOther "Txna" [PField ("ApplicationArgs", Some 0%Z)]); mkIns 3 (ITxn ("NumAssets", None));
   mkIns 4 (IOther "Arg" [PInt 0]); mkIns 5 (IOther "AppParamsGet" [PField ("AppCreator", None)]);
   mkIns 6 (IOther "AppGlobalGet" []); mkIns 7 (IOther "Sha256" []); mkIns 8 (IBNZ "done"); mkIns 9 (IInt (IANum 1));
   mkIns 10 (ILabel "done"); mkIns 11 IReturn].
(* app_global_get / sha256 / block BlkSeed / arg 0   (no pragma: version 1) *)
Definition probe_p2 : prog :=
  [mkIns 1 (IOther "AppGlobalGet" []); mkIns 2 (IOther "Sha256" []); mkIns 3 (IOther "Block" [PStr "BlkSeed"]);
   mkIns 4 (IOther "Arg" [PInt 0])].
Definition probe_all (p : prog) : list nat := seq 0 (length p).
Definition probe_costs (p : prog) : list (nat * py N) :=
  match parse_teal p with Ok t => map (fun b => (b_idx b, bb_cost_gen t b)) (t_blocks t) | Err _ => [] end.

(* the instruction of line 2 (version 2 = declared) is not reported; line 3: the field only; line 5: the instruction
   only (its field is version 5 too); mode of the FIRST mode-specific instruction (arg: Signature) although the last
   one is Application-only; the report lists the Signature-only instructions first *)
Example probe_parse_teal_1 :
  parse_teal_version_gen probe_p1 (probe_all probe_p1) =
  Some (MStateless, 2%N,
        [EvFieldUnsupported 3; EvInsUnsupported 5; EvMixed; EvStatelessHeader; EvListed 4; EvStatefulHeader; EvListed 5; EvListed 6]).
Proof. vm_compute. reflexivity. Qed.
(* no pragma: version 1, and the first instruction is checked too *)
Example probe_parse_teal_2 :
  parse_teal_version_gen probe_p2 (probe_all probe_p2) =
  Some (MStateful, 1%N, [EvInsUnsupported 1; EvInsUnsupported 3; EvMixed; EvStatelessHeader; EvListed 4; EvStatefulHeader; EvListed 1]).
Proof. vm_compute. reflexivity. Qed.
Example probe_parse_teal_empty : parse_teal_version_gen [] [] = None.
Proof. reflexivity. Qed.
(* a mixed program without unsupported instruction: the flag is returned all the same; Block.field (a str) is no field *)
Example probe_verify_mixed_only :
  verify_version_gen probe_p2 (probe_all probe_p2) 7 =
  Some (true, [EvMixed; EvStatelessHeader; EvListed 4; EvStatefulHeader; EvListed 1]).
Proof. vm_compute. reflexivity. Qed.
(* nothing to report *)
Example probe_verify_clean : verify_version_gen [mkIns 1 (IOther "Arg" [PInt 0]); mkIns 2 (ITxn ("Sender", None))] [0; 1] 1 = Some (false, []).
Proof. vm_compute. reflexivity. Qed.
Example probe_verify_field : verify_version_gen [mkIns 1 (ITxn ("NumAssets", None))] [0] 2 = Some (true, [EvFieldUnsupported 1]).
Proof. vm_compute. reflexivity. Qed.
Example probe_verify_global_field : verify_version_gen [mkIns 1 (IGlobal "Round")] [0] 1 = Some (true, [EvFieldUnsupported 1]).
Proof. vm_compute. reflexivity. Qed.
Example probe_detect_any : detect_execution_mode_gen probe_p1 [0; 1; 2] = Some MAny.
Proof. vm_compute. reflexivity. Qed.
(* costs: sha256 is 35 from version 2 on and 7 in version 1; the first instruction of a block counts *)
Example probe_costs_1 : probe_costs probe_p1 = [(0, Some 41%N); (1, Some 1%N); (2, Some 1%N)].
Proof. vm_compute. reflexivity. Qed.
Example probe_costs_2 : probe_costs probe_p2 = [(0, Some 10%N)].
Proof. vm_compute. reflexivity. Qed.
Example probe_contract_type :
  map teal_init_contract_type_gen [MStateless; MStateful; MAny] = [Some CT_LogicSig; Some CT_ApprovalProgram; Some CT_LogicSig].
Proof. reflexivity. Qed.
(* PROBE END *)
