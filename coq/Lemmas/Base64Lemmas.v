(* Correctness of the model's base64 / base32 byte-literal decoders (Model/Parse.v: b64_val, b32_val, string_vals,
   decode_syms, hex_of_bytes, b64_decode, b32_decode) against the independent RFC 4648 specification Spec/Base64.v.

   Main results (no length bound anywhere):
     b64_decode_encode_eqs / b32_decode_encode_eqs :
        decoding the canonical symbols of [bs] followed by ANY number of "=" gives "0x" ++ hex_spec bs
     b64_decode_nopad, b64_decode_padded, b32_decode_nopad, b32_decode_padded : the n = 0 / canonical-padding instances
     b64_decode_injective, b32_decode_injective : distinct byte strings have distinct decoded hex
   Proof route: the accumulator of [decode_syms] is characterised against the bit-list spec
   ([decode_syms_bits]: acc = value of the pending bits, nacc = their number), so that no reasoning about
   shiftl/land on concrete numbers is needed beyond  shiftr = div 2^n  and  land (2^n-1) = mod 2^n. *)
From Coq Require Import String List NArith PeanoNat Ascii Bool Lia.
From Tealer Require Import Syntax Parse Base64 ParseLemmas ParseLemmas2 RewriteLemmas.
Import ListNotations.
Open Scope list_scope.
Open Scope N_scope.

(* ================================================================ finite exhaustive checks *)
Lemma forall_below : forall (n : nat) (P : N -> bool),
  forallb P (map N.of_nat (seq 0 n)) = true -> forall b, b < N.of_nat n -> P b = true.
Proof.
  intros n P Hall b Hb. rewrite forallb_forall in Hall. apply Hall.
  rewrite <- (N2Nat.id b). apply in_map. apply in_seq. lia.
Qed.

(* ================================================================ bit-list arithmetic *)
Definition bstep (a : N) (b : bool) : N := 2 * a + (if b then 1 else 0).

Lemma bits_val_fold : forall l, bits_val l = fold_left bstep l 0.
Proof. reflexivity. Qed.

Lemma fold_bstep_acc : forall l a,
  fold_left bstep l a = a * 2 ^ N.of_nat (length l) + fold_left bstep l 0.
Proof.
  induction l as [|x l IH]; intros a.
  - cbn [fold_left length]. change (N.of_nat 0) with 0. rewrite N.pow_0_r. lia.
  - cbn [fold_left length]. rewrite (IH (bstep a x)). rewrite (IH (bstep 0 x)).
    rewrite Nat2N.inj_succ. rewrite N.pow_succ_r'. unfold bstep. ring.
Qed.

Lemma bits_val_app : forall l1 l2,
  bits_val (l1 ++ l2) = bits_val l1 * 2 ^ N.of_nat (length l2) + bits_val l2.
Proof.
  intros l1 l2. rewrite !bits_val_fold. rewrite fold_left_app. apply fold_bstep_acc.
Qed.

Lemma bits_val_bound : forall l, bits_val l < 2 ^ N.of_nat (length l).
Proof.
  induction l as [|x l IH].
  - cbn. lia.
  - change (x :: l) with ([x] ++ l). rewrite bits_val_app.
    cbn [length app]. rewrite Nat2N.inj_succ, N.pow_succ_r'.
    assert (Hx : bits_val [x] <= 1) by (destruct x; cbn; lia).
    set (P := 2 ^ N.of_nat (length l)) in *. nia.
Qed.

(* the two N bit operations used by the model, as div / mod *)
Lemma shiftr_split : forall h r n, r < 2 ^ n -> N.shiftr (h * 2 ^ n + r) n = h.
Proof.
  intros h r n Hr. rewrite N.shiftr_div_pow2. symmetry.
  apply (N.div_unique _ _ h r); [exact Hr | lia].
Qed.

Lemma land_split : forall h r n, r < 2 ^ n -> N.land (h * 2 ^ n + r) (2 ^ n - 1) = r.
Proof.
  intros h r n Hr. rewrite N.sub_1_r, <- N.ones_equiv, N.land_ones. symmetry.
  apply (N.mod_unique _ _ h r); [exact Hr | lia].
Qed.

(* ================================================================ regrouping a bit stream into bytes *)
(* complete groups of 8 bits, most significant bit first; a trailing partial group is dropped *)
Fixpoint bytes_of_bits (l : list bool) : list N :=
  match l with
  | b7 :: b6 :: b5 :: b4 :: b3 :: b2 :: b1 :: b0 :: t =>
      bits_val [b7; b6; b5; b4; b3; b2; b1; b0] :: bytes_of_bits t
  | _ => []
  end.

Lemma bytes_of_bits_app8 : forall h r, length h = 8%nat ->
  bytes_of_bits (h ++ r) = bits_val h :: bytes_of_bits r.
Proof.
  intros h r Hh.
  do 9 (destruct h as [|? h]; [try discriminate Hh|]); try discriminate Hh.
  reflexivity.
Qed.

Lemma bytes_of_bits_short : forall l, (length l < 8)%nat -> bytes_of_bits l = [].
Proof.
  intros l Hl.
  do 8 (destruct l as [|? l]; [reflexivity|]). cbn [length] in Hl. lia.
Qed.

(* ================================================================ the accumulator invariant of decode_syms *)
(* acc = value of the pending bits, nacc = number of pending bits (< 8); the symbols are k-bit groups *)
Lemma decode_syms_bits : forall (k : nat), (0 < k <= 8)%nat ->
  forall gs, Forall (fun g => length g = k) gs ->
  forall p, (length p < 8)%nat ->
  decode_syms (N.of_nat k) (map bits_val gs) (bits_val p) (N.of_nat (length p))
  = bytes_of_bits (p ++ concat gs).
Proof.
  intros k Hk gs Hgs. induction Hgs as [|g gs Hg Hgs IH]; intros p Hp.
  - cbn [map decode_syms concat]. rewrite app_nil_r. symmetry. apply bytes_of_bits_short. exact Hp.
  - cbn [map decode_syms concat].
    assert (Hacc : bits_val p * 2 ^ N.of_nat k + bits_val g = bits_val (p ++ g)).
    { rewrite bits_val_app, Hg. reflexivity. }
    rewrite Hacc.
    assert (Hn : N.of_nat (length p) + N.of_nat k = N.of_nat (length (p ++ g))).
    { rewrite app_length, Hg. lia. }
    rewrite Hn.
    assert (Hlen : length (p ++ g) = (length p + k)%nat) by (rewrite app_length, Hg; reflexivity).
    rewrite app_assoc. set (X := p ++ g) in *.
    destruct (N.leb 8 (N.of_nat (length X))) eqn:Hle.
    + apply N.leb_le in Hle.
      assert (HX : X = firstn 8 X ++ skipn 8 X) by (symmetry; apply firstn_skipn).
      assert (Hh : length (firstn 8 X) = 8%nat) by (rewrite firstn_length; lia).
      assert (Hr : length (skipn 8 X) = (length X - 8)%nat) by apply skipn_length.
      assert (Hsh : N.of_nat (length X) - 8 = N.of_nat (length (skipn 8 X))) by lia.
      rewrite Hsh.
      assert (Hv : bits_val X = bits_val (firstn 8 X) * 2 ^ N.of_nat (length (skipn 8 X)) + bits_val (skipn 8 X)).
      { rewrite HX at 1. apply bits_val_app. }
      pose proof (bits_val_bound (skipn 8 X)) as Hb.
      rewrite Hv. rewrite (shiftr_split _ _ _ Hb), (land_split _ _ _ Hb).
      rewrite IH by lia.
      rewrite HX at 3. rewrite <- app_assoc. rewrite (bytes_of_bits_app8 _ _ Hh). reflexivity.
    + apply N.leb_gt in Hle. apply IH. lia.
Qed.

(* ================================================================ facts about the spec's grouping *)
Lemma pad_to_length : forall k l, (length l <= k)%nat -> length (pad_to k l) = k.
Proof. intros k l Hl. unfold pad_to. rewrite app_length, repeat_length. lia. Qed.

Lemma chunks_fuel_length : forall fuel k l, Forall (fun g => length g = k) (chunks_fuel fuel k l).
Proof.
  induction fuel as [|f IH]; intros k l; cbn [chunks_fuel]; [constructor|].
  destruct l as [|x l]; [constructor|]. constructor; [|apply IH].
  apply pad_to_length. apply firstn_le_length.
Qed.

Lemma chunks_fuel_concat : forall fuel k l, (0 < k)%nat -> (length l <= fuel)%nat ->
  exists z, (z < k)%nat /\ concat (chunks_fuel fuel k l) = l ++ repeat false z.
Proof.
  induction fuel as [|f IH]; intros k l Hk Hl.
  - destruct l as [|x l]; [|cbn [length] in Hl; lia]. exists 0%nat. split; [exact Hk|reflexivity].
  - destruct l as [|x l'].
    + exists 0%nat. split; [exact Hk|reflexivity].
    + cbn [chunks_fuel]. assert (Hpos : (0 < length (x :: l'))%nat) by (cbn [length]; lia).
      set (l := x :: l') in *. cbn [concat].
      destruct (Nat.leb (length l) k) eqn:Hle.
      * apply Nat.leb_le in Hle.
        rewrite (firstn_all2 l Hle), (skipn_all2 l Hle).
        assert (Hnil : chunks_fuel f k [] = []) by (destruct f; reflexivity).
        rewrite Hnil. cbn [concat]. rewrite app_nil_r. unfold pad_to.
        exists (k - length l)%nat. split; [lia|reflexivity].
      * apply Nat.leb_gt in Hle.
        assert (Hfl : length (firstn k l) = k) by (rewrite firstn_length; lia).
        unfold pad_to. rewrite Hfl, Nat.sub_diag. cbn [repeat]. rewrite app_nil_r.
        destruct (IH k (skipn k l) Hk) as [z [Hz Hc]]; [rewrite skipn_length; lia|].
        exists z. split; [exact Hz|]. rewrite Hc, app_assoc, firstn_skipn. reflexivity.
Qed.

Lemma chunks_length : forall k l, Forall (fun g => length g = k) (chunks k l).
Proof. intros k l. apply chunks_fuel_length. Qed.

Lemma chunks_concat : forall k l, (0 < k)%nat ->
  exists z, (z < k)%nat /\ concat (chunks k l) = l ++ repeat false z.
Proof. intros k l Hk. apply chunks_fuel_concat; [exact Hk|apply le_n]. Qed.

(* ================================================================ bytes <-> bits *)
Lemma bits_of_byte_length : forall b, length (bits_of_byte b) = 8%nat.
Proof. reflexivity. Qed.

Lemma bits_of_byte_val : forall b, b < 256 -> bits_val (bits_of_byte b) = b.
Proof.
  intros b Hb. apply N.eqb_eq.
  apply (forall_below 256 (fun b => N.eqb (bits_val (bits_of_byte b)) b)); [vm_compute; reflexivity|exact Hb].
Qed.

Lemma bytes_of_bits_of_bytes : forall bs z, is_bytes bs -> (length z < 8)%nat ->
  bytes_of_bits (bits_of_bytes bs ++ z) = bs.
Proof.
  intros bs z Hbs Hz. induction Hbs as [|b bs Hb Hbs IH].
  - cbn [bits_of_bytes flat_map app]. apply bytes_of_bits_short. exact Hz.
  - unfold bits_of_bytes in *. cbn [flat_map]. rewrite <- app_assoc.
    rewrite (bytes_of_bits_app8 _ _ (bits_of_byte_length b)).
    rewrite (bits_of_byte_val b Hb), IH. reflexivity.
Qed.

(* ================================================================ symbols: the model's value tables invert the alphabets *)
Lemma b64_val_sym : forall v, v < 64 -> b64_val (sym b64_alphabet v) = Some v.
Proof.
  intros v Hv.
  assert (H : (match b64_val (sym b64_alphabet v) with Some w => N.eqb w v | None => false end) = true).
  { apply (forall_below 64 (fun v => match b64_val (sym b64_alphabet v) with Some w => N.eqb w v | None => false end));
      [vm_compute; reflexivity|exact Hv]. }
  destruct (b64_val (sym b64_alphabet v)) as [w|]; [|discriminate H].
  apply N.eqb_eq in H. subst w. reflexivity.
Qed.

Lemma b32_val_sym : forall v, v < 32 -> b32_val (sym b32_alphabet v) = Some v.
Proof.
  intros v Hv.
  assert (H : (match b32_val (sym b32_alphabet v) with Some w => N.eqb w v | None => false end) = true).
  { apply (forall_below 32 (fun v => match b32_val (sym b32_alphabet v) with Some w => N.eqb w v | None => false end));
      [vm_compute; reflexivity|exact Hv]. }
  destruct (b32_val (sym b32_alphabet v)) as [w|]; [|discriminate H].
  apply N.eqb_eq in H. subst w. reflexivity.
Qed.

Lemma hex_digit_sym : forall v, v < 16 -> hex_digit v = sym hex_alphabet v.
Proof.
  intros v Hv.
  assert (H : Ascii.eqb (hex_digit v) (sym hex_alphabet v) = true).
  { apply (forall_below 16 (fun v => Ascii.eqb (hex_digit v) (sym hex_alphabet v))); [vm_compute; reflexivity|exact Hv]. }
  apply Ascii.eqb_eq. exact H.
Qed.

Lemma digit_val_sym : forall v, v < 16 -> digit_val (sym hex_alphabet v) = Some v.
Proof.
  intros v Hv.
  assert (H : (match digit_val (sym hex_alphabet v) with Some w => N.eqb w v | None => false end) = true).
  { apply (forall_below 16 (fun v => match digit_val (sym hex_alphabet v) with Some w => N.eqb w v | None => false end));
      [vm_compute; reflexivity|exact Hv]. }
  destruct (digit_val (sym hex_alphabet v)) as [w|]; [|discriminate H].
  apply N.eqb_eq in H. subst w. reflexivity.
Qed.

(* ================================================================ string_vals *)
Lemma string_vals_app : forall f s1 s2,
  string_vals f (s1 ++ s2)%string = string_vals f s1 ++ string_vals f s2.
Proof.
  intros f s1 s2. induction s1 as [|c s1 IH]; [reflexivity|].
  cbn [String.append string_vals]. destruct (f c) as [v|]; rewrite IH; reflexivity.
Qed.

Lemma string_vals_eqs : forall f n, f "="%char = None -> string_vals f (eqs n) = [].
Proof.
  intros f n Hf. induction n as [|n IH]; [reflexivity|].
  cbn [eqs string_vals]. rewrite Hf. exact IH.
Qed.

Lemma string_vals_syms : forall (f : ascii -> option N) (alphabet : string) (gs : list (list bool)),
  (forall g, In g gs -> f (sym alphabet (bits_val g)) = Some (bits_val g)) ->
  string_vals f (string_of_list_ascii (map (fun g => sym alphabet (bits_val g)) gs)) = map bits_val gs.
Proof.
  intros f alphabet gs. induction gs as [|g gs IH]; intros Hf; [reflexivity|].
  cbn [map string_of_list_ascii string_vals].
  rewrite (Hf g (or_introl eq_refl)). f_equal. apply IH. intros g' Hin. apply Hf. right. exact Hin.
Qed.

Lemma string_vals_encode : forall f alphabet (k : nat),
  (forall v, v < 2 ^ N.of_nat k -> f (sym alphabet v) = Some v) ->
  forall bs, string_vals f (encode_nopad alphabet k bs) = map bits_val (chunks k (bits_of_bytes bs)).
Proof.
  intros f alphabet k Hf bs. unfold encode_nopad. apply string_vals_syms.
  intros g Hin. apply Hf.
  pose proof (chunks_length k (bits_of_bytes bs)) as Hall. rewrite Forall_forall in Hall.
  rewrite <- (Hall g Hin). apply bits_val_bound.
Qed.

(* ================================================================ decoding the spec's symbols gives back the bytes *)
Lemma decode_encode_bytes : forall f alphabet (k : nat), (0 < k <= 8)%nat ->
  (forall v, v < 2 ^ N.of_nat k -> f (sym alphabet v) = Some v) ->
  f "="%char = None ->
  forall bs n, is_bytes bs ->
  decode_syms (N.of_nat k) (string_vals f (encode_nopad alphabet k bs ++ eqs n)%string) 0 0 = bs.
Proof.
  intros f alphabet k Hk Hf Heq bs n Hbs.
  rewrite string_vals_app, (string_vals_eqs f n Heq), app_nil_r.
  rewrite (string_vals_encode f alphabet k Hf).
  change (decode_syms (N.of_nat k) (map bits_val (chunks k (bits_of_bytes bs))) (bits_val []) (N.of_nat (length (@nil bool))) = bs).
  rewrite (decode_syms_bits k Hk _ (chunks_length k _)) by (cbn [length]; lia).
  cbn [app].
  destruct (chunks_concat k (bits_of_bytes bs)) as [z [Hz Hc]]; [lia|].
  rewrite Hc. apply bytes_of_bits_of_bytes; [exact Hbs|]. rewrite repeat_length. lia.
Qed.

Theorem b64_decode_syms_encode : forall bs n, is_bytes bs ->
  decode_syms 6 (string_vals b64_val (b64_encode_nopad bs ++ eqs n)%string) 0 0 = bs.
Proof.
  intros bs n Hbs.
  apply (decode_encode_bytes b64_val b64_alphabet 6); [lia| |reflexivity|exact Hbs].
  intros v Hv. apply b64_val_sym. exact Hv.
Qed.

Theorem b32_decode_syms_encode : forall bs n, is_bytes bs ->
  decode_syms 5 (string_vals b32_val (b32_encode_nopad bs ++ eqs n)%string) 0 0 = bs.
Proof.
  intros bs n Hbs.
  apply (decode_encode_bytes b32_val b32_alphabet 5); [lia| |reflexivity|exact Hbs].
  intros v Hv. apply b32_val_sym. exact Hv.
Qed.

(* ================================================================ hex: the model's hex_of_bytes is the spec on bytes *)
Theorem hex_of_bytes_spec : forall bs, is_bytes bs -> hex_of_bytes bs = hex_spec bs.
Proof.
  intros bs Hbs. induction Hbs as [|b bs Hb Hbs IH]; [reflexivity|].
  cbn [hex_of_bytes hex_spec]. rewrite IH.
  assert (Hhi : b / 16 < 16) by (apply N.div_lt_upper_bound; lia).
  assert (Hlo : b mod 16 < 16) by (apply N.mod_lt; lia).
  rewrite (hex_digit_sym _ Hhi), (hex_digit_sym _ Hlo). reflexivity.
Qed.

Theorem hex_spec_injective : forall bs1 bs2, is_bytes bs1 -> is_bytes bs2 ->
  hex_spec bs1 = hex_spec bs2 -> bs1 = bs2.
Proof.
  intros bs1 bs2 H1. revert bs2. induction H1 as [|b1 bs1 Hb1 H1 IH]; intros bs2 H2 Heq.
  - destruct bs2 as [|b2 bs2]; [reflexivity|discriminate Heq].
  - destruct H2 as [|b2 bs2 Hb2 H2]; [discriminate Heq|].
    cbn [hex_spec] in Heq. injection Heq as Hhi Hlo Hrest.
    assert (Hh1 : b1 / 16 < 16) by (apply N.div_lt_upper_bound; lia).
    assert (Hh2 : b2 / 16 < 16) by (apply N.div_lt_upper_bound; lia).
    assert (Hl1 : b1 mod 16 < 16) by (apply N.mod_lt; lia).
    assert (Hl2 : b2 mod 16 < 16) by (apply N.mod_lt; lia).
    assert (Ehi : b1 / 16 = b2 / 16).
    { pose proof (digit_val_sym _ Hh1) as E1. pose proof (digit_val_sym _ Hh2) as E2.
      rewrite Hhi in E1. rewrite E1 in E2. injection E2 as E2. exact E2. }
    assert (Elo : b1 mod 16 = b2 mod 16).
    { pose proof (digit_val_sym _ Hl1) as E1. pose proof (digit_val_sym _ Hl2) as E2.
      rewrite Hlo in E1. rewrite E1 in E2. injection E2 as E2. exact E2. }
    f_equal.
    + rewrite (N.div_mod b1 16) by lia. rewrite (N.div_mod b2 16) by lia. rewrite Ehi, Elo. reflexivity.
    + apply IH; assumption.
Qed.

(* ================================================================ MAIN THEOREMS *)
(* Inputs covered: the canonical RFC 4648 symbols of [bs] (alphabet characters only, last group zero-filled)
   followed by any number [n] of "=" characters: n = 0 is the unpadded form, n = pad_count .. is the RFC padded
   form (for both of which Python's  b64decode(s + "=" * (-len(s) % 4))  /  b32decode(s + "=" * (-len(s) % 8))
   decodes to bs). *)
Theorem b64_decode_encode_eqs : forall bs n, is_bytes bs ->
  b64_decode (b64_encode_nopad bs ++ eqs n)%string = ("0x" ++ hex_spec bs)%string.
Proof.
  intros bs n Hbs. unfold b64_decode. rewrite (b64_decode_syms_encode bs n Hbs).
  rewrite (hex_of_bytes_spec bs Hbs). reflexivity.
Qed.

Theorem b32_decode_encode_eqs : forall bs n, is_bytes bs ->
  b32_decode (b32_encode_nopad bs ++ eqs n)%string = ("0x" ++ hex_spec bs)%string.
Proof.
  intros bs n Hbs. unfold b32_decode. rewrite (b32_decode_syms_encode bs n Hbs).
  rewrite (hex_of_bytes_spec bs Hbs). reflexivity.
Qed.

Lemma append_empty_r : forall s : string, (s ++ "")%string = s.
Proof. induction s as [|c s IH]; [reflexivity|]. cbn [String.append]. rewrite IH. reflexivity. Qed.

Theorem b64_decode_nopad : forall bs, is_bytes bs ->
  b64_decode (b64_encode_nopad bs) = ("0x" ++ hex_spec bs)%string.
Proof.
  intros bs Hbs. rewrite <- (b64_decode_encode_eqs bs 0 Hbs). cbn [eqs]. rewrite append_empty_r. reflexivity.
Qed.

Theorem b64_decode_padded : forall bs, is_bytes bs ->
  b64_decode (b64_encode bs) = ("0x" ++ hex_spec bs)%string.
Proof. intros bs Hbs. unfold b64_encode. apply b64_decode_encode_eqs. exact Hbs. Qed.

Theorem b32_decode_nopad : forall bs, is_bytes bs ->
  b32_decode (b32_encode_nopad bs) = ("0x" ++ hex_spec bs)%string.
Proof.
  intros bs Hbs. rewrite <- (b32_decode_encode_eqs bs 0 Hbs). cbn [eqs]. rewrite append_empty_r. reflexivity.
Qed.

Theorem b32_decode_padded : forall bs, is_bytes bs ->
  b32_decode (b32_encode bs) = ("0x" ++ hex_spec bs)%string.
Proof. intros bs Hbs. unfold b32_encode. apply b32_decode_encode_eqs. exact Hbs. Qed.

(* any text whose alphabet characters are exactly the canonical symbols decodes the same way (the model, like
   Python's non-validating b64decode, skips foreign characters; for base32 Python would reject them) *)
Theorem b64_decode_same_symbols : forall s bs, is_bytes bs ->
  string_vals b64_val s = string_vals b64_val (b64_encode_nopad bs) ->
  b64_decode s = ("0x" ++ hex_spec bs)%string.
Proof.
  intros s bs Hbs Hs. rewrite <- (b64_decode_nopad bs Hbs). unfold b64_decode. rewrite Hs. reflexivity.
Qed.

Theorem b32_decode_same_symbols : forall s bs, is_bytes bs ->
  string_vals b32_val s = string_vals b32_val (b32_encode_nopad bs) ->
  b32_decode s = ("0x" ++ hex_spec bs)%string.
Proof.
  intros s bs Hbs Hs. rewrite <- (b32_decode_nopad bs Hbs). unfold b32_decode. rewrite Hs. reflexivity.
Qed.

(* ---------------------------------------------------------------- byte strings given as Coq strings: no side condition *)
Lemma bytes_of_string_is_bytes : forall s, is_bytes (bytes_of_string s).
Proof.
  intros s. unfold is_bytes, bytes_of_string. apply Forall_forall. intros b Hin.
  apply in_map_iff in Hin. destruct Hin as [c [Hc _]]. subst b. apply N_ascii_bounded.
Qed.

Theorem b64_decode_string : forall s n,
  b64_decode (b64_encode_nopad (bytes_of_string s) ++ eqs n)%string = ("0x" ++ hex_spec (bytes_of_string s))%string.
Proof. intros s n. apply b64_decode_encode_eqs. apply bytes_of_string_is_bytes. Qed.

Theorem b32_decode_string : forall s n,
  b32_decode (b32_encode_nopad (bytes_of_string s) ++ eqs n)%string = ("0x" ++ hex_spec (bytes_of_string s))%string.
Proof. intros s n. apply b32_decode_encode_eqs. apply bytes_of_string_is_bytes. Qed.

(* ---------------------------------------------------------------- injectivity: distinct byte strings, distinct decoded hex *)
Lemma hex0x_injective : forall bs1 bs2, is_bytes bs1 -> is_bytes bs2 ->
  ("0x" ++ hex_spec bs1)%string = ("0x" ++ hex_spec bs2)%string -> bs1 = bs2.
Proof.
  intros bs1 bs2 H1 H2 Heq. cbn [String.append] in Heq. injection Heq as Heq.
  apply hex_spec_injective; assumption.
Qed.

Theorem b64_decode_injective : forall bs1 bs2 n1 n2, is_bytes bs1 -> is_bytes bs2 ->
  b64_decode (b64_encode_nopad bs1 ++ eqs n1)%string = b64_decode (b64_encode_nopad bs2 ++ eqs n2)%string ->
  bs1 = bs2.
Proof.
  intros bs1 bs2 n1 n2 H1 H2 Heq.
  rewrite (b64_decode_encode_eqs bs1 n1 H1), (b64_decode_encode_eqs bs2 n2 H2) in Heq.
  apply hex0x_injective; assumption.
Qed.

Theorem b32_decode_injective : forall bs1 bs2 n1 n2, is_bytes bs1 -> is_bytes bs2 ->
  b32_decode (b32_encode_nopad bs1 ++ eqs n1)%string = b32_decode (b32_encode_nopad bs2 ++ eqs n2)%string ->
  bs1 = bs2.
Proof.
  intros bs1 bs2 n1 n2 H1 H2 Heq.
  rewrite (b32_decode_encode_eqs bs1 n1 H1), (b32_decode_encode_eqs bs2 n2 H2) in Heq.
  apply hex0x_injective; assumption.
Qed.

(* contrapositive form, for the canonical padded encodings *)
Corollary b64_decode_distinct : forall bs1 bs2, is_bytes bs1 -> is_bytes bs2 -> bs1 <> bs2 ->
  b64_decode (b64_encode bs1) <> b64_decode (b64_encode bs2).
Proof.
  intros bs1 bs2 H1 H2 Hne Heq. apply Hne. unfold b64_encode in Heq.
  exact (b64_decode_injective _ _ _ _ H1 H2 Heq).
Qed.

Corollary b32_decode_distinct : forall bs1 bs2, is_bytes bs1 -> is_bytes bs2 -> bs1 <> bs2 ->
  b32_decode (b32_encode bs1) <> b32_decode (b32_encode bs2).
Proof.
  intros bs1 bs2 H1 H2 Hne Heq. apply Hne. unfold b32_encode in Heq.
  exact (b32_decode_injective _ _ _ _ H1 H2 Heq).
Qed.

(* the spec's encoders are injective too (sanity of the spec, obtained through the decoder) *)
Corollary b64_encode_injective : forall bs1 bs2, is_bytes bs1 -> is_bytes bs2 ->
  b64_encode_nopad bs1 = b64_encode_nopad bs2 -> bs1 = bs2.
Proof.
  intros bs1 bs2 H1 H2 Heq. apply (b64_decode_injective bs1 bs2 0 0 H1 H2). rewrite Heq. reflexivity.
Qed.

Corollary b32_encode_injective : forall bs1 bs2, is_bytes bs1 -> is_bytes bs2 ->
  b32_encode_nopad bs1 = b32_encode_nopad bs2 -> bs1 = bs2.
Proof.
  intros bs1 bs2 H1 H2 Heq. apply (b32_decode_injective bs1 bs2 0 0 H1 H2). rewrite Heq. reflexivity.
Qed.

(* ================================================================ sanity of the spec's "=" padding: padded lengths are multiples of 4 / 8 *)
Lemma length_append : forall a b, String.length (a ++ b)%string = (String.length a + String.length b)%nat.
Proof. induction a as [|c a IH]; intros b; [reflexivity|]. cbn [String.append String.length]. rewrite IH. reflexivity. Qed.

Lemma length_eqs : forall n, String.length (eqs n) = n.
Proof. induction n as [|n IH]; [reflexivity|]. cbn [eqs String.length]. rewrite IH. reflexivity. Qed.

Lemma pad_count_multiple : forall q n, (0 < q)%nat -> Nat.modulo (n + pad_count q n) q = 0%nat.
Proof.
  intros q n Hq. unfold pad_count.
  assert (Hn : n = (q * Nat.div n q + Nat.modulo n q)%nat) by (apply Nat.div_mod; lia).
  assert (Hr : (Nat.modulo n q < q)%nat) by (apply Nat.mod_upper_bound; lia).
  set (r := Nat.modulo n q) in *. set (d := Nat.div n q) in *.
  destruct (Nat.eq_dec r 0) as [E|E].
  - rewrite E, Nat.sub_0_r, Nat.mod_same by lia. rewrite Nat.add_0_r. fold r. exact E.
  - rewrite (Nat.mod_small (q - r) q) by lia.
    replace (n + (q - r))%nat with ((d + 1) * q)%nat by lia. apply Nat.mod_mul. lia.
Qed.

Theorem b64_encode_length : forall bs, Nat.modulo (String.length (b64_encode bs)) 4 = 0%nat.
Proof. intros bs. unfold b64_encode. rewrite length_append, length_eqs. apply pad_count_multiple. lia. Qed.

Theorem b32_encode_length : forall bs, Nat.modulo (String.length (b32_encode bs)) 8 = 0%nat.
Proof. intros bs. unfold b32_encode. rewrite length_append, length_eqs. apply pad_count_multiple. lia. Qed.

(* ================================================================ RFC 4648 section 10 test vectors through the MODEL's decoders *)
Example model_b64_0 : b64_decode "" = "0x"%string.                        Proof. vm_compute. reflexivity. Qed.
Example model_b64_1 : b64_decode "Zg==" = "0x66"%string.                  Proof. vm_compute. reflexivity. Qed.
Example model_b64_2 : b64_decode "Zm8=" = "0x666f"%string.                Proof. vm_compute. reflexivity. Qed.
Example model_b64_3 : b64_decode "Zm9v" = "0x666f6f"%string.              Proof. vm_compute. reflexivity. Qed.
Example model_b64_4 : b64_decode "Zm9vYg==" = "0x666f6f62"%string.        Proof. vm_compute. reflexivity. Qed.
Example model_b64_5 : b64_decode "Zm9vYmE=" = "0x666f6f6261"%string.      Proof. vm_compute. reflexivity. Qed.
Example model_b64_6 : b64_decode "Zm9vYmFy" = "0x666f6f626172"%string.    Proof. vm_compute. reflexivity. Qed.
Example model_b64_1u : b64_decode "Zg" = "0x66"%string.                   Proof. vm_compute. reflexivity. Qed.
Example model_b64_2u : b64_decode "Zm8" = "0x666f"%string.                Proof. vm_compute. reflexivity. Qed.
Example model_b64_4u : b64_decode "Zm9vYg" = "0x666f6f62"%string.         Proof. vm_compute. reflexivity. Qed.
Example model_b64_5u : b64_decode "Zm9vYmE" = "0x666f6f6261"%string.      Proof. vm_compute. reflexivity. Qed.

Example model_b32_0 : b32_decode "" = "0x"%string.                        Proof. vm_compute. reflexivity. Qed.
Example model_b32_1 : b32_decode "MY======" = "0x66"%string.              Proof. vm_compute. reflexivity. Qed.
Example model_b32_2 : b32_decode "MZXQ====" = "0x666f"%string.            Proof. vm_compute. reflexivity. Qed.
Example model_b32_3 : b32_decode "MZXW6===" = "0x666f6f"%string.          Proof. vm_compute. reflexivity. Qed.
Example model_b32_4 : b32_decode "MZXW6YQ=" = "0x666f6f62"%string.        Proof. vm_compute. reflexivity. Qed.
Example model_b32_5 : b32_decode "MZXW6YTB" = "0x666f6f6261"%string.      Proof. vm_compute. reflexivity. Qed.
Example model_b32_6 : b32_decode "MZXW6YTBOI======" = "0x666f6f626172"%string. Proof. vm_compute. reflexivity. Qed.
Example model_b32_1u : b32_decode "MY" = "0x66"%string.                   Proof. vm_compute. reflexivity. Qed.
Example model_b32_2u : b32_decode "MZXQ" = "0x666f"%string.               Proof. vm_compute. reflexivity. Qed.
Example model_b32_3u : b32_decode "MZXW6" = "0x666f6f"%string.            Proof. vm_compute. reflexivity. Qed.
Example model_b32_4u : b32_decode "MZXW6YQ" = "0x666f6f62"%string.        Proof. vm_compute. reflexivity. Qed.
Example model_b32_6u : b32_decode "MZXW6YTBOI" = "0x666f6f626172"%string. Proof. vm_compute. reflexivity. Qed.

(* spec and model composed on the vectors (instances of the theorems, checked by computation as well) *)
Example roundtrip_b64_foobar :
  b64_decode (b64_encode (bytes_of_string "foobar")) = ("0x" ++ hex_spec (bytes_of_string "foobar"))%string.
Proof. vm_compute. reflexivity. Qed.
Example roundtrip_b32_foobar :
  b32_decode (b32_encode (bytes_of_string "foobar")) = ("0x" ++ hex_spec (bytes_of_string "foobar"))%string.
Proof. vm_compute. reflexivity. Qed.

(* ================================================================ non-canonical input: what the model does (not theorems about
   the assembler, which would reject these; recorded as computed facts about the model) *)
(* foreign characters, blanks and misplaced "=" are skipped; lower case is NOT base32 (skipped, not folded) *)
Example model_b64_foreign : b64_decode "Z!g =" = "0x66"%string.           Proof. vm_compute. reflexivity. Qed.
Example model_b32_lower : b32_decode "my" = "0x"%string.                  Proof. vm_compute. reflexivity. Qed.
Example model_b32_digit1 : b32_decode "M1Y" = "0x66"%string.              Proof. vm_compute. reflexivity. Qed.
(* impossible lengths (1 mod 4 symbols; 1, 3, 6 mod 8 symbols) give the complete bytes, no error *)
Example model_b64_len1 : b64_decode "Z" = "0x"%string.                    Proof. vm_compute. reflexivity. Qed.
Example model_b32_len3 : b32_decode "MZX" = "0x66"%string.                Proof. vm_compute. reflexivity. Qed.
(* non-zero filler bits are dropped silently ("Zh" is not canonical: trailing bits 0001) *)
Example model_b64_trailing_bits : b64_decode "Zh" = "0x66"%string.        Proof. vm_compute. reflexivity. Qed.
(* data after a complete "=" padding is NOT ignored by the model: the "=" are skipped and decoding continues over
   the concatenated symbols.  Python's b64decode stops at the completed padding ("Zg==Zg==" -> 0x66) and
   b32decode raises on it. *)
Example model_b64_data_after_padding : b64_decode "Zg==Zg==" = "0x660660"%string. Proof. vm_compute. reflexivity. Qed.
Example model_b32_data_after_padding : b32_decode "MY======MY" = "0x6619"%string. Proof. vm_compute. reflexivity. Qed.

(* ================================================================ through parse_line: a base32 / base64 literal parses to the
   instruction of the corresponding hex literal  (uses the tokenizer theorems of ParseLemmas2) *)
Lemma good_b32_sym : forall v, v < 32 -> good_char (sym b32_alphabet v) = true.
Proof.
  intros v Hv. apply (forall_below 32 (fun v => good_char (sym b32_alphabet v))); [vm_compute; reflexivity|exact Hv].
Qed.

Lemma all_good_app : forall a b, all_good a = true -> all_good b = true -> all_good (a ++ b)%string = true.
Proof.
  induction a as [|c a IH]; intros b Ha Hb; [exact Hb|].
  cbn [String.append all_good] in *. apply andb_true_iff in Ha. destruct Ha as [Hc Ha].
  rewrite Hc, (IH b Ha Hb). reflexivity.
Qed.

Lemma all_good_eqs : forall n, all_good (eqs n) = true.
Proof. induction n as [|n IH]; [reflexivity|]. cbn [eqs all_good]. rewrite IH. reflexivity. Qed.

Lemma all_good_b32_encode : forall bs, all_good (b32_encode_nopad bs) = true.
Proof.
  intros bs. unfold b32_encode_nopad, encode_nopad.
  pose proof (chunks_length 5 (bits_of_bytes bs)) as Hall.
  induction Hall as [|g gs Hg Hall IH]; [reflexivity|].
  cbn [map string_of_list_ascii all_good]. rewrite IH, good_b32_sym; [reflexivity|].
  pose proof (bits_val_bound g) as Hb. rewrite Hg in Hb. exact Hb.
Qed.

Lemma encode_nopad_nonempty : forall alphabet k b bs, encode_nopad alphabet k (b :: bs) <> ""%string.
Proof.
  intros alphabet k b bs. unfold encode_nopad, chunks, bits_of_bytes.
  cbn [flat_map bits_of_byte map app length chunks_fuel string_of_list_ascii]. discriminate.
Qed.

Lemma word_ok_b32_encode : forall bs n, bs <> [] -> word_ok (b32_encode_nopad bs ++ eqs n)%string = true.
Proof.
  intros bs n Hne. apply all_good_word.
  - destruct bs as [|b bs]; [congruence|]. intros E.
    destruct (b32_encode_nopad (b :: bs)) as [|c t] eqn:El; [|discriminate E].
    exact (encode_nopad_nonempty _ _ _ _ El).
  - apply all_good_app; [apply all_good_b32_encode|apply all_good_eqs].
Qed.

Lemma labeldef_ok_of_word : forall w, word_ok w = true -> labeldef_ok w = true.
Proof.
  intros w Hw. apply word_ok_elim in Hw. destruct Hw as [_ [Hs Hp]]. unfold labeldef_ok. rewrite Hs, Hp. reflexivity.
Qed.

(* base32: unconditional (the base32 alphabet and "=" contain no blank, quote or slash) *)
Theorem parse_base32_literal : forall kw sp bs n, bytes1_kw kw -> sp = "base32"%string \/ sp = "b32"%string ->
  is_bytes bs -> bs <> [] ->
  parse_line (kw ++ " " ++ sp ++ " " ++ b32_encode_nopad bs ++ eqs n)%string
  = Ok (Some (IOther (bytes_cls kw) [PStr ("0x" ++ hex_spec bs)%string])).
Proof.
  intros kw sp bs n Hkw Hsp Hbs Hne.
  rewrite (parse_bytes_base32 kw Hkw sp _ Hsp (word_ok_b32_encode bs n Hne)).
  rewrite (b32_decode_encode_eqs bs n Hbs). reflexivity.
Qed.

Theorem parse_base32_paren_literal : forall kw sp bs n, bytes1_kw kw -> sp = "base32("%string \/ sp = "b32("%string ->
  is_bytes bs ->
  parse_line (kw ++ " " ++ sp ++ (b32_encode_nopad bs ++ eqs n) ++ ")")%string
  = Ok (Some (IOther (bytes_cls kw) [PStr ("0x" ++ hex_spec bs)%string])).
Proof.
  intros kw sp bs n Hkw Hsp Hbs.
  assert (Hl : labeldef_ok (b32_encode_nopad bs ++ eqs n)%string = true).
  { destruct bs as [|b bs].
    - assert (E : b32_encode_nopad [] = ""%string) by reflexivity. rewrite E. cbn [String.append].
      clear. induction n as [|n IH]; [reflexivity|]. cbn [eqs]. unfold labeldef_ok in *. cbn [no_space plain].
      apply andb_true_iff in IH. destruct IH as [I1 I2]. rewrite I1, I2. reflexivity.
    - apply labeldef_ok_of_word. apply word_ok_b32_encode. discriminate. }
  rewrite (parse_bytes_base32_paren kw Hkw sp _ Hsp Hl).
  rewrite (b32_decode_encode_eqs bs n Hbs). reflexivity.
Qed.

(* base64: "/" is a base64 symbol.  Since the repair of the tokenizer (finding D30: "//" inside base64 data was taken
   for a comment) the encoding needs no side condition about slashes: its characters are never a blank or a double
   quote, which is all the tokenizer asks of base64 data. *)
Definition data_char (c : ascii) : bool := negb (is_space c) && negb (Ascii.eqb c dq).
Fixpoint all_data (s : string) : bool :=
  match s with EmptyString => true | String c t => data_char c && all_data t end.

Lemma all_data_elim : forall s, all_data s = true -> no_space s = true /\ no_dq s = true.
Proof.
  induction s as [|c t IH]; intros H; [split; reflexivity|].
  cbn [all_data] in H. apply andb_true_iff in H. destruct H as [Hc Ht]. destruct (IH Ht) as [I1 I2].
  unfold data_char in Hc. apply andb_true_iff in Hc. destruct Hc as [C1 C2].
  cbn [no_space no_dq]. rewrite C1, C2, I1, I2. split; reflexivity.
Qed.
Lemma all_data_app : forall a b, all_data a = true -> all_data b = true -> all_data (a ++ b)%string = true.
Proof.
  induction a as [|c a IH]; intros b Ha Hb; [exact Hb|].
  cbn [String.append all_data] in *. apply andb_true_iff in Ha. destruct Ha as [Hc Ha].
  rewrite Hc, (IH b Ha Hb). reflexivity.
Qed.
Lemma all_data_eqs : forall n, all_data (eqs n) = true.
Proof. induction n as [|n IH]; [reflexivity|]. cbn [eqs all_data]. rewrite IH. reflexivity. Qed.
Lemma data_b64_sym : forall v, v < 64 -> data_char (sym b64_alphabet v) = true.
Proof.
  intros v Hv. apply (forall_below 64 (fun v => data_char (sym b64_alphabet v))); [vm_compute; reflexivity|exact Hv].
Qed.
Lemma all_data_b64_encode : forall bs, all_data (b64_encode_nopad bs) = true.
Proof.
  intros bs. unfold b64_encode_nopad, encode_nopad.
  pose proof (chunks_length 6 (bits_of_bytes bs)) as Hall.
  induction Hall as [|g gs Hg Hall IH]; [reflexivity|].
  cbn [map string_of_list_ascii all_data]. rewrite IH, data_b64_sym; [reflexivity|].
  pose proof (bits_val_bound g) as Hb. rewrite Hg in Hb. exact Hb.
Qed.
Lemma all_data_b64_payload : forall bs n, all_data (b64_encode_nopad bs ++ eqs n)%string = true.
Proof. intros. apply all_data_app; [apply all_data_b64_encode|apply all_data_eqs]. Qed.

(* EVERY byte string, with any number of "=": the only requirement is that there is a payload token at all
   (the empty byte string without padding gives the line `byte base64`, a ParseError: see parse_base64_empty) *)
Theorem parse_base64_literal : forall kw sp bs n, bytes1_kw kw -> sp = "base64"%string \/ sp = "b64"%string ->
  is_bytes bs -> (b64_encode_nopad bs ++ eqs n)%string <> ""%string ->
  parse_line (kw ++ " " ++ sp ++ " " ++ b64_encode_nopad bs ++ eqs n)%string
  = Ok (Some (IOther (bytes_cls kw) [PStr ("0x" ++ hex_spec bs)%string])).
Proof.
  intros kw sp bs n Hkw Hsp Hbs Hne.
  destruct (all_data_elim _ (all_data_b64_payload bs n)) as [Hs Hq].
  assert (Hd : data_ok (b64_encode_nopad bs ++ eqs n)%string = true).
  { unfold data_ok. rewrite Hs, Hq. apply String.eqb_neq in Hne. rewrite Hne. reflexivity. }
  rewrite (parse_bytes_base64_data kw Hkw sp _ Hsp Hd).
  rewrite (b64_decode_encode_eqs bs n Hbs). reflexivity.
Qed.
Corollary parse_base64_literal_nonempty : forall kw sp bs n, bytes1_kw kw -> sp = "base64"%string \/ sp = "b64"%string ->
  is_bytes bs -> bs <> [] ->
  parse_line (kw ++ " " ++ sp ++ " " ++ b64_encode_nopad bs ++ eqs n)%string
  = Ok (Some (IOther (bytes_cls kw) [PStr ("0x" ++ hex_spec bs)%string])).
Proof.
  intros kw sp bs n Hkw Hsp Hbs Hne. apply parse_base64_literal; try assumption.
  destruct bs as [|b bs]; [congruence|]. intros E. apply sapp_eq_nil in E. destruct E as [E _].
  exact (encode_nopad_nonempty _ _ _ _ E).
Qed.
(* the canonical (padded) encoding of a non-empty byte string *)
Corollary parse_base64_literal_padded : forall kw sp bs, bytes1_kw kw -> sp = "base64"%string \/ sp = "b64"%string ->
  is_bytes bs -> bs <> [] ->
  parse_line (kw ++ " " ++ sp ++ " " ++ b64_encode bs)%string
  = Ok (Some (IOther (bytes_cls kw) [PStr ("0x" ++ hex_spec bs)%string])).
Proof. intros kw sp bs Hkw Hsp Hbs Hne. unfold b64_encode. apply parse_base64_literal_nonempty; assumption. Qed.

Theorem parse_base64_paren_literal : forall kw sp bs n, bytes1_kw kw -> sp = "base64("%string \/ sp = "b64("%string ->
  is_bytes bs ->
  parse_line (kw ++ " " ++ sp ++ (b64_encode_nopad bs ++ eqs n) ++ ")")%string
  = Ok (Some (IOther (bytes_cls kw) [PStr ("0x" ++ hex_spec bs)%string])).
Proof.
  intros kw sp bs n Hkw Hsp Hbs.
  destruct (all_data_elim _ (all_data_b64_payload bs n)) as [Hs Hq].
  rewrite (parse_bytes_base64_paren_data kw Hkw sp _ Hsp Hs Hq).
  rewrite (b64_decode_encode_eqs bs n Hbs). reflexivity.
Qed.

(* no payload: `byte base64` is rejected (there is no token to decode) *)
Example parse_base64_empty :
  b64_encode [] = ""%string /\
  parse_line ("byte base64 " ++ b64_encode [])%string = Err "ParseError: incorrect byte format"%string /\
  parse_line ("byte base64(" ++ b64_encode [] ++ ")")%string = Ok (Some (IOther "Byte" [PStr "0x"%string])).
Proof. repeat split; vm_compute; reflexivity. Qed.

(* the hex spelling of the same bytes gives the same instruction *)
Theorem parse_hex_literal : forall kw bs, bytes1_kw kw -> is_bytes bs ->
  parse_line (kw ++ " " ++ "0x" ++ hex_spec bs)%string
  = Ok (Some (IOther (bytes_cls kw) [PStr ("0x" ++ hex_spec bs)%string])).
Proof.
  intros kw bs Hkw Hbs. destruct (hex_word bs Hbs) as [Hw Hx]. rewrite (hex_of_bytes_spec bs Hbs) in Hw, Hx.
  exact (parse_bytes_hex kw Hkw _ Hw Hx).
Qed.

Corollary parse_base32_same_as_hex : forall kw sp bs n, bytes1_kw kw -> sp = "base32"%string \/ sp = "b32"%string ->
  is_bytes bs -> bs <> [] ->
  parse_line (kw ++ " " ++ sp ++ " " ++ b32_encode_nopad bs ++ eqs n)%string
  = parse_line (kw ++ " " ++ "0x" ++ hex_spec bs)%string.
Proof.
  intros kw sp bs n Hkw Hsp Hbs Hne.
  rewrite (parse_base32_literal kw sp bs n Hkw Hsp Hbs Hne), (parse_hex_literal kw bs Hkw Hbs). reflexivity.
Qed.

Corollary parse_base64_same_as_hex : forall kw sp bs n, bytes1_kw kw -> sp = "base64"%string \/ sp = "b64"%string ->
  is_bytes bs -> bs <> [] ->
  parse_line (kw ++ " " ++ sp ++ " " ++ b64_encode_nopad bs ++ eqs n)%string
  = parse_line (kw ++ " " ++ "0x" ++ hex_spec bs)%string.
Proof.
  intros kw sp bs n Hkw Hsp Hbs Hne.
  rewrite (parse_base64_literal_nonempty kw sp bs n Hkw Hsp Hbs Hne), (parse_hex_literal kw bs Hkw Hbs). reflexivity.
Qed.

(* Finding D30, REPAIRED.  Before the repair of _split_instruction_into_tokens the canonical base64 of the two bytes
   ff ff, "//8=" (a valid literal for the AVM assembler), was cut at "//" as a comment and the literal rejected
   (this was the refutation theorem parse_base64_literal_refuted).  Now all three spellings give the same instruction. *)
Theorem parse_base64_literal_slashes :
  exists bs, is_bytes bs /\ b64_encode bs = "//8="%string /\
    parse_line ("byte base64 " ++ b64_encode bs)%string = Ok (Some (IOther "Byte" [PStr "0xffff"%string])) /\
    parse_line ("byte base64(" ++ b64_encode bs ++ ")")%string = Ok (Some (IOther "Byte" [PStr "0xffff"%string])) /\
    parse_line ("byte 0x" ++ hex_spec bs)%string = Ok (Some (IOther "Byte" [PStr "0xffff"%string])).
Proof.
  exists [255; 255]. split; [repeat constructor|]. repeat split; vm_compute; reflexivity.
Qed.

(* the lines of the repair's regression tests *)
Local Open Scope string_scope.
Example fixed_b64_1 : parse_line "byte base64 //8=" = Ok (Some (IOther "Byte" [PStr "0xffff"])).
Proof. vm_compute. reflexivity. Qed.
Example fixed_b64_2_tokens : tokenize "byte base64 //8= // c" = Ok ["byte"; "base64"; "//8="; "// c"].
Proof. vm_compute. reflexivity. Qed.
Example fixed_b64_2 : parse_line "byte base64 //8= // c" = Ok (Some (IOther "Byte" [PStr "0xffff"])).
Proof. vm_compute. reflexivity. Qed.
Example fixed_b64_3 : parse_line "byte base64(//8=)" = Ok (Some (IOther "Byte" [PStr "0xffff"])).
Proof. vm_compute. reflexivity. Qed.
Example fixed_b64_4 : parse_line "byte b64 AB// // c" = Ok (Some (IOther "Byte" [PStr "0x001fff"])).
Proof. vm_compute. reflexivity. Qed.
Example fixed_b64_5 : parse_line "bytecblock base64 //8= b64 AA//" = Ok (Some (IOther "Bytecblock" [PStrs ["0xffff"; "0x000fff"]])).
Proof. vm_compute. reflexivity. Qed.
(* after base64 the token "//" is data; then `missing` is not a byte literal *)
Example fixed_b64_6 : parse_line "byte base64 // missing" = Err "ParseError: incorrect byte format".
Proof. vm_compute. reflexivity. Qed.
Example fixed_b64_7 : parse_line "byte base64" = Err "ParseError: incorrect byte format".
Proof. vm_compute. reflexivity. Qed.
(* unchanged: ordinary comments; base32 ("/" is not in its alphabet, "//" still starts a comment) *)
Example fixed_b64_8 : parse_line "int 1 // c" = Ok (Some (IInt (IANum 1))).
Proof. vm_compute. reflexivity. Qed.
Example fixed_b64_9 : tokenize "byte base32 MY // c" = Ok ["byte"; "base32"; "MY"; "// c"].
Proof. vm_compute. reflexivity. Qed.
(* the test is on the token read so far: b64( inside a token that started otherwise is not base64 data *)
Example fixed_b64_10 : tokenize "byte xb64(//8=)" = Ok ["byte"; "//8=)"].
Proof. vm_compute. reflexivity. Qed.
Local Close Scope string_scope.

Print Assumptions decode_syms_bits.
Print Assumptions hex_of_bytes_spec.
Print Assumptions hex_spec_injective.
Print Assumptions b64_decode_syms_encode.
Print Assumptions b32_decode_syms_encode.
Print Assumptions b64_decode_encode_eqs.
Print Assumptions b32_decode_encode_eqs.
Print Assumptions b64_decode_nopad.
Print Assumptions b64_decode_padded.
Print Assumptions b32_decode_nopad.
Print Assumptions b32_decode_padded.
Print Assumptions b64_decode_same_symbols.
Print Assumptions b32_decode_same_symbols.
Print Assumptions b64_decode_string.
Print Assumptions b32_decode_string.
Print Assumptions b64_decode_injective.
Print Assumptions b32_decode_injective.
Print Assumptions b64_decode_distinct.
Print Assumptions b32_decode_distinct.
Print Assumptions b64_encode_injective.
Print Assumptions b32_encode_injective.
Print Assumptions parse_base32_literal.
Print Assumptions parse_base32_paren_literal.
Print Assumptions parse_base64_literal.
Print Assumptions parse_base64_paren_literal.
Print Assumptions parse_hex_literal.
Print Assumptions parse_base32_same_as_hex.
Print Assumptions parse_base64_literal_nonempty.
Print Assumptions parse_base64_literal_padded.
Print Assumptions parse_base64_same_as_hex.
Print Assumptions parse_base64_literal_slashes.
Print Assumptions parse_base64_empty.
Print Assumptions b64_encode_length.
Print Assumptions b32_encode_length.
