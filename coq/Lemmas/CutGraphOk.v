(* C12: the function cut out by a dispatch path satisfies ExecLemmas.graph_ok, for structured contracts
   (GraphWf.struct_ok).  With Lemmas/CutExec.v this closes the end-to-end statements for the cut function's
   contexts: no graph hypothesis is left.

   1. prev_nodup_parsed   predecessor lists of parsed blocks are duplicate free
   2. pinv                the cut graph keeps successor and predecessor lists in agreement
   3. cf_mirror           the same for the function built from it
   4. cutfun_graph_ok     the fields of graph_ok *)
From Coq Require Import String List NArith ZArith Bool Arith Lia.
From Tealer Require Import Tables LeafPrelude Leaves Syntax Parse Cfg StackAst Keys Analysis Domains Detect Group.
From Tealer Require Import CfgLemmas SolverLemmas SubLemmas GraphWf GroupLemmas.
From Tealer Require Import LeafLemmas AssertedLemmas StackLemmas Instances Eval SingleLemmas Runs RunLemmas Exec ExecLemmas GraphOk.
From Tealer Require Import CutExec.
Import ListNotations.
Close Scope string_scope.
Open Scope nat_scope.
Open Scope list_scope.

(* ================================================================== 1. predecessor lists are duplicate free *)
Lemma flat_map_key_nodup {A} (key : A -> nat) (g : A -> list nat) : forall l,
  NoDup (map key l) -> (forall x, g x = [] \/ g x = [key x]) -> NoDup (flat_map g l).
Proof.
  induction l as [|a l IH]; intros Hnd Hg; [constructor|]. simpl in *.
  apply NoDup_cons_iff in Hnd. destruct Hnd as [Ha Hnd]. specialize (IH Hnd Hg).
  destruct (Hg a) as [E|E]; rewrite E; [exact IH|]. simpl. constructor; [|exact IH].
  intros Hin. apply in_flat_map in Hin. destruct Hin as (x & Hx & Hk).
  destruct (Hg x) as [E'|E']; rewrite E' in Hk; [destruct Hk|]. destruct Hk as [Hk|[]].
  apply Ha. rewrite <- Hk. apply in_map. exact Hx.
Qed.

Lemma map_fst_combine_seq {B} (l : list B) : map fst (combine (seq 0 (length l)) l) = seq 0 (length l).
Proof.
  generalize 0. induction l as [|b l IH]; intros a; [reflexivity|]. simpl. rewrite IH. reflexivity.
Qed.

Lemma prev_of_nodup p blocks bs nexts n :
  build_blocks p = Some blocks -> create_bb p = Some bs -> raw_nexts p bs bs 0 = Some nexts ->
  NoDup (prev_of bs nexts n).
Proof.
  intros Hbb Hc Hr.
  destruct (build_blocks_spec p blocks Hbb) as (bs' & nexts' & Hc' & Hr' & Hl1 & Hl2 & Hn).
  rewrite Hc in Hc'. inversion Hc'; subst bs'. rewrite Hr in Hr'. inversion Hr'; subst nexts'.
  unfold prev_of.
  set (g := fun '(m, nx) => if nat_mem n (match nth_error bs m with
                                           | Some b => if rb_dflt b then tl nx else nx | None => nx end)
                            then [m] else @nil nat).
  assert (Hj : NoDup (flat_map g (combine (seq 0 (length nexts)) nexts))).
  { apply (flat_map_key_nodup fst).
    - rewrite map_fst_combine_seq. apply seq_NoDup.
    - intros [m nx]. unfold g. simpl. destruct (nat_mem n _); auto. }
  destruct n as [|m0]; [exact Hj|].
  destruct (nth_error bs m0) as [rb|] eqn:Erb; [|exact Hj].
  destruct (rb_dflt rb) eqn:Ed; [|exact Hj].
  simpl. constructor; [|exact Hj].
  intros Hin. apply in_flat_map in Hin. destruct Hin as ((m & nx) & Hmn & Hg).
  unfold g in Hg. destruct (nat_mem (S m0) _) eqn:Emem; [|destruct Hg]. destruct Hg as [->|[]].
  apply In_nth_error in Hmn. destruct Hmn as (j & Hj'). rewrite nth_error_combine, nth_error_seq' in Hj'.
  destruct (j <? length nexts); [|discriminate].
  destruct (nth_error nexts j) as [nx'|] eqn:Enx; [|discriminate]. inversion Hj'; subst j nx'.
  rewrite Erb, Ed in Emem. apply nat_mem_In in Emem.
  assert (Hlt : m0 < length blocks) by (rewrite Hl2; apply nth_error_Some; congruence).
  destruct (nth_error blocks m0) as [b|] eqn:Eb; [|apply nth_error_None in Eb; lia].
  destruct (Hn m0 b Eb) as (rb' & nx' & Hrb' & Hnx' & Hraw & _).
  rewrite Erb in Hrb'. inversion Hrb'; subst rb'. rewrite Enx in Hnx'. inversion Hnx'; subst nx'.
  destruct (raw_next_spec _ _ _ _ _ Hraw) as (_ & inx & tb & _ & _ & E). rewrite Ed in E.
  assert (Hnd : NoDup nx) by (rewrite E; apply add_new_NoDup; constructor; [intros [] | constructor]).
  destruct (add_new_app tb [S m0]) as (ys & Eys). rewrite Eys in E. subst nx. simpl in Emem, Hnd.
  apply NoDup_cons_iff in Hnd. tauto.
Qed.

Lemma tblock_prev_nodup p t n b : parse_teal p = Ok t -> tblock t n = Some b -> NoDup (b_prev b).
Proof.
  intros H Hb. destruct (parse_teal_blocks p t H) as (bs & Hbs). parsed H Hbs.
  apply (tblock_spec p t bs subs0 Hp Hbs Hm Hblocks Hsubs) in Hb. destruct Hb as (_ & b0 & Hn0 & ->).
  simpl. apply NoDup_filter.
  destruct (build_blocks_spec p bs Hbs) as (rbs & nexts & Hc & Hr & _ & _ & Hn).
  destruct (Hn n b0 Hn0) as (rb & nx & _ & _ & _ & ->). simpl.
  eapply prev_of_nodup; eauto.
Qed.

(* ================================================================== 2. successors and predecessors in the cut graph *)
Lemma remove_first_In x : forall l m, In m (remove_first_nat x l) -> In m l.
Proof.
  induction l as [|y l IH]; intros m H; [destruct H|]. simpl in H. destruct (Nat.eqb x y).
  - right. exact H.
  - destruct H as [<-|H]; [left; reflexivity | right; apply IH; exact H].
Qed.

Lemma remove_first_other x : forall l m, In m l -> m <> x -> In m (remove_first_nat x l).
Proof.
  induction l as [|y l IH]; intros m H Hne; [destruct H|]. simpl. destruct (Nat.eqb x y) eqn:E.
  - apply Nat.eqb_eq in E. subst y. destruct H as [H|H]; [congruence | exact H].
  - destruct H as [<-|H]; [left; reflexivity | right; apply IH; assumption].
Qed.

Lemma remove_first_nodup x : forall l, NoDup l -> NoDup (remove_first_nat x l) /\ ~ In x (remove_first_nat x l).
Proof.
  induction l as [|y l IH]; intros Hnd; [split; [constructor | intros []]|].
  apply NoDup_cons_iff in Hnd. destruct Hnd as [Hy Hnd]. simpl. destruct (Nat.eqb x y) eqn:E.
  - apply Nat.eqb_eq in E. subst y. split; assumption.
  - destruct (IH Hnd) as [H1 H2]. apply Nat.eqb_neq in E. split.
    + constructor; [|exact H1]. intro H. apply Hy. eapply remove_first_In; eauto.
    + intros [H|H]; [congruence | contradiction].
Qed.

Lemma cut_next_has_new : forall l v e k, k < length (cut_list l v) -> In (e + k) (cut_next l v e).
Proof.
  induction l as [|a l IH]; intros v e k Hk; [simpl in Hk; lia|]. unfold cut_list in *. simpl in *.
  destruct (Nat.eqb a v); simpl in *.
  - right. apply IH. exact Hk.
  - destruct k as [|k]; [left; lia|]. right. replace (e + S k) with (S e + k) by lia. apply IH. lia.
Qed.

(* m is a predecessor of y exactly when y is a successor of m *)
Definition bmirror (bs : list block) : Prop :=
  forall y yb m, get_blk bs y = Some yb ->
    (In m (b_prev yb) <-> exists mb, get_blk bs m = Some mb /\ In y (b_next mb)).
Definition prev_nodup (bs : list block) : Prop := forall b, In b bs -> NoDup (b_prev b).

Record pinv (st : fstate) : Prop := {
  pi_wf : fs_wf st;
  pi_mirror : bmirror (fs_blocks st);
  pi_nodup : prev_nodup (fs_blocks st) }.

Lemma get_blk_cut_inv st bi v b x xb' :
  fs_wf st -> get_blk (fs_blocks st) bi = Some b -> get_blk (fs_blocks (cut_block st bi v)) x = Some xb' ->
  (exists xb, get_blk (fs_blocks st) x = Some xb /\
              xb' = cut_upd bi (cut_next (b_next b) v (fs_next_id st)) (cut_list (b_next b) v) xb) \/
  (exists k, k < length (cut_list (b_next b) v) /\ x = fs_next_id st + k /\
             xb' = mkBlock x [length (fs_prog st) + k] [] [bi]).
Proof.
  intros Hwf Hget Hx. destruct (get_blk (fs_blocks st) x) as [xb|] eqn:E.
  - left. exists xb. split; [reflexivity|]. rewrite (cut_block_old st bi v b Hwf Hget x xb E) in Hx. inversion Hx. reflexivity.
  - right. destruct (get_blk_some _ _ _ Hx) as [Hin Hidx].
    assert (Hi : In x (map b_idx (fs_blocks (cut_block st bi v)))) by (rewrite <- Hidx; apply in_map; exact Hin).
    rewrite (cut_block_ids st bi v b Hwf Hget) in Hi. apply in_app_iff in Hi. destruct Hi as [Hi|Hi].
    + apply get_blk_none in E. contradiction.
    + apply in_seq in Hi. exists (x - fs_next_id st). split; [lia|]. split; [lia|].
      destruct (cut_block_new st bi v b Hwf Hget (x - fs_next_id st)) as [Hn _]; [lia|].
      replace (fs_next_id st + (x - fs_next_id st)) with x in Hn by lia. rewrite Hn in Hx. inversion Hx. reflexivity.
Qed.

Lemma pinv_cut_block st bi v : pinv st -> pinv (cut_block st bi v).
Proof.
  intros [Hwf Hmir Hnd].
  destruct (get_blk (fs_blocks st) bi) as [b|] eqn:Hget;
    [|rewrite cut_block_absent by assumption; constructor; assumption].
  set (n0 := fs_next_id st). set (cl := cut_list (b_next b) v). set (nn := cut_next (b_next b) v n0).
  assert (Hold : forall x xb, get_blk (fs_blocks st) x = Some xb ->
                   get_blk (fs_blocks (cut_block st bi v)) x = Some (cut_upd bi nn cl xb))
    by (intros x xb; apply (cut_block_old st bi v b Hwf Hget)).
  assert (Hbi : forall xb, get_blk (fs_blocks st) bi = Some xb -> xb = b) by (intros xb H; congruence).
  assert (Hlt : forall x xb y, get_blk (fs_blocks st) x = Some xb -> In y (b_next xb) -> y < n0).
  { intros x xb y Hx Hy. destruct (get_blk_some _ _ _ Hx) as [Hin _]. eapply (fw_next_lt _ Hwf); eauto. }
  assert (Hidlt : forall x xb, get_blk (fs_blocks st) x = Some xb -> x < n0).
  { intros x xb Hx. destruct (get_blk_some _ _ _ Hx) as [Hin Hidx]. apply (fw_ids _ Hwf). rewrite <- Hidx. apply in_map. exact Hin. }
  assert (Hinv : forall x xb', get_blk (fs_blocks (cut_block st bi v)) x = Some xb' ->
            (exists xb, get_blk (fs_blocks st) x = Some xb /\ xb' = cut_upd bi nn cl xb) \/
            (exists k, k < length cl /\ x = n0 + k /\ xb' = mkBlock x [length (fs_prog st) + k] [] [bi]))
    by (intros x xb'; apply (get_blk_cut_inv st bi v b x xb' Hwf Hget)).
  constructor.
  - apply (cut_block_wf st bi v b Hwf Hget).
  - intros y yb' m Hy.
    destruct (Hinv y yb' Hy) as [(yb & Hyb & ->)|(k & Hk & -> & ->)].
    + (* an old block *)
      destruct (get_blk_some _ _ _ Hyb) as [_ Hyidx]. unfold cut_upd at 1. cbn [b_prev]. rewrite Hyidx. clear Hyidx.
      split.
      * intros Hm.
        assert (Hm0 : In m (b_prev yb)) by (destruct (nat_mem y cl); [eapply remove_first_In; eauto | exact Hm]).
        destruct (proj1 (Hmir y yb m Hyb) Hm0) as (mb & Hmb & Hym).
        exists (cut_upd bi nn cl mb). split; [apply Hold; exact Hmb|].
        destruct (get_blk_some _ _ _ Hmb) as [_ Hmidx]. unfold cut_upd. cbn [b_next]. rewrite Hmidx.
        destruct (Nat.eqb m bi) eqn:Em; [|exact Hym]. apply Nat.eqb_eq in Em. clear Hmidx. subst m.
        rewrite (Hbi mb Hmb) in Hym.
        destruct (nat_mem y cl) eqn:Ecl.
        -- exfalso. destruct (get_blk_some _ _ _ Hyb) as [Hyin _].
           destruct (remove_first_nodup bi (b_prev yb) (Hnd yb Hyin)) as [_ Hni]. contradiction.
        -- assert (Hyv : y = v).
           { destruct (Nat.eq_dec y v) as [E|E]; [exact E|]. exfalso.
             assert (In y cl) by (apply cut_list_In; auto). apply nat_mem_In in H. congruence. }
           subst y. apply cut_next_keeps. exact Hym.
      * intros (mb' & Hmb' & Hym).
        destruct (Hinv m mb' Hmb') as [(mb & Hmb & ->)|(k & _ & _ & ->)]; [|destruct Hym].
        destruct (get_blk_some _ _ _ Hmb) as [_ Hmidx]. unfold cut_upd in Hym. cbn [b_next] in Hym. rewrite Hmidx in Hym.
        destruct (Nat.eqb m bi) eqn:Em.
        -- apply Nat.eqb_eq in Em. clear Hmidx. subst m. rewrite (Hbi mb Hmb) in *.
           apply cut_next_In in Hym. destruct Hym as [[-> Hv]|Hge]; [|pose proof (Hidlt y yb Hyb); unfold n0 in *; lia].
           assert (Ecl : nat_mem v cl = false).
           { apply nat_mem_false. intro H. apply cut_list_In in H. tauto. }
           rewrite Ecl. apply (Hmir v yb bi Hyb). exists b. auto.
        -- apply Nat.eqb_neq in Em.
           assert (Hm0 : In m (b_prev yb)) by (apply (Hmir y yb m Hyb); eauto).
           destruct (nat_mem y cl); [apply remove_first_other; assumption | exact Hm0].
    + (* a new err block *)
      cbn [b_prev]. split.
      * intros [<-|[]]. exists (cut_upd bi nn cl b). split; [apply Hold; exact Hget|].
        destruct (get_blk_some _ _ _ Hget) as [_ Hbidx]. unfold cut_upd. cbn [b_next]. rewrite Hbidx, Nat.eqb_refl.
        apply cut_next_has_new. exact Hk.
      * intros (mb' & Hmb' & Hym). left.
        destruct (Hinv m mb' Hmb') as [(mb & Hmb & ->)|(k' & _ & _ & ->)]; [|destruct Hym].
        destruct (get_blk_some _ _ _ Hmb) as [_ Hmidx]. unfold cut_upd in Hym. cbn [b_next] in Hym. rewrite Hmidx in Hym.
        destruct (Nat.eqb m bi) eqn:Em; [apply Nat.eqb_eq in Em; symmetry; exact Em|].
        pose proof (Hlt m mb _ Hmb Hym). unfold n0 in *. lia.
  - intros x Hx. rewrite (cut_block_blocks st bi v b Hwf Hget) in Hx. apply in_app_iff in Hx. destruct Hx as [Hx|Hx].
    + apply in_map_iff in Hx. destruct Hx as (xb & <- & Hxb). unfold cut_upd. cbn [b_prev].
      destruct (nat_mem (b_idx xb) _); [apply remove_first_nodup|]; apply Hnd; exact Hxb.
    + apply err_blocks_In in Hx. destruct Hx as (k & _ & ->). cbn [b_prev]. constructor; [intros [] | constructor].
Qed.

Lemma pinv_cut_path : forall path st, pinv st -> pinv (cut_path st path).
Proof.
  induction path as [|a path IH]; intros st H; [exact H|].
  destruct path as [|b rest]; [exact H|]. rewrite cut_path_cons2. apply IH. apply pinv_cut_block. exact H.
Qed.

(* ================================================================== 3. graph_ok from structural facts *)
(* The proofs of GraphWf / GraphOk for the whole contract's function, redone for any function that satisfies
   the facts they rest on. *)
Lemma find_name_self (l : list subroutine) s :
  NoDup (map s_name l) -> In s l -> find (fun s0 => String.eqb (s_name s0) (s_name s)) l = Some s.
Proof.
  induction l as [|a l IH]; intros Hnd Hs; [destruct Hs|].
  simpl in *. apply NoDup_cons_iff in Hnd. destruct Hnd as [Ha Hnd]. destruct Hs as [->|Hs].
  - rewrite String.eqb_refl. reflexivity.
  - destruct (String.eqb (s_name a) (s_name s)) eqn:E.
    + apply String.eqb_eq in E. exfalso. apply Ha. rewrite E. apply in_map. assumption.
    + apply IH; assumption.
Qed.

Section GraphFacts.
  Variable g : func.
  Notation asubs := (fn_all_subs g).
  Hypothesis Gnames_nodup : NoDup (map s_name asubs).
  Hypothesis Gnames : forall s, In s asubs -> s_name s <> EmptyString.
  Hypothesis Gsubs_sub : forall s, In s (fn_subs g) -> In s asubs.
  Hypothesis Gmain_disj : forall s n, In s asubs -> In n (s_blocks s) -> ~ In n (fn_main g).
  Hypothesis Gsub_disj : forall s1 s2 n, In s1 asubs -> In s2 asubs -> In n (s_blocks s1) -> In n (s_blocks s2) -> s1 = s2.
  Hypothesis Gwhere : forall x xb, fblock g x = Some xb ->
    In x (fn_main g) \/ exists s, In s (fn_subs g) /\ In x (s_blocks s).
  Hypothesis Gmirror : forall x y xb yb, fblock g x = Some xb -> fblock g y = Some yb ->
    (In y (b_next xb) <-> In x (b_prev yb)).
  Hypothesis Gprevc : forall y yb m, fblock g y = Some yb -> In m (b_prev yb) -> exists mb, fblock g m = Some mb.
  Hypothesis Gsuccc : forall x xb y, fblock g x = Some xb -> In y (b_next xb) -> exists yb, fblock g y = Some yb.
  Hypothesis Gcsnext : forall c cb r, fblock g c = Some cb -> f_is_callsub g cb = true -> In r (b_next cb) -> b_next cb = [r].
  Hypothesis Gretnn : forall x xb, fblock g x = Some xb -> f_is_retsub g xb = true -> b_next xb = [].
  Hypothesis Gretp : forall c cb r rb m, fblock g c = Some cb -> f_is_callsub g cb = true -> In r (b_next cb) ->
    fblock g r = Some rb -> In m (b_prev rb) -> m = c.
  Hypothesis Gentries : forall e eb, (e = fn_entry g \/ exists s, In s asubs /\ e = s_entry s) ->
    fblock g e = Some eb -> b_prev eb = [].
  Hypothesis Gcallc : forall x xb l, fblock g x = Some xb -> fexit_op g xb = Some (ICallsub l) ->
    exists s, f_find_sub g l = Some s /\ In s (fn_subs g) /\ s_name s = l.
  Hypothesis Gsubin : forall s n, In s (fn_subs g) -> In n (s_blocks s) -> exists b, fblock g n = Some b.
  Hypothesis Gfound : forall b, In b (fn_blocks g) -> fblock g (b_idx b) = Some b.
  Hypothesis Gentry_in : forall s, In s asubs -> In (s_entry s) (s_blocks s).
  Hypothesis Gsub_closed : forall s x xb y, In s asubs -> In x (s_blocks s) -> fblock g x = Some xb ->
    In y (b_next xb) -> In y (s_blocks s).
  Hypothesis Gentry : exists eb, fblock g (fn_entry g) = Some eb.
  Hypothesis Gmain_reach : forall x xb, In x (fn_main g) -> fblock g x = Some xb -> FReach g (fn_entry g) x.
  Hypothesis Gsub_reach : forall s x, In s (fn_subs g) -> In x (s_blocks s) -> FReach g (s_entry s) x.

  Lemma g_find_some l s : f_find_sub g l = Some s -> In s asubs /\ s_name s = l.
  Proof. unfold f_find_sub. intros H. apply find_some in H. destruct H as [H1 H2]. apply String.eqb_eq in H2. auto. Qed.

  Lemma g_find_self s : In s asubs -> f_find_sub g (s_name s) = Some s.
  Proof. intros Hs. unfold f_find_sub. apply find_name_self; assumption. Qed.

  Lemma g_sub_of_main n : In n (fn_main g) -> f_sub_of g n = Some EmptyString.
  Proof. intros Hn. unfold f_sub_of. apply nat_mem_In in Hn. rewrite Hn. reflexivity. Qed.

  Lemma g_sub_of_sub s n : In s asubs -> In n (s_blocks s) -> f_sub_of g n = Some (s_name s).
  Proof.
    intros Hs Hn. unfold f_sub_of.
    destruct (nat_mem n (fn_main g)) eqn:Em.
    { apply nat_mem_In in Em. exfalso. eapply Gmain_disj; eauto. }
    destruct (find (fun s0 => nat_mem n (s_blocks s0)) (rev asubs)) as [s'|] eqn:E.
    - apply find_some in E. destruct E as [H1 H2]. apply in_rev in H1. apply nat_mem_In in H2.
      rewrite (Gsub_disj s' s n H1 Hs H2 Hn). reflexivity.
    - exfalso. assert (Hin : In s (rev asubs)) by (rewrite <- in_rev; exact Hs).
      pose proof (find_none _ _ E s Hin) as Hf. simpl in Hf. apply nat_mem_In in Hn. congruence.
  Qed.

  Lemma g_used_some s : In s (fn_subs g) -> exists s', f_used_sub g (s_name s) = Some s'.
  Proof.
    intros Hs. unfold f_used_sub.
    destruct (find (fun s0 => String.eqb (s_name s0) (s_name s)) (fn_subs g)) as [s'|] eqn:E; [eauto|].
    exfalso. pose proof (find_none _ _ E s Hs) as Hf. simpl in Hf. rewrite String.eqb_refl in Hf. discriminate.
  Qed.

  Lemma g_used_in name s' : f_used_sub g name = Some s' -> In s' (fn_subs g) /\ s_name s' = name.
  Proof. unfold f_used_sub. intros H. apply find_some in H. destruct H as [H1 H2]. apply String.eqb_eq in H2. auto. Qed.

  Lemma g_is_entry_main n : is_entry_of g EmptyString n = Nat.eqb (fn_entry g) n.
  Proof. reflexivity. Qed.

  Lemma g_is_entry_sub s n : In s asubs -> is_entry_of g (s_name s) n = Nat.eqb (s_entry s) n.
  Proof.
    intros Hs. unfold is_entry_of, sub_entry_of.
    destruct (String.eqb (s_name s) EmptyString) eqn:E.
    { apply String.eqb_eq in E. exfalso. eapply Gnames; eauto. }
    rewrite (g_find_self s Hs). reflexivity.
  Qed.

  (* owner of a block *)
  Inductive gowner (n : nat) : string -> Prop :=
  | gown_main : In n (fn_main g) -> gowner n EmptyString
  | gown_sub s : In s (fn_subs g) -> In n (s_blocks s) -> gowner n (s_name s).

  Lemma gowner_exists n xb : fblock g n = Some xb -> exists name, gowner n name.
  Proof.
    intros H. destruct (Gwhere n xb H) as [Hm|(s & Hs & Hn)].
    - exists EmptyString. constructor. exact Hm.
    - exists (s_name s). econstructor; eauto.
  Qed.

  Lemma gowner_sub_of n name : gowner n name -> f_sub_of g n = Some name.
  Proof. intros [H|s Hs H]; [apply g_sub_of_main; exact H | apply g_sub_of_sub; auto]. Qed.

  Lemma g_is_rp_true xb c cb :
    In c (b_prev xb) -> fblock g c = Some cb -> f_is_callsub g cb = true -> is_sub_return_point g xb = true.
  Proof.
    intros Hc Hcb Hcs. unfold is_sub_return_point. apply existsb_exists. exists c.
    split; [assumption|]. rewrite Hcb. exact Hcs.
  Qed.

  Lemma g_cbo_some xb c :
    callsub_block_of g xb = Some c -> In c (b_prev xb) /\ exists cb, fblock g c = Some cb /\ f_is_callsub g cb = true.
  Proof.
    unfold callsub_block_of. intros H. apply find_some in H. destruct H as [H1 H2].
    split; [assumption|]. destruct (fblock g c) as [cb|]; [|discriminate]. exists cb. auto.
  Qed.

  Lemma g_is_rp_cbo xb : is_sub_return_point g xb = true -> exists c, callsub_block_of g xb = Some c.
  Proof.
    unfold is_sub_return_point, callsub_block_of. intros H. apply existsb_exists in H.
    destruct H as (c & Hc & Hp).
    destruct (find _ (b_prev xb)) as [c'|] eqn:E; [eauto|].
    pose proof (find_none _ _ E c Hc) as Hf. simpl in Hf. congruence.
  Qed.

  Lemma g_cbo_unique x xb r rb :
    fblock g x = Some xb -> f_is_callsub g xb = true -> In r (b_next xb) -> fblock g r = Some rb ->
    is_sub_return_point g rb = true /\ callsub_block_of g rb = Some x.
  Proof.
    intros Hx Hcs Hr Hrb.
    assert (Hpx : In x (b_prev rb)) by (apply (Gmirror x r xb rb Hx Hrb); assumption).
    assert (Hrp : is_sub_return_point g rb = true) by (eapply g_is_rp_true; eauto).
    split; [assumption|]. destruct (g_is_rp_cbo rb Hrp) as (c & Hc). rewrite Hc. f_equal.
    destruct (g_cbo_some rb c Hc) as (Hcp & _). exact (Gretp x xb r rb c Hx Hcs Hr Hrb Hcp).
  Qed.

  Lemma g_callsub_exit xb : f_is_callsub g xb = true -> exists l, fexit_op g xb = Some (ICallsub l).
  Proof. unfold f_is_callsub. destruct (fexit_op g xb) as [i|]; [|discriminate]. destruct i; try discriminate. eauto. Qed.

  Lemma g_callsub_of_exit xb l : fexit_op g xb = Some (ICallsub l) -> f_is_callsub g xb = true.
  Proof. unfold f_is_callsub. intros ->. reflexivity. Qed.

  Lemma g_in_callers cb l : In cb (f_callers g l) <-> In cb (fn_blocks g) /\ fexit_op g cb = Some (ICallsub l).
  Proof.
    unfold f_callers. rewrite filter_In. split; intros [H1 H2]; split; auto.
    - destruct (fexit_op g cb) as [i|]; [|discriminate]. destruct i; try discriminate.
      apply String.eqb_eq in H2. congruence.
    - rewrite H2. apply String.eqb_refl.
  Qed.

  Lemma g_next_retsub xb name s' :
    f_is_retsub g xb = true -> f_sub_of g (b_idx xb) = Some name -> f_used_sub g name = Some s' ->
    next_global g xb = Some (f_return_points g name).
  Proof. intros Hr Hn Hu. unfold next_global. rewrite Hr, Hn, Hu. reflexivity. Qed.

  Lemma g_in_return_points c cb l x :
    fblock g c = Some cb -> fexit_op g cb = Some (ICallsub l) -> In x (b_next cb) -> In x (f_return_points g l).
  Proof.
    intros Hc He Hx. unfold f_return_points. apply in_flat_map. exists cb. split.
    - apply g_in_callers. split; [eapply fblock_In; eauto | assumption].
    - rewrite (Gcsnext c cb x Hc (g_callsub_of_exit cb l He) Hx). left; reflexivity.
  Qed.

  Theorem g_cover_ret : cover_ret_P g.
  Proof.
    intros x xb c Hx Hrp Hc. destruct (g_cbo_some xb c Hc) as (Hcp & cb & Hcb & Hcs).
    exists cb. split; [assumption|]. split; [exact Hcs|].
    assert (Hxc : In x (b_next cb)) by (apply (Gmirror c x cb xb Hcb Hx); assumption).
    unfold sub_return_point. rewrite (Gcsnext c cb x Hcb Hcs Hxc). reflexivity.
  Qed.

  Theorem g_cover_call : cover_call_P g.
  Proof.
    intros x xb l r s Hx Hop Hr _ _.
    pose proof (g_callsub_of_exit xb l Hop) as Hcs.
    assert (Hrn : In r (b_next xb)).
    { unfold sub_return_point in Hr. destruct (b_next xb); [discriminate|]. inversion Hr. left; reflexivity. }
    destruct (Gsuccc x xb r Hx Hrn) as (rb & Hrb).
    exists rb. split; [assumption|]. eapply g_cbo_unique; eauto.
  Qed.

  Lemma g_cover_prev_nonentry b x xb ps :
    fblock g x = Some xb -> prev_nonentry g xb = Some ps -> In b ps ->
    exists bb nx, fblock g b = Some bb /\ next_global g bb = Some nx /\ In x nx.
  Proof.
    intros Hx Hps Hin. unfold prev_nonentry in Hps. destruct (is_sub_return_point g xb) eqn:Hrp.
    - destruct (callsub_block_of g xb) as [c|] eqn:Hc; [|discriminate].
      destruct (g_cbo_some xb c Hc) as (Hcp & cb & Hcb & Hcs).
      rewrite Hcb in Hps. destruct (g_callsub_exit cb Hcs) as (l & He). rewrite He in Hps.
      destruct (Gcallc c cb l Hcb He) as (s & Hfs & Hsw & Hsn).
      rewrite Hfs in Hps. simpl in Hps. inversion Hps; subst ps.
      unfold sub_retsub_blocks in Hin. apply filter_In in Hin. destruct Hin as [Hbs' Hbr].
      destruct (fblock g b) as [bb|] eqn:Hbb; [|discriminate].
      exists bb, (f_return_points g l). split; [reflexivity|]. split.
      + destruct (g_used_some s Hsw) as (s' & Hu). rewrite Hsn in Hu.
        apply (g_next_retsub bb l s'); [exact Hbr| |exact Hu].
        rewrite (fblock_idx g b bb Hbb). rewrite <- Hsn. apply g_sub_of_sub; [apply Gsubs_sub|]; assumption.
      + assert (Hxc : In x (b_next cb)) by (apply (Gmirror c x cb xb Hcb Hx); assumption).
        eapply g_in_return_points; eauto.
    - inversion Hps; subst ps.
      destruct (Gprevc x xb b Hx Hin) as (bb & Hfb).
      assert (Hxn : In x (b_next bb)) by (apply (Gmirror b x bb xb Hfb Hx); assumption).
      exists bb, (b_next bb). split; [assumption|]. split; [|assumption].
      apply next_global_edge.
      + destruct (f_is_callsub g bb) eqn:E; [|reflexivity]. exfalso.
        rewrite (g_is_rp_true xb b bb Hin Hfb E) in Hrp. discriminate.
      + destruct (f_is_retsub g bb) eqn:E; [|reflexivity]. exfalso.
        rewrite (Gretnn b bb Hfb E) in Hxn. destruct Hxn.
  Qed.

  Theorem g_cover_prev : cover_prev_P g.
  Proof.
    intros b x xb ps Hx Hps Hin. rewrite prev_global_eq, (fblock_idx g x xb Hx) in Hps.
    destruct (gowner_exists x xb Hx) as (name & Hown). rewrite (gowner_sub_of x name Hown) in Hps.
    destruct Hown as [Hm|s Hs Hxs].
    - rewrite g_is_entry_main in Hps. destruct (Nat.eqb (fn_entry g) x) eqn:E0.
      + simpl in Hps. inversion Hps; subst ps. destruct Hin.
      + eapply g_cover_prev_nonentry; eauto.
    - pose proof (Gsubs_sub s Hs) as Hs'.
      rewrite (g_is_entry_sub s x Hs') in Hps. destruct (Nat.eqb (s_entry s) x) eqn:E0.
      + apply Nat.eqb_eq in E0.
        destruct (String.eqb (s_name s) EmptyString) eqn:En.
        { apply String.eqb_eq in En. exfalso. eapply Gnames; eauto. }
        destruct (f_used_sub g (s_name s)); [|discriminate]. inversion Hps; subst ps.
        apply in_map_iff in Hin. destruct Hin as (cb & <- & Hcb). apply g_in_callers in Hcb.
        destruct Hcb as [Hcbin Hce].
        exists cb, [s_entry s]. split; [apply Gfound; assumption|]. split; [|left; assumption].
        apply (next_global_call g cb (s_name s) s Hce). apply g_find_self. exact Hs'.
      + eapply g_cover_prev_nonentry; eauto.
  Qed.

  Lemma g_not_entry_of b bb m nb :
    fblock g b = Some bb -> In m (b_prev bb) -> gowner b nb -> is_entry_of g nb b = false.
  Proof.
    intros Htb Hm Hown. destruct Hown as [Hmain|s Hs Hbs'].
    - rewrite g_is_entry_main. destruct (Nat.eqb (fn_entry g) b) eqn:E; [|reflexivity]. apply Nat.eqb_eq in E. exfalso.
      rewrite (Gentries b bb (or_introl (eq_sym E)) Htb) in Hm. destruct Hm.
    - pose proof (Gsubs_sub s Hs) as Hs'. rewrite (g_is_entry_sub s b Hs').
      destruct (Nat.eqb (s_entry s) b) eqn:E; [|reflexivity]. apply Nat.eqb_eq in E. exfalso.
      assert (He : b = fn_entry g \/ exists s0, In s0 asubs /\ b = s_entry s0) by (right; exists s; auto).
      rewrite (Gentries b bb He Htb) in Hm. destruct Hm.
  Qed.

  Lemma g_succ_block x xb b :
    fblock g x = Some xb -> In b (b_next xb) -> exists bb, fblock g b = Some bb /\ In x (b_prev bb).
  Proof.
    intros Hx Hb. destruct (Gsuccc x xb b Hx Hb) as (bb & Hbb). exists bb. split; [assumption|].
    apply (Gmirror x b xb bb Hx Hbb). assumption.
  Qed.

  Theorem g_cover_next : cover_next_P g.
  Proof.
    intros b x xb nx Hx Hleaf Hnx Hin.
    destruct (f_is_retsub g xb) eqn:Hr.
    - (* x is a retsub block: b is a return point of x's subroutine *)
      unfold next_global in Hnx. rewrite Hr, (fblock_idx g x xb Hx) in Hnx.
      destruct (gowner_exists x xb Hx) as (name & Hown). rewrite (gowner_sub_of x name Hown) in Hnx.
      destruct (f_used_sub g name) as [s'|] eqn:Hu; [|discriminate]. inversion Hnx; subst nx.
      destruct (g_used_in name s' Hu) as [Hs'w Hs'n].
      destruct Hown as [Hm|s Hs Hxs].
      { exfalso. eapply Gnames; [apply (Gsubs_sub s' Hs'w) | exact Hs'n]. }
      pose proof (Gsubs_sub s Hs) as Hst.
      unfold f_return_points in Hin. apply in_flat_map in Hin. destruct Hin as (cb & Hcb & Hbn).
      apply g_in_callers in Hcb. destruct Hcb as [Hcbin Hce].
      pose proof (Gfound cb Hcbin) as Hfc.
      assert (Hbnx : In b (b_next cb)).
      { destruct (b_next cb) as [|r [|r' l']]; simpl in Hbn; try (destruct Hbn; fail).
        destruct Hbn as [<-|[]]. left; reflexivity. }
      pose proof (g_callsub_of_exit cb _ Hce) as Hcs.
      destruct (g_succ_block (b_idx cb) cb b Hfc Hbnx) as (bb & Hfb & Hcp).
      exists bb, (sub_retsub_blocks g s). split; [assumption|]. split.
      + rewrite prev_global_eq, (fblock_idx g b bb Hfb).
        destruct (gowner_exists b bb Hfb) as (nb & Hownb). rewrite (gowner_sub_of b nb Hownb).
        rewrite (g_not_entry_of b bb (b_idx cb) nb Hfb Hcp Hownb). unfold prev_nonentry.
        destruct (g_cbo_unique (b_idx cb) cb b bb Hfc Hcs Hbnx Hfb) as [Hrp Hcbo].
        rewrite Hrp, Hcbo, Hfc, Hce, (g_find_self s Hst). reflexivity.
      + unfold sub_retsub_blocks. apply filter_In. split; [assumption|]. rewrite Hx. exact Hr.
    - destruct (f_is_callsub g xb) eqn:Hc.
      + (* x is a callsub block: b is the entry of the callee *)
        destruct (g_callsub_exit xb Hc) as (l & He).
        destruct (Gcallc x xb l Hx He) as (s & Hfs & Hsw & Hsn).
        rewrite (next_global_call g xb l s He Hfs) in Hnx. inversion Hnx; subst nx. destruct Hin as [<-|[]].
        pose proof (Gsubs_sub s Hsw) as Hst.
        pose proof (Gentry_in s Hst) as Hein.
        destruct (Gsubin s _ Hsw Hein) as (bb & Hfb).
        exists bb, (map b_idx (f_callers g l)). split; [assumption|]. split.
        * rewrite prev_global_eq, (fblock_idx g _ bb Hfb), (g_sub_of_sub s _ Hst Hein),
            (g_is_entry_sub s _ Hst), Nat.eqb_refl.
          destruct (String.eqb (s_name s) EmptyString) eqn:En.
          { apply String.eqb_eq in En. exfalso. eapply Gnames; eauto. }
          destruct (g_used_some s Hsw) as (s' & Hu). rewrite Hu, Hsn. reflexivity.
        * apply in_map_iff. exists xb. split; [eapply fblock_idx; eauto|].
          apply g_in_callers. split; [eapply fblock_In; eauto | assumption].
      + (* plain block: local edge *)
        rewrite (next_global_edge g xb Hc Hr) in Hnx. inversion Hnx; subst nx.
        destruct (g_succ_block x xb b Hx Hin) as (bb & Hfb & Hxp).
        exists bb, (b_prev bb). split; [assumption|]. split; [|assumption].
        rewrite prev_global_eq, (fblock_idx g b bb Hfb).
        destruct (gowner_exists b bb Hfb) as (nb & Hownb). rewrite (gowner_sub_of b nb Hownb).
        rewrite (g_not_entry_of b bb x nb Hfb Hxp Hownb). unfold prev_nonentry.
        destruct (is_sub_return_point g bb) eqn:Hrp; [|reflexivity]. exfalso.
        destruct (g_is_rp_cbo bb Hrp) as (c & Hcc).
        destruct (g_cbo_some bb c Hcc) as (Hcp & cb & Hcb & Hcs).
        assert (Hbc : In b (b_next cb)) by (apply (Gmirror c b cb bb Hcb Hfb); assumption).
        pose proof (Gretp c cb b bb x Hcb Hcs Hbc Hfb Hxp) as E. subst c.
        rewrite Hx in Hcb. inversion Hcb; subst cb. congruence.
  Qed.

  Theorem g_entry_ok : entry_ok_P g.
  Proof.
    destruct Gentry as (eb & Heb). exists eb. split; [exact Heb|].
    unfold is_sub_return_point. rewrite (Gentries _ eb (or_introl eq_refl) Heb). reflexivity.
  Qed.

  Theorem g_target_not_rp : target_not_rp_P g.
  Proof.
    intros b blk nx b' xb' Hb Hnr Hnx Hin Hb'.
    destruct (f_is_callsub g blk) eqn:Hc.
    - destruct (g_callsub_exit blk Hc) as (l & He).
      destruct (Gcallc b blk l Hb He) as (s & Hfs & Hsw & _).
      rewrite (next_global_call g blk l s He Hfs) in Hnx. inversion Hnx; subst nx. destruct Hin as [<-|[]].
      assert (Hent : s_entry s = fn_entry g \/ exists s0, In s0 asubs /\ s_entry s = s_entry s0).
      { right. exists s. split; [apply Gsubs_sub; assumption | reflexivity]. }
      unfold is_sub_return_point. rewrite (Gentries (s_entry s) xb' Hent Hb'). reflexivity.
    - rewrite (next_global_edge g blk Hc Hnr) in Hnx. inversion Hnx; subst nx.
      destruct (is_sub_return_point g xb') eqn:Hrp; [|reflexivity]. exfalso.
      destruct (g_is_rp_cbo xb' Hrp) as (c & Hcc).
      destruct (g_cbo_some xb' c Hcc) as (Hcp & cb & Hcb & Hcs).
      assert (Hbc : In b' (b_next cb)) by (apply (Gmirror c b' cb xb' Hcb Hb'); assumption).
      assert (Hxp : In b (b_prev xb')) by (apply (Gmirror b b' blk xb' Hb Hb'); assumption).
      pose proof (Gretp c cb b' xb' b Hcb Hcs Hbc Hb' Hxp) as E. subst c.
      rewrite Hb in Hcb. inversion Hcb; subst cb. congruence.
  Qed.

  Theorem g_sub_entry_in : sub_entry_in_P g.
  Proof. intros l s Hs. apply g_find_some in Hs. apply Gentry_in. tauto. Qed.

  Theorem g_sub_closed : sub_closed_P g.
  Proof. intros l s b blk b' Hs Hin Hb Hn. apply g_find_some in Hs. eapply Gsub_closed; eauto. tauto. Qed.

  Theorem g_sub_of : sub_of_P g.
  Proof.
    intros l s b Hs Hin. apply g_find_some in Hs. destruct Hs as [Hs <-]. apply g_sub_of_sub; assumption.
  Qed.

  Theorem g_callsub_one_next : callsub_one_next_P g.
  Proof.
    intros b blk Hb Hc. destruct (b_next blk) as [|r l] eqn:E; [simpl; lia|].
    assert (Hr : In r (b_next blk)) by (rewrite E; left; reflexivity).
    pose proof (Gcsnext b blk r Hb Hc Hr) as E'. rewrite E in E'. inversion E'. simpl. lia.
  Qed.

  Theorem g_ret_in_next : ret_in_next_P g.
  Proof. exact (ret_in_next_from g g_sub_of g_callsub_one_next). Qed.

  (* worklists *)
  Lemma g_fsuccs_closed n y : In y (fsuccs g n) -> In y (map b_idx (fn_blocks g)).
  Proof.
    unfold fsuccs. destruct (fblock g n) as [b|] eqn:E; [|intros []]. intros Hy.
    destruct (Gsuccc n b y E Hy) as (yb & Hyb). apply fblock_ids. eauto.
  Qed.

  Lemma g_in_some_postorder n xb : fblock g n = Some xb -> exists l, In l (postorders g) /\ In n l.
  Proof.
    intros Hn. destruct Gentry as (eb & Heb).
    destruct (Gwhere n xb Hn) as [Hm|(s & Hs & Hns)].
    - exists (postorder g (fn_entry g)). split; [left; reflexivity|].
      apply (postorder_complete g _ g_fsuccs_closed (fn_entry g) n eq_refl).
      + apply fblock_ids. eauto.
      + eapply Gmain_reach; eauto.
    - exists (postorder g (s_entry s)). split.
      + right. apply in_map_iff. exists s. split; [reflexivity | exact Hs].
      + apply (postorder_complete g _ g_fsuccs_closed (s_entry s) n eq_refl).
        * destruct (Gsubin s _ Hs (Gentry_in s (Gsubs_sub s Hs))) as (b & Hb). apply fblock_ids. eauto.
        * apply Gsub_reach; assumption.
  Qed.

  Theorem g_forward_cover b : In b (ids g) -> In b (forward_worklist g).
  Proof.
    intros Hb. apply fblock_ids in Hb. destruct Hb as (xb & Hb). destruct (g_in_some_postorder b xb Hb) as (l & Hl & Hin).
    unfold forward_worklist. apply in_flat_map. exists l. split; [assumption|]. rewrite <- in_rev. assumption.
  Qed.

  Theorem g_backward_cover b xb : fblock g b = Some xb -> leaf_global g xb = false -> In b (backward_worklist g).
  Proof.
    intros Hx Hleaf. destruct (g_in_some_postorder b xb Hx) as (l & Hl & Hin).
    unfold backward_worklist. apply in_flat_map. exists l. split; [assumption|].
    apply filter_In. split; [assumption|]. rewrite Hx, Hleaf. reflexivity.
  Qed.

  Theorem graph_ok_of_facts : ins_nodup_P g -> next_nodup_P g -> branch_labels_P g -> graph_ok g.
  Proof.
    intros H1 H2 H3. constructor.
    - exact g_cover_prev.
    - exact g_cover_ret.
    - exact g_cover_next.
    - exact g_cover_call.
    - exact g_entry_ok.
    - exact g_target_not_rp.
    - exact g_sub_entry_in.
    - exact g_sub_closed.
    - exact g_ret_in_next.
    - exact g_forward_cover.
    - exact g_backward_cover.
    - exact H1.
    - exact H2.
    - exact H3.
  Qed.
End GraphFacts.

(* ================================================================== 4. the cut function satisfies the facts *)
Section CutFacts.
  Variables (p : prog) (t : teal) (path : list nat).
  Hypothesis Hparse : parse_teal p = Ok t.
  Hypothesis Hwalk : walk_path t path [0] [] = Ok path.
  Hypothesis Hhead : exists rest, path = 0 :: rest.
  Hypothesis Hok : struct_ok t.

  Let N0 := S (max_idx (t_blocks t)).
  Let mainl := s_blocks (t_main t).
  Let st := cf_st t path.
  Let bl := fs_blocks st.
  Let mids := cf_main_ids t path.
  Notation g := (cf_func t path).
  Notation W := (whole_function t).

  (* ---------------------------------------------------------------- the cut graph *)
  Lemma cg_state0_pinv : pinv (fn_state0 t).
  Proof.
    constructor.
    - apply (fn_state0_wf p t Hparse).
    - intros y yb m Hy.
      destruct (get_blk_some _ _ _ Hy) as [Hin Hidx]. apply (lookup_blocks_In t) in Hin. rewrite Hidx in Hin.
      destruct Hin as [Hym Hty]. split.
      + intros Hm. pose proof (struct_ok_main_prev p t Hparse Hok y yb m Hym Hty Hm) as Hmm.
        destruct (main_tblock p t Hparse m Hmm) as (mb & Hmb). exists mb.
        split; [rewrite (fn_state0_get p t Hparse m Hmm); exact Hmb|].
        apply (tblock_mirror p t m y mb yb Hparse Hmb Hty). exact Hm.
      + intros (mb & Hmb & Hyn). destruct (get_blk_some _ _ _ Hmb) as [Hin Hmidx].
        apply (lookup_blocks_In t) in Hin. rewrite Hmidx in Hin. destruct Hin as [_ Htm].
        apply (tblock_mirror p t m y mb yb Hparse Htm Hty). exact Hyn.
    - intros b Hb. apply (lookup_blocks_In t) in Hb. destruct Hb as [_ Hb]. eapply tblock_prev_nodup; eauto.
  Qed.

  Lemma cg_pinv : pinv st.
  Proof. apply pinv_cut_path. exact cg_state0_pinv. Qed.

  (* ---------------------------------------------------------------- blocks of subroutines *)
  Lemma cg_sub_tblock s n : In s (t_subs t) -> In n (s_blocks s) -> exists b, tblock t n = Some b.
  Proof.
    intros Hs Hn. destruct (parse_teal_blocks p t Hparse) as (bs & Hbs).
    apply (tblock_retained_ids p t n Hparse). destruct (retained_char p t bs Hparse Hbs) as (Hr & _).
    apply Hr. right. exists s. split; [exact Hs|]. apply (sub_reach p t bs Hparse Hbs s n Hs). exact Hn.
  Qed.

  Lemma cg_mids_cases x : In x mids -> (x < N0 /\ In x mainl) \/ N0 <= x.
  Proof.
    intros Hx. destruct (cf_get t path x (cf_mids_ids p t path Hparse x Hx)) as (xb & Hg).
    destruct (le_lt_dec N0 x) as [H|H]; [right; exact H|]. left. split; [exact H|].
    apply (cf_bl_old p t path Hparse x xb Hg H).
  Qed.

  Lemma cg_sub_not_mids s n : In s (t_subs t) -> In n (s_blocks s) -> ~ In n mids.
  Proof.
    intros Hs Hn Hm. destruct (cg_mids_cases n Hm) as [[_ Hmain]|Hge].
    - exact (so_main_disj t Hok s n Hs Hn Hmain).
    - destruct (cg_sub_tblock s n Hs Hn) as (b & Hb). apply (W_not_err t n b Hb). unfold is_err_block. unfold N0 in Hge. lia.
  Qed.

  Lemma cg_sub_closed s x xb y :
    In s (t_subs t) -> In x (s_blocks s) -> tblock t x = Some xb -> In y (b_next xb) -> In y (s_blocks s).
  Proof.
    intros Hs Hx Hxb Hy. destruct (parse_teal_blocks p t Hparse) as (bs & Hbs).
    apply (sub_reach p t bs Hparse Hbs s y Hs). apply (sub_reach p t bs Hparse Hbs s x Hs) in Hx.
    apply (Reach_step bs (s_entry s) x y Hx). rewrite <- (tblock_next p t bs x xb Hparse Hbs Hxb). exact Hy.
  Qed.

  (* local predecessors of a subroutine's block are blocks of the same subroutine *)
  Lemma cg_sub_pred s y yb m :
    In s (t_subs t) -> In y (s_blocks s) -> tblock t y = Some yb -> In m (b_prev yb) ->
    In m (s_blocks s) /\ exists mb, tblock t m = Some mb /\ In y (b_next mb).
  Proof.
    intros Hs Hy Hyb Hm. destruct (parse_teal_blocks p t Hparse) as (bs & Hbs).
    destruct (retained_char p t bs Hparse Hbs) as (Hr & _ & _ & _ & Hprev & _).
    assert (Hmr : In m (retained_ids t)).
    { apply (Hprev yb m); [|assumption]. apply (in_t_blocks p t yb Hparse). rewrite (cf_tblock_idx t y yb Hyb). assumption. }
    destruct (proj1 (tblock_retained_ids p t m Hparse) Hmr) as (mb & Hmb).
    assert (Hyn : In y (b_next mb)) by (apply (tblock_mirror p t m y mb yb Hparse Hmb Hyb); assumption).
    split; [|eauto].
    assert (Hnx : In y (next_of bs m)) by (rewrite <- (tblock_next p t bs m mb Hparse Hbs Hmb); exact Hyn).
    apply Hr in Hmr. destruct Hmr as [Hm0|(s' & Hs' & Hms)].
    - exfalso. apply (so_main_disj t Hok s y Hs Hy). apply (main_reach p t bs Hparse Hbs). econstructor; eauto.
    - assert (Hys' : In y (s_blocks s')) by (apply (sub_reach p t bs Hparse Hbs s' y Hs'); econstructor; eauto).
      rewrite <- (so_sub_disj t Hok s' s y Hs' Hs Hys' Hy). apply (sub_reach p t bs Hparse Hbs s' m Hs'). assumption.
  Qed.

  (* ---------------------------------------------------------------- the two kinds of blocks of the function *)
  Lemma cg_main_block x xb' :
    In x mids -> fblock g x = Some xb' -> exists xb, get_blk bl x = Some xb /\ xb' = prune_by mids xb.
  Proof.
    intros Hx Hb. destruct (cf_fblock_inv p t path Hparse x xb' Hb) as [(_ & H)|(Hn & _)]; [exact H | contradiction].
  Qed.

  Lemma cg_sub_block x xb' :
    ~ In x mids -> fblock g x = Some xb' -> tblock t x = Some xb' /\ exists s, In s (cf_subs t path) /\ In x (s_blocks s).
  Proof.
    intros Hx Hb. destruct (cf_fblock_inv p t path Hparse x xb' Hb) as [(Hm & _)|(_ & H)]; [contradiction | exact H].
  Qed.

  Theorem cg_mirror x y xb yb :
    fblock g x = Some xb -> fblock g y = Some yb -> (In y (b_next xb) <-> In x (b_prev yb)).
  Proof.
    intros Hx Hy.
    destruct (in_dec Nat.eq_dec x mids) as [Hxm|Hxm]; destruct (in_dec Nat.eq_dec y mids) as [Hym|Hym].
    - destruct (cg_main_block x xb Hxm Hx) as (xb0 & Hgx & ->). destruct (cg_main_block y yb Hym Hy) as (yb0 & Hgy & ->).
      cbn [prune_by b_next b_prev]. rewrite filter_In. rewrite (pi_mirror _ cg_pinv y yb0 x Hgy). split.
      + intros H. split; [eauto | apply nat_mem_In; exact Hxm].
      + intros [(mb & Hmb & H) _]. fold bl in Hmb. rewrite Hgx in Hmb. inversion Hmb; subst mb. exact H.
    - destruct (cg_main_block x xb Hxm Hx) as (xb0 & Hgx & ->). destruct (cg_sub_block y yb Hym Hy) as (Hty & s & Hs & Hys).
      cbn [prune_by b_next]. split.
      + intros H. exfalso. apply Hym. eapply (cf_mids_succ p t path Hparse); eauto.
      + intros H. exfalso. destruct (cg_sub_pred s y yb x (cf_subs_sub t path s Hs) Hys Hty H) as [Hxs _].
        exact (cg_sub_not_mids s x (cf_subs_sub t path s Hs) Hxs Hxm).
    - destruct (cg_sub_block x xb Hxm Hx) as (Htx & s & Hs & Hxs). destruct (cg_main_block y yb Hym Hy) as (yb0 & Hgy & ->).
      cbn [prune_by b_prev]. split.
      + intros H. exfalso. pose proof (cf_subs_sub t path s Hs) as Hs'.
        exact (cg_sub_not_mids s y Hs' (cg_sub_closed s x xb y Hs' Hxs Htx H) Hym).
      + intros H. apply filter_In in H. destruct H as [_ H]. apply nat_mem_In in H. contradiction.
    - destruct (cg_sub_block x xb Hxm Hx) as (Htx & _). destruct (cg_sub_block y yb Hym Hy) as (Hty & _).
      apply (tblock_mirror p t x y xb yb Hparse Htx Hty).
  Qed.

  Theorem cg_prevc y yb m : fblock g y = Some yb -> In m (b_prev yb) -> exists mb, fblock g m = Some mb.
  Proof.
    intros Hy Hm. destruct (in_dec Nat.eq_dec y mids) as [Hym|Hym].
    - destruct (cg_main_block y yb Hym Hy) as (yb0 & Hgy & ->). cbn [prune_by b_prev] in Hm.
      apply filter_In in Hm. destruct Hm as [_ Hm]. apply nat_mem_In in Hm.
      destruct (cf_get t path m (cf_mids_ids p t path Hparse m Hm)) as (mb & Hg).
      eexists. apply (cf_fblock_main t path m mb Hm Hg).
    - destruct (cg_sub_block y yb Hym Hy) as (Hty & s & Hs & Hys).
      destruct (cg_sub_pred s y yb m (cf_subs_sub t path s Hs) Hys Hty Hm) as [Hms _].
      apply (cf_sub_in p t path Hparse s m Hs Hms).
  Qed.

  (* ---------------------------------------------------------------- edges of the function are edges of the contract *)
  Lemma cg_has_next_not_err x xb y : fblock g x = Some xb -> In y (b_next xb) -> ~ is_err_block t x.
  Proof.
    intros Hx Hy He. destruct (cf_err_block p t path Hparse x xb Hx He) as (_ & pos & _ & En & _). rewrite En in Hy. destruct Hy.
  Qed.

  Lemma cg_old_tblock y : ~ is_err_block t y -> in_fun t path y -> exists yb, tblock t y = Some yb.
  Proof.
    intros Hne (yb' & Hy). destruct (cf_block_bwd p t path Hparse y yb' Hy Hne) as (b0 & HW & _).
    exists b0. apply fblock_whole in HW. tauto.
  Qed.

  Lemma cg_edge_old x xb y :
    fblock g x = Some xb -> In y (b_next xb) -> ~ is_err_block t y ->
    exists b0, tblock t x = Some b0 /\ In y (b_next b0) /\ fexit_op g xb = exit_op t b0.
  Proof.
    intros Hx Hy Hne. destruct (cf_block_bwd p t path Hparse x xb Hx (cg_has_next_not_err x xb y Hx Hy)) as (b0 & HW & _ & Hex & Hnx).
    exists b0. split; [apply fblock_whole in HW; tauto|]. split; [eapply nrel_In; eauto | exact Hex].
  Qed.

  Theorem cg_retnn x xb : fblock g x = Some xb -> f_is_retsub g xb = true -> b_next xb = [].
  Proof.
    intros Hx Hr.
    assert (Hne : ~ is_err_block t x).
    { intro He. destruct (cf_err_block p t path Hparse x xb Hx He) as (_ & pos & _ & _ & _ & Hop).
      unfold f_is_retsub in Hr. rewrite Hop in Hr. discriminate. }
    destruct (cf_block_bwd p t path Hparse x xb Hx Hne) as (b0 & HW & _ & Hex & Hnx).
    assert (Hr0 : is_retsub_block t b0 = true).
    { unfold f_is_retsub in Hr. rewrite Hex in Hr. exact Hr. }
    apply fblock_whole in HW. destruct HW as [_ Htb].
    rewrite (retsub_no_next p t x b0 Hparse Htb Hr0) in Hnx. inversion Hnx. reflexivity.
  Qed.

  (* a callsub block of the function: its contract block, and its successor list is the contract's *)
  Lemma cg_callsub_block c cb :
    fblock g c = Some cb -> f_is_callsub g cb = true ->
    exists b0, tblock t c = Some b0 /\ is_callsub_block t b0 = true /\ b_next cb = b_next b0.
  Proof.
    intros Hc Hcs.
    assert (Hne : ~ is_err_block t c).
    { intro He. destruct (cf_err_block p t path Hparse c cb Hc He) as (_ & pos & _ & _ & _ & Hop).
      unfold f_is_callsub in Hcs. rewrite Hop in Hcs. discriminate. }
    destruct (cf_block_bwd p t path Hparse c cb Hc Hne) as (b0 & HW & _ & Hex & _).
    assert (Hc0 : is_callsub_block t b0 = true).
    { unfold f_is_callsub in Hcs. rewrite Hex in Hcs. exact Hcs. }
    pose proof HW as HW'. apply fblock_whole in HW'. destruct HW' as [_ Htb].
    exists b0. split; [exact Htb|]. split; [exact Hc0|].
    destruct (cf_block_fwd p t path Hparse Hwalk Hhead c b0 cb HW Hc) as (_ & _ & [(_ & E)|(b2 & e0 & _ & Hb2 & E & _)]); [exact E|].
    rewrite E. destruct (return_point p t c b0 Hparse Htb Hc0) as [[En _]|[En _]]; rewrite En in *; [destruct Hb2|].
    destruct Hb2 as [<-|[]]. simpl. rewrite Nat.eqb_refl. reflexivity.
  Qed.

  Theorem cg_csnext c cb r : fblock g c = Some cb -> f_is_callsub g cb = true -> In r (b_next cb) -> b_next cb = [r].
  Proof.
    intros Hc Hcs Hr. destruct (cg_callsub_block c cb Hc Hcs) as (b0 & Htb & Hc0 & E). rewrite E in *.
    destruct (return_point p t c b0 Hparse Htb Hc0) as [[En _]|[En _]]; rewrite En in *; [destruct Hr|].
    destruct Hr as [<-|[]]. reflexivity.
  Qed.

  Theorem cg_retp c cb r rb m :
    fblock g c = Some cb -> f_is_callsub g cb = true -> In r (b_next cb) -> fblock g r = Some rb -> In m (b_prev rb) -> m = c.
  Proof.
    intros Hc Hcs Hr Hrb Hm. destruct (cg_callsub_block c cb Hc Hcs) as (b0 & Htb & Hc0 & E). rewrite E in Hr.
    assert (Hrt : exists rb0, tblock t r = Some rb0).
    { apply (tblock_retained_ids p t r Hparse). eapply (tblock_succ_retained p t Hparse); eauto. }
    destruct Hrt as (rb0 & Hrb0).
    destruct (cg_prevc r rb m Hrb Hm) as (mb & Hmb).
    assert (Hrm : In r (b_next mb)) by (apply (cg_mirror m r mb rb Hmb Hrb); exact Hm).
    destruct (cg_edge_old m mb r Hmb Hrm (W_not_err t r rb0 Hrb0)) as (m0 & Htm & Hrm0 & _).
    apply (so_retpoints t Hok c b0 r rb0 m Htb Hc0 Hr Hrb0).
    apply (tblock_mirror p t m r m0 rb0 Hparse Htm Hrb0). exact Hrm0.
  Qed.

  Theorem cg_entries e eb :
    (e = fn_entry g \/ exists s, In s (fn_all_subs g) /\ e = s_entry s) -> fblock g e = Some eb -> b_prev eb = [].
  Proof.
    intros He Heb. destruct (b_prev eb) as [|m l] eqn:E; [reflexivity|]. exfalso.
    assert (Hm : In m (b_prev eb)) by (rewrite E; left; reflexivity).
    assert (Het : exists eb0, tblock t e = Some eb0).
    { destruct He as [->|(s & Hs & ->)].
      - apply (main_tblock p t Hparse). apply (cf_zero_main p t Hparse).
      - destruct (parse_teal_blocks p t Hparse) as (bs & Hbs).
        apply (cg_sub_tblock s _ Hs). apply (sub_entry_in_blocks p t bs Hparse Hbs s Hs). }
    destruct Het as (eb0 & Heb0).
    destruct (cg_prevc e eb m Heb Hm) as (mb & Hmb).
    assert (Hem : In e (b_next mb)) by (apply (cg_mirror m e mb eb Hmb Heb); exact Hm).
    destruct (cg_edge_old m mb e Hmb Hem (W_not_err t e eb0 Heb0)) as (m0 & Htm & Hem0 & _).
    assert (Hp : In m (b_prev eb0)) by (apply (tblock_mirror p t m e m0 eb0 Hparse Htm Heb0); exact Hem0).
    assert (He' : e = 0 \/ exists s, In s (t_subs t) /\ e = s_entry s) by exact He.
    rewrite (so_entries t Hok e eb0 He' Heb0) in Hp. destruct Hp.
  Qed.

  Theorem cg_found b : In b (fn_blocks g) -> fblock g (b_idx b) = Some b.
  Proof.
    intros Hb. change (fn_blocks g) with (cf_main_blocks t path ++ lookup_blocks t (flat_map s_blocks (cf_subs t path))) in Hb.
    apply in_app_iff in Hb. destruct Hb as [Hb|Hb].
    - apply (cf_main_blocks_In t path) in Hb. destruct Hb as (n & nb & Hn & Hg & ->).
      cbn [prune_by b_idx]. rewrite (proj2 (get_blk_some _ _ _ Hg)). apply (cf_fblock_main t path n nb Hn Hg).
    - apply (lookup_blocks_In t) in Hb. destruct Hb as [Hi Htb]. apply in_flat_map in Hi. destruct Hi as (s & Hs & Hn).
      apply (cf_fblock_sub_spec t path); [|eauto].
      apply (cg_sub_not_mids s _ (cf_subs_sub t path s Hs) Hn).
  Qed.

  Theorem cg_sub_closed_f s x xb y :
    In s (fn_all_subs g) -> In x (s_blocks s) -> fblock g x = Some xb -> In y (b_next xb) -> In y (s_blocks s).
  Proof.
    intros Hs Hx Hxb Hy. destruct (cg_sub_block x xb (cg_sub_not_mids s x Hs Hx) Hxb) as (Htx & _).
    eapply cg_sub_closed; eauto.
  Qed.

  Theorem cg_where x xb : fblock g x = Some xb -> In x (fn_main g) \/ exists s, In s (fn_subs g) /\ In x (s_blocks s).
  Proof.
    intros Hx. destruct (cf_fblock_inv p t path Hparse x xb Hx) as [(Hm & _)|(_ & _ & H)]; [left; exact Hm | right; exact H].
  Qed.

  Theorem cg_main_reach x xb : In x (fn_main g) -> fblock g x = Some xb -> FReach g (fn_entry g) x.
  Proof.
    intros Hx _. apply (cf_dfs p t path Hparse) in Hx. change (fn_entry g) with 0.
    induction Hx as [|x y Hx IH Hy]; [constructor|]. econstructor; [exact IH|].
    assert (Hxm : In x (cf_main_ids t path)) by (apply (cf_dfs p t path Hparse); exact Hx).
    unfold lnext in Hy. destruct (get_blk (fs_blocks (cf_st t path)) x) as [xb0|] eqn:E; [|destruct Hy].
    unfold fsuccs. rewrite (cf_fblock_main t path x xb0 Hxm E). exact Hy.
  Qed.

  Theorem cg_sub_reach s x : In s (fn_subs g) -> In x (s_blocks s) -> FReach g (s_entry s) x.
  Proof.
    intros Hs Hx. pose proof (cf_subs_sub t path s Hs) as Hs'.
    destruct (parse_teal_blocks p t Hparse) as (bs & Hbs).
    apply (sub_reach p t bs Hparse Hbs s x Hs') in Hx.
    induction Hx as [|x y Hx IH Hy]; [constructor|]. econstructor; [exact IH|].
    apply (sub_reach p t bs Hparse Hbs s x Hs') in Hx.
    destruct (cg_sub_tblock s x Hs' Hx) as (xb & Hxb).
    unfold fsuccs. rewrite (proj2 (cf_fblock_sub_spec t path x xb (cg_sub_not_mids s x Hs' Hx)) (conj Hxb (ex_intro _ s (conj Hs Hx)))).
    rewrite (tblock_next p t bs x xb Hparse Hbs Hxb). exact Hy.
  Qed.

  (* ---------------------------------------------------------------- the three local fields *)
  Theorem cg_ins_nodup : ins_nodup_P g.
  Proof.
    intros x xb Hx. destruct (le_lt_dec x (max_idx (t_blocks t))) as [Hle|Hlt].
    - assert (Hne : ~ is_err_block t x) by (unfold is_err_block; lia).
      destruct (cf_block_bwd p t path Hparse x xb Hx Hne) as (b0 & HW & Hi & _). rewrite Hi.
      exact (whole_ins_nodup p t Hparse x b0 HW).
    - destruct (cf_err_block p t path Hparse x xb Hx Hlt) as (_ & pos & Ei & _). rewrite Ei. constructor; [intros [] | constructor].
  Qed.

  Theorem cg_next_nodup : next_nodup_P g.
  Proof.
    intros x xb Hx. destruct (cf_fblock_inv p t path Hparse x xb Hx) as [(Hm & xb0 & Hg & ->)|(_ & Htb & s & Hs & Hxs)].
    - cbn [prune_by b_next]. apply (fw_next_nodup _ (pi_wf _ cg_pinv)). apply (get_blk_some _ _ _ Hg).
    - destruct (parse_teal_blocks p t Hparse) as (bs & Hbs).
      apply (whole_next_nodup p t bs Hparse Hbs x xb). apply fblock_whole. split; [|exact Htb].
      apply wf_ids_In. right. exists s. split; [apply (cf_subs_incl p t path Hparse); exact Hs | exact Hxs].
  Qed.

  Theorem cg_branch_labels : branch_labels_P g.
  Proof.
    intros x xb l Hx Hop.
    assert (Hne : ~ is_err_block t x).
    { intro He. destruct (cf_err_block p t path Hparse x xb Hx He) as (_ & pos & _ & _ & _ & Hop'). destruct Hop; congruence. }
    destruct (cf_block_bwd p t path Hparse x xb Hx Hne) as (b0 & HW & _ & Hex & _). rewrite Hex in Hop.
    destruct (cf_prog p t path Hparse) as (m & E). rewrite E, find_label_errs.
    exact (whole_branch_labels p t Hparse x b0 l HW Hop).
  Qed.

  (* ---------------------------------------------------------------- graph_ok *)
  Theorem cut_graph_ok : graph_ok g.
  Proof.
    apply graph_ok_of_facts.
    - exact (names_nodup p t Hparse).
    - exact (so_names t Hok).
    - exact (cf_subs_sub t path).
    - exact cg_sub_not_mids.
    - exact (so_sub_disj t Hok).
    - exact cg_where.
    - exact cg_mirror.
    - exact cg_prevc.
    - exact (cf_succ_in p t path Hparse).
    - exact cg_csnext.
    - exact cg_retnn.
    - exact cg_retp.
    - exact cg_entries.
    - exact (cf_call_closure p t path Hparse).
    - exact (cf_sub_in p t path Hparse).
    - exact cg_found.
    - destruct (parse_teal_blocks p t Hparse) as (bs & Hbs). exact (sub_entry_in_blocks p t bs Hparse Hbs).
    - exact cg_sub_closed_f.
    - exact (proj1 (cf_init_in p t path Hparse)).
    - exact cg_main_reach.
    - exact cg_sub_reach.
    - exact cg_ins_nodup.
    - exact cg_next_nodup.
    - exact cg_branch_labels.
  Qed.
End CutFacts.

(* ================================================================== the theorems *)
Theorem cutfun_graph_ok p t path f' errs :
  parse_teal p = Ok t -> struct_ok t -> construct_function t path = Ok (f', errs) -> graph_ok f'.
Proof.
  intros Hparse Hok Hcf. destruct (construct_function_shape _ _ _ _ Hcf) as (Hwalk & Hhead & -> & _).
  exact (cut_graph_ok p t path Hparse Hwalk Hhead Hok).
Qed.

Corollary cutfun_graph_ok_b p t path f' errs :
  parse_teal p = Ok t -> struct_okb t = true -> construct_function t path = Ok (f', errs) -> graph_ok f'.
Proof. intros H Hb. apply (cutfun_graph_ok p t path f' errs H). apply struct_okb_sound. exact Hb. Qed.

(* C12, "its contexts satisfy C06-C10 with respect to exactly those executions": the fee bound (C09 / C10, any
   key family whose constraints are not refined) and the group size / group index sets (C06) that the analyses
   of the CUT FUNCTION report for a block hold for every approving execution of the CONTRACT that follows the
   dispatch path and visits the block.  No hypothesis about the cut function is left. *)
Theorem cutfun_fee_context_sound_struct p t path f' errs e sem fam tx fee bc fuel lo cfgs :
  parse_teal p = Ok t -> struct_ok t -> construct_function t path = Ok (f', errs) ->
  sem_ok e sem -> env_ok e -> fn_intcs (whole_function t) = e_intcs e ->
  key_txn e fam = Some tx -> e_field e tx "Fee"%string = VInt fee -> (0 <= fee <= MAX_UINT64z)%Z ->
  fee_leaves_ok (whole_function t) fam ->
  init_constraints feeval fee_universal_set fee_null_set fee_union fee_intersection
    (fee_single (fn_intcs f') fam) f' = Some bc ->
  solve feeval feeval_eqb fee_universal_set fee_null_set fee_union fee_intersection
    (fee_single (fn_intcs f') fam) f' fuel bc = Done lo ->
  Accepts e sem (whole_function t) cfgs -> follows path cfgs ->
  forall b st, In (b, st) cfgs -> exists v, lookup feeval lo b = Some v /\ fee_gamma v fee.
Proof.
  intros Hparse Hok Hcf. apply (cutfun_fee_context_sound p t path f' errs Hparse Hcf).
  exact (cutfun_graph_ok p t path f' errs Hparse Hok Hcf).
Qed.

Theorem cutfun_int_context_sound_struct p t path f' errs e sem sz fuel lo cfgs :
  parse_teal p = Ok t -> struct_ok t -> construct_function t path = Ok (f', errs) ->
  sem_ok e sem -> env_ok e -> fn_intcs (whole_function t) = e_intcs e ->
  int_leaves_ok (whole_function t) sz ->
  run_int f' fuel sz = Done lo ->
  Accepts e sem (whole_function t) cfgs -> follows path cfgs ->
  forall b st, In (b, st) cfgs -> exists v, lookup (list Z) lo b = Some v /\ In (int_value sz e) v.
Proof.
  intros Hparse Hok Hcf. apply (cutfun_int_context_sound p t path f' errs Hparse Hcf).
  exact (cutfun_graph_ok p t path f' errs Hparse Hok Hcf).
Qed.

(* the same in prefix form: plain path, the execution starts with the path and does not come back to it *)
Corollary cutfun_fee_context_sound_prefix p t path f' errs e sem fam tx fee bc fuel lo cfgs :
  parse_teal p = Ok t -> struct_ok t -> construct_function t path = Ok (f', errs) ->
  sem_ok e sem -> env_ok e -> fn_intcs (whole_function t) = e_intcs e ->
  key_txn e fam = Some tx -> e_field e tx "Fee"%string = VInt fee -> (0 <= fee <= MAX_UINT64z)%Z ->
  fee_leaves_ok (whole_function t) fam ->
  init_constraints feeval fee_universal_set fee_null_set fee_union fee_intersection
    (fee_single (fn_intcs f') fam) f' = Some bc ->
  solve feeval feeval_eqb fee_universal_set fee_null_set fee_union fee_intersection
    (fee_single (fn_intcs f') fam) f' fuel bc = Done lo ->
  path_plain t path -> Accepts e sem (whole_function t) cfgs -> starts_with_path path cfgs ->
  forall b st, In (b, st) cfgs -> exists v, lookup feeval lo b = Some v /\ fee_gamma v fee.
Proof.
  intros Hparse Hok Hcf Hsem Henv Hi Hk Hf Hr Hl Hinit Hs Hpl Hacc Hst.
  apply (cutfun_fee_context_sound_struct p t path f' errs e sem fam tx fee bc fuel lo cfgs); try assumption.
  destruct (construct_function_shape _ _ _ _ Hcf) as (Hwalk & Hhead & _ & _).
  apply (follows_of_prefix t path Hwalk Hhead cfgs); [|exact Hpl | exact Hst].
  destruct Hacc as (Hex & _). exact (Exec_Run e sem _ cfgs Hex).
Qed.

Print Assumptions cutfun_graph_ok.
Print Assumptions cutfun_graph_ok_b.
Print Assumptions cutfun_fee_context_sound_struct.
Print Assumptions cutfun_int_context_sound_struct.
Print Assumptions cutfun_fee_context_sound_prefix.
