(* Property C15 (moving whole subroutine bodies), layer 1b: WEAK isomorphism -- predecessor lists only as SETS.

   IsoLemmas.fiso requires the predecessor list of every block of f' to be the r-image of the predecessor list of
   the block of f IN ORDER.  tealer lists predecessors in source order, so a block with jump predecessors in two
   moved bodies has its predecessor list reversed by the swap (MoveSubEx.m3_rejected).  Here:

     [fiso_w r g f f']   like fiso, but the blocks correspond with  b_prev b'  =  map r (b_prev b)  AS SETS
                         (successor lists, block order, subroutine order still in order), the first callsub
                         predecessor corresponds, block ids of f' are distinct.  [iso_w_check] is the boolean.

   What depends on the predecessor ORDER in the model: the fold of [union] in reachin (the value is the same set,
   listed in another order) and the order in which the backward pass appends predecessors to its worklist (another
   schedule).  So the results are no longer Leibniz-equal lists; they are equal up to the domain's equality
   ([SolverLemmas.peq]: same keys, values related by t_eqb), by the least-fixpoint argument of SolverLemmas:

     PART 1  [reprev f h]: f with every predecessor list replaced by a set-equal one.  Everything except
             prev_global is EQUAL (next_global, edge / block constraints, worklists' initial value, livein, search).
     PART 2  lattice part, for any domain with a closed invariant P and an order leq whose laws hold on P:
             reachin over set-equal predecessor lists gives t_eqb-equal values; solutions of the forward / backward
             equations of f and reprev f h coincide; both passes compute the least solution: [rp_solve].
     PART 3  fiso_w = fiso ; reprev  ([fiso_w_split]);  [wiso_solve], [wiso_run_detector].  *)
From Coq Require Import String List NArith ZArith Bool Arith Lia.
From Tealer Require Import Tables LeafPrelude Leaves Syntax Parse Cfg StackAst Keys Analysis Domains Detect
  StackLemmas PaddingLemmas SolverLemmas IsoLemmas GraphWf TotalDomains.
Import ListNotations.
Open Scope string_scope.
Open Scope list_scope.

(* ====================================================================== list helpers *)
Lemma w_existsb_seteq {A} (p q : A -> bool) l1 l2 :
  (forall x, p x = q x) -> (forall x, In x l1 <-> In x l2) -> existsb p l1 = existsb q l2.
Proof.
  intros Hpq Hs. destruct (existsb q l2) eqn:E.
  - apply existsb_exists in E. destruct E as [x [Hx Hq]]. apply existsb_exists. exists x.
    split; [apply Hs; exact Hx|rewrite Hpq; exact Hq].
  - destruct (existsb p l1) eqn:E1; [|reflexivity].
    apply existsb_exists in E1. destruct E1 as [x [Hx Hp]].
    assert (H : existsb q l2 = true) by (apply existsb_exists; exists x; split; [apply Hs; exact Hx|rewrite <- Hpq; exact Hp]).
    congruence.
Qed.

Lemma w_find_ext {A} (p q : A -> bool) l : (forall x, p x = q x) -> find p l = find q l.
Proof. intros H. induction l as [|x l IH]; [reflexivity|]. cbn [find]. rewrite H, IH. reflexivity. Qed.

Lemma w_flat_map_ext_in {A B} (F G : A -> list B) l : (forall x, In x l -> F x = G x) -> flat_map F l = flat_map G l.
Proof.
  induction l as [|x l IH]; intros H; [reflexivity|]. cbn [flat_map].
  rewrite (H x (or_introl eq_refl)), IH by (intros y Hy; apply H; right; exact Hy). reflexivity.
Qed.

Lemma w_filter_ext {A} (p q : A -> bool) l : (forall x, p x = q x) -> filter p l = filter q l.
Proof. intros H. induction l as [|x l IH]; [reflexivity|]. cbn [filter]. rewrite H, IH. reflexivity. Qed.

(* ====================================================================== PART 1 : replacing predecessor lists *)
Definition cs_test (F : func) (p : nat) : bool :=
  match fblock F p with Some pb => f_is_callsub F pb | None => false end.

Section Reprev.
  Variable f : func.
  Variable h : block -> list nat.

  Definition setp (b : block) : block := mkBlock (b_idx b) (b_ins b) (b_next b) (h b).
  Definition reprev : func :=
    mkFunc (fn_prog f) (map setp (fn_blocks f)) (fn_entry f) (fn_main f) (fn_subs f) (fn_all_subs f) (fn_intcs f).

  Hypothesis Hset : forall b, In b (fn_blocks f) -> forall x, In x (h b) <-> In x (b_prev b).
  Hypothesis Hcsb : forall b, In b (fn_blocks f) -> find (cs_test f) (h b) = find (cs_test f) (b_prev b).

  Lemma rp_fblock n : fblock reprev n = option_map setp (fblock f n).
  Proof. unfold fblock, reprev. cbn [fn_blocks]. apply iso_find_map. intros b _. reflexivity. Qed.

  Lemma rp_In b : In b (fn_blocks f) -> In (setp b) (fn_blocks reprev).
  Proof. intros H. unfold reprev. cbn [fn_blocks]. apply in_map. exact H. Qed.

  Lemma rp_In_inv b2 : In b2 (fn_blocks reprev) -> exists b, In b (fn_blocks f) /\ b2 = setp b.
  Proof.
    unfold reprev. cbn [fn_blocks]. intros H. apply in_map_iff in H. destruct H as [b [E Hb]].
    exists b. split; [exact Hb|symmetry; exact E].
  Qed.

  Lemma rp_ids : ids reprev = ids f.
  Proof. unfold ids, reprev. cbn [fn_blocks]. rewrite map_map. reflexivity. Qed.

  Lemma rp_cs_test p : cs_test reprev p = cs_test f p.
  Proof. unfold cs_test. rewrite rp_fblock. destruct (fblock f p); reflexivity. Qed.

  Lemma rp_callers name : f_callers reprev name = map setp (f_callers f name).
  Proof. unfold f_callers, reprev. cbn [fn_blocks]. apply iso_filter_map. intros b _. reflexivity. Qed.

  Lemma rp_return_points name : f_return_points reprev name = f_return_points f name.
  Proof.
    unfold f_return_points. rewrite rp_callers.
    induction (f_callers f name) as [|b l IH]; [reflexivity|]. cbn [map flat_map]. rewrite IH. reflexivity.
  Qed.

  Lemma rp_retsub_blocks s : sub_retsub_blocks reprev s = sub_retsub_blocks f s.
  Proof.
    unfold sub_retsub_blocks. apply w_filter_ext. intros n. rewrite rp_fblock.
    destruct (fblock f n); reflexivity.
  Qed.

  Lemma rp_next_global b : next_global reprev (setp b) = next_global f b.
  Proof.
    unfold next_global. change (f_is_retsub reprev (setp b)) with (f_is_retsub f b).
    destruct (f_is_retsub f b); [|reflexivity].
    change (f_sub_of reprev (b_idx (setp b))) with (f_sub_of f (b_idx b)).
    destruct (f_sub_of f (b_idx b)) as [name|]; [|reflexivity].
    change (f_used_sub reprev name) with (f_used_sub f name).
    destruct (f_used_sub f name); [|reflexivity]. rewrite rp_return_points. reflexivity.
  Qed.

  Lemma rp_is_srp b : In b (fn_blocks f) -> is_sub_return_point reprev (setp b) = is_sub_return_point f b.
  Proof.
    intros Hb. change (existsb (cs_test reprev) (h b) = existsb (cs_test f) (b_prev b)).
    apply (w_existsb_seteq (cs_test reprev) (cs_test f)); [exact rp_cs_test|exact (Hset b Hb)].
  Qed.

  Lemma rp_csb b : In b (fn_blocks f) -> callsub_block_of reprev (setp b) = callsub_block_of f b.
  Proof.
    intros Hb. change (find (cs_test reprev) (h b) = find (cs_test f) (b_prev b)).
    rewrite (w_find_ext (cs_test reprev) (cs_test f) (h b) rp_cs_test). exact (Hcsb b Hb).
  Qed.

  Lemma rp_prev_global b : In b (fn_blocks f) ->
    match prev_global f b with
    | None => prev_global reprev (setp b) = None
    | Some ps => exists ps2, prev_global reprev (setp b) = Some ps2 /\ forall x, In x ps2 <-> In x ps
    end.
  Proof.
    intros Hb. unfold prev_global.
    change (f_sub_of reprev (b_idx (setp b))) with (f_sub_of f (b_idx b)).
    destruct (f_sub_of f (b_idx b)) as [name|]; [|reflexivity].
    change (sub_entry_of reprev name) with (sub_entry_of f name).
    change (b_idx (setp b)) with (b_idx b).
    destruct (match sub_entry_of f name with Some e => Nat.eqb e (b_idx b) | None => false end).
    - destruct (name =? ""); [exists []; split; [reflexivity|tauto]|].
      change (f_used_sub reprev name) with (f_used_sub f name).
      destruct (f_used_sub f name); [|reflexivity].
      rewrite rp_callers, map_map. eexists. split; [reflexivity|]. intros x. tauto.
    - rewrite (rp_is_srp b Hb). destruct (is_sub_return_point f b).
      + rewrite (rp_csb b Hb). destruct (callsub_block_of f b) as [c|]; [|reflexivity].
        rewrite rp_fblock. destruct (fblock f c) as [cb|]; [|reflexivity]. cbn [option_map].
        change (fexit_op reprev (setp cb)) with (fexit_op f cb).
        destruct (fexit_op f cb) as [[]|]; try reflexivity.
        change (f_find_sub reprev l) with (f_find_sub f l).
        destruct (f_find_sub f l) as [s0|]; [|reflexivity]. cbn [option_map].
        rewrite rp_retsub_blocks. eexists. split; [reflexivity|]. intros x. tauto.
      + exists (h b). split; [reflexivity|]. exact (Hset b Hb).
  Qed.

  Lemma rp_postorder_dfs : forall fuel n v o, postorder_dfs fuel reprev n v o = postorder_dfs fuel f n v o.
  Proof.
    induction fuel as [|fu IH]; intros n v o; [reflexivity|].
    cbn [postorder_dfs]. rewrite rp_fblock.
    assert (Hs : match option_map setp (fblock f n) with Some b => b_next b | None => [] end =
                 match fblock f n with Some b => b_next b | None => [] end) by (destruct (fblock f n); reflexivity).
    rewrite Hs.
    rewrite (fold_left_ext_in
               (fun '(v1, o1) s => if nat_mem s v1 then (v1, o1) else postorder_dfs fu reprev s v1 o1)
               (fun '(v1, o1) s => if nat_mem s v1 then (v1, o1) else postorder_dfs fu f s v1 o1)).
    - reflexivity.
    - intros [v1 o1] s _. rewrite IH. reflexivity.
  Qed.

  Lemma rp_postorders : postorders reprev = postorders f.
  Proof.
    unfold postorders, postorder. cbn [reprev fn_blocks fn_entry fn_subs]. rewrite map_length, rp_postorder_dfs.
    f_equal. apply map_ext. intros s. rewrite rp_postorder_dfs. reflexivity.
  Qed.

  Lemma rp_forward_worklist : forward_worklist reprev = forward_worklist f.
  Proof. unfold forward_worklist. rewrite rp_postorders. reflexivity. Qed.

  Lemma rp_backward_worklist : backward_worklist reprev = backward_worklist f.
  Proof.
    unfold backward_worklist. rewrite rp_postorders. apply w_flat_map_ext_in. intros l _.
    apply w_filter_ext. intros n. rewrite rp_fblock. destruct (fblock f n); reflexivity.
  Qed.

  Lemma rp_accessed n : accessed_using_absolute_index reprev n = accessed_using_absolute_index f n.
  Proof. unfold accessed_using_absolute_index. rewrite rp_fblock. destruct (fblock f n); reflexivity. Qed.

  (* ---------------------------------------------------------------- the path search reads successors only *)
  Section Search.
    Variables validated validated2 : nat -> bool.
    Variable report : list nat -> bool.
    Hypothesis Hval : forall n, validated2 n = validated n.

    Lemma rp_search : forall fuel bb path stack executed,
      search reprev validated2 report fuel bb path stack executed =
      search f validated report fuel bb path stack executed.
    Proof.
      induction fuel as [|fu IH]; intros bb path stack executed; [reflexivity|].
      cbn [search]. destruct (nat_mem bb (List.last executed [])); [reflexivity|].
      rewrite Hval. destruct (validated bb); [reflexivity|].
      rewrite rp_fblock. destruct (fblock f bb) as [b|]; [|reflexivity]. cbn [option_map].
      change (leaf_global reprev (setp b)) with (leaf_global f b).
      destruct (leaf_global f b); [reflexivity|].
      change (fexit_op reprev (setp b)) with (fexit_op f b).
      assert (Hdef :
        match next_global reprev (setp b) with
        | None => Exn "KeyError: next_blocks_global"
        | Some nx =>
            fold_left (fun acc nb =>
                         match acc with
                         | Done ps => match search reprev validated2 report fu nb (path ++ [bb]) stack
                                              (but_last_l executed ++ [List.last executed [] ++ [bb]]) with
                                      | Done qs => Done (ps ++ qs) | Exn e => Exn e | OutOfFuel => OutOfFuel end
                         | x => x
                         end) nx (Done [])
        end =
        match next_global f b with
        | None => Exn "KeyError: next_blocks_global"
        | Some nx =>
            fold_left (fun acc nb =>
                         match acc with
                         | Done ps => match search f validated report fu nb (path ++ [bb]) stack
                                              (but_last_l executed ++ [List.last executed [] ++ [bb]]) with
                                      | Done qs => Done (ps ++ qs) | Exn e => Exn e | OutOfFuel => OutOfFuel end
                         | x => x
                         end) nx (Done [])
        end).
      { rewrite rp_next_global. destruct (next_global f b) as [nx|]; [|reflexivity].
        apply fold_left_ext_in. intros acc nb _. destruct acc; try reflexivity. rewrite IH. reflexivity. }
      destruct (fexit_op f b) as [[]|]; try exact Hdef.
      - destruct (existsb _ stack); [reflexivity|].
        change (f_find_sub reprev l) with (f_find_sub f l).
        destruct (f_find_sub f l) as [s|]; [|reflexivity]. apply IH.
      - destruct (List.last stack (None, "")) as [[cs|] nm]; [|reflexivity].
        rewrite rp_fblock. destruct (fblock f cs) as [cb|]; [|reflexivity]. cbn [option_map].
        change (sub_return_point (setp cb)) with (sub_return_point cb).
        destruct (sub_return_point cb); [|reflexivity]. apply IH.
    Qed.
  End Search.

  Lemma rp_run_detector res res2 fuel name checks :
    (forall n, validated_in_block res2 checks None n = validated_in_block res checks None n) ->
    run_detector reprev res2 fuel name checks = run_detector f res fuel name checks.
  Proof.
    intros Hv. unfold run_detector, detect_paths. change (fn_entry reprev) with (fn_entry f).
    destruct (name =? "group-size-check").
    - rewrite (rp_search _ _ _ Hv).
      assert (E : forall fu bb path stack executed,
                search f (validated_in_block res checks None) (fun path0 => existsb (accessed_using_absolute_index reprev) path0)
                       fu bb path stack executed =
                search f (validated_in_block res checks None) (fun path0 => existsb (accessed_using_absolute_index f) path0)
                       fu bb path stack executed).
      { induction fu as [|fu IH]; intros bb path stack executed; [reflexivity|].
        cbn [search]. destruct (nat_mem bb (List.last executed [])); [reflexivity|].
        destruct (validated_in_block res checks None bb); [reflexivity|].
        destruct (fblock f bb) as [b|]; [|reflexivity].
        rewrite (w_existsb_seteq (accessed_using_absolute_index reprev) (accessed_using_absolute_index f)
                   (path ++ [bb]) (path ++ [bb]) rp_accessed (fun x => iff_refl _)).
        destruct (leaf_global f b); [reflexivity|].
        destruct (fexit_op f b) as [[]|];
          try (destruct (next_global f b) as [nx|]; [|reflexivity];
               apply fold_left_ext_in; intros acc nb _; destruct acc; try reflexivity; rewrite IH; reflexivity).
        - destruct (existsb _ stack); [reflexivity|]. destruct (f_find_sub f l); [apply IH|reflexivity].
        - destruct (List.last stack (None, "")) as [[cs|] nm]; [|reflexivity].
          destruct (fblock f cs) as [cb|]; [|reflexivity]. destruct (sub_return_point cb); [apply IH|reflexivity]. }
      apply E.
    - apply (rp_search _ _ _ Hv).
  Qed.

  (* ---------------------------------------------------------------- the graph conditions of SolverLemmas transfer *)
  Lemma rp_fblock_inv n b2 : fblock reprev n = Some b2 -> exists b, fblock f n = Some b /\ b2 = setp b.
  Proof.
    rewrite rp_fblock. destruct (fblock f n) as [b|]; [|discriminate]. cbn [option_map].
    intros H. inversion H. exists b. split; reflexivity.
  Qed.

  Lemma rp_cover_prev : cover_prev_P reprev -> cover_prev_P f.
  Proof.
    intros H b x xb ps Hx Hps Hin.
    assert (Hx2 : fblock reprev x = Some (setp xb)) by (rewrite rp_fblock, Hx; reflexivity).
    pose proof (rp_prev_global xb (fblock_In f x xb Hx)) as Hp. rewrite Hps in Hp.
    destruct Hp as [ps2 [Hp2 Hs]].
    destruct (H b x (setp xb) ps2 Hx2 Hp2 (proj2 (Hs b) Hin)) as [bb2 [nx [H1 [H2 H3]]]].
    destruct (rp_fblock_inv b bb2 H1) as [bb [Hbb ->]]. rewrite rp_next_global in H2.
    exists bb, nx. repeat split; assumption.
  Qed.

  Lemma rp_cover_ret : cover_ret_P reprev -> cover_ret_P f.
  Proof.
    intros H x xb c Hx Hrp Hc.
    assert (Hin : In xb (fn_blocks f)) by exact (fblock_In f x xb Hx).
    assert (Hx2 : fblock reprev x = Some (setp xb)) by (rewrite rp_fblock, Hx; reflexivity).
    destruct (H x (setp xb) c Hx2) as [cb2 [H1 [H2 H3]]].
    { rewrite (rp_is_srp xb Hin). exact Hrp. }
    { rewrite (rp_csb xb Hin). exact Hc. }
    destruct (rp_fblock_inv c cb2 H1) as [cb [Hcb ->]].
    exists cb. repeat split; assumption.
  Qed.

  Lemma rp_cover_next : cover_next_P reprev -> cover_next_P f.
  Proof.
    intros H b x xb nx Hx Hleaf Hnx Hin.
    assert (Hx2 : fblock reprev x = Some (setp xb)) by (rewrite rp_fblock, Hx; reflexivity).
    destruct (H b x (setp xb) nx Hx2 Hleaf) as [bb2 [ps2 [H1 [H2 H3]]]].
    { rewrite rp_next_global. exact Hnx. }
    { exact Hin. }
    destruct (rp_fblock_inv b bb2 H1) as [bb [Hbb ->]].
    pose proof (rp_prev_global bb (fblock_In f b bb Hbb)) as Hp.
    destruct (prev_global f bb) as [ps|] eqn:Eps.
    - destruct Hp as [ps2' [Hp2 Hs]]. rewrite H2 in Hp2. inversion Hp2; subst ps2'.
      exists bb, ps. split; [exact Hbb|]. split; [exact Eps|]. apply Hs. exact H3.
    - rewrite H2 in Hp. discriminate.
  Qed.

  Lemma rp_cover_call : cover_call_P reprev -> cover_call_P f.
  Proof.
    intros H x xb l r s Hx Hop Hr Hs Hne.
    assert (Hx2 : fblock reprev x = Some (setp xb)) by (rewrite rp_fblock, Hx; reflexivity).
    destruct (H x (setp xb) l r s Hx2 Hop Hr Hs) as [rb2 [H1 [H2 H3]]].
    { rewrite rp_retsub_blocks. exact Hne. }
    destruct (rp_fblock_inv r rb2 H1) as [rb [Hrb ->]].
    assert (Hin : In rb (fn_blocks f)) by exact (fblock_In f r rb Hrb).
    rewrite (rp_is_srp rb Hin) in H2. rewrite (rp_csb rb Hin) in H3.
    exists rb. repeat split; assumption.
  Qed.
End Reprev.

(* ====================================================================== PART 2 : the lattice part *)
Section PLaws.
  Variable T : Type.
  Variable t_eqb : T -> T -> bool.
  Variable univ null : T.
  Variable union inter : T -> T -> T.
  Variable single : instr -> nat -> list sval -> T * T.
  (* representation invariant of the values the analysis builds, and an order whose laws hold on it *)
  Variable P : T -> Prop.
  Variable leq : T -> T -> Prop.
  Notation "a == b" := (t_eqb a b = true) (at level 70).
  Hypothesis P_univ : P univ.
  Hypothesis P_null : P null.
  Hypothesis P_union : forall a b, P a -> P b -> P (union a b).
  Hypothesis P_inter : forall a b, P a -> P b -> P (inter a b).
  Hypothesis P_single : forall op pos args, P (fst (single op pos args)) /\ P (snd (single op pos args)).
  Hypothesis teq_refl : forall a, a == a.
  Hypothesis leq_refl : forall a, leq a a.
  Hypothesis leq_trans : forall a b c, leq a b -> leq b c -> leq a c.
  Hypothesis teq_leq : forall a b, P a -> P b -> (a == b <-> leq a b /\ leq b a).
  Hypothesis union_ub_l : forall a b, P a -> P b -> leq a (union a b).
  Hypothesis union_ub_r : forall a b, P a -> P b -> leq b (union a b).
  Hypothesis union_lub : forall a b c, P a -> P b -> P c -> leq a c -> leq b c -> leq (union a b) c.
  Hypothesis inter_mono : forall a a' b b', P a -> P a' -> P b -> P b' ->
                          leq a a' -> leq b b' -> leq (inter a b) (inter a' b').
  Hypothesis null_least : forall a, P a -> leq null a.

  Notation state := (Analysis.state T).
  Notation lookup := (Analysis.lookup T).
  Notation update := (Analysis.update T).
  Notation wple := (SolverLemmas.ple T leq).
  Notation wpeq := (SolverLemmas.peq T t_eqb).

  Definition okst (st : state) : Prop := forall b v, lookup st b = Some v -> P v.
  Definition okbc (bc : nat -> option T) : Prop := forall b v, bc b = Some v -> P v.
  Definition bc_eqv (bc1 bc2 : nat -> option T) : Prop :=
    forall b, match bc1 b, bc2 b with Some x, Some y => x == y | None, None => True | _, _ => False end.

  Lemma w_teq_sym a b : P a -> P b -> a == b -> b == a.
  Proof. intros Ha Hb H. apply (teq_leq b a Hb Ha). apply (teq_leq a b Ha Hb) in H. tauto. Qed.
  Lemma w_teq_trans a b c : P a -> P b -> P c -> a == b -> b == c -> a == c.
  Proof.
    intros Ha Hb Hc H1 H2. apply (teq_leq a b Ha Hb) in H1. apply (teq_leq b c Hb Hc) in H2.
    apply (teq_leq a c Ha Hc). destruct H1, H2. split; eapply leq_trans; eauto.
  Qed.
  Lemma w_inter_cong a a' b b' : P a -> P a' -> P b -> P b' -> a == a' -> b == b' -> inter a b == inter a' b'.
  Proof.
    intros Ha Ha' Hb Hb' H1 H2. apply (teq_leq a a' Ha Ha') in H1. apply (teq_leq b b' Hb Hb') in H2.
    apply teq_leq; [apply P_inter; assumption|apply P_inter; assumption|].
    destruct H1, H2. split; apply inter_mono; assumption.
  Qed.

  Lemma okst_update st b v : okst st -> P v -> okst (update st b v).
  Proof.
    intros Hs Hv k u Hk. destruct (Nat.eq_dec b k) as [<-|Hne].
    - destruct (lookup st b) as [old|] eqn:E.
      + rewrite (lookup_update_same T st b v old E) in Hk. inversion Hk; subst u. exact Hv.
      + exfalso. pose proof (lookup_some_in_keys T _ _ _ Hk) as Hin.
        rewrite update_keys in Hin. apply lookup_in_keys in Hin. destruct Hin as [x Hx]. congruence.
    - rewrite lookup_update_other in Hk by exact Hne. exact (Hs k u Hk).
  Qed.

  Lemma okst_blocks (F : func) (gv : block -> T) :
    (forall b, P (gv b)) -> okst (map (fun b => (b_idx b, gv b)) (fn_blocks F)).
  Proof.
    intros H b v Hl. rewrite lookup_map_blocks in Hl. destruct (fblock F b); [|discriminate].
    inversion Hl. apply H.
  Qed.

  Lemma w_antisym st1 st2 : okst st1 -> okst st2 -> map fst st1 = map fst st2 ->
    wple st1 st2 -> wple st2 st1 -> wpeq st1 st2.
  Proof.
    intros O1 O2 Hk H12 H21. split; [exact Hk|]. intros b v1 v2 E1 E2.
    destruct (H12 _ _ E1) as [w [E2' L1]]. destruct (H21 _ _ E2) as [w' [E1' L2]].
    rewrite E2 in E2'. inversion E2'; subst w. rewrite E1 in E1'. inversion E1'; subst w'.
    apply teq_leq; [exact (O1 _ _ E1)|exact (O2 _ _ E2)|]. split; assumption.
  Qed.

  Lemma wpeq_ple st1 st2 : okst st1 -> okst st2 -> wpeq st1 st2 -> wple st1 st2.
  Proof.
    intros O1 O2 [Hk H] b v E.
    assert (Hin : In b (map fst st2)) by (rewrite <- Hk; eapply lookup_some_in_keys; eauto).
    apply lookup_in_keys in Hin. destruct Hin as [w Hw]. exists w. split; [exact Hw|].
    apply (teq_leq v w (O1 _ _ E) (O2 _ _ Hw)). exact (H b v w E Hw).
  Qed.

  Lemma wple_trans s1 s2 s3 : wple s1 s2 -> wple s2 s3 -> wple s1 s3.
  Proof.
    intros H12 H23 b v E. destruct (H12 _ _ E) as [w [E2 L]]. destruct (H23 _ _ E2) as [u [E3 L']].
    exists u. split; [first [exact E3|reflexivity]|]. eapply leq_trans; eauto.
  Qed.

  (* ---------------------------------------------------------------- folds of union: the result is the least upper
     bound of the start value and the terms, whatever the order and multiplicity of the list *)
  Section FoldU.
    Variable t : nat -> option T.
    Hypothesis Ht : forall p v, t p = Some v -> P v.
    Definition ustep (acc : option T) (p : nat) : option T :=
      match acc with
      | None => None
      | Some a => match t p with None => None | Some v => Some (union a v) end
      end.

    Lemma ufold_none ps : fold_left ustep ps None = None.
    Proof. induction ps as [|p ps IH]; [reflexivity|exact IH]. Qed.

    Lemma ufold_spec : forall ps a, P a ->
      match fold_left ustep ps (Some a) with
      | Some r => P r /\ leq a r /\ (forall p v, In p ps -> t p = Some v -> leq v r) /\
                  (forall c, P c -> leq a c -> (forall p v, In p ps -> t p = Some v -> leq v c) -> leq r c) /\
                  (forall p, In p ps -> t p <> None)
      | None => exists p, In p ps /\ t p = None
      end.
    Proof.
      induction ps as [|p ps IH]; intros a Ha.
      - cbn [fold_left]. split; [exact Ha|]. split; [apply leq_refl|]. split; [intros ? ? []|].
        split; [intros c _ Hc _; exact Hc|intros ? []].
      - cbn [fold_left ustep]. destruct (t p) as [v|] eqn:E.
        + assert (Hv : P v) by exact (Ht p v E).
          specialize (IH (union a v) (P_union a v Ha Hv)).
          destruct (fold_left ustep ps (Some (union a v))) as [r|].
          * destruct IH as [Pr [L0 [Lt [Lub Df]]]]. split; [exact Pr|].
            split; [eapply leq_trans; [exact (union_ub_l a v Ha Hv)|exact L0]|].
            split; [|split].
            -- intros q w [<-|Hq] Hw.
               ++ rewrite E in Hw. inversion Hw; subst w.
                  eapply leq_trans; [exact (union_ub_r a v Ha Hv)|exact L0].
               ++ exact (Lt q w Hq Hw).
            -- intros c Pc Lc Hc. apply Lub; [exact Pc| |].
               ++ apply union_lub; try assumption. apply (Hc p v); [left; reflexivity|exact E].
               ++ intros q w Hq Hw. apply (Hc q w); [right; exact Hq|exact Hw].
            -- intros q [<-|Hq]; [congruence|exact (Df q Hq)].
          * destruct IH as [q [Hq Eq]]. exists q. split; [right; exact Hq|exact Eq].
        + rewrite ufold_none. exists p. split; [left; reflexivity|exact E].
    Qed.

    Lemma ufold_seteq ps1 ps2 a : P a -> (forall x, In x ps1 <-> In x ps2) ->
      match fold_left ustep ps1 (Some a), fold_left ustep ps2 (Some a) with
      | Some r1, Some r2 => r1 == r2 /\ P r1 /\ P r2
      | None, None => True
      | _, _ => False
      end.
    Proof.
      intros Ha Hs. pose proof (ufold_spec ps1 a Ha) as S1. pose proof (ufold_spec ps2 a Ha) as S2.
      destruct (fold_left ustep ps1 (Some a)) as [r1|]; destruct (fold_left ustep ps2 (Some a)) as [r2|].
      - destruct S1 as [P1 [A1 [T1 [L1 _]]]]. destruct S2 as [P2 [A2 [T2 [L2 _]]]].
        split; [|split; assumption]. apply teq_leq; try assumption. split.
        + apply L1; try assumption. intros p v Hp Hv. apply (T2 p v); [apply Hs; exact Hp|exact Hv].
        + apply L2; try assumption. intros p v Hp Hv. apply (T1 p v); [apply Hs; exact Hp|exact Hv].
      - destruct S1 as [_ [_ [_ [_ D1]]]]. destruct S2 as [p [Hp Ep]]. apply (D1 p); [apply Hs; exact Hp|exact Ep].
      - destruct S2 as [_ [_ [_ [_ D2]]]]. destruct S1 as [p [Hp Ep]]. apply (D2 p); [apply Hs; exact Hp|exact Ep].
      - exact I.
    Qed.
  End FoldU.

  Lemma ufold_mono (t1 t2 : nat -> option T) ps a a' r r' :
    (forall p v, t1 p = Some v -> P v) -> (forall p v, t2 p = Some v -> P v) ->
    (forall p v1 v2, In p ps -> t1 p = Some v1 -> t2 p = Some v2 -> leq v1 v2) ->
    P a -> P a' -> leq a a' ->
    fold_left (ustep t1) ps (Some a) = Some r -> fold_left (ustep t2) ps (Some a') = Some r' -> leq r r'.
  Proof.
    intros H1 H2 H12 Ha Ha' Hl F1 F2.
    pose proof (ufold_spec t1 H1 ps a Ha) as S1. rewrite F1 in S1.
    pose proof (ufold_spec t2 H2 ps a' Ha') as S2. rewrite F2 in S2.
    destruct S1 as [P1 [A1 [T1 [L1 _]]]]. destruct S2 as [P2 [A2 [T2 [_ D2]]]].
    apply L1; [exact P2|exact (leq_trans _ _ _ Hl A2)|].
    intros p v Hp Hv. destruct (t2 p) as [v2|] eqn:E2; [|exfalso; exact (D2 p Hp E2)].
    eapply leq_trans; [exact (H12 p v v2 Hp Hv E2)|exact (T2 p v2 Hp E2)].
  Qed.

  (* ---------------------------------------------------------------- reachin / livein of any function *)
  Definition rterm (F : func) (st : state) (xb : block) (p : nat) : option T :=
    match lookup st p with
    | None => None
    | Some ro =>
        match fblock F p with
        | None => None
        | Some pb => match edge_constraint T univ null union inter single F pb (b_idx xb) with
                     | None => None | Some ec => Some (inter ro ec) end
        end
    end.

  Lemma rterm_P F st xb p v : okst st -> rterm F st xb p = Some v -> P v.
  Proof.
    intros Ho. unfold rterm. destruct (lookup st p) as [ro|] eqn:E; [|discriminate].
    destruct (fblock F p) as [pb|]; [|discriminate].
    destruct (edge_constraint T univ null union inter single F pb (b_idx xb)) as [ec|] eqn:Ee; [|discriminate].
    intros H. inversion H. apply P_inter; [exact (Ho _ _ E)|].
    exact (edge_constraint_closed T univ null union inter single P P_univ P_null P_union P_inter P_single F pb _ ec Ee).
  Qed.

  Definition rinit (F : func) (xb : block) : T := if Nat.eqb (b_idx xb) (fn_entry F) then univ else null.
  Lemma rinit_P F xb : P (rinit F xb).
  Proof. unfold rinit. destruct (Nat.eqb _ _); assumption. Qed.

  Lemma reachin_shape F st xb :
    reachin T univ null union inter single F st xb =
    match prev_global F xb with
    | None => None
    | Some ps =>
        match fold_left (ustep (rterm F st xb)) ps (Some (rinit F xb)) with
        | None => None
        | Some acc =>
            if is_sub_return_point F xb then
              match callsub_block_of F xb with
              | None => None
              | Some c => match lookup st c with None => None | Some rc => Some (inter acc rc) end
              end
            else Some acc
        end
    end.
  Proof.
    rewrite reachin_unfold. destruct (prev_global F xb) as [ps|]; [|reflexivity].
    rewrite (fold_left_ext_in (rstep T univ null union inter single F st xb) (ustep (rterm F st xb))); [reflexivity|].
    intros acc p _. unfold rstep, ustep, rterm. destruct acc; [|reflexivity].
    destruct (lookup st p); [|reflexivity]. destruct (fblock F p); [|reflexivity].
    destruct (edge_constraint T univ null union inter single F b (b_idx xb)); reflexivity.
  Qed.

  Lemma reachin_P F st xb ri : okst st -> reachin T univ null union inter single F st xb = Some ri -> P ri.
  Proof.
    intros Ho. rewrite reachin_shape. destruct (prev_global F xb) as [ps|]; [|discriminate].
    pose proof (ufold_spec (rterm F st xb) (fun p v => rterm_P F st xb p v Ho) ps _ (rinit_P F xb)) as S.
    destruct (fold_left _ ps _) as [acc|]; [|discriminate]. destruct S as [Pa _].
    destruct (is_sub_return_point F xb).
    - destruct (callsub_block_of F xb) as [c|]; [|discriminate].
      destruct (lookup st c) as [rc|] eqn:E; [|discriminate]. intros H. inversion H.
      apply P_inter; [exact Pa|exact (Ho _ _ E)].
    - intros H. inversion H; subst. exact Pa.
  Qed.

  Lemma reachin_mono_w F st sol xb r r' : okst st -> okst sol -> wple st sol ->
    reachin T univ null union inter single F st xb = Some r ->
    reachin T univ null union inter single F sol xb = Some r' -> leq r r'.
  Proof.
    intros O1 O2 Hple. rewrite !reachin_shape. destruct (prev_global F xb) as [ps|]; [|discriminate].
    destruct (fold_left (ustep (rterm F st xb)) ps _) as [a|] eqn:F1; [|discriminate].
    destruct (fold_left (ustep (rterm F sol xb)) ps _) as [a'|] eqn:F2; [|discriminate].
    assert (La : leq a a').
    { apply (ufold_mono (rterm F st xb) (rterm F sol xb) ps (rinit F xb) (rinit F xb) a a'); try assumption.
      - intros p v. apply rterm_P. exact O1.
      - intros p v. apply rterm_P. exact O2.
      - intros p v1 v2 _. unfold rterm.
        destruct (lookup st p) as [ro|] eqn:E1; [|discriminate].
        destruct (Hple _ _ E1) as [ro' [E2 Hro]]. rewrite E2.
        destruct (fblock F p) as [pb|]; [|discriminate].
        destruct (edge_constraint T univ null union inter single F pb (b_idx xb)) as [ec|] eqn:Ee; [|discriminate].
        intros H1 H2. inversion H1; inversion H2; subst.
        assert (Pe : P ec)
          by exact (edge_constraint_closed T univ null union inter single P P_univ P_null P_union P_inter P_single F pb _ ec Ee).
        apply inter_mono; try assumption; [exact (O1 _ _ E1)|exact (O2 _ _ E2)|apply leq_refl].
      - apply rinit_P.
      - apply rinit_P.
      - apply leq_refl. }
    pose proof (ufold_spec (rterm F st xb) (fun p v => rterm_P F st xb p v O1) ps _ (rinit_P F xb)) as S1.
    rewrite F1 in S1. destruct S1 as [Pa _].
    pose proof (ufold_spec (rterm F sol xb) (fun p v => rterm_P F sol xb p v O2) ps _ (rinit_P F xb)) as S2.
    rewrite F2 in S2. destruct S2 as [Pa' _].
    destruct (is_sub_return_point F xb).
    - destruct (callsub_block_of F xb) as [c|]; [|discriminate].
      destruct (lookup st c) as [rc|] eqn:E1; [|discriminate].
      destruct (Hple _ _ E1) as [rc' [E2 Hrc]]. rewrite E2.
      intros H1 H2. inversion H1; inversion H2; subst.
      apply inter_mono; try assumption; [exact (O1 _ _ E1)|exact (O2 _ _ E2)].
    - intros H1 H2. inversion H1; inversion H2; subst. exact La.
  Qed.

  Definition lterm (st : state) (s : nat) : option T := lookup st s.

  Lemma livein_shape F st xb :
    livein T null union inter F st xb =
    match next_global F xb with
    | None => None
    | Some nx =>
        match fold_left (ustep (lterm st)) nx (Some null) with
        | None => None
        | Some acc =>
            match fexit_op F xb, sub_return_point xb with
            | Some (ICallsub l), Some rp =>
                match f_find_sub F l with
                | None => None
                | Some s =>
                    match sub_retsub_blocks F s with
                    | [] => Some acc
                    | _ => match lookup st rp with None => None | Some lr => Some (inter acc lr) end
                    end
                end
            | _, _ => Some acc
            end
        end
    end.
  Proof.
    rewrite livein_unfold. destruct (next_global F xb) as [nx|]; [|reflexivity].
    rewrite (fold_left_ext_in (lstep T union st) (ustep (lterm st))).
    - reflexivity.
    - intros acc p _. unfold lstep, ustep, lterm. destruct acc; reflexivity.
  Qed.

  Lemma livein_P F st xb li : okst st -> livein T null union inter F st xb = Some li -> P li.
  Proof.
    intros Ho. rewrite livein_shape. destruct (next_global F xb) as [nx|]; [|discriminate].
    pose proof (ufold_spec (lterm st) (fun p v => Ho p v) nx _ P_null) as S.
    destruct (fold_left _ nx _) as [acc|]; [|discriminate]. destruct S as [Pa _].
    assert (Hdef : Some acc = Some li -> P li) by (intros H; inversion H; subst; exact Pa).
    destruct (fexit_op F xb) as [[]|]; try exact Hdef.
    destruct (sub_return_point xb) as [rp|]; [|exact Hdef].
    destruct (f_find_sub F l) as [s|]; [|discriminate].
    destruct (sub_retsub_blocks F s); [exact Hdef|].
    destruct (lookup st rp) as [lr|] eqn:E; [|discriminate]. intros H. inversion H.
    apply P_inter; [exact Pa|exact (Ho _ _ E)].
  Qed.

  Lemma livein_mono_w F st sol xb r r' : okst st -> okst sol -> wple st sol ->
    livein T null union inter F st xb = Some r -> livein T null union inter F sol xb = Some r' -> leq r r'.
  Proof.
    intros O1 O2 Hple. rewrite !livein_shape. destruct (next_global F xb) as [nx|]; [|discriminate].
    destruct (fold_left (ustep (lterm st)) nx _) as [a|] eqn:F1; [|discriminate].
    destruct (fold_left (ustep (lterm sol)) nx _) as [a'|] eqn:F2; [|discriminate].
    assert (La : leq a a').
    { apply (ufold_mono (lterm st) (lterm sol) nx null null a a'); try assumption.
      - intros p v1 v2 _ H1 H2. unfold lterm in *. destruct (Hple _ _ H1) as [w [E2 Hw]]. congruence.
      - apply leq_refl. }
    pose proof (ufold_spec (lterm st) (fun p v => O1 p v) nx _ P_null) as S1. rewrite F1 in S1. destruct S1 as [Pa _].
    pose proof (ufold_spec (lterm sol) (fun p v => O2 p v) nx _ P_null) as S2. rewrite F2 in S2. destruct S2 as [Pa' _].
    assert (Hdef : Some a = Some r -> Some a' = Some r' -> leq r r').
    { intros H1 H2. inversion H1; inversion H2; subst. exact La. }
    destruct (fexit_op F xb) as [[]|]; try exact Hdef.
    destruct (sub_return_point xb) as [rp|]; [|exact Hdef].
    destruct (f_find_sub F l) as [s|]; [|discriminate].
    destruct (sub_retsub_blocks F s); [exact Hdef|].
    destruct (lookup st rp) as [lr|] eqn:E1; [|discriminate].
    destruct (Hple _ _ E1) as [lr' [E2 Hlr]]. rewrite E2.
    intros H1 H2. inversion H1; inversion H2; subst.
    apply inter_mono; try assumption; [exact (O1 _ _ E1)|exact (O2 _ _ E2)].
  Qed.

  (* ---------------------------------------------------------------- the passes stay below every solution *)
  Lemma forward_le_w F blockc sol fuel wl st st' :
    okbc blockc -> fwd_sol T t_eqb univ null union inter single F blockc sol -> okst sol ->
    wple st sol -> okst st ->
    forward T t_eqb univ null union inter single F blockc fuel wl st = Done st' -> wple st' sol /\ okst st'.
  Proof.
    intros Hbc Hsol Osol Hple Ost Hrun.
    apply (forward_state_ind T t_eqb univ null union inter single F blockc (fun s => wple s sol /\ okst s))
      with (fuel := fuel) (wl := wl) (st := st); [|split; assumption|exact Hrun].
    intros s b xb ri bc old [HP Os] Hfb Hri Hb Hold _.
    destruct (Hsol b) as [xb' [ri' [bc' [old' [H1 [H2 [H3 [H4 H5]]]]]]]].
    { apply fblock_ids. eauto. }
    rewrite Hfb in H1. inversion H1; subst xb'. rewrite Hb in H3. inversion H3; subst bc'.
    assert (Pri : P ri) by exact (reachin_P F s xb ri Os Hri).
    assert (Pri' : P ri') by exact (reachin_P F sol xb ri' Osol H2).
    assert (Pbc : P bc) by exact (Hbc _ _ Hb).
    split.
    - eapply ple_update; [exact HP|exact H4|].
      apply (teq_leq _ _ (P_inter _ _ Pri' Pbc) (Osol _ _ H4)) in H5.
      eapply leq_trans; [|apply H5].
      apply inter_mono; try assumption; [|apply leq_refl].
      exact (reachin_mono_w F s sol xb ri ri' Os Osol HP Hri H2).
    - apply okst_update; [exact Os|apply P_inter; assumption].
  Qed.

  Lemma backward_le_w F blockc sol fuel wl st st' :
    okbc blockc -> bwd_sol T t_eqb null union inter F blockc sol -> okst sol ->
    wple st sol -> okst st ->
    backward T t_eqb null union inter F blockc fuel wl st = Done st' -> wple st' sol /\ okst st'.
  Proof.
    intros Hbc Hsol Osol Hple Ost Hrun.
    apply (backward_state_ind T t_eqb null union inter F blockc (fun s => wple s sol /\ okst s))
      with (fuel := fuel) (wl := wl) (st := st); [|split; assumption|exact Hrun].
    intros s b xb li bc old [HP Os] Hfb Hleaf Hli Hb Hold _.
    destruct (Hsol b) as [xb' [H1 H2]].
    { apply fblock_ids. eauto. }
    rewrite Hfb in H1. inversion H1; subst xb'.
    destruct H2 as [H2|[li' [bc' [old' [H2 [H3 [H4 H5]]]]]]]; [congruence|].
    rewrite Hb in H3. inversion H3; subst bc'.
    assert (Pli : P li) by exact (livein_P F s xb li Os Hli).
    assert (Pli' : P li') by exact (livein_P F sol xb li' Osol H2).
    assert (Pbc : P bc) by exact (Hbc _ _ Hb).
    split.
    - eapply ple_update; [exact HP|exact H4|].
      apply (teq_leq _ _ (P_inter _ _ Pli' Pbc) (Osol _ _ H4)) in H5.
      eapply leq_trans; [|apply H5].
      apply inter_mono; try assumption; [|apply leq_refl].
      exact (livein_mono_w F s sol xb li li' Os Osol HP Hli H2).
    - apply okst_update; [exact Os|apply P_inter; assumption].
  Qed.

  Lemma bwd_start_le_w F blockc fuel wl st0 st' :
    okst st' -> bwd_start T null F st0 ->
    backward T t_eqb null union inter F blockc fuel wl st0 = Done st' -> wple st0 st'.
  Proof.
    intros Ost Hst Hrun b v Hb.
    destruct (Hst b v Hb) as [->|Hleaf].
    - assert (Hk : In b (map fst st')).
      { rewrite (backward_keys T t_eqb null union inter F blockc _ _ _ _ Hrun). eapply lookup_some_in_keys; eauto. }
      apply lookup_in_keys in Hk. destruct Hk as [w Hw]. exists w. split; [exact Hw|].
      apply null_least. exact (Ost _ _ Hw).
    - rewrite <- (backward_leaf_unchanged T t_eqb null union inter F blockc _ _ _ _ b Hleaf Hrun) in Hb.
      exists v. split; [exact Hb|apply leq_refl].
  Qed.

  Lemma forward_okst F blockc fuel wl st st' : okbc blockc -> okst st ->
    forward T t_eqb univ null union inter single F blockc fuel wl st = Done st' -> okst st'.
  Proof.
    intros Hbc Ost Hrun.
    apply (forward_state_ind T t_eqb univ null union inter single F blockc okst)
      with (fuel := fuel) (wl := wl) (st := st); [|exact Ost|exact Hrun].
    intros s b xb ri bc old Os Hfb Hri Hb Hold _.
    apply okst_update; [exact Os|]. apply P_inter; [exact (reachin_P F s xb ri Os Hri)|exact (Hbc _ _ Hb)].
  Qed.

  Lemma backward_okst F blockc fuel wl st st' : okbc blockc -> okst st ->
    backward T t_eqb null union inter F blockc fuel wl st = Done st' -> okst st'.
  Proof.
    intros Hbc Ost Hrun.
    apply (backward_state_ind T t_eqb null union inter F blockc okst)
      with (fuel := fuel) (wl := wl) (st := st); [|exact Ost|exact Hrun].
    intros s b xb li bc old Os Hfb _ Hli Hb Hold _.
    apply okst_update; [exact Os|]. apply P_inter; [exact (livein_P F s xb li Os Hli)|exact (Hbc _ _ Hb)].
  Qed.

  Lemma wple_null st sol : (forall b v, lookup st b = Some v -> v = null) -> map fst sol = map fst st ->
    okst sol -> wple st sol.
  Proof.
    intros Hn Hk Os b v Hb. rewrite (Hn b v Hb).
    assert (Hin : In b (map fst sol)) by (rewrite Hk; eapply lookup_some_in_keys; eauto).
    apply lookup_in_keys in Hin. destruct Hin as [w Hw]. exists w. split; [exact Hw|].
    apply null_least. exact (Os _ _ Hw).
  Qed.

  Lemma wpeq_sym s1 s2 : okst s1 -> okst s2 -> wpeq s1 s2 -> wpeq s2 s1.
  Proof.
    intros O1 O2 [Hk H]. split; [symmetry; exact Hk|]. intros b v1 v2 E1 E2.
    apply w_teq_sym; [exact (O1 _ _ E2)|exact (O2 _ _ E1)|]. exact (H b v2 v1 E2 E1).
  Qed.

  Lemma wpeq_bc_eqv s1 s2 : wpeq s1 s2 -> bc_eqv (lookup s1) (lookup s2).
  Proof.
    intros [Hk H] b. destruct (lookup s1 b) as [x|] eqn:E1; destruct (lookup s2 b) as [y|] eqn:E2.
    - exact (H b x y E1 E2).
    - apply lookup_some_in_keys in E1. rewrite Hk in E1. apply lookup_in_keys in E1. destruct E1; congruence.
    - apply lookup_some_in_keys in E2. rewrite <- Hk in E2. apply lookup_in_keys in E2. destruct E2; congruence.
    - exact I.
  Qed.

  (* ---------------------------------------------------------------- f and reprev f h *)
  Section RpSolve.
    Variable f : func.
    Variable h : block -> list nat.
    Hypothesis Hset : forall b, In b (fn_blocks f) -> forall x, In x (h b) <-> In x (b_prev b).
    Hypothesis Hcsb : forall b, In b (fn_blocks f) -> find (cs_test f) (h b) = find (cs_test f) (b_prev b).
    Notation f2 := (reprev f h).
    Notation sp := (setp h).

    Lemma rp_edge pb s :
      edge_constraint T univ null union inter single f2 (sp pb) s =
      edge_constraint T univ null union inter single f pb s.
    Proof. unfold edge_constraint. rewrite rp_next_global. reflexivity. Qed.

    Lemma rp_rterm st b p : rterm f2 st (sp b) p = rterm f st b p.
    Proof.
      unfold rterm. destruct (lookup st p); [|reflexivity]. rewrite rp_fblock.
      destruct (fblock f p) as [pb|]; [|reflexivity]. cbn [option_map]. rewrite rp_edge. reflexivity.
    Qed.

    Lemma rp_livein st b : livein T null union inter f2 st (sp b) = livein T null union inter f st b.
    Proof.
      rewrite !livein_shape. rewrite rp_next_global. destruct (next_global f b) as [nx|]; [|reflexivity].
      destruct (fold_left (ustep (lterm st)) nx (Some null)) as [acc|]; [|reflexivity].
      change (fexit_op f2 (sp b)) with (fexit_op f b).
      destruct (fexit_op f b) as [[]|]; try reflexivity.
      change (sub_return_point (sp b)) with (sub_return_point b).
      destruct (sub_return_point b); [|reflexivity].
      change (f_find_sub f2 l) with (f_find_sub f l).
      destruct (f_find_sub f l) as [s|]; [|reflexivity]. rewrite rp_retsub_blocks. reflexivity.
    Qed.

    Lemma rp_reachin st b : In b (fn_blocks f) -> okst st ->
      match reachin T univ null union inter single f st b, reachin T univ null union inter single f2 st (sp b) with
      | Some r1, Some r2 => r1 == r2 /\ P r1 /\ P r2
      | None, None => True
      | _, _ => False
      end.
    Proof.
      intros Hb Ho. rewrite !reachin_shape.
      pose proof (rp_prev_global f h Hset Hcsb b Hb) as Hp.
      destruct (prev_global f b) as [ps|].
      2:{ rewrite Hp. exact I. }
      destruct Hp as [ps2 [-> Hs]].
      rewrite (fold_left_ext_in (ustep (rterm f2 st (sp b))) (ustep (rterm f st b)))
        by (intros acc p _; unfold ustep; rewrite rp_rterm; reflexivity).
      change (rinit f2 (sp b)) with (rinit f b).
      pose proof (ufold_seteq (rterm f st b) (fun p v => rterm_P f st b p v Ho) ps ps2 (rinit f b) (rinit_P f b)
                    (fun x => iff_sym (Hs x))) as S.
      destruct (fold_left (ustep (rterm f st b)) ps _) as [a1|];
        destruct (fold_left (ustep (rterm f st b)) ps2 _) as [a2|]; try contradiction; [|exact I].
      destruct S as [E [P1 P2]].
      rewrite (rp_is_srp f h Hset b Hb), (rp_csb f h Hcsb b Hb).
      destruct (is_sub_return_point f b); [|auto].
      destruct (callsub_block_of f b) as [c|]; [|exact I].
      destruct (lookup st c) as [rc|] eqn:Ec; [|exact I].
      assert (Prc : P rc) by exact (Ho _ _ Ec).
      split; [|split; apply P_inter; assumption].
      apply w_inter_cong; try assumption. apply teq_refl.
    Qed.

    Lemma rp_fwd_ok bc1 bc2 sol b : okst sol -> okbc bc1 -> okbc bc2 -> bc_eqv bc1 bc2 ->
      fwd_ok T t_eqb univ null union inter single f bc1 sol b ->
      fwd_ok T t_eqb univ null union inter single f2 bc2 sol b.
    Proof.
      intros Ho O1 O2 Hbc [xb [ri [bc [old [H1 [H2 [H3 [H4 H5]]]]]]]].
      assert (Hb : In xb (fn_blocks f)) by exact (fblock_In f b xb H1).
      pose proof (rp_reachin sol xb Hb Ho) as R. rewrite H2 in R.
      destruct (reachin T univ null union inter single f2 sol (sp xb)) as [ri2|] eqn:E2; [|contradiction].
      destruct R as [Er [Pr1 Pr2]].
      pose proof (Hbc b) as Eb. rewrite H3 in Eb. destruct (bc2 b) as [bc'|] eqn:E3; [|contradiction].
      exists (sp xb), ri2, bc', old.
      split; [rewrite rp_fblock, H1; reflexivity|]. split; [exact E2|]. split; [first [exact E3|reflexivity]|]. split; [exact H4|].
      assert (Pbc : P bc) by exact (O1 _ _ H3). assert (Pbc' : P bc') by exact (O2 _ _ E3).
      apply (w_teq_trans (inter ri2 bc') (inter ri bc) old);
        [apply P_inter; assumption|apply P_inter; assumption|exact (Ho _ _ H4)| |exact H5].
      apply w_inter_cong; try assumption; apply w_teq_sym; assumption.
    Qed.

    Lemma rp_fwd_ok' bc1 bc2 sol b : okst sol -> okbc bc1 -> okbc bc2 -> bc_eqv bc1 bc2 ->
      fwd_ok T t_eqb univ null union inter single f2 bc2 sol b ->
      fwd_ok T t_eqb univ null union inter single f bc1 sol b.
    Proof.
      intros Ho O1 O2 Hbc [xb2 [ri2 [bc' [old [H1 [H2 [H3 [H4 H5]]]]]]]].
      destruct (rp_fblock_inv f h b xb2 H1) as [xb [Hxb ->]].
      assert (Hb : In xb (fn_blocks f)) by exact (fblock_In f b xb Hxb).
      pose proof (rp_reachin sol xb Hb Ho) as R. rewrite H2 in R.
      destruct (reachin T univ null union inter single f sol xb) as [ri|] eqn:E2; [|contradiction].
      destruct R as [Er [Pr1 Pr2]].
      pose proof (Hbc b) as Eb. rewrite H3 in Eb. destruct (bc1 b) as [bc|] eqn:E3; [|contradiction].
      exists xb, ri, bc, old.
      split; [exact Hxb|]. split; [exact E2|]. split; [first [exact E3|reflexivity]|]. split; [exact H4|].
      assert (Pbc : P bc) by exact (O1 _ _ E3). assert (Pbc' : P bc') by exact (O2 _ _ H3).
      apply (w_teq_trans (inter ri bc) (inter ri2 bc') old);
        [apply P_inter; assumption|apply P_inter; assumption|exact (Ho _ _ H4)| |exact H5].
      apply w_inter_cong; assumption.
    Qed.

    Lemma rp_bwd_ok bc1 bc2 sol b : okst sol -> okbc bc1 -> okbc bc2 -> bc_eqv bc1 bc2 ->
      bwd_ok T t_eqb null union inter f bc1 sol b -> bwd_ok T t_eqb null union inter f2 bc2 sol b.
    Proof.
      intros Ho O1 O2 Hbc [xb [H1 H2]]. exists (sp xb). split; [rewrite rp_fblock, H1; reflexivity|].
      destruct H2 as [H2|[li [bc [old [H2 [H3 [H4 H5]]]]]]]; [left; exact H2|right].
      pose proof (Hbc b) as Eb. rewrite H3 in Eb. destruct (bc2 b) as [bc'|] eqn:E3; [|contradiction].
      exists li, bc', old. split; [rewrite rp_livein; exact H2|]. split; [first [exact E3|reflexivity]|]. split; [exact H4|].
      assert (Pli : P li) by exact (livein_P f sol xb li Ho H2).
      assert (Pbc : P bc) by exact (O1 _ _ H3). assert (Pbc' : P bc') by exact (O2 _ _ E3).
      apply (w_teq_trans (inter li bc') (inter li bc) old);
        [apply P_inter; assumption|apply P_inter; assumption|exact (Ho _ _ H4)| |exact H5].
      apply w_inter_cong; try assumption; [apply teq_refl|apply w_teq_sym; assumption].
    Qed.

    Lemma rp_bwd_ok' bc1 bc2 sol b : okst sol -> okbc bc1 -> okbc bc2 -> bc_eqv bc1 bc2 ->
      bwd_ok T t_eqb null union inter f2 bc2 sol b -> bwd_ok T t_eqb null union inter f bc1 sol b.
    Proof.
      intros Ho O1 O2 Hbc [xb2 [H1 H2]]. destruct (rp_fblock_inv f h b xb2 H1) as [xb [Hxb ->]].
      exists xb. split; [exact Hxb|].
      destruct H2 as [H2|[li [bc' [old [H2 [H3 [H4 H5]]]]]]]; [left; exact H2|right].
      rewrite rp_livein in H2.
      pose proof (Hbc b) as Eb. rewrite H3 in Eb. destruct (bc1 b) as [bc|] eqn:E3; [|contradiction].
      exists li, bc, old. split; [exact H2|]. split; [first [exact E3|reflexivity]|]. split; [exact H4|].
      assert (Pli : P li) by exact (livein_P f sol xb li Ho H2).
      assert (Pbc : P bc) by exact (O1 _ _ E3). assert (Pbc' : P bc') by exact (O2 _ _ H3).
      apply (w_teq_trans (inter li bc) (inter li bc') old);
        [apply P_inter; assumption|apply P_inter; assumption|exact (Ho _ _ H4)| |exact H5].
      apply w_inter_cong; try assumption. apply teq_refl.
    Qed.

    Lemma rp_fwd_st0 : fwd_st0 T null f2 = fwd_st0 T null f.
    Proof. unfold fwd_st0, reprev. cbn [fn_blocks]. rewrite map_map. reflexivity. Qed.

    Lemma rp_bwd_st0 ro : bwd_st0 T null f2 ro = bwd_st0 T null f ro.
    Proof. unfold bwd_st0, reprev. cbn [fn_blocks]. rewrite map_map. reflexivity. Qed.

    Theorem rp_forward bc1 bc2 fu1 fu2 wl1 wl2 ro1 ro2 :
      cover_prev_P f2 -> cover_ret_P f2 ->
      okbc bc1 -> okbc bc2 -> bc_eqv bc1 bc2 ->
      (forall b, In b (ids f) -> In b wl1) -> (forall b, In b (ids f) -> In b wl2) ->
      forward T t_eqb univ null union inter single f bc1 fu1 wl1 (fwd_st0 T null f) = Done ro1 ->
      forward T t_eqb univ null union inter single f2 bc2 fu2 wl2 (fwd_st0 T null f2) = Done ro2 ->
      wpeq ro1 ro2 /\ okst ro1 /\ okst ro2.
    Proof.
      intros Hcp Hcr O1 O2 Hbc Hw1 Hw2 F1 F2.
      assert (O0 : okst (fwd_st0 T null f)) by (apply okst_blocks; intros; exact P_null).
      assert (Or1 : okst ro1) by exact (forward_okst f bc1 fu1 wl1 _ ro1 O1 O0 F1).
      assert (Or2 : okst ro2) by (rewrite rp_fwd_st0 in F2; exact (forward_okst f2 bc2 fu2 wl2 _ ro2 O2 O0 F2)).
      assert (S1 : fwd_sol T t_eqb univ null union inter single f bc1 ro1).
      { exact (forward_fixpoint_initial T t_eqb univ null union inter single f bc1 teq_refl
                 (rp_cover_prev f h Hset Hcsb Hcp) (rp_cover_ret f h Hset Hcsb Hcr) fu1 wl1 _ ro1 Hw1 F1). }
      assert (S2 : fwd_sol T t_eqb univ null union inter single f2 bc2 ro2).
      { intros b0 Hb0.
        refine (forward_fixpoint_initial T t_eqb univ null union inter single f2 bc2 teq_refl Hcp Hcr fu2 wl2 _ ro2
                  _ F2 b0 Hb0).
        intros b Hb. apply Hw2. rewrite <- (rp_ids f h). exact Hb. }
      assert (K1 : map fst ro1 = map fst (fwd_st0 T null f))
        by exact (forward_keys T t_eqb univ null union inter single f bc1 _ _ _ _ F1).
      assert (K2 : map fst ro2 = map fst (fwd_st0 T null f)).
      { rewrite <- rp_fwd_st0. exact (forward_keys T t_eqb univ null union inter single f2 bc2 _ _ _ _ F2). }
      assert (N0 : forall b v, lookup (fwd_st0 T null f) b = Some v -> v = null).
      { intros b v Hl. unfold fwd_st0 in Hl. rewrite lookup_map_blocks in Hl.
        destruct (fblock f b); [|discriminate]. inversion Hl. reflexivity. }
      assert (T12 : fwd_sol T t_eqb univ null union inter single f2 bc2 ro1).
      { intros b Hb. apply (rp_fwd_ok bc1 bc2); try assumption. apply S1. rewrite <- (rp_ids f h). exact Hb. }
      assert (T21 : fwd_sol T t_eqb univ null union inter single f bc1 ro2).
      { intros b Hb. apply (rp_fwd_ok' bc1 bc2); try assumption. apply S2. rewrite (rp_ids f h). exact Hb. }
      assert (L21 : wple ro2 ro1).
      { rewrite rp_fwd_st0 in F2.
        exact (proj1 (forward_le_w f2 bc2 ro1 fu2 wl2 _ ro2 O2 T12 Or1 (wple_null _ ro1 N0 K1 Or1) O0 F2)). }
      assert (L12 : wple ro1 ro2).
      { exact (proj1 (forward_le_w f bc1 ro2 fu1 wl1 _ ro1 O1 T21 Or2 (wple_null _ ro2 N0 K2 Or2) O0 F1)). }
      split; [|split; assumption].
      apply w_antisym; try assumption. rewrite K1, K2. reflexivity.
    Qed.

    Theorem rp_backward bc1 bc2 fu1 fu2 wl1 wl2 st01 st02 lo1 lo2 :
      cover_next_P f2 -> cover_call_P f2 ->
      okbc bc1 -> okbc bc2 -> bc_eqv bc1 bc2 ->
      okst st01 -> okst st02 -> bwd_start T null f st01 -> bwd_start T null f2 st02 -> wpeq st01 st02 ->
      (forall b xb, fblock f b = Some xb -> leaf_global f xb = false -> In b wl1) ->
      (forall b xb, fblock f b = Some xb -> leaf_global f xb = false -> In b wl2) ->
      backward T t_eqb null union inter f bc1 fu1 wl1 st01 = Done lo1 ->
      backward T t_eqb null union inter f2 bc2 fu2 wl2 st02 = Done lo2 ->
      wpeq lo1 lo2 /\ okst lo1 /\ okst lo2.
    Proof.
      intros Hcn Hcc O1 O2 Hbc Os1 Os2 B1 B2 Hpeq Hw1 Hw2 R1 R2.
      assert (Ol1 : okst lo1) by exact (backward_okst f bc1 fu1 wl1 st01 lo1 O1 Os1 R1).
      assert (Ol2 : okst lo2) by exact (backward_okst f2 bc2 fu2 wl2 st02 lo2 O2 Os2 R2).
      assert (S1 : bwd_sol T t_eqb null union inter f bc1 lo1).
      { exact (backward_fixpoint_initial T t_eqb null union inter f bc1 teq_refl
                 (rp_cover_next f h Hset Hcsb Hcn) (rp_cover_call f h Hset Hcsb Hcc) fu1 wl1 st01 lo1 Hw1 R1). }
      assert (S2 : bwd_sol T t_eqb null union inter f2 bc2 lo2).
      { intros b0 Hb0.
        refine (backward_fixpoint_initial T t_eqb null union inter f2 bc2 teq_refl Hcn Hcc fu2 wl2 st02 lo2
                  _ R2 b0 Hb0).
        intros b xb2 Hx Hl. destruct (rp_fblock_inv f h b xb2 Hx) as [xb [Hxb ->]].
        exact (Hw2 b xb Hxb Hl). }
      assert (T12 : bwd_sol T t_eqb null union inter f2 bc2 lo1).
      { intros b Hb. apply (rp_bwd_ok bc1 bc2); try assumption. apply S1. rewrite <- (rp_ids f h). exact Hb. }
      assert (T21 : bwd_sol T t_eqb null union inter f bc1 lo2).
      { intros b Hb. apply (rp_bwd_ok' bc1 bc2); try assumption. apply S2. rewrite (rp_ids f h). exact Hb. }
      assert (A1 : wple st01 lo1) by exact (bwd_start_le_w f bc1 fu1 wl1 st01 lo1 Ol1 B1 R1).
      assert (A2 : wple st02 lo2) by exact (bwd_start_le_w f2 bc2 fu2 wl2 st02 lo2 Ol2 B2 R2).
      assert (L21 : wple lo2 lo1).
      { refine (proj1 (backward_le_w f2 bc2 lo1 fu2 wl2 st02 lo2 O2 T12 Ol1 _ Os2 R2)).
        eapply wple_trans; [|exact A1]. apply wpeq_ple; try assumption. apply wpeq_sym; assumption. }
      assert (L12 : wple lo1 lo2).
      { refine (proj1 (backward_le_w f bc1 lo2 fu1 wl1 st01 lo1 O1 T21 Ol2 _ Os1 R1)).
        eapply wple_trans; [|exact A2]. apply wpeq_ple; assumption. }
      split; [|split; assumption].
      apply w_antisym; try assumption.
      rewrite (backward_keys T t_eqb null union inter f bc1 _ _ _ _ R1),
              (backward_keys T t_eqb null union inter f2 bc2 _ _ _ _ R2). apply Hpeq.
    Qed.

    Lemma rp_bwd_st0_peq ro1 ro2 : wpeq ro1 ro2 -> wpeq (bwd_st0 T null f ro1) (bwd_st0 T null f ro2).
    Proof.
      intros Hpeq. split.
      - unfold bwd_st0. rewrite !map_map. reflexivity.
      - intros b v1 v2. unfold bwd_st0. rewrite !lookup_map_blocks.
        destruct (fblock f b) as [xb|]; [|discriminate]. cbn [option_map].
        intros E1 E2. inversion E1; inversion E2; clear E1 E2.
        destruct (leaf_global f xb); [|apply teq_refl].
        pose proof (wpeq_bc_eqv _ _ Hpeq (b_idx xb)) as Hb.
        destruct (lookup ro1 (b_idx xb)); destruct (lookup ro2 (b_idx xb)); try contradiction; [exact Hb|apply teq_refl].
    Qed.

    Lemma okst_bwd_st0 ro : okst ro -> okst (bwd_st0 T null f ro).
    Proof.
      intros Ho. unfold bwd_st0. apply okst_blocks. intros b. destruct (leaf_global f b); [|exact P_null].
      destruct (lookup ro (b_idx b)) eqn:E; [exact (Ho _ _ E)|exact P_null].
    Qed.

    (* Domains.solve on f and on reprev f h: same keys, values equal up to the domain's equality *)
    Theorem rp_solve bc1 bc2 fu1 fu2 lo1 lo2 :
      cover_prev_P f2 -> cover_ret_P f2 -> cover_next_P f2 -> cover_call_P f2 ->
      (forall b, In b (ids f2) -> In b (forward_worklist f2)) ->
      (forall b xb, fblock f2 b = Some xb -> leaf_global f2 xb = false -> In b (backward_worklist f2)) ->
      okst bc1 -> okst bc2 -> wpeq bc1 bc2 ->
      solve T t_eqb univ null union inter single f fu1 bc1 = Done lo1 ->
      solve T t_eqb univ null union inter single f2 fu2 bc2 = Done lo2 ->
      wpeq lo1 lo2 /\ okst lo1 /\ okst lo2.
    Proof.
      intros Hcp Hcr Hcn Hcc Hfw Hbw O1 O2 Hbc S1 S2.
      apply solve_passes in S1. destruct S1 as [ro1 [F1 B1]].
      apply solve_passes in S2. destruct S2 as [ro2 [F2 B2]].
      assert (Hfw' : forall b, In b (ids f) -> In b (forward_worklist f)).
      { intros b Hb. rewrite <- (rp_forward_worklist f h). apply Hfw. rewrite (rp_ids f h). exact Hb. }
      assert (Hbw' : forall b xb, fblock f b = Some xb -> leaf_global f xb = false -> In b (backward_worklist f)).
      { intros b xb Hx Hl. rewrite <- (rp_backward_worklist f h). apply (Hbw b (sp xb)); [|exact Hl].
        rewrite rp_fblock, Hx. reflexivity. }
      rewrite (rp_forward_worklist f h) in F2. rewrite (rp_backward_worklist f h) in B2.
      destruct (rp_forward (lookup bc1) (lookup bc2) fu1 fu2 _ _ ro1 ro2 Hcp Hcr O1 O2 (wpeq_bc_eqv _ _ Hbc)
                  Hfw' Hfw' F1 F2) as [Hro [Or1 Or2]].
      rewrite rp_bwd_st0 in B2.
      refine (rp_backward (lookup ro1) (lookup ro2) fu1 fu2 _ _ _ _ lo1 lo2 Hcn Hcc Or1 Or2 (wpeq_bc_eqv _ _ Hro)
                (okst_bwd_st0 ro1 Or1) (okst_bwd_st0 ro2 Or2) (bwd_st0_start T null f ro1) _
                (rp_bwd_st0_peq ro1 ro2 Hro) Hbw' Hbw' B1 B2).
      rewrite <- rp_bwd_st0. apply bwd_st0_start.
    Qed.
  End RpSolve.
End PLaws.

(* ====================================================================== PART 3 : weak isomorphism *)
Lemma rp_init_constraints T univ null union inter single f h :
  init_constraints T univ null union inter single (reprev f h) = init_constraints T univ null union inter single f.
Proof.
  unfold init_constraints. change (fn_blocks (reprev f h)) with (map (setp h) (fn_blocks f)).
  rewrite (iso_forallb_map (setp h) (fun b => match next_global f b with Some _ => true | None => false end)).
  2:{ intros b _. rewrite (rp_next_global f h b). reflexivity. }
  rewrite map_map. reflexivity.
Qed.

(* the in-order copy of f inside f' : the blocks of f renamed, everything else from f' *)
Definition norm_prev (r g : nat -> nat) (f f' : func) : func :=
  mkFunc (fn_prog f') (map (ren_block r g) (fn_blocks f)) (fn_entry f') (fn_main f') (fn_subs f') (fn_all_subs f')
         (fn_intcs f').
(* the predecessor list f' gives to the block with the id of b *)
Definition prev_of_id (f' : func) (b : block) : list nat :=
  match fblock f' (b_idx b) with Some b' => b_prev b' | None => [] end.

(* f' is weakly isomorphic to f: all of [fiso] with the block list of f' replaced by: the blocks of f' are, in order,
   the blocks of f with id r idx, positions map g ins, successors map r next (IN ORDER) and a predecessor list that has
   the same ELEMENTS as map r prev and the same first callsub predecessor *)
Record fiso_w (r g : nat -> nat) (f f' : func) : Prop := mkFisoW {
  isow_iso : fiso r g f (norm_prev r g f f');
  isow_blocks : fn_blocks f' = map (setp (prev_of_id f')) (fn_blocks (norm_prev r g f f'));
  isow_set : forall b, In b (fn_blocks (norm_prev r g f f')) ->
               forall x, In x (prev_of_id f' b) <-> In x (b_prev b);
  isow_csb : forall b, In b (fn_blocks (norm_prev r g f f')) ->
               find (cs_test (norm_prev r g f f')) (prev_of_id f' b) = find (cs_test (norm_prev r g f f')) (b_prev b) }.

Lemma fiso_w_reprev r g f f' : fiso_w r g f f' -> f' = reprev (norm_prev r g f f') (prev_of_id f').
Proof.
  intros W. pose proof (isow_blocks r g f f' W) as Hb. unfold reprev.
  destruct f' as [pr bl en mn sb al ic]. cbn [fn_blocks fn_prog fn_entry fn_main fn_subs fn_all_subs fn_intcs norm_prev] in *.
  rewrite <- Hb. reflexivity.
Qed.

Lemma fiso_fiso_w r g f f' : NoDup (map b_idx (fn_blocks f')) -> fiso r g f f' -> fiso_w r g f f'.
Proof.
  intros Hnd ISO.
  assert (En : norm_prev r g f f' = f').
  { unfold norm_prev. rewrite <- (iso_blocks r g f f' ISO). destruct f'; reflexivity. }
  assert (Hp : forall b, In b (fn_blocks f') -> prev_of_id f' b = b_prev b).
  { intros b Hb. unfold prev_of_id, fblock.
    assert (H : forall l, NoDup (map b_idx l) -> In b l -> find (fun b0 => Nat.eqb (b_idx b0) (b_idx b)) l = Some b).
    { induction l as [|a l IH]; intros Hn Hi; [destruct Hi|]. cbn [find].
      destruct Hi as [->|Hi]; [rewrite Nat.eqb_refl; reflexivity|].
      cbn [map] in Hn. inversion Hn as [|x xs Hx Hn']; subst.
      destruct (Nat.eqb (b_idx a) (b_idx b)) eqn:E; [|exact (IH Hn' Hi)].
      apply Nat.eqb_eq in E. exfalso. apply Hx. rewrite E. apply in_map. exact Hi. }
    rewrite (H _ Hnd Hb). reflexivity. }
  constructor; rewrite En.
  - exact ISO.
  - rewrite <- (map_id (fn_blocks f')) at 1. apply map_ext_in. intros b Hb. unfold setp. rewrite (Hp b Hb).
    destruct b; reflexivity.
  - intros b Hb x. rewrite (Hp b Hb). tauto.
  - intros b Hb. rewrite (Hp b Hb). reflexivity.
Qed.

(* ---------------------------------------------------------------------- the boolean *)
Definition seteqb (l1 l2 : list nat) : bool :=
  forallb (fun x => nat_mem x l2) l1 && forallb (fun x => nat_mem x l1) l2.

Lemma seteqb_spec l1 l2 : seteqb l1 l2 = true -> forall x, In x l1 <-> In x l2.
Proof.
  unfold seteqb. rewrite andb_true_iff, !forallb_forall. intros [H1 H2] x.
  split; intros Hx; apply nat_mem_In; auto.
Qed.

Definition iso_w_check (r g : nat -> nat) (f f' : func) : bool :=
  let f'' := norm_prev r g f f' in
  let h := prev_of_id f' in
  iso_check r g f f'' &&
  dec_b (list_eq_dec block_eq_dec_iso (fn_blocks f') (map (setp h) (fn_blocks f''))) &&
  forallb (fun b => seteqb (h b) (b_prev b) &&
                    dec_b (opt_eq_dec_iso Nat.eq_dec (find (cs_test f'') (h b)) (find (cs_test f'') (b_prev b))))
          (fn_blocks f'').

Theorem iso_w_check_sound r g f f' :
  (forall x y, r x = r y -> x = y) -> (forall x y, g x = g y -> x = y) ->
  iso_w_check r g f f' = true -> fiso_w r g f f'.
Proof.
  intros Hr Hg H. unfold iso_w_check in H. cbv zeta in H.
  apply andb_true_iff in H. destruct H as [H C3]. apply andb_true_iff in H. destruct H as [C1 C2].
  rewrite forallb_forall in C3.
  constructor.
  - apply iso_check_sound; assumption.
  - exact (dec_b_true _ C2).
  - intros b Hb. specialize (C3 b Hb). apply andb_true_iff in C3. apply seteqb_spec. apply C3.
  - intros b Hb. specialize (C3 b Hb). apply andb_true_iff in C3. exact (dec_b_true _ (proj2 C3)).
Qed.

(* ---------------------------------------------------------------------- search and detectors: exactly the renamed
   paths, in the same order, for every fuel (exceptions included), as soon as the validation verdicts agree *)
Theorem wiso_run_detector r g f f' res res' fuel name checks :
  fiso_w r g f f' ->
  (forall n, validated_in_block res' checks None n = validated_in_block (ren_result r res) checks None n) ->
  run_detector f' res' fuel name checks = omap (ren_paths r) (run_detector f res fuel name checks).
Proof.
  intros W Hv. rewrite (fiso_w_reprev r g f f' W) at 1.
  rewrite (rp_run_detector (norm_prev r g f f') (prev_of_id f') (ren_result r res) res' fuel name checks Hv).
  exact (iso_run_detector_res r g f (norm_prev r g f f') (isow_iso r g f f' W) res fuel name checks).
Qed.

(* block-level constraints are the same lists up to the renaming *)
Theorem wiso_init_constraints r g f f' T univ null union inter single :
  fiso_w r g f f' ->
  (forall op pos args, single op (g pos) (map (shift_sval g) args) = single op pos args) ->
  init_constraints T univ null union inter single f' =
  option_map (ren_st r) (init_constraints T univ null union inter single f).
Proof.
  intros W Hs. rewrite (fiso_w_reprev r g f f' W) at 1. rewrite rp_init_constraints.
  exact (iso_init_constraints r g T univ null union inter single Hs f (norm_prev r g f f') (isow_iso r g f f' W)).
Qed.

(* ---------------------------------------------------------------------- the solver *)
Section WeakSolve.
  Variable T : Type.
  Variable t_eqb : T -> T -> bool.
  Variable univ null : T.
  Variable union inter : T -> T -> T.
  Variable single : instr -> nat -> list sval -> T * T.
  Variable P : T -> Prop.
  Variable leq : T -> T -> Prop.
  Hypothesis P_univ : P univ.
  Hypothesis P_null : P null.
  Hypothesis P_union : forall a b, P a -> P b -> P (union a b).
  Hypothesis P_inter : forall a b, P a -> P b -> P (inter a b).
  Hypothesis P_single : forall op pos args, P (fst (single op pos args)) /\ P (snd (single op pos args)).
  Hypothesis teq_refl : forall a, t_eqb a a = true.
  Hypothesis leq_refl : forall a, leq a a.
  Hypothesis leq_trans : forall a b c, leq a b -> leq b c -> leq a c.
  Hypothesis teq_leq : forall a b, P a -> P b -> (t_eqb a b = true <-> leq a b /\ leq b a).
  Hypothesis union_ub_l : forall a b, P a -> P b -> leq a (union a b).
  Hypothesis union_ub_r : forall a b, P a -> P b -> leq b (union a b).
  Hypothesis union_lub : forall a b c, P a -> P b -> P c -> leq a c -> leq b c -> leq (union a b) c.
  Hypothesis inter_mono : forall a a' b b', P a -> P a' -> P b -> P b' ->
                          leq a a' -> leq b b' -> leq (inter a b) (inter a' b').
  Hypothesis null_least : forall a, P a -> leq null a.

  Variables r g : nat -> nat.
  Hypothesis single_pos : forall op pos args, single op (g pos) (map (shift_sval g) args) = single op pos args.
  Variables f f' : func.
  Hypothesis W : fiso_w r g f f'.

  Notation wpeq := (SolverLemmas.peq T t_eqb).

  Lemma lookup_ren_inv (st : list (nat * T)) b v :
    Analysis.lookup T (ren_st r st) b = Some v -> exists k, b = r k /\ Analysis.lookup T st k = Some v.
  Proof.
    pose proof (iso_r_inj r g f _ (isow_iso r g f f' W)) as Hinj.
    unfold ren_st. induction st as [|[k w] st IH]; intros Hl; [discriminate|].
    cbn [map Analysis.lookup fst snd] in Hl. destruct (Nat.eqb (r k) b) eqn:E.
    - apply Nat.eqb_eq in E. inversion Hl; subst. exists k. split; [reflexivity|].
      cbn [Analysis.lookup]. rewrite Nat.eqb_refl. reflexivity.
    - destruct (IH Hl) as [k' [-> Hk']]. exists k'. split; [reflexivity|].
      cbn [Analysis.lookup]. destruct (Nat.eqb k k') eqn:E'; [|exact Hk'].
      apply Nat.eqb_eq in E'. subst k'. rewrite Nat.eqb_refl in E. discriminate.
  Qed.

  Lemma okst_ren (st : list (nat * T)) : okst T P st -> okst T P (ren_st r st).
  Proof. intros H b v Hl. destruct (lookup_ren_inv st b v Hl) as [k [_ Hk]]. exact (H k v Hk). Qed.

  (* Domains.solve on weakly isomorphic functions: if both runs terminate, the result of f' has the keys of the
     renamed result of f and, key by key, values equal up to the domain's equality (= the same sets) *)
  Theorem wiso_solve bc bc' fu fu' lo lo' :
    graph_wf f' = true ->
    okst T P bc -> okst T P bc' -> wpeq (ren_st r bc) bc' ->
    solve T t_eqb univ null union inter single f fu bc = Done lo ->
    solve T t_eqb univ null union inter single f' fu' bc' = Done lo' ->
    wpeq (ren_st r lo) lo' /\ okst T P lo'.
  Proof.
    intros Hwf O1 O2 Hbc S1 S2.
    destruct (graph_wf_sound f' Hwf) as [Hcp [Hcr [Hcn [Hcc [Hfw [Hbw _]]]]]].
    pose proof (iso_solve r g T t_eqb univ null union inter single single_pos f _ (isow_iso r g f f' W) fu bc) as E.
    rewrite S1 in E. cbn [omap] in E.
    revert Hcp Hcr Hcn Hcc Hfw Hbw S2. rewrite (fiso_w_reprev r g f f' W). intros Hcp Hcr Hcn Hcc Hfw Hbw S2.
    destruct (rp_solve T t_eqb univ null union inter single P leq P_univ P_null P_union P_inter P_single teq_refl
                leq_refl leq_trans teq_leq union_ub_l union_ub_r union_lub inter_mono null_least
                (norm_prev r g f f') (prev_of_id f') (isow_set r g f f' W) (isow_csb r g f f' W)
                (ren_st r bc) bc' fu fu' (ren_st r lo) lo' Hcp Hcr Hcn Hcc Hfw Hbw (okst_ren bc O1) O2 Hbc E S2)
      as [H1 [_ H3]].
    split; assumption.
  Qed.
End WeakSolve.
