(* C17 at model level: totality of the analyses and of the path search.
   - TotalSolver / TotalDomains / TotalSearch prove, for a function f, that under the executable checks
     [defined_okb f] (every graph lookup is defined and stays inside the function) and [search_okb f]
     (main is closed and has no retsub block) and the coverage fact cover_prev_P (a field of graph_ok):
       run_all f fuel / run_detector f r fuel are never Exn, are monotone in the fuel, and are Done as soon
       as the fuel reaches the explicit bounds run_all_bound f / search_bound f.
   - This file discharges the two checks for the whole-contract function of every parsed, structured program
     whose instructions have a stack arity ([arity_okb]) and whose main routine has no retsub
     ([main_no_retsub_b]); both extra hypotheses are necessary (see the _refuted examples). *)
From Coq Require Import String List NArith ZArith Bool Ascii Arith Lia.
From Tealer Require Import Tables LeafPrelude Leaves Syntax Parse Cfg StackAst Keys Analysis Domains Detect.
From Tealer Require Import CfgLemmas SolverLemmas SubLemmas GraphWf ExecLemmas GraphOk.
From Tealer Require Import TotalSolver TotalDomains TotalSearch TotalParse.
Import ListNotations.
Open Scope string_scope.
Open Scope nat_scope.
Open Scope list_scope.

(* ================================================================== 0. the statements for a function graph *)
Definition total_okb (f : func) : bool := defined_okb f && search_okb f.

Definition not_exn {A} (o : outcome A) : Prop := forall e, o <> Exn e.

Theorem graph_total f :
  graph_ok f -> total_okb f = true ->
  (* 1. no exception, for every fuel *)
  (forall fuel, not_exn (run_all f fuel)) /\
  (forall fuel r name checks, not_exn (run_detector f r fuel name checks)) /\
  (* 2. termination beyond explicit bounds *)
  (forall fuel, run_all_bound f <= fuel -> exists r, run_all f fuel = Done r) /\
  (forall fuel r name checks, search_bound f <= fuel -> exists ps, run_detector f r fuel name checks = Done ps) /\
  (* 3. fuel monotonicity *)
  (forall fuel fuel' r, run_all f fuel = Done r -> fuel <= fuel' -> run_all f fuel' = Done r) /\
  (forall fuel fuel' r name checks ps, run_detector f r fuel name checks = Done ps -> fuel <= fuel' ->
                                       run_detector f r fuel' name checks = Done ps).
Proof.
  intros Hg Hok. unfold total_okb in Hok. apply andb_true_iff in Hok. destruct Hok as [Hd Hs].
  pose proof (g_cover_prev f Hg) as Hcp.
  split; [intros fuel e; apply run_all_no_exn; assumption|].
  split; [intros fuel r name checks e; apply run_detector_no_exn; assumption|].
  split; [intros fuel Hf; apply run_all_terminates; assumption|].
  split; [intros fuel r name checks Hf; apply run_detector_terminates; assumption|].
  split; [intros fuel fuel' r; apply run_all_fuel_mono; assumption|].
  intros fuel fuel' r name checks ps. apply run_detector_fuel_mono.
Qed.

(* the components of the solver, for any domain *)
Theorem solver_total T t_eqb univ null union inter single f :
  graph_ok f -> defined_okb f = true ->
  (forall blockc fuel wl st e,
      (forall b, In b (ids f) -> exists v, blockc b = Some v) -> (forall x, In x wl -> In x (ids f)) ->
      covers T f st ->
      forward T t_eqb univ null union inter single f blockc fuel wl st <> Exn e /\
      backward T t_eqb null union inter f blockc fuel wl st <> Exn e) /\
  (forall bc fuel e, bc_covers T f bc -> solve T t_eqb univ null union inter single f fuel bc <> Exn e) /\
  (forall bc fuel fuel' r, solve T t_eqb univ null union inter single f fuel bc = Done r -> fuel <= fuel' ->
                           solve T t_eqb univ null union inter single f fuel' bc = Done r) /\
  (forall (L : TLaws T t_eqb univ null union inter) bc fuel,
      (forall pb s ec, In pb (fn_blocks f) -> edge_constraint T univ null union inter single f pb s = Some ec ->
                       tl_okc _ _ _ _ _ _ L ec) ->
      bc_covers T f bc -> (forall b v, lookup T bc b = Some v -> tl_okc _ _ _ _ _ _ L v) ->
      solve_bound f (tl_H _ _ _ _ _ _ L) <= fuel ->
      exists lo, solve T t_eqb univ null union inter single f fuel bc = Done lo).
Proof.
  intros Hg Hd. pose proof (g_cover_prev f Hg) as Hcp.
  split; [|split; [|split]].
  - intros blockc fuel wl st e Hbc Hwl Hc. split.
    + apply forward_no_exn; assumption.
    + apply backward_no_exn; assumption.
  - intros bc fuel e Hbc. apply solve_no_exn; assumption.
  - intros bc fuel fuel' r. apply solve_fuel_mono.
  - intros L bc fuel Hec Hbc Hok Hfuel.
    destruct (solve_terminates T t_eqb univ null union inter single f Hd Hcp L Hec bc fuel Hbc Hok Hfuel) as [lo [H _]].
    eauto.
Qed.

(* ================================================================== 1. the extra hypotheses on programs *)
(* every instruction has a stack arity in the generated class table (true of every instruction the
   source parser produces from a known mnemonic; IOther with an unknown class name has none) *)
Definition arity_okb (p : prog) : bool :=
  forallb (fun i => match stack_pop_size (i_op i), stack_push_size (i_op i) with
                    | Some _, Some _ => true | _, _ => false end) p.

(* no block of the main routine ends in retsub (finding D15: tealer raises KeyError / AssertionError) *)
Definition main_no_retsub_b (t : teal) : bool :=
  forallb (fun n => match tblock t n with Some b => negb (is_retsub_block t b) | None => true end)
          (s_blocks (t_main t)).

Lemma emulate_total p : forall poss st,
  (forall k, In k poss -> exists op n m, op_at p k = Some op /\ stack_pop_size op = Some n /\ stack_push_size op = Some m) ->
  exists ast, emulate p poss st = Some ast.
Proof.
  induction poss as [|k poss IH]; intros st H; [simpl; eauto|].
  destruct (H k (or_introl eq_refl)) as (op & n & m & Hop & Hn & Hm).
  simpl. rewrite Hop. unfold emulate_ins. rewrite Hn, Hm.
  destruct (pop_n st n) as [a s'].
  destruct (IH (push_outs op k a m s') (fun k' Hk' => H k' (or_intror Hk'))) as [r Hr]. rewrite Hr. eauto.
Qed.

Lemma arity_ok_at p k : arity_okb p = true -> k < length p ->
  exists op n m, op_at p k = Some op /\ stack_pop_size op = Some n /\ stack_push_size op = Some m.
Proof.
  intros Ha Hk. unfold op_at. destruct (nth_error p k) as [i|] eqn:E.
  - unfold arity_okb in Ha. rewrite forallb_forall in Ha. specialize (Ha i (nth_error_In _ _ E)).
    destruct (stack_pop_size (i_op i)) as [n|] eqn:En; [|discriminate].
    destruct (stack_push_size (i_op i)) as [m|] eqn:Em; [|discriminate].
    exists (i_op i), n, m. simpl. auto.
  - apply nth_error_None in E. lia.
Qed.

(* ================================================================== 2. postorders stay inside a closed set *)
Lemma po_incl f (U : list nat) :
  (forall n y, In y (fsuccs f n) -> In y U) ->
  forall fuel n v o v' o', postorder_dfs fuel f n v o = (v', o') ->
    In n U -> incl v U -> incl o U -> incl v' U /\ incl o' U.
Proof.
  intros Hcl. induction fuel as [|fu IH]; intros n v o v' o' Hrun Hn Hv Ho.
  - simpl in Hrun. inversion Hrun; subst. auto.
  - rewrite postorder_dfs_S in Hrun.
    assert (Hfold : forall l vv oo v2 o2, incl l U -> incl vv U -> incl oo U ->
              fold_left (po_step fu f) l (vv, oo) = (v2, o2) -> incl v2 U /\ incl o2 U).
    { induction l as [|s l IHl]; intros vv oo v2 o2 Hl Hvv Hoo Hf.
      - simpl in Hf. inversion Hf; subst. auto.
      - cbn [fold_left] in Hf.
        change (po_step fu f (vv, oo) s) with (if nat_mem s vv then (vv, oo) else postorder_dfs fu f s vv oo) in Hf.
        assert (Hl' : incl l U) by (intros x Hx; apply Hl; right; exact Hx).
        destruct (nat_mem s vv).
        + exact (IHl vv oo v2 o2 Hl' Hvv Hoo Hf).
        + destruct (postorder_dfs fu f s vv oo) as [v1 o1] eqn:Ecall.
          destruct (IH s vv oo v1 o1 Ecall (Hl s (or_introl eq_refl)) Hvv Hoo) as [H1 H2].
          exact (IHl v1 o1 v2 o2 Hl' H1 H2 Hf). }
    destruct (fold_left (po_step fu f) (fsuccs f n) (n :: v, o)) as [v2 o2] eqn:Ef.
    inversion Hrun; subst v' o'.
    destruct (Hfold _ _ _ _ _ (fun y Hy => Hcl n y Hy) (incl_cons Hn Hv) Ho Ef) as [H1 H2].
    split; [exact H1|]. apply incl_app; [exact H2|]. intros x [<-|[]]. exact Hn.
Qed.

Lemma postorder_incl f U e :
  (forall n y, In y (fsuccs f n) -> In y U) -> In e U -> incl (postorder f e) U.
Proof.
  intros Hcl He. unfold postorder.
  destruct (postorder_dfs (S (length (fn_blocks f))) f e [] []) as [v' o'] eqn:E.
  destruct (po_incl f U Hcl _ _ _ _ _ _ E He) as [_ H]; [intros x []|intros x []|]. exact H.
Qed.

(* ================================================================== 3. whole-contract functions of parsed programs *)
Section WholeTotal.
  Variables (p : prog) (t : teal) (bs : list block).
  Hypothesis Hparse : parse_teal p = Ok t.
  Hypothesis Hbs : build_blocks p = Some bs.
  Hypothesis Hok : struct_ok t.
  Hypothesis Harity : arity_okb p = true.
  Hypothesis Hnomr : main_no_retsub_b t = true.
  Notation f := (whole_function t).

  Lemma w_ids : ids f = wf_ids t.
  Proof. unfold ids. exact (fn_blocks_ids p t bs Hparse Hbs). Qed.

  Lemma w_next_in n b y : tblock t n = Some b -> In n (wf_ids t) -> In y (b_next b) -> In y (wf_ids t).
  Proof.
    intros Hb Hn Hy. rewrite (tblock_next p t bs n b Hparse Hbs Hb) in Hy.
    exact (wf_ids_closed p t bs Hparse Hbs n y Hn Hy).
  Qed.

  Lemma w_main_no_retsub n b : In n (s_blocks (t_main t)) -> tblock t n = Some b -> is_retsub_block t b = false.
  Proof.
    intros Hn Hb. unfold main_no_retsub_b in Hnomr. rewrite forallb_forall in Hnomr.
    specialize (Hnomr n Hn). rewrite Hb in Hnomr. apply negb_true_iff. exact Hnomr.
  Qed.

  Lemma w_sub_entry_in s : In s (wf_subs t) -> In (s_entry s) (wf_ids t).
  Proof.
    intros Hs. apply (sub_blocks_in_ids t s _ Hs).
    apply (sub_entry_in_blocks p t bs Hparse Hbs s). apply wf_subs_sub. exact Hs.
  Qed.

  Lemma idsb_forall l : (forall x, In x l -> In x (wf_ids t)) -> forallb (idsb f) l = true.
  Proof. intros H. apply forallb_forall. intros x Hx. apply idsb_In. rewrite w_ids. auto. Qed.

  (* ---------------------------------------------------------------- next_global *)
  Lemma w_next_defined b : In b (fn_blocks f) ->
    match next_global f b with Some nx => forallb (idsb f) (nx ++ next_rp f b) | None => false end = true.
  Proof.
    intros Hb. pose proof (fn_blocks_fblock t b Hb) as Hfb.
    destruct (proj1 (fn_blocks_In t b) Hb) as [Hn Htb].
    assert (Hrp : forall x, In x (next_rp f b) -> In x (wf_ids t)).
    { intros x Hx. unfold next_rp in Hx. destruct (f_is_callsub f b); [|destruct Hx].
      destruct (sub_return_point b) as [r|] eqn:Er; [|destruct Hx]. destruct Hx as [<-|[]].
      apply (w_next_in (b_idx b) b r Htb Hn).
      unfold sub_return_point in Er. destruct (b_next b); [discriminate|]. inversion Er. left. reflexivity. }
    destruct (is_callsub_block t b) eqn:Hcs.
    - destruct (callsub_exit t b Hcs) as [l He].
      destruct (callsub_closure p t Hparse (b_idx b) b l Hfb He) as (s & Hfs & Hsw & _).
      rewrite (next_global_callsub t b l s He Hfs). apply idsb_forall.
      intros x Hx. apply in_app_or in Hx. destruct Hx as [[<-|[]]|Hx]; [apply w_sub_entry_in; exact Hsw|auto].
    - destruct (is_retsub_block t b) eqn:Hrs.
      + destruct (owner_exists t (b_idx b) Hn) as [name Hown].
        pose proof (owner_sub_of t Hok _ _ Hown) as Hso.
        destruct Hown as [Hm|s Hs Hin].
        * rewrite (w_main_no_retsub (b_idx b) b Hm Htb) in Hrs. discriminate.
        * destruct (f_used_sub_some t s Hs) as [s' Hs'].
          rewrite (next_global_retsub t b (s_name s) s' Hrs Hso Hs'). apply idsb_forall.
          intros x Hx. apply in_app_or in Hx. destruct Hx as [Hx|Hx]; [|auto].
          unfold f_return_points in Hx. apply in_flat_map in Hx. destruct Hx as (cb & Hcb & Hx).
          apply in_f_callers in Hcb. destruct Hcb as [Hcb _].
          destruct (proj1 (fn_blocks_In t cb) Hcb) as [Hcn Hctb].
          apply (w_next_in (b_idx cb) cb x Hctb Hcn).
          destruct (b_next cb) as [|r [|r' rr]]; try destruct Hx as [<-|[]]; try destruct Hx. left. reflexivity.
      + rewrite (next_global_plain t b Hrs Hcs). apply idsb_forall.
        intros x Hx. apply in_app_or in Hx. destruct Hx as [Hx|Hx]; [|auto].
        exact (w_next_in (b_idx b) b x Htb Hn Hx).
  Qed.

  (* ---------------------------------------------------------------- prev_global *)
  Lemma w_prev_defined b : In b (fn_blocks f) ->
    match prev_global f b with Some ps => forallb (idsb f) ps | None => false end = true.
  Proof.
    intros Hb. pose proof (fn_blocks_fblock t b Hb) as Hfb.
    destruct (proj1 (fn_blocks_In t b) Hb) as [Hn Htb].
    rewrite prev_global_eq.
    destruct (owner_exists t (b_idx b) Hn) as [name Hown].
    rewrite (owner_sub_of t Hok _ _ Hown).
    assert (Hnon : match prev_nonentry f b with Some ps => forallb (idsb f) ps | None => false end = true).
    { unfold prev_nonentry. destruct (is_sub_return_point f b) eqn:Hrp.
      - destruct (is_rp_callsub_block t b Hrp) as [c Hc]. rewrite Hc.
        destruct (callsub_block_of_some t b c Hc) as (_ & cb & Hcb & Hcs). rewrite Hcb.
        destruct (callsub_exit t cb Hcs) as [l He].
        change (fexit_op f cb) with (exit_op t cb). rewrite He.
        destruct (callsub_closure p t Hparse c cb l Hcb He) as (s & Hfs & _ & _).
        change (f_find_sub f l) with (find_sub t l). rewrite Hfs. simpl.
        apply forallb_forall. intros x Hx. apply idsb_In. unfold sub_retsub_blocks in Hx.
        apply filter_In in Hx. destruct Hx as [_ Hx].
        destruct (fblock f x) as [xb|] eqn:Ex; [|discriminate]. apply fblock_ids. eauto.
      - apply idsb_forall. intros x Hx. exact (pred_in_ids p t bs Hparse Hbs Hok (b_idx b) b x Hn Htb Hx). }
    destruct (is_entry_of f name (b_idx b)); [|exact Hnon].
    destruct Hown as [Hm|s Hs Hin]; [reflexivity|].
    destruct (String.eqb (s_name s) "") eqn:En.
    { apply String.eqb_eq in En. exfalso. exact (so_names t Hok s (wf_subs_sub t s Hs) En). }
    destruct (f_used_sub_some t s Hs) as [s' Hs']. rewrite Hs'.
    apply forallb_forall. intros x Hx. apply idsb_In. unfold ids. apply in_map_iff in Hx.
    destruct Hx as (cb & <- & Hcb). apply in_map. unfold f_callers in Hcb. apply filter_In in Hcb. apply Hcb.
  Qed.

  (* ---------------------------------------------------------------- emulate *)
  Lemma w_emulate_defined b : In b (fn_blocks f) ->
    match emulate (fn_prog f) (b_ins b) [] with Some _ => true | None => false end = true.
  Proof.
    intros Hb. pose proof (fn_blocks_fblock t b Hb) as Hfb.
    rewrite (whole_prog p t Hparse).
    destruct (fblock_raw p t Hparse (b_idx b) b Hfb) as (rbs & rb & nx & Hc & Hne & Hrb & _ & E).
    destruct (emulate_total p (b_ins b) []) as [ast Hast]; [|rewrite Hast; reflexivity].
    intros k Hk. apply arity_ok_at; [exact Harity|].
    assert (Hin : In k (concat (map rb_ins rbs))).
    { apply in_concat. exists (rb_ins rb). split; [apply in_map; eapply nth_error_In; eauto|]. rewrite <- E. exact Hk. }
    rewrite (blocks_partition p rbs Hc Hne) in Hin. apply in_seq in Hin. lia.
  Qed.

  (* ---------------------------------------------------------------- worklists *)
  Lemma w_postorders_in l x : In l (postorders f) -> In x l -> In x (wf_ids t).
  Proof.
    intros Hl Hx. unfold postorders in Hl. destruct Hl as [<-|Hl].
    - apply (postorder_incl f (wf_ids t) (fn_entry f) (fsuccs_closed p t bs Hparse Hbs)); [|exact Hx].
      exact (zero_in_ids p t Hparse).
    - apply in_map_iff in Hl. destruct Hl as (s & <- & Hs).
      apply (postorder_incl f (wf_ids t) (s_entry s) (fsuccs_closed p t bs Hparse Hbs)); [|exact Hx].
      apply w_sub_entry_in. rewrite whole_function_eq in Hs. exact Hs.
  Qed.

  Theorem whole_defined_okb : defined_okb f = true.
  Proof.
    unfold defined_okb. rewrite !andb_true_iff. split; [split|].
    - apply forallb_forall. intros b Hb. unfold defined_block_b.
      rewrite (w_next_defined b Hb), (w_prev_defined b Hb), (w_emulate_defined b Hb). reflexivity.
    - apply idsb_forall. intros x Hx. unfold forward_worklist in Hx. apply in_flat_map in Hx.
      destruct Hx as (l & Hl & Hx). apply in_rev in Hx. eapply w_postorders_in; eauto.
    - apply idsb_forall. intros x Hx. unfold backward_worklist in Hx. apply in_flat_map in Hx.
      destruct Hx as (l & Hl & Hx). apply filter_In in Hx. destruct Hx as [Hx _]. eapply w_postorders_in; eauto.
  Qed.

  Theorem whole_search_okb : search_okb f = true.
  Proof.
    unfold search_okb. rewrite !andb_true_iff. split; [split|].
    - apply idsb_In. rewrite w_ids. exact (zero_in_ids p t Hparse).
    - apply nat_mem_In. change (fn_main f) with (s_blocks (t_main t)). change (fn_entry f) with 0.
      apply (main_reach p t bs Hparse Hbs). constructor.
    - apply forallb_forall. intros b Hb. change (fn_main f) with (s_blocks (t_main t)).
      destruct (nat_mem (b_idx b) (s_blocks (t_main t))) eqn:Em; [|reflexivity].
      apply nat_mem_In in Em. destruct (proj1 (fn_blocks_In t b) Hb) as [Hn Htb].
      apply andb_true_iff. split.
      + change (f_is_retsub f b) with (is_retsub_block t b).
        rewrite (w_main_no_retsub (b_idx b) b Em Htb). reflexivity.
      + apply forallb_forall. intros x Hx. apply nat_mem_In.
        apply (main_reach p t bs Hparse Hbs). apply (Reach_step bs 0 (b_idx b) x).
        * apply (main_reach p t bs Hparse Hbs). exact Em.
        * rewrite <- (tblock_next p t bs (b_idx b) b Hparse Hbs Htb). exact Hx.
  Qed.
End WholeTotal.

Theorem whole_total_okb p t :
  parse_teal p = Ok t -> struct_ok t -> arity_okb p = true -> main_no_retsub_b t = true ->
  total_okb (whole_function t) = true.
Proof.
  intros Hp Hok Ha Hm. destruct (parse_teal_blocks p t Hp) as [bs Hbs].
  unfold total_okb. rewrite (whole_defined_okb p t bs Hp Hbs Hok Ha Hm), (whole_search_okb p t bs Hp Hbs Hm).
  reflexivity.
Qed.

(* ================================================================== 4. C17 for parsed programs *)
Theorem C17_total p t :
  parse_teal p = Ok t -> struct_ok t -> arity_okb p = true -> main_no_retsub_b t = true ->
  let f := whole_function t in
  (forall fuel, not_exn (run_all f fuel)) /\
  (forall fuel r name checks, not_exn (run_detector f r fuel name checks)) /\
  (forall fuel, run_all_bound f <= fuel -> exists r, run_all f fuel = Done r) /\
  (forall fuel r name checks, search_bound f <= fuel -> exists ps, run_detector f r fuel name checks = Done ps) /\
  (forall fuel fuel' r, run_all f fuel = Done r -> fuel <= fuel' -> run_all f fuel' = Done r) /\
  (forall fuel fuel' r name checks ps, run_detector f r fuel name checks = Done ps -> fuel <= fuel' ->
                                       run_detector f r fuel' name checks = Done ps).
Proof.
  intros Hp Hok Ha Hm f. apply graph_total.
  - exact (graph_ok_whole_function p t Hp Hok).
  - exact (whole_total_okb p t Hp Hok Ha Hm).
Qed.

(* the corollary asked for: the outcome is Done or OutOfFuel, never Exn *)
Corollary run_all_done_or_fuel p t :
  parse_teal p = Ok t -> struct_ok t -> arity_okb p = true -> main_no_retsub_b t = true ->
  forall fuel, (exists r, run_all (whole_function t) fuel = Done r) \/ run_all (whole_function t) fuel = OutOfFuel.
Proof.
  intros Hp Hok Ha Hm fuel. destruct (C17_total p t Hp Hok Ha Hm) as (H & _).
  destruct (run_all (whole_function t) fuel) as [r|e|] eqn:E; [left; eauto| |right; reflexivity].
  exfalso. exact (H fuel e E).
Qed.

Corollary C17_total_b p t :
  parse_teal p = Ok t -> struct_okb t = true -> arity_okb p = true -> main_no_retsub_b t = true ->
  let f := whole_function t in
  (exists r, run_all f (run_all_bound f) = Done r /\
             forall name checks, exists ps, run_detector f r (search_bound f) name checks = Done ps).
Proof.
  intros Hp Hb Ha Hm f. destruct (C17_total p t Hp (struct_okb_sound t Hb) Ha Hm) as (_ & _ & H3 & H4 & _).
  destruct (H3 (run_all_bound f) (Nat.le_refl _)) as [r Hr]. exists r. split; [exact Hr|].
  intros name checks. apply H4. apply Nat.le_refl.
Qed.

Print Assumptions graph_total.
Print Assumptions solver_total.
Print Assumptions whole_total_okb.
Print Assumptions C17_total.
Print Assumptions run_all_done_or_fuel.
Print Assumptions C17_total_b.

(* ================================================================== 5. the extra hypotheses are necessary *)
(* (a) finding D15: a retsub in the main routine.  The program parses, is structured, satisfies graph_ok and
   every instruction has an arity, yet the analysis stops with an exception (KeyError in
   next_blocks_global) and the path search with an assertion failure. *)
Definition ex_retsub_lines : list string := ["int 1"; "retsub"].
Definition ex_retsub_prog : prog :=
  Eval vm_compute in match parse_program (unlines ex_retsub_lines) with Ok p => p | Err _ => [] end.
Definition ex_retsub_teal : teal :=
  Eval vm_compute in
    match parse_teal ex_retsub_prog with
    | Ok t => t
    | Err _ => mkTeal 0 MAny [] [] [] (mkSub "" 0 [] []) [] None
    end.

Example ex_retsub_parses :
  parse_program (unlines ex_retsub_lines) = Ok ex_retsub_prog /\ parse_teal ex_retsub_prog = Ok ex_retsub_teal.
Proof. split; vm_compute; reflexivity. Qed.

Theorem no_exn_under_graph_ok_refuted :
  exists p t, parse_teal p = Ok t /\ struct_ok t /\ graph_ok (whole_function t) /\ arity_okb p = true /\
    main_no_retsub_b t = false /\
    run_all (whole_function t) 100 = Exn "exception in block/path level constraints" /\
    detect_paths (whole_function t) (fun _ => false) (fun _ => true) 100 = Exn "AssertionError: callsub_block is None".
Proof.
  exists ex_retsub_prog, ex_retsub_teal.
  assert (Hp : parse_teal ex_retsub_prog = Ok ex_retsub_teal) by (vm_compute; reflexivity).
  assert (Hs : struct_okb ex_retsub_teal = true) by (vm_compute; reflexivity).
  split; [exact Hp|]. split; [apply struct_okb_sound; exact Hs|].
  split; [exact (graph_ok_whole_function_b _ _ Hp Hs)|].
  repeat split; vm_compute; reflexivity.
Qed.

(* (b) an instruction without an entry in the class table (not producible by the source parser from a known
   mnemonic): the stack emulation has no arity for it *)
Definition ex_bogus_prog : prog := [mkIns 1 (IOther "Bogus" []); mkIns 2 (IInt (IANum 1)); mkIns 3 IReturn].

Theorem no_exn_without_arity_refuted :
  exists p t, parse_teal p = Ok t /\ struct_ok t /\ graph_ok (whole_function t) /\ main_no_retsub_b t = true /\
    arity_okb p = false /\
    run_all (whole_function t) 100 = Exn "exception in block/path level constraints".
Proof.
  exists ex_bogus_prog.
  destruct (parse_teal ex_bogus_prog) as [t|e] eqn:Hp; [|vm_compute in Hp; discriminate].
  exists t.
  assert (Hs : struct_okb t = true).
  { vm_compute in Hp. inversion Hp; subst t. vm_compute. reflexivity. }
  split; [reflexivity|]. split; [apply struct_okb_sound; exact Hs|].
  split; [exact (graph_ok_whole_function_b _ _ Hp Hs)|].
  vm_compute in Hp. inversion Hp; subst t. repeat split; vm_compute; reflexivity.
Qed.

(* ================================================================== 6. non-vacuity: a loop and a subroutine *)
Definition ex_total_lines : list string :=
  ["#pragma version 6"; "int 0"; "loop:"; "int 1"; "+"; "dup"; "int 3"; "<"; "bnz loop"; "pop";
   "callsub check"; "int 1"; "return";
   "check:"; "txn RekeyTo"; "global ZeroAddress"; "=="; "assert"; "txn Fee"; "int 1000"; "<="; "assert"; "retsub"].

Definition ex_total_prog : prog :=
  Eval vm_compute in match parse_program (unlines ex_total_lines) with Ok p => p | Err _ => [] end.
Definition ex_total_teal : teal :=
  Eval vm_compute in
    match parse_teal ex_total_prog with
    | Ok t => t
    | Err _ => mkTeal 0 MAny [] [] [] (mkSub "" 0 [] []) [] None
    end.
Definition ex_total_fn : func := whole_function ex_total_teal.

Example ex_total_parses :
  parse_program (unlines ex_total_lines) = Ok ex_total_prog /\ parse_teal ex_total_prog = Ok ex_total_teal.
Proof. split; vm_compute; reflexivity. Qed.

(* four blocks in main (one of them a loop), one subroutine *)
Example ex_total_shape :
  length (fn_blocks ex_total_fn) = 5 /\ map s_name (fn_subs ex_total_fn) = ["check"] /\
  existsb (fun b => nat_mem (b_idx b) (b_next b)) (fn_blocks ex_total_fn) = true.
Proof. vm_compute. repeat split; reflexivity. Qed.

Example ex_total_hyps :
  struct_okb ex_total_teal = true /\ arity_okb ex_total_prog = true /\ main_no_retsub_b ex_total_teal = true.
Proof. vm_compute. repeat split; reflexivity. Qed.

Example ex_total_graph_ok : graph_ok ex_total_fn.
Proof.
  exact (graph_ok_whole_function_b ex_total_prog ex_total_teal (proj2 ex_total_parses) (proj1 ex_total_hyps)).
Qed.

(* the checks, computed directly and obtained from the theorem *)
Example ex_total_okb_computed : total_okb ex_total_fn = true /\ graph_wf ex_total_fn = true.
Proof. vm_compute. split; reflexivity. Qed.
Example ex_total_okb_proved : total_okb ex_total_fn = true.
Proof.
  destruct ex_total_hyps as (H1 & H2 & H3).
  exact (whole_total_okb ex_total_prog ex_total_teal (proj2 ex_total_parses) (struct_okb_sound _ H1) H2 H3).
Qed.

(* the explicit bounds *)
Example ex_total_bounds :
  N.of_nat (run_all_bound ex_total_fn) = 38330%N /\ N.of_nat (search_bound ex_total_fn) = 31%N.
Proof. vm_compute. split; reflexivity. Qed.

Definition is_done {A} (o : outcome A) : bool := match o with Done _ => true | _ => false end.

(* at the bound the analysis and all detectors return Done (by computation) ... *)
Example ex_total_runs :
  is_done (run_all ex_total_fn (run_all_bound ex_total_fn)) = true /\
  match run_all ex_total_fn (run_all_bound ex_total_fn) with
  | Done r => forallb (fun d => is_done (run_detector ex_total_fn r (search_bound ex_total_fn) (fst d) (snd d))) detectors
  | _ => false
  end = true.
Proof. vm_compute. split; reflexivity. Qed.

(* ... and by the theorem, for every larger fuel as well *)
Example ex_total_by_theorem :
  forall fuel, run_all_bound ex_total_fn <= fuel -> exists r, run_all ex_total_fn fuel = Done r.
Proof.
  destruct ex_total_hyps as (H1 & H2 & H3).
  destruct (C17_total ex_total_prog ex_total_teal (proj2 ex_total_parses) (struct_okb_sound _ H1) H2 H3)
    as (_ & _ & H & _).
  exact H.
Qed.

(* the bound is not vacuous the other way: with little fuel the solver does run out *)
Example ex_total_small_fuel : run_all ex_total_fn 3 = OutOfFuel.
Proof. vm_compute. reflexivity. Qed.

(* the shapes named in the property: dead code that branches and calls; a call as the last instruction;
   a branch as the last instruction *)
Definition ex_shapes : list (list string) :=
  [ ["#pragma version 6"; "int 1"; "return"; "dead:"; "int 1"; "bz dead"; "callsub f"; "int 1"; "return"; "f:"; "retsub"];
    ["#pragma version 6"; "b m"; "f:"; "int 1"; "retsub"; "m:"; "int 1"; "callsub f"];
    ["#pragma version 6"; "l:"; "int 1"; "bz l"] ].

Definition shape_ok (ls : list string) : bool :=
  match parse_program (unlines ls) with
  | Ok p =>
      match parse_teal p with
      | Ok t =>
          let f := whole_function t in
          struct_okb t && arity_okb p && main_no_retsub_b t && total_okb f &&
          match run_all f (run_all_bound f) with
          | Done r => forallb (fun d => is_done (run_detector f r (search_bound f) (fst d) (snd d))) detectors
          | _ => false
          end
      | Err _ => false
      end
  | Err _ => false
  end.

Example ex_shapes_total : forallb shape_ok ex_shapes = true.
Proof. vm_compute. reflexivity. Qed.

Print Assumptions no_exn_under_graph_ok_refuted.
Print Assumptions no_exn_without_arity_refuted.
Print Assumptions ex_total_okb_proved.
Print Assumptions ex_total_runs.
Print Assumptions ex_total_by_theorem.
Print Assumptions ex_shapes_total.

(* ================================================================== 7. programs given as source text *)
(* the arity hypothesis holds for everything the source parser produces (TotalParse) *)
Theorem parse_program_arity_okb src p : parse_program src = Ok p -> arity_okb p = true.
Proof.
  intros H. unfold arity_okb. apply forallb_forall. intros i Hi.
  exact (parse_program_arity src p H i Hi).
Qed.

Theorem C17_total_src src p t :
  parse_program src = Ok p -> parse_teal p = Ok t -> struct_ok t -> main_no_retsub_b t = true ->
  let f := whole_function t in
  (forall fuel, not_exn (run_all f fuel)) /\
  (forall fuel r name checks, not_exn (run_detector f r fuel name checks)) /\
  (forall fuel, run_all_bound f <= fuel -> exists r, run_all f fuel = Done r) /\
  (forall fuel r name checks, search_bound f <= fuel -> exists ps, run_detector f r fuel name checks = Done ps) /\
  (forall fuel fuel' r, run_all f fuel = Done r -> fuel <= fuel' -> run_all f fuel' = Done r) /\
  (forall fuel fuel' r name checks ps, run_detector f r fuel name checks = Done ps -> fuel <= fuel' ->
                                       run_detector f r fuel' name checks = Done ps).
Proof.
  intros Hsrc Hp Hok Hm. exact (C17_total p t Hp Hok (parse_program_arity_okb src p Hsrc) Hm).
Qed.

(* for source programs the only remaining exclusion is finding D15 (retsub in main) *)
Corollary C17_src_done_or_fuel src p t :
  parse_program src = Ok p -> parse_teal p = Ok t -> struct_ok t -> main_no_retsub_b t = true ->
  forall fuel, (exists r, run_all (whole_function t) fuel = Done r) \/ run_all (whole_function t) fuel = OutOfFuel.
Proof.
  intros Hsrc Hp Hok Hm. exact (run_all_done_or_fuel p t Hp Hok (parse_program_arity_okb src p Hsrc) Hm).
Qed.

Print Assumptions parse_program_arity_okb.
Print Assumptions C17_total_src.
Print Assumptions C17_src_done_or_fuel.
