(* Gen/LineGen.v (regenerated from teal/instructions/parse_instruction.py by tools/translate_line.py) against the
   hand-written Model/Parse.v.

   PART 1  the str method table of the generated prelude = the string functions of the model
   PART 2  _in_base64_literal = in_b64 ; _split_instruction_into_tokens = tokenize, on every string
   PART 3  _parse_int against parse_int (partial: Python's int() accepts more spellings; refuted in general)
   PART 4  _is_int = is_int
   PART 5  _parse_byte_arguments against parse_byte_args (partial; refuted in general: two "(" in one token)
   PART 6  parse_line against parse_line
   PART 7  transported theorems *)
From Coq Require Import String List NArith ZArith Bool Ascii Arith Lia.
From Tealer Require Import Tables Syntax Parse KeysGen LineGen ParseLemmas ParseLemmas2.
Import ListNotations.
Open Scope list_scope.
Open Scope nat_scope.
Open Scope string_scope.

(* a model result read as a Python outcome: every Err is "an exception was raised" *)
Definition of_res {A : Type} (r : res A) : py A := match r with Ok a => Some a | Err _ => None end.

(* ====================================================================== *)
(* PART 1 : the str method table                                            *)
(* ====================================================================== *)
Lemma ascii_isspace_is_space : forall c, ascii_isspace c = is_space c.
Proof. intros [[] [] [] [] [] [] [] []]; reflexivity. Qed.

Lemma str_lstrip_eq : forall s, str_lstrip_by ascii_isspace s = lstrip s.
Proof.
  induction s as [|c t IH]; [reflexivity|]. cbn [str_lstrip_by lstrip].
  rewrite ascii_isspace_is_space, IH. reflexivity.
Qed.
Lemma str_rstrip_eq : forall s, str_rstrip_by ascii_isspace s = rstrip' s.
Proof.
  induction s as [|c t IH]; [reflexivity|]. cbn [str_rstrip_by rstrip'].
  rewrite ascii_isspace_is_space, IH. reflexivity.
Qed.
Lemma str_strip_eq : forall s, str_strip s = strip s.
Proof. intros s. unfold str_strip. rewrite str_rstrip_eq, str_lstrip_eq, strip_eq. reflexivity. Qed.

Lemma str_join_eq : forall sep xs, str_join sep xs = join sep xs.
Proof. induction xs as [|x t IH]; [reflexivity|]. cbn [str_join join]. rewrite IH. reflexivity. Qed.

Lemma str_slice_from_drop : forall s a, str_slice_from s a = drop a s.
Proof. induction s as [|c t IH]; intros [|a]; cbn [str_slice_from drop]; auto. Qed.
Lemma str_drop_last_eq : forall s, str_drop_last s = drop_last s.
Proof. induction s as [|c t IH]; [reflexivity|]. cbn [str_drop_last drop_last]. rewrite IH. reflexivity. Qed.
Lemma list_but_last_eq : forall (xs : list string), list_but_last xs = but_last xs.
Proof. induction xs as [|x t IH]; [reflexivity|]. cbn [list_but_last but_last]. rewrite IH. reflexivity. Qed.
Lemma list_last_some : forall (xs : list string) d, xs <> [] -> list_last xs = Some (List.last xs d).
Proof.
  induction xs as [|x t IH]; intros d H; [congruence|]. destruct t as [|y t']; [reflexivity|].
  cbn [list_last List.last]. apply IH. discriminate.
Qed.

(* slices of a concatenation *)
Lemma slen_app : forall a b, String.length (a ++ b) = String.length a + String.length b.
Proof. induction a as [|c t IH]; intros b; cbn [String.append String.length]; [reflexivity|]. rewrite IH. reflexivity. Qed.
Lemma slice_from_app : forall a b, str_slice_from (a ++ b) (String.length a) = b.
Proof. induction a as [|c t IH]; intros b; cbn [String.append String.length str_slice_from]; [destruct b; reflexivity|apply IH]. Qed.
Lemma take_app : forall a b, str_take (a ++ b) (String.length a) = a.
Proof. induction a as [|c t IH]; intros b; cbn [String.append String.length str_take]; [destruct b; reflexivity|]. rewrite IH. reflexivity. Qed.
Lemma take_all : forall a, str_take a (String.length a) = a.
Proof. intros a. rewrite <- (sapp_nil_r a) at 1. apply take_app. Qed.
Lemma get_app : forall a c t, String.get (String.length a) (a ++ String c t) = Some c.
Proof. induction a as [|d u IH]; intros c t; cbn [String.append String.length String.get]; [reflexivity|apply IH]. Qed.
Lemma get_none : forall a n, String.length a <= n -> String.get n a = None.
Proof.
  induction a as [|d u IH]; intros n H; [destruct n; reflexivity|].
  cbn [String.length] in H. destruct n as [|n]; [lia|]. cbn [String.get]. apply IH. lia.
Qed.
Lemma index_app : forall a c t, str_index (a ++ String c t) (String.length a) = Some (String c "").
Proof. intros. unfold str_index. rewrite get_app. reflexivity. Qed.
(* line[start:i] when line = done ++ tok ++ s *)
Lemma slice_mid : forall d tok s,
  str_slice (d ++ tok ++ s) (String.length d) (String.length d + String.length tok) = tok.
Proof.
  intros. unfold str_slice. rewrite slice_from_app.
  replace (String.length d + String.length tok - String.length d) with (String.length tok) by lia.
  apply take_app.
Qed.
Lemma slice_mid_k : forall d tok s k,
  str_slice (d ++ tok ++ s) (String.length d + String.length tok) (String.length d + String.length tok + k) = str_take s k.
Proof.
  intros. unfold str_slice. rewrite <- slen_app, <- sapp_assoc, slice_from_app.
  f_equal. lia.
Qed.
Lemma slice_from_mid : forall d tok s, str_slice_from (d ++ tok ++ s) (String.length d + String.length tok) = s.
Proof. intros. rewrite <- slen_app, <- sapp_assoc. apply slice_from_app. Qed.

Lemma rev_string_snoc : forall a c, rev_string (a ++ String c "") = String c (rev_string a).
Proof. intros. rewrite rev_string_app. reflexivity. Qed.

(* line[i:i+2] == "//"  is  line[i:].startswith("//") *)
Lemma prefix_cons : forall a p b s, String.prefix (String a p) (String b s) = Ascii.eqb a b && String.prefix p s.
Proof.
  intros. cbn [String.prefix]. destruct (ascii_dec a b) as [E|E]; destruct (Ascii.eqb_spec a b); try congruence; reflexivity.
Qed.
Lemma take2_comment : forall s, String.eqb (str_take s 2) "//" = starts_with "//" s.
Proof.
  intros [|a [|b s]]; unfold starts_with; try reflexivity.
  - rewrite prefix_cons. cbn [str_take String.eqb String.prefix]. rewrite Ascii.eqb_sym. destruct (Ascii.eqb "/" a); reflexivity.
  - rewrite !prefix_cons. cbn [str_take String.eqb String.prefix]. rewrite (Ascii.eqb_sym a), (Ascii.eqb_sym b).
    destruct (Ascii.eqb "/" a); [|reflexivity]. destruct (Ascii.eqb "/" b); [|reflexivity].
    destruct s; reflexivity.
Qed.

(* ====================================================================== *)
(* PART 2 : the tokenizer                                                   *)
(* ====================================================================== *)
(* ---- _in_base64_literal *)
Theorem in_base64_literal_gen_eq : forall fields token,
  in_base64_literal_gen fields token = Some (in_b64 (List.last fields "") (rev_string token)).
Proof.
  intros fields token. unfold in_base64_literal_gen, in_b64. rewrite rev_string_invol.
  unfold str_startswith_any, str_startswith, starts_with. cbn [existsb].
  rewrite orb_false_r.
  destruct (String.prefix "base64(" token || String.prefix "b64(" token) eqn:E.
  - reflexivity.
  - cbn [orb]. destruct fields as [|x t].
    + reflexivity.
    + rewrite (list_last_some (x :: t) "") by discriminate.
      cbn [List.length Nat.ltb Nat.leb andE ret bind]. unfold str_in_tuple, is_b64_kw. cbn [existsb].
      rewrite orb_false_r. reflexivity.
Qed.

(* ---- the string-literal loop (while2) = tok_string *)
Notation W2 := split_instruction_into_tokens_gen_while2.
Notation W1 := split_instruction_into_tokens_gen_while1.

Lemma index_at : forall d tok c t,
  str_index (d ++ tok ++ String c t) (String.length d + String.length tok) = Some (String c "").
Proof. intros. rewrite <- slen_app, <- sapp_assoc. apply index_app. Qed.
Lemma eqb_char1 : forall c x, String.eqb (String c "") (String x "") = Ascii.eqb c x.
Proof. intros. cbn [String.eqb]. destruct (Ascii.eqb c x); reflexivity. Qed.
Lemma reassoc1 : forall d tok c t, d ++ tok ++ String c t = d ++ (tok ++ String c "") ++ t.
Proof. intros. rewrite (sapp_assoc tok). reflexivity. Qed.
Lemma slen_snoc : forall a c, String.length (a ++ String c "") = String.length a + 1.
Proof. intros. rewrite slen_app. reflexivity. Qed.

Lemma while2_eq : forall n s, String.length s <= n ->
  forall wf mf d tok fields line i start,
  String.length s < wf -> line = d ++ tok ++ s -> start = String.length d -> i = String.length d + String.length tok ->
  match tok_string mf s (rev_string tok) false with
  | Some (tokn, rest) =>
      W2 wf line fields i start = Some ((fields ++ [tokn])%list, start + String.length tokn, start + String.length tokn) /\
      line = d ++ tokn ++ rest /\ String.length rest < String.length s
  | None => W2 wf line fields i start = None
  end.
Proof.
  induction n as [|n IH]; intros s Hn wf mf d tok fields line i start Hwf Hline Hstart Hi.
  - destruct s as [|c t]; [|cbn [String.length] in Hn; lia].
    destruct wf as [|wf]; [cbn [String.length] in Hwf; lia|].
    cbn [tok_string W2].
    assert (Hlt : Nat.ltb i (String.length line) = false).
    { apply Nat.ltb_ge. subst. rewrite !slen_app. cbn [String.length]. lia. }
    rewrite Hlt. reflexivity.
  - destruct s as [|c t].
    + destruct wf as [|wf]; [cbn [String.length] in Hwf; lia|].
      cbn [tok_string W2].
      assert (Hlt : Nat.ltb i (String.length line) = false).
      { apply Nat.ltb_ge. subst. rewrite !slen_app. cbn [String.length]. lia. }
      rewrite Hlt. reflexivity.
    + cbn [String.length] in Hn, Hwf.
      destruct wf as [|wf]; [lia|].
      assert (Hlt : Nat.ltb i (String.length line) = true).
      { apply Nat.ltb_lt. subst. rewrite !slen_app. cbn [String.length]. lia. }
      assert (Hidx : str_index line i = Some (String c "")).
      { subst. apply index_at. }
      cbn [tok_string W2]. rewrite Hlt, Hidx. cbn [bind ret ifE]. rewrite !eqb_char1.
      destruct (Ascii.eqb c "\") eqn:Ebs.
      * (* backslash: the next character is skipped *)
        cbn [ifE].
        destruct t as [|e t2].
        -- cbn [tok_string]. destruct wf as [|wf]; [reflexivity|]. cbn [W2].
           assert (Hlt2 : Nat.ltb (i + 2) (String.length line) = false).
           { apply Nat.ltb_ge. subst. rewrite !slen_app. cbn [String.length]. lia. }
           rewrite Hlt2. reflexivity.
        -- cbn [tok_string]. cbn [String.length] in Hn, Hwf.
           specialize (IH t2 ltac:(lia) wf mf d (tok ++ String c (String e "")) fields line (i + 2) start ltac:(lia)).
           rewrite rev_string_app in IH. change (rev_string (String c (String e ""))) with (String e (String c "")) in IH.
           cbn [String.append] in IH.
           specialize (IH ltac:(subst; rewrite (sapp_assoc tok); reflexivity) Hstart
                          ltac:(subst; rewrite slen_app; cbn [String.length]; lia)).
           destruct (tok_string mf t2 (String e (String c (rev_string tok))) false) as [[tokn rest]|]; [|exact IH].
           destruct IH as [A [B C]]. split; [exact A|]. split; [exact B|]. cbn [String.length]. lia.
      * destruct (Ascii.eqb c """") eqn:Edq.
        -- (* the closing quote *)
           cbn [ifE]. rewrite <- (rev_string_snoc tok c), rev_string_invol.
           assert (Hsl : str_slice line start (i + 1) = tok ++ String c "").
           { subst. rewrite reassoc1. replace (String.length d + String.length tok + 1) with (String.length d + String.length (tok ++ String c "")) by (rewrite slen_snoc; lia).
             apply slice_mid. }
           rewrite Hsl. split; [|split].
           ++ unfold ret. rewrite slen_snoc. subst start i. rewrite Nat.add_assoc. reflexivity.
           ++ subst. apply reassoc1.
           ++ cbn [String.length]. lia.
        -- (* any other character *)
           cbn [ifE].
           specialize (IH t ltac:(lia) wf mf d (tok ++ String c "") fields line (i + 1) start ltac:(lia)).
           rewrite rev_string_snoc in IH.
           specialize (IH ltac:(subst; apply reassoc1) Hstart ltac:(subst; rewrite slen_snoc; lia)).
           destruct (tok_string mf t (String c (rev_string tok)) false) as [[tokn rest]|]; [|exact IH].
           destruct IH as [A [B C]]. split; [exact A|]. split; [exact B|]. cbn [String.length]. lia.
Qed.

(* ---- the outer loop (while1) = tokenize_acc *)
(* what _split_instruction_into_tokens does after its loop *)
Definition finish (line : string) (x : option (list string) * (list string * nat * nat)) : py (list string) :=
  let '(r, (fields, i, start)) := x in
  match r with
  | Some v => Some v
  | None => if Nat.ltb start (String.length line)
            then Some (fields ++ [str_strip (str_slice_from line start)])%list else Some fields
  end.
Lemma split_gen_unfold : forall wf line,
  split_instruction_into_tokens_gen wf line = bind (W1 wf (str_strip line) [] 0 0) (finish (str_strip line)).
Proof.
  intros. unfold split_instruction_into_tokens_gen.
  destruct (W1 wf (str_strip line) [] 0 0) as [[r [[f i] st]]|]; [|reflexivity].
  cbn [bind finish]. unfold split_instruction_into_tokens_gen_k2. destruct r; reflexivity.
Qed.

Lemma isspace1 : forall c, str_isspace (String c "") = is_space c.
Proof. intros. unfold str_isspace. cbn [str_is_empty negb str_forall andb]. rewrite andb_true_r. apply ascii_isspace_is_space. Qed.
Lemma rev_nonempty : forall a u, exists b v, rev_string (String a u) = String b v.
Proof.
  intros. destruct (rev_string (String a u)) as [|b v] eqn:E; [|eauto].
  apply rev_string_nil_inv in E. discriminate.
Qed.
Lemma last_snoc : forall (l : list string) a d, List.last (l ++ [a])%list d = a.
Proof. intros. apply last_last. Qed.
Lemma eqb_len_nonempty : forall d a u, Nat.eqb (String.length d) (String.length d + String.length (String a u)) = false.
Proof. intros. apply Nat.eqb_neq. cbn [String.length]. lia. Qed.

Lemma reassoc2 : forall d tok c t, d ++ tok ++ String c t = (d ++ tok ++ String c "") ++ "" ++ t.
Proof. intros. change ("" ++ t) with t. rewrite !sapp_assoc. reflexivity. Qed.

Lemma while1_eq : forall wf mf s d tok fields line i start,
  String.length s < wf -> String.length s < mf ->
  line = d ++ tok ++ s -> start = String.length d -> i = String.length d + String.length tok ->
  bind (W1 wf line fields i start) (finish line) =
  match tokenize_acc mf s (rev_string tok) (List.last fields "") with
  | Ok r => Some (fields ++ r)%list
  | Err _ => None
  end.
Proof.
  induction wf as [|wf IH]; intros mf s d tok fields line i start Hwf Hmf Hline Hstart Hi; [lia|].
  destruct mf as [|mf]; [lia|].
  destruct s as [|c t].
  - (* end of the line *)
    assert (Hlt : Nat.ltb i (String.length line) = false).
    { apply Nat.ltb_ge. subst. rewrite !slen_app. cbn [String.length]. lia. }
    cbn [W1 tokenize_acc]. rewrite Hlt. cbn [bind ret finish].
    destruct tok as [|a u].
    + change (rev_string "") with "".
      assert (Hs : Nat.ltb start (String.length line) = false).
      { apply Nat.ltb_ge. subst. rewrite !slen_app. cbn [String.length]. lia. }
      rewrite Hs, app_nil_r. reflexivity.
    + destruct (rev_nonempty a u) as [b [v E]].
      assert (Hs : Nat.ltb start (String.length line) = true).
      { apply Nat.ltb_lt. subst. rewrite !slen_app. cbn [String.length]. lia. }
      rewrite Hs, E, <- E, rev_string_invol. subst line start. rewrite slice_from_app, sapp_nil_r, str_strip_eq. reflexivity.
  - cbn [String.length] in Hwf, Hmf.
    assert (Hlt : Nat.ltb i (String.length line) = true).
    { apply Nat.ltb_lt. subst. rewrite !slen_app. cbn [String.length]. lia. }
    assert (Hidx : str_index line i = Some (String c "")).
    { subst. apply index_at. }
    assert (Hnext : forall fields', bind (W1 wf line fields' (i + 1) start) (finish line) =
              match tokenize_acc mf t (String c (rev_string tok)) (List.last fields' "") with
              | Ok r => Some (fields' ++ r)%list | Err _ => None end).
    { intros fields'. rewrite <- rev_string_snoc.
      apply (IH mf t d (tok ++ String c "") fields' line (i + 1) start); try lia.
      - subst. apply reassoc1.
      - subst. rewrite slen_snoc. lia. }
    cbn [W1 tokenize_acc]. rewrite Hlt, Hidx. cbn [bind ret ifE]. rewrite isspace1.
    destruct (is_space c) eqn:Esp.
    + (* whitespace *)
      cbn [ifE]. destruct tok as [|a u].
      * change (rev_string "") with "". cbv iota.
        assert (He : Nat.eqb start i = true) by (apply Nat.eqb_eq; subst; cbn [String.length]; lia).
        rewrite He. cbn [negb].
        apply (IH mf t (d ++ String c "") "" fields line (i + 1) (i + 1)); try lia.
        -- subst. cbn [String.append]. rewrite sapp_assoc. reflexivity.
        -- subst. rewrite slen_snoc. cbn [String.length]. lia.
        -- subst. rewrite slen_snoc. cbn [String.length]. lia.
      * destruct (rev_nonempty a u) as [b [v E]]. rewrite E, <- E, rev_string_invol.
        assert (He : Nat.eqb start i = false) by (subst; apply eqb_len_nonempty).
        rewrite He. cbn [negb].
        assert (Hsl : str_slice line start i = String a u) by (subst; apply slice_mid).
        rewrite Hsl, str_strip_eq.
        set (tk := strip (String a u)).
        rewrite (IH mf t (d ++ String a u ++ String c "") "" (fields ++ [tk])%list line (i + 1) (i + 1)); try lia.
        -- rewrite last_snoc. change (rev_string "") with "". unfold Parse.bind.
           destruct (tokenize_acc mf t "" tk) as [r|e]; [|reflexivity]. rewrite <- app_assoc. reflexivity.
        -- subst line. apply reassoc2.
        -- subst. rewrite !slen_app. cbn [String.length]. lia.
        -- subst. rewrite !slen_app. cbn [String.length]. lia.
    + cbn [ifE]. rewrite eqb_char1.
      destruct (Ascii.eqb c """") eqn:Edq.
      * (* a double quote *)
        cbn [ifE]. destruct tok as [|a u].
        -- change (rev_string "") with "". cbv iota.
           assert (He : Nat.eqb start i = true) by (apply Nat.eqb_eq; subst; cbn [String.length]; lia).
           rewrite He. cbn [negb].
           pose proof (while2_eq (String.length t) t (le_n _) wf mf d (String c "") fields line (i + 1) start
                         ltac:(lia) ltac:(subst; reflexivity) Hstart ltac:(subst; cbn [String.length]; lia)) as H2.
           change (rev_string (String c "")) with (String c "") in H2.
           destruct (tok_string mf t (String c "") false) as [[tokn rest]|].
           ++ destruct H2 as [A [B C]]. rewrite A. cbn [bind].
              rewrite (IH mf rest (d ++ tokn) "" (fields ++ [tokn])%list line (start + String.length tokn) (start + String.length tokn)); try lia.
              ** rewrite last_snoc. change (rev_string "") with "". unfold Parse.bind.
                 destruct (tokenize_acc mf rest "" tokn) as [r|e]; [|reflexivity]. rewrite <- app_assoc. reflexivity.
              ** rewrite B. cbn [String.append]. rewrite sapp_assoc. reflexivity.
              ** subst. rewrite slen_app. reflexivity.
              ** subst. rewrite slen_app. cbn [String.length]. lia.
           ++ rewrite H2. reflexivity.
        -- destruct (rev_nonempty a u) as [b [v E]]. rewrite E, <- E.
           assert (He : Nat.eqb start i = false) by (subst; apply eqb_len_nonempty).
           rewrite He. cbn [negb]. apply Hnext.
      * (* comment test *)
        cbn [ifE].
        assert (Hc : String.eqb (str_slice line i (i + 2)) "//" = starts_with "//" (String c t)).
        { subst. rewrite slice_mid_k. apply take2_comment. }
        assert (Htok : str_slice line start i = tok) by (subst; apply slice_mid).
        rewrite Hc, Htok, in_base64_literal_gen_eq.
        destruct (starts_with "//" (String c t)); [destruct (in_b64 (List.last fields "") (rev_string tok))|];
          cbn [ret andE notE option_map negb andb ifE bind finish].
        -- apply Hnext.
        -- assert (Hf : str_slice_from line i = String c t) by (subst; apply slice_from_mid).
           rewrite Hf. reflexivity.
        -- apply Hnext.
Qed.

Theorem split_instruction_into_tokens_gen_eq : forall wfuel line,
  String.length (strip line) < wfuel ->
  split_instruction_into_tokens_gen wfuel line = of_res (tokenize line).
Proof.
  intros wf line H. rewrite split_gen_unfold, str_strip_eq. unfold tokenize.
  rewrite (while1_eq wf (S (String.length (strip line))) (strip line) "" "" [] (strip line) 0 0 H (Nat.lt_succ_diag_r _) eq_refl eq_refl eq_refl).
  change (rev_string "") with "". cbn [List.last].
  destruct (tokenize_acc (S (String.length (strip line))) (strip line) "" ""); reflexivity.
Qed.

(* strip never lengthens: the budget of the wrapper is enough *)
Lemma lstrip_len : forall s, String.length (lstrip s) <= String.length s.
Proof. induction s as [|c t IH]; [apply le_n|]. cbn [lstrip]. destruct (is_space c); cbn [String.length]; lia. Qed.
Lemma rstrip'_len : forall s, String.length (rstrip' s) <= String.length s.
Proof.
  induction s as [|c t IH]; [apply le_n|]. cbn [rstrip'].
  destruct (rstrip' t) as [|a r]; [destruct (is_space c)|]; cbn [String.length] in *; lia.
Qed.
Lemma strip_len : forall s, String.length (strip s) <= String.length s.
Proof. intros. rewrite strip_eq. pose proof (rstrip'_len (lstrip s)). pose proof (lstrip_len s). lia. Qed.

(* (1) the regenerated tokenizer is the model tokenizer, on every string *)
Theorem tokens_gen_eq : forall line, tokens_gen line = of_res (tokenize line).
Proof.
  intros. unfold tokens_gen, line_fuel. apply split_instruction_into_tokens_gen_eq.
  pose proof (strip_len line). lia.
Qed.

(* ====================================================================== *)
(* PART 3 : _parse_int                                                      *)
(* ====================================================================== *)
(* Python's int() accepts spellings the model's parse_base does not: surrounding blanks, a sign, single underscores
   between digits, and a base prefix (so "0x0x1f" and "0o17" are integers for _parse_int).  On every other string the
   two agree. *)
Definition int_plain_char (c : ascii) : bool :=
  negb (ascii_isspace_c c) && negb (Ascii.eqb c "_") && negb (Ascii.eqb c "+") && negb (Ascii.eqb c "-").
Definition int_plain (x : string) : bool :=
  str_forall int_plain_char x &&
  negb (starts_with "0x0x" x || starts_with "0x0X" x || starts_with "0o" x || starts_with "0O" x).

Lemma digit_value_agree : forall c,
  int_digit_value c = digit_val c \/ (digit_val c = None /\ exists d, int_digit_value c = Some d /\ (16 <= d)%N).
Proof.
  intros [[] [] [] [] [] [] [] []]; vm_compute;
    solve [left; reflexivity | right; split; [reflexivity|eexists; split; [reflexivity|discriminate]]].
Qed.
Lemma digit_step_agree : forall c base, (base <= 16)%N ->
  match int_digit_value c with Some d => if N.ltb d base then Some d else None | None => None end =
  match digit_val c with Some d => if N.ltb d base then Some d else None | None => None end.
Proof.
  intros c base Hb. destruct (digit_value_agree c) as [E|[E [d [E2 Hd]]]].
  - rewrite E. reflexivity.
  - rewrite E, E2. destruct (N.ltb_spec d base); [lia|reflexivity].
Qed.

Lemma int_digits_plain : forall base, (base <= 16)%N -> forall y acc,
  str_forall int_plain_char y = true -> int_digits base y false acc = parse_base_acc base y acc.
Proof.
  intros base Hb. induction y as [|c t IH]; intros acc H; [reflexivity|].
  cbn [str_forall] in H. apply andb_true_iff in H. destruct H as [Hc Ht].
  unfold int_plain_char in Hc. rewrite !andb_true_iff, !negb_true_iff in Hc. destruct Hc as [[[_ Hu] _] _].
  cbn [int_digits parse_base_acc]. rewrite Hu.
  pose proof (digit_step_agree c base Hb) as Hs.
  destruct (int_digit_value c) as [d|]; destruct (digit_val c) as [d'|].
  - destruct (N.ltb d base) eqn:E1; destruct (N.ltb d' base) eqn:E2; try discriminate.
    + injection Hs as Hs. subst d'. apply IH. exact Ht.
    + reflexivity.
  - destruct (N.ltb d base); [discriminate|reflexivity].
  - destruct (N.ltb d' base); [discriminate|reflexivity].
  - reflexivity.
Qed.

Lemma lstrip_by_id : forall f c t, f c = false -> str_lstrip_by f (String c t) = String c t.
Proof. intros f c t H. cbn [str_lstrip_by]. rewrite H. reflexivity. Qed.
Lemma rstrip_by_id : forall f y, str_forall (fun c => negb (f c)) y = true -> str_rstrip_by f y = y.
Proof.
  intros f. induction y as [|c t IH]; intros H; [reflexivity|].
  cbn [str_forall] in H. apply andb_true_iff in H. destruct H as [Hc Ht]. apply negb_true_iff in Hc.
  cbn [str_rstrip_by]. rewrite (IH Ht), Hc. destruct t; reflexivity.
Qed.
Lemma plain_no_blank : forall y, str_forall int_plain_char y = true -> str_forall (fun c => negb (ascii_isspace_c c)) y = true.
Proof.
  induction y as [|c t IH]; intros H; [reflexivity|]. cbn [str_forall] in *.
  apply andb_true_iff in H. destruct H as [Hc Ht]. rewrite (IH Ht), andb_true_r.
  unfold int_plain_char in Hc. rewrite !andb_true_iff in Hc. tauto.
Qed.

(* int(y, base) on a string without blanks, sign, underscore and base prefix is the model's parse_base *)
Lemma py_int_plain : forall base y, (base <= 16)%N ->
  str_forall int_plain_char y = true -> int_has_prefix base y = false ->
  py_int y base = option_map Z.of_N (parse_base base y).
Proof.
  intros base y Hb Hp Hpre. destruct y as [|c t]; [reflexivity|].
  unfold py_int. pose proof Hp as Hp0.
  cbn [str_forall] in Hp. apply andb_true_iff in Hp. destruct Hp as [Hc Ht].
  unfold int_plain_char in Hc. rewrite !andb_true_iff, !negb_true_iff in Hc. destruct Hc as [[[Hsp Hu] Hplus] Hminus].
  rewrite lstrip_by_id by exact Hsp. rewrite rstrip_by_id by (apply plain_no_blank; exact Hp0).
  rewrite Hminus, Hplus. unfold int_unsigned. rewrite Hpre, Hu.
  rewrite int_digits_plain by assumption. reflexivity.
Qed.

Lemma prefix_inv1 : forall p x, String.prefix (String p "") x = true -> exists y, x = String p y.
Proof.
  intros p [|a y] H; [discriminate|]. rewrite prefix_cons in H. apply andb_true_iff in H. destruct H as [H _].
  apply Ascii.eqb_eq in H. subst. eauto.
Qed.
Lemma prefix_inv2 : forall p q x, String.prefix (String p (String q "")) x = true -> exists y, x = String p (String q y).
Proof.
  intros p q [|a y] H; [discriminate|]. rewrite prefix_cons in H. apply andb_true_iff in H. destruct H as [H H'].
  apply Ascii.eqb_eq in H. subst. destruct (prefix_inv1 _ _ H') as [y' ->]. eauto.
Qed.
Lemma has_prefix_10 : forall y, int_has_prefix 10 y = false.
Proof. intros [|z [|x y]]; try reflexivity. cbn. apply andb_false_r. Qed.
Lemma has_prefix_16 : forall y, int_has_prefix 16 y = String.prefix "0x" y || String.prefix "0X" y.
Proof.
  intros [|z [|w y]]; try reflexivity.
  - rewrite !prefix_cons. cbn [String.prefix]. rewrite !andb_false_r. reflexivity.
  - rewrite !prefix_cons, prefix_nil. cbn [int_has_prefix N.eqb Pos.eqb andb orb]. rewrite !andb_true_r, orb_false_r.
    rewrite (Ascii.eqb_sym z), (Ascii.eqb_sym w "x"), (Ascii.eqb_sym w "X").
    destruct (Ascii.eqb "0" z); reflexivity.
Qed.
Lemma has_prefix_8 : forall y, int_has_prefix 8 y = String.prefix "0o" y || String.prefix "0O" y.
Proof.
  intros [|z [|w y]]; try reflexivity.
  - rewrite !prefix_cons. cbn [String.prefix]. rewrite !andb_false_r. reflexivity.
  - rewrite !prefix_cons, prefix_nil. cbn [int_has_prefix N.eqb Pos.eqb andb orb]. rewrite !andb_true_r.
    rewrite (Ascii.eqb_sym z), (Ascii.eqb_sym w "o"), (Ascii.eqb_sym w "O").
    destruct (Ascii.eqb "0" z); reflexivity.
Qed.

Lemma str_forall_drop : forall f x n, str_forall f x = true -> str_forall f (drop n x) = true.
Proof.
  intros f. induction x as [|c t IH]; intros [|n] H; try exact H; try reflexivity.
  cbn [drop]. apply IH. cbn [str_forall] in H. apply andb_true_iff in H. tauto.
Qed.

Theorem parse_int_gen_eq_partial : forall x, int_plain x = true ->
  parse_int_gen x = option_map Z.of_N (of_res (parse_int x)).
Proof.
  intros x H. unfold int_plain in H. apply andb_true_iff in H. destruct H as [Hp Hn].
  rewrite negb_true_iff, !orb_false_iff in Hn. destruct Hn as [[[H1 H2] H3] H4].
  unfold parse_int_gen, parse_int, str_startswith. unfold starts_with in *.
  assert (Hout : forall r, option_map Z.of_N (of_res (match r with Some n => Ok n | None => Err ("ValueError: int " ++ x) end)) = option_map Z.of_N r).
  { intros [n|]; reflexivity. }
  rewrite Hout.
  destruct (String.prefix "0x" x) eqn:Ex.
  - rewrite str_slice_from_drop. apply py_int_plain; [lia|apply str_forall_drop; exact Hp|].
    destruct (prefix_inv2 _ _ _ Ex) as [y ->]. cbn [drop]. rewrite has_prefix_16.
    rewrite !prefix_cons in H1, H2. cbn [Ascii.eqb Bool.eqb andb] in H1, H2.
    rewrite H1, H2. reflexivity.
  - destruct (String.prefix "0" x) eqn:E0.
    + apply py_int_plain; [lia|exact Hp|]. rewrite has_prefix_8, H3, H4. reflexivity.
    + apply py_int_plain; [lia|exact Hp|apply has_prefix_10].
Qed.

(* the model never accepts more than Python: whenever parse_int succeeds, _parse_int returns the same number *)
Lemma parse_base_acc_plain : forall base y acc n, (base <= 16)%N ->
  parse_base_acc base y acc = Some n -> str_forall int_plain_char y = true.
Proof.
  intros base. induction y as [|c t IH]; intros acc n Hb H; [reflexivity|].
  cbn [parse_base_acc] in H. cbn [str_forall].
  destruct (digit_val c) as [d|] eqn:Ed; [|discriminate].
  destruct (N.ltb d base); [|discriminate]. rewrite (IH _ _ Hb H), andb_true_r.
  clear -Ed. revert Ed. destruct c as [[] [] [] [] [] [] [] []]; vm_compute; intros Ed; (reflexivity || discriminate).
Qed.
Lemma parse_base_plain : forall base y n, (base <= 16)%N -> parse_base base y = Some n -> str_forall int_plain_char y = true.
Proof. intros base y n Hb H. destruct y; [discriminate|]. apply (parse_base_acc_plain base _ 0%N n Hb H). Qed.
Lemma prefix_weaken : forall a b x, String.prefix a b = true -> String.prefix b x = true -> String.prefix a x = true.
Proof. intros a b x Hab Hbx. rewrite (prefix_drop b x Hbx). apply prefix_app_l. exact Hab. Qed.
(* a string parse_base accepts does not start with (p, q) when q is not a digit *)
Lemma parse_base_no_prefix : forall base y m p q, parse_base base y = Some m -> digit_val q = None ->
  String.prefix (String p (String q "")) y = false.
Proof.
  intros base y m p q H Hq. destruct (String.prefix (String p (String q "")) y) eqn:E; [|reflexivity].
  destruct (prefix_inv2 _ _ _ E) as [y' ->]. cbn [parse_base parse_base_acc] in H. rewrite Hq in H.
  destruct (digit_val p) as [d|]; [|discriminate]. destruct (N.ltb d base); discriminate.
Qed.

Theorem parse_int_gen_complete : forall x n, parse_int x = Ok n -> parse_int_gen x = Some (Z.of_N n).
Proof.
  intros x n H. rewrite parse_int_gen_eq_partial; [rewrite H; reflexivity|].
  unfold parse_int in H. unfold int_plain. unfold starts_with in *.
  destruct (String.prefix "0x" x) eqn:Ex.
  - destruct (parse_base 16 (drop 2 x)) as [m|] eqn:Ep; [|discriminate].
    destruct (prefix_inv2 _ _ _ Ex) as [y ->]. cbn [drop] in Ep.
    assert (Hy : str_forall int_plain_char y = true) by (apply (parse_base_plain 16 y m); [lia|exact Ep]).
    cbn [str_forall]. rewrite Hy. change (int_plain_char "0") with true. change (int_plain_char "x") with true.
    cbn [andb]. rewrite !prefix_cons. cbn [Ascii.eqb Bool.eqb andb].
    rewrite (parse_base_no_prefix 16 y m "0" "x" Ep eq_refl), (parse_base_no_prefix 16 y m "0" "X" Ep eq_refl).
    reflexivity.
  - assert (Hx1 : String.prefix "0x0x" x = false).
    { destruct (String.prefix "0x0x" x) eqn:E1; [|reflexivity].
      rewrite (prefix_weaken "0x" "0x0x" x eq_refl E1) in Ex. discriminate. }
    assert (Hx2 : String.prefix "0x0X" x = false).
    { destruct (String.prefix "0x0X" x) eqn:E1; [|reflexivity].
      rewrite (prefix_weaken "0x" "0x0X" x eq_refl E1) in Ex. discriminate. }
    rewrite Hx1, Hx2. cbn [orb].
    destruct (String.prefix "0" x) eqn:E0.
    + destruct (parse_base 8 x) as [m|] eqn:Ep; [|discriminate].
      rewrite (parse_base_plain 8 x m ltac:(lia) Ep). cbn [andb].
      rewrite (parse_base_no_prefix 8 x m "0" "o" Ep eq_refl), (parse_base_no_prefix 8 x m "0" "O" Ep eq_refl).
      reflexivity.
    + destruct (parse_base 10 x) as [m|] eqn:Ep; [|discriminate].
      rewrite (parse_base_plain 10 x m ltac:(lia) Ep). cbn [andb].
      rewrite (parse_base_no_prefix 10 x m "0" "o" Ep eq_refl), (parse_base_no_prefix 10 x m "0" "O" Ep eq_refl).
      reflexivity.
Qed.

(* ... and Python does accept more: the general equality is refuted *)
Theorem parse_int_gen_eq_refuted :
  exists x z, parse_int_gen x = Some z /\ of_res (parse_int x) = None.
Proof. exists "1_0", 10%Z. split; reflexivity. Qed.
(* the spellings _parse_int accepts and the model rejects (each line is a line tealer parses and the model does not) *)
Theorem parse_int_gen_extra_spellings :
  parse_int_gen "1_000" = Some 1000%Z /\ parse_int_gen "-1" = Some (-1)%Z /\ parse_int_gen "+7" = Some 7%Z /\
  parse_int_gen "0x0x1f" = Some 31%Z /\ parse_int_gen "0x0x_1f" = Some 31%Z /\ parse_int_gen "0o17" = Some 15%Z /\
  parse_int_gen "0_7" = Some 7%Z /\ parse_int_gen "0x-1f" = Some (-31)%Z /\
  of_res (parse_int "1_000") = None /\ of_res (parse_int "-1") = None /\ of_res (parse_int "+7") = None /\
  of_res (parse_int "0x0x1f") = None /\ of_res (parse_int "0x0x_1f") = None /\ of_res (parse_int "0o17") = None /\
  of_res (parse_int "0_7") = None /\ of_res (parse_int "0x-1f") = None.
Proof. repeat split; reflexivity. Qed.

(* ====================================================================== *)
(* PART 4 : _is_int                                                         *)
(* ====================================================================== *)
Theorem is_int_gen_eq : forall x, is_int_gen x = Some (is_int x).
Proof.
  intros x. unfold is_int_gen, is_int, ret, str_startswith, starts_with. do 2 f_equal.
  unfold str_isdigit. destruct x as [|c t]; [reflexivity|]. cbn [str_is_empty negb andb].
  generalize (String c t). induction s as [|a u IH]; [reflexivity|].
  cbn [str_forall all_digits]. rewrite IH. reflexivity.
Qed.

(* ====================================================================== *)
(* PART 5 : _parse_byte_arguments                                           *)
(* ====================================================================== *)
(* The model reads `fields[i].split("(")[1]` as "everything after the first (" (Parse.after_paren); Python's split
   cuts at EVERY "(": the two agree exactly on the tokens with at most one "(". *)
Fixpoint no_lparen (s : string) : bool :=
  match s with EmptyString => true | String c t => negb (Ascii.eqb c "(") && no_lparen t end.
Definition lparen_once (x : string) : bool := no_lparen (after_paren x).
Fixpoint has_lparen (s : string) : bool :=
  match s with EmptyString => false | String c t => Ascii.eqb c "(" || has_lparen t end.

Lemma split_no_lparen : forall y, no_lparen y = true -> str_split_char y "(" = [y].
Proof.
  induction y as [|c t IH]; intros H; [reflexivity|]. cbn [no_lparen] in H. apply andb_true_iff in H.
  destruct H as [Hc Ht]. apply negb_true_iff in Hc. cbn [str_split_char]. rewrite Hc, (IH Ht). reflexivity.
Qed.
Lemma split_nonempty : forall y sep, str_split_char y sep <> [].
Proof.
  induction y as [|c t IH]; intros sep; cbn [str_split_char]; [discriminate|].
  destruct (Ascii.eqb c sep); [discriminate|]. destruct (str_split_char t sep); discriminate.
Qed.
Lemma split_nth1 : forall x, has_lparen x = true -> lparen_once x = true ->
  subscript (str_split_char x "(") 1 = Some (after_paren x).
Proof.
  unfold lparen_once, subscript. induction x as [|c t IH]; intros Hh Ho; [discriminate|].
  cbn [has_lparen after_paren str_split_char] in *. destruct (Ascii.eqb c "(") eqn:E.
  - rewrite (split_no_lparen t Ho). reflexivity.
  - cbn [orb] in Hh. specialize (IH Hh Ho). pose proof (split_nonempty t "(") as Hne.
    destruct (str_split_char t "(") as [|x0 r]; [congruence|]. exact IH.
Qed.
Lemma has_lparen_app : forall p r, has_lparen p = true -> has_lparen (p ++ r) = true.
Proof.
  induction p as [|c t IH]; intros r H; [discriminate|]. cbn [has_lparen String.append] in *.
  destruct (Ascii.eqb c "("); [reflexivity|]. apply IH. exact H.
Qed.
Lemma has_lparen_prefix : forall p x, String.prefix p x = true -> has_lparen p = true -> has_lparen x = true.
Proof. intros p x H Hp. rewrite (prefix_drop p x H). apply has_lparen_app. exact Hp. Qed.

Lemma str_last_eq : forall x, str_last x = option_map (fun c => String c "") (last_char x).
Proof. induction x as [|c t IH]; [reflexivity|]. cbn [str_last last_char]. destruct t; [reflexivity|exact IH]. Qed.

Notation WB := parse_byte_arguments_gen_while1.
Definition bfinish (x : list string * bool * nat) : py (list string) :=
  let '(a, e, _) := x in if e then None else Some a.
Lemma bytes_gen_unfold : forall wf fields, parse_byte_arguments_gen wf fields = bind (WB wf fields [] false 0) bfinish.
Proof.
  intros. unfold parse_byte_arguments_gen. destruct (WB wf fields [] false 0) as [[[a e] i]|]; [|reflexivity].
  cbn [bind bfinish]. destruct e; reflexivity.
Qed.

Lemma nth_mid : forall (d : list string) x t, nth_error (d ++ x :: t)%list (List.length d) = Some x.
Proof. intros. rewrite nth_error_app2 by lia. rewrite Nat.sub_diag. reflexivity. Qed.
Lemma orE_some : forall a b, orE (Some a) (Some b) = Some (a || b).
Proof. intros [] []; reflexivity. Qed.
Lemma ifE_some : forall (A : Type) b (x y : py A), ifE (Some b) x y = if b then x else y.
Proof. intros A [] x y; reflexivity. Qed.

Lemma ends_paren_eq : forall x,
  bind (str_last x) (fun tmp => ret (negb (String.eqb tmp ")"))) =
  match last_char x with Some c => Some (negb (Ascii.eqb c ")")) | None => None end.
Proof. intros. rewrite str_last_eq. destruct (last_char x) as [c|]; [|reflexivity]. cbn [option_map bind ret]. rewrite eqb_char1. reflexivity. Qed.
Lemma prefix_last_some : forall p x, String.prefix p x = true -> p <> "" -> exists c, last_char x = Some c.
Proof.
  intros p x H Hp. destruct x as [|a y]; [destruct p; [congruence|discriminate]|].
  clear. revert a. induction y as [|b y IH]; intros a; [eexists; reflexivity|]. cbn [last_char]. apply IH.
Qed.

Lemma bytes_loop_eq : forall wf mf rest done args fields i,
  fields = (done ++ rest)%list -> i = List.length done -> List.length rest < wf -> List.length rest < mf ->
  Forall (fun x => lparen_once x = true) rest ->
  bind (WB wf fields args false i) bfinish =
  match parse_byte_args mf rest with Ok r => Some (args ++ r)%list | Err _ => None end.
Proof.
  induction wf as [|wf IH]; intros mf rest done args fields i Hf Hi Hwf Hmf Hok; [lia|].
  destruct mf as [|mf]; [lia|].
  destruct rest as [|x t].
  - cbn [WB parse_byte_args].
    assert (Hlt : Nat.ltb i (List.length fields) = false).
    { apply Nat.ltb_ge. subst. rewrite app_nil_r. lia. }
    rewrite Hlt. cbn [andb bind ret bfinish]. rewrite app_nil_r. reflexivity.
  - cbn [List.length] in Hwf, Hmf. inversion Hok as [|? ? Hx Ht]; subst x0 l.
    assert (Hlt : Nat.ltb i (List.length fields) = true).
    { apply Nat.ltb_lt. subst. rewrite app_length. cbn [List.length]. lia. }
    assert (Hsub : subscript fields i = Some x) by (subst; apply nth_mid).
    assert (Hstep1 : forall args', bind (WB wf fields args' false (i + 1)) bfinish =
               match parse_byte_args mf t with Ok r => Some (args' ++ r)%list | Err _ => None end).
    { intros args'. apply (IH mf t (done ++ [x])%list args' fields (i + 1)); try lia.
      - subst. rewrite <- app_assoc. reflexivity.
      - subst. rewrite app_length. reflexivity.
      - exact Ht. }
    cbn [WB parse_byte_args]. rewrite Hlt. cbn [andb negb]. rewrite !Hsub. cbn [bind ret]. rewrite !orE_some, !ifE_some.
    unfold str_startswith, starts_with.
    destruct ((x =? "base64") || (x =? "b64")) eqn:E1.
    { (* base64 X *)
      destruct t as [|y t'].
      - assert (Hle : Nat.leb (List.length fields) (i + 1) = true).
        { apply Nat.leb_le. subst. rewrite app_length. cbn [List.length]. lia. }
        rewrite Hle. reflexivity.
      - assert (Hle : Nat.leb (List.length fields) (i + 1) = false).
        { apply Nat.leb_gt. subst. rewrite app_length. cbn [List.length]. lia. }
        assert (Hsub2 : subscript fields (i + 1) = Some y).
        { subst. replace (List.length done + 1) with (List.length (done ++ [x])%list) by (rewrite app_length; reflexivity).
          rewrite <- nth_mid with (d := (done ++ [x])%list) (x := y) (t := t'). rewrite <- app_assoc. reflexivity. }
        rewrite Hle, Hsub2. cbn [bind ret b64_decode_leaf].
        inversion Ht as [|? ? _ Ht']; subst.
        rewrite (IH mf t' (done ++ [x; y])%list (args ++ [b64_decode y])%list _ (List.length done + 2)); try (cbn [List.length] in *; lia).
        + unfold Parse.bind. destruct (parse_byte_args mf t'); [rewrite <- app_assoc|]; reflexivity.
        + rewrite <- app_assoc. reflexivity.
        + rewrite app_length. reflexivity.
        + exact Ht'. }
    destruct ((x =? "base32") || (x =? "b32")) eqn:E2.
    { destruct t as [|y t'].
      - assert (Hle : Nat.leb (List.length fields) (i + 1) = true).
        { apply Nat.leb_le. subst. rewrite app_length. cbn [List.length]. lia. }
        rewrite Hle. reflexivity.
      - assert (Hle : Nat.leb (List.length fields) (i + 1) = false).
        { apply Nat.leb_gt. subst. rewrite app_length. cbn [List.length]. lia. }
        assert (Hsub2 : subscript fields (i + 1) = Some y).
        { subst. replace (List.length done + 1) with (List.length (done ++ [x])%list) by (rewrite app_length; reflexivity).
          rewrite <- nth_mid with (d := (done ++ [x])%list) (x := y) (t := t'). rewrite <- app_assoc. reflexivity. }
        rewrite Hle, Hsub2. cbn [bind ret b32_decode_leaf].
        inversion Ht as [|? ? _ Ht']; subst.
        rewrite (IH mf t' (done ++ [x; y])%list (args ++ [b32_decode y])%list _ (List.length done + 2)); try (cbn [List.length] in *; lia).
        + unfold Parse.bind. destruct (parse_byte_args mf t'); [rewrite <- app_assoc|]; reflexivity.
        + rewrite <- app_assoc. reflexivity.
        + rewrite app_length. reflexivity.
        + exact Ht'. }
    destruct (String.prefix "base64(" x || String.prefix "b64(" x) eqn:E3.
    { rewrite ends_paren_eq. unfold ends_with_paren.
      assert (Hh : has_lparen x = true).
      { apply orb_true_iff in E3. destruct E3 as [E3|E3]; [apply (has_lparen_prefix _ _ E3)|apply (has_lparen_prefix _ _ E3)]; reflexivity. }
      assert (Hl : exists c, last_char x = Some c).
      { apply orb_true_iff in E3. destruct E3 as [E3|E3]; apply (prefix_last_some _ _ E3); discriminate. }
      destruct Hl as [c Hl]. rewrite Hl, ifE_some. destruct (Ascii.eqb c ")"); cbn [negb]; [|reflexivity].
      rewrite (split_nth1 x Hh Hx). cbn [bind ret b64_decode_leaf]. rewrite str_drop_last_eq, Hstep1.
      unfold Parse.bind. destruct (parse_byte_args mf t); [rewrite <- app_assoc|]; reflexivity. }
    destruct (String.prefix "base32(" x || String.prefix "b32(" x) eqn:E4.
    { rewrite ends_paren_eq. unfold ends_with_paren.
      assert (Hh : has_lparen x = true).
      { apply orb_true_iff in E4. destruct E4 as [E4|E4]; [apply (has_lparen_prefix _ _ E4)|apply (has_lparen_prefix _ _ E4)]; reflexivity. }
      assert (Hl : exists c, last_char x = Some c).
      { apply orb_true_iff in E4. destruct E4 as [E4|E4]; apply (prefix_last_some _ _ E4); discriminate. }
      destruct Hl as [c Hl]. rewrite Hl, ifE_some. destruct (Ascii.eqb c ")"); cbn [negb]; [|reflexivity].
      rewrite (split_nth1 x Hh Hx). cbn [bind ret b32_decode_leaf]. rewrite str_drop_last_eq, Hstep1.
      unfold Parse.bind. destruct (parse_byte_args mf t); [rewrite <- app_assoc|]; reflexivity. }
    destruct (String.prefix "0x" x || String.prefix """" x) eqn:E5.
    { rewrite Hstep1. unfold Parse.bind. destruct (parse_byte_args mf t); [rewrite <- app_assoc|]; reflexivity. }
    reflexivity.
Qed.

Theorem parse_byte_arguments_gen_eq_partial : forall wfuel fields,
  List.length fields < wfuel -> Forall (fun x => lparen_once x = true) fields ->
  parse_byte_arguments_gen wfuel fields = of_res (parse_byte_args (S (List.length fields)) fields).
Proof.
  intros wf fields Hwf Hok. rewrite bytes_gen_unfold.
  rewrite (bytes_loop_eq wf (S (List.length fields)) fields [] [] fields 0 eq_refl eq_refl Hwf (Nat.lt_succ_diag_r _) Hok).
  destruct (parse_byte_args (S (List.length fields)) fields); reflexivity.
Qed.

(* ... and the general equality is refuted: a token with two "(".  Python takes the piece between the first two "("
   and drops ITS last character: `b64(abcd(ef)` is the base64 text "abc", the two bytes 0x69b7 (this is what the running
   tool stores); the model takes everything after the first "(" without the final ")": "abcd(ef", and since b64_decode
   skips the "(", the four bytes 0x69b71d79.  [With `b64(ab(cd)` Python's piece is the single symbol "a": the running
   tool raises binascii.Error, which the total leaf reading does not show.] *)
Theorem parse_byte_arguments_gen_eq_refuted :
  exists fields, parse_byte_arguments_gen 5 fields = Some ["0x69b7"] /\
                 parse_byte_args 5 fields = Ok ["0x69b71d79"] /\ fields = ["b64(abcd(ef)"].
Proof. exists ["b64(abcd(ef)"]. repeat split; reflexivity. Qed.

(* ====================================================================== *)
(* PART 6 : parse_line                                                      *)
(* ====================================================================== *)
(* ---- facts about the model tokenizer: tokens are not empty, a non-blank line has a token, there are at most
   len(line) tokens (the budget of the byte-argument loop) *)
Lemma tok_string_some : forall f s cur esc tokn rest, tok_string f s cur esc = Some (tokn, rest) ->
  tokn <> "" /\ String.length rest < String.length s.
Proof.
  intros f. induction s as [|c t IH]; intros cur esc tokn rest H; [discriminate|].
  cbn [tok_string] in H. cbn [String.length].
  destruct esc.
  - destruct (IH _ _ _ _ H). split; [assumption|lia].
  - destruct (Ascii.eqb c "\").
    + destruct (IH _ _ _ _ H). split; [assumption|lia].
    + destruct (Ascii.eqb c """").
      * injection H as H1 H2. subst. split; [|lia]. destruct (rev_nonempty c cur) as [b [v E]]. rewrite E. discriminate.
      * destruct (IH _ _ _ _ H). split; [assumption|lia].
Qed.

Lemma strip_rev_nonempty : forall cur, cur <> "" -> no_space cur = true -> strip (rev_string cur) <> "".
Proof.
  intros cur Hne Hns. rewrite strip_no_space by (rewrite no_space_rev; exact Hns).
  intros E. apply rev_string_nil_inv in E. congruence.
Qed.

Lemma tokenize_acc_tokens : forall f s cur prev r, no_space cur = true -> tokenize_acc f s cur prev = Ok r ->
  Forall (fun t => t <> "") r /\
  List.length r <= String.length s + (match cur with EmptyString => 0 | _ => 1 end) /\
  ((cur <> "" \/ exists c t, s = String c t /\ is_space c = false) -> r <> []).
Proof.
  induction f as [|f IH]; intros s cur prev r Hns H; [discriminate|].
  cbn [tokenize_acc] in H. destruct s as [|c t].
  - destruct cur as [|a u].
    + injection H as <-. split; [constructor|]. split; [cbn; lia|]. intros [E|[c [t [E _]]]]; congruence.
    + injection H as <-. split; [constructor; [apply strip_rev_nonempty; [discriminate|exact Hns]|constructor]|].
      split; [cbn; lia|]. intros _. discriminate.
  - cbn [String.length]. destruct (is_space c) eqn:Esp.
    + destruct cur as [|a u].
      * destruct (IH _ _ _ _ Hns H) as [A [B _]]. split; [exact A|]. split; [cbn in B; lia|].
        intros [E|[c' [t' [E E']]]]; [congruence|]. injection E as -> ->. congruence.
      * unfold Parse.bind in H. destruct (tokenize_acc f t "" _) as [r'|] eqn:Er; [|discriminate].
        injection H as <-. destruct (IH t "" _ r' eq_refl Er) as [A [B _]].
        split; [constructor; [apply strip_rev_nonempty; [discriminate|exact Hns]|exact A]|].
        split; [cbn [List.length] in *; lia|]. intros _. discriminate.
    + assert (Hns' : no_space (String c cur) = true) by (cbn [no_space]; rewrite Esp, Hns; reflexivity).
      assert (Hstep : forall r0, tokenize_acc f t (String c cur) prev = Ok r0 ->
                Forall (fun t0 => t0 <> "") r0 /\
                List.length r0 <= S (String.length t) + (match cur with EmptyString => 0 | _ => 1 end) /\
                ((cur <> "" \/ exists c0 t0, String c t = String c0 t0 /\ is_space c0 = false) -> r0 <> [])).
      { intros r0 H0. destruct (IH _ _ _ _ Hns' H0) as [A [B C]]. split; [exact A|]. split; [destruct cur; lia|].
        intros _. apply C. left. discriminate. }
      destruct (Ascii.eqb c """").
      * destruct cur as [|a u]; [|apply Hstep; exact H].
        destruct (tok_string f t (String c "") false) as [[tokn rest]|] eqn:Et; [|discriminate].
        unfold Parse.bind in H. destruct (tokenize_acc f rest "" tokn) as [r'|] eqn:Er; [|discriminate].
        injection H as <-. destruct (tok_string_some _ _ _ _ _ _ Et) as [Hn Hl].
        destruct (IH rest "" _ r' eq_refl Er) as [A [B _]].
        split; [constructor; assumption|]. split; [cbn [List.length] in *; lia|]. intros _. discriminate.
      * destruct (starts_with "//" (String c t) && negb (in_b64 prev cur)).
        -- injection H as <-. split; [constructor; [discriminate|constructor]|]. split; [cbn; lia|]. intros _. discriminate.
        -- apply Hstep. exact H.
Qed.

Lemma strip_head_nonspace : forall s c t, strip s = String c t -> is_space c = false.
Proof.
  intros s c t H. rewrite strip_eq in H.
  assert (Hl : forall x a u, lstrip x = String a u -> is_space a = false).
  { induction x as [|b x IH]; intros a u E; [discriminate|]. cbn [lstrip] in E.
    destruct (is_space b) eqn:Eb; [eapply IH; exact E|]. injection E as -> _. exact Eb. }
  destruct (lstrip s) as [|a u] eqn:El; [discriminate|]. specialize (Hl s a u El).
  cbn [rstrip'] in H. rewrite Hl in H. destruct (rstrip' u); injection H as -> _; exact Hl.
Qed.

Lemma tokenize_facts : forall line fs, strip line <> "" -> tokenize line = Ok fs ->
  fs <> [] /\ Forall (fun t => t <> "") fs /\ List.length fs <= String.length line.
Proof.
  intros line fs Hne H. unfold tokenize in H.
  destruct (tokenize_acc_tokens _ (strip line) "" "" fs eq_refl H) as [A [B C]].
  split; [|split; [exact A|pose proof (strip_len line); lia]].
  apply C. right. destruct (strip line) as [|c t] eqn:E; [congruence|].
  exists c, t. split; [reflexivity|]. apply (strip_head_nonspace line c t E).
Qed.

(* ---- the loop over parser_rules = first_rule *)
Lemma for1_eq : forall xs line sc cm ins,
  parse_line_gen_for1 xs line sc cm ins =
  match first_rule line xs with
  | Some (key, cls, sh) =>
      match parse_imm cls sh (strip (drop (String.length key) line)) with
      | Ok ps => Some (Some (Some (of_generic cls (fix_params cls ps))), Some (of_generic cls (fix_params cls ps)))
      | Err _ => None
      end
  | None => Some (None, ins)
  end.
Proof.
  induction xs as [|[key [cls sh]] xs IH]; intros line sc cm ins; [reflexivity|].
  cbn [parse_line_gen_for1 first_rule]. unfold str_startswith, starts_with.
  destruct (String.prefix key line); [|apply IH].
  unfold apply_rule. cbn [fst snd]. rewrite str_strip_eq, str_slice_from_drop.
  destruct (parse_imm cls sh (strip (drop (String.length key) line))); reflexivity.
Qed.

(* the tail of Parse.parse_fields: dispatch to the ordered prefix rules *)
Definition rules_part (fields : list string) : res (option instr) :=
  let l := join " " fields in
  match first_rule l parser_rules with
  | Some (key, cls, sh) =>
      do ps <- parse_imm cls sh (strip (drop (String.length key) l));
      Ok (Some (of_generic cls (fix_params cls ps)))
  | None => Ok (Some (IOther "UnsupportedInstruction" [PStr l]))
  end.

Lemma new_unsupported : forall l, new_instruction "UnsupportedInstruction" [PStr l] = IOther "UnsupportedInstruction" [PStr l].
Proof. intros. unfold new_instruction, fix_params. replace (label_strip "UnsupportedInstruction") with false by (vm_compute; reflexivity). reflexivity. Qed.
Lemma new_label : forall l, new_instruction "Label" [PStr l] = ILabel (remove_spaces l).
Proof. intros. unfold new_instruction, fix_params. replace (label_strip "Label") with true by (vm_compute; reflexivity). reflexivity. Qed.
Lemma new_bytes : forall cls p, In cls ["Byte"; "PushBytes"; "Method"; "Bytecblock"; "PushBytess"] ->
  new_instruction cls [p] = of_generic cls [p].
Proof.
  intros cls p H. unfold new_instruction, fix_params.
  assert (E : label_strip cls = false).
  { cbn [In] in H. repeat (destruct H as [<-|H]; [vm_compute; reflexivity|]). destruct H. }
  rewrite E. reflexivity.
Qed.

Lemma k5_eq : forall wf line sc fields cm ins,
  parse_line_gen_k5 wf line sc fields cm ins =
  match ins with Some i => Some (Some i) | None => of_res (rules_part fields) end.
Proof.
  intros. unfold parse_line_gen_k5. destruct ins as [i|]; [reflexivity|].
  cbn [negb]. cbv zeta. rewrite for1_eq, str_join_eq. unfold rules_part. cbv zeta.
  destruct (first_rule (join " " fields) parser_rules) as [[[key cls] sh]|].
  - destruct (parse_imm cls sh _); reflexivity.
  - cbn [bind attr_store ret of_res]. rewrite new_unsupported. reflexivity.
Qed.

Definition is_bytes_kw (f0 : string) : bool :=
  (f0 =? "byte") || (f0 =? "pushbytes") || (f0 =? "method") || (f0 =? "bytecblock") || (f0 =? "pushbytess").

Lemma sub0 : forall (f0 : string) rest, subscript (f0 :: rest) 0 = Some f0.
Proof. reflexivity. Qed.

Lemma k4_eq : forall wf line sc f0 rest cm ins,
  parse_line_gen_k4 wf line sc (f0 :: rest) cm ins =
  if f0 =? "pushbytess"
  then bind (parse_byte_arguments_gen wf rest) (fun imm =>
         parse_line_gen_k5 wf line sc (f0 :: rest) cm (Some (new_instruction "PushBytess" [PStrs imm])))
  else parse_line_gen_k5 wf line sc (f0 :: rest) cm ins.
Proof. intros. unfold parse_line_gen_k4. rewrite sub0. cbn [bind ret]. rewrite ifE_some. reflexivity. Qed.
Lemma k3_eq : forall wf line sc f0 rest cm ins,
  parse_line_gen_k3 wf line sc (f0 :: rest) cm ins =
  if f0 =? "bytecblock"
  then bind (parse_byte_arguments_gen wf rest) (fun imm =>
         parse_line_gen_k4 wf line sc (f0 :: rest) cm (Some (new_instruction "Bytecblock" [PStrs imm])))
  else parse_line_gen_k4 wf line sc (f0 :: rest) cm ins.
Proof. intros. unfold parse_line_gen_k3. rewrite sub0. cbn [bind ret]. rewrite ifE_some. reflexivity. Qed.

(* once `ins` is set, the remaining tests do not fire unless the head is one of their keywords *)
Lemma k3_some : forall wf line sc f0 rest cm i, (f0 =? "bytecblock") = false -> (f0 =? "pushbytess") = false ->
  parse_line_gen_k3 wf line sc (f0 :: rest) cm (Some i) = Some (Some i).
Proof. intros. rewrite k3_eq, H, k4_eq, H0, k5_eq. reflexivity. Qed.

Lemma k2_eq : forall wf line sc f0 rest cm ins,
  parse_line_gen_k2 wf line sc (f0 :: rest) cm ins =
  if (f0 =? "byte") || ((f0 =? "pushbytes") || (f0 =? "method"))
  then bind (parse_byte_arguments_gen wf rest) (fun imm =>
         if negb (Nat.eqb (List.length imm) 1) then None
         else bind (bind (dict_get [("byte", "Byte"); ("pushbytes", "PushBytes"); ("method", "Method")] f0) (fun cls =>
                    bind (subscript imm 0) (fun b => ret (new_instruction cls [PStr b])))) (fun i =>
              parse_line_gen_k3 wf line sc (f0 :: rest) cm (Some i)))
  else parse_line_gen_k3 wf line sc (f0 :: rest) cm ins.
Proof.
  intros. unfold parse_line_gen_k2. rewrite !sub0. cbn [bind ret]. rewrite !orE_some, ifE_some.
  destruct ((f0 =? "byte") || ((f0 =? "pushbytes") || (f0 =? "method"))); [|reflexivity].
  cbn [list_from skipn]. destruct (parse_byte_arguments_gen wf rest) as [imm|]; [|reflexivity].
  cbn [bind]. destruct (negb (Nat.eqb (List.length imm) 1)); [reflexivity|].
  destruct (dict_get _ f0) as [cls|]; [|reflexivity]. cbn [bind]. destruct (subscript imm 0); reflexivity.
Qed.

Lemma last_colon_not_kw : forall f0, last_char f0 = Some ":"%char -> is_bytes_kw f0 = false.
Proof.
  intros f0 H. unfold is_bytes_kw.
  repeat match goal with |- context [String.eqb f0 ?k] =>
    destruct (String.eqb_spec f0 k) as [E|_]; [rewrite E in H; vm_compute in H; discriminate|] end.
  reflexivity.
Qed.

Lemma label_test : forall f0, f0 <> "" ->
  bind (str_last f0) (fun tmp => ret (String.eqb tmp ":")) =
  Some (match last_char f0 with Some c => Ascii.eqb c ":" | None => false end).
Proof.
  intros f0 H. rewrite str_last_eq. destruct (last_char f0) as [c|] eqn:E.
  - cbn [option_map bind ret]. rewrite eqb_char1. reflexivity.
  - destruct f0 as [|a u]; [congruence|]. exfalso. clear H. revert a E. induction u as [|b u IH]; intros a E; [discriminate|].
    cbn [last_char] in E. apply (IH b). exact E.
Qed.

Lemma k1_eq : forall wf line sc f0 rest cm,
  f0 <> "" -> List.length rest < wf ->
  (is_bytes_kw f0 = true -> Forall (fun x => lparen_once x = true) rest) ->
  parse_line_gen_k1 wf line sc (f0 :: rest) cm = of_res (parse_fields (f0 :: rest)).
Proof.
  intros wf line sc f0 rest cm Hne Hwf Hok.
  unfold parse_line_gen_k1. cbn [list_is_empty negb]. cbv zeta. rewrite !sub0. cbn [bind ret].
  rewrite (label_test f0 Hne), ifE_some. unfold parse_fields. cbv zeta.
  destruct (match last_char f0 with Some c => Ascii.eqb c ":" | None => false end) eqn:Elab.
  - (* a label *)
    destruct rest as [|y rest']; [|reflexivity]. cbn [List.length Nat.eqb negb].
    assert (Hkw : is_bytes_kw f0 = false).
    { destruct (last_char f0) as [c|] eqn:El; [|discriminate]. apply Ascii.eqb_eq in Elab. subst c.
      apply last_colon_not_kw. exact El. }
    unfold is_bytes_kw in Hkw. rewrite !orb_false_iff in Hkw. destruct Hkw as [[[[K1 K2] K3] K4] K5].
    rewrite new_label, str_drop_last_eq, k2_eq, K1, K2, K3. cbn [orb].
    rewrite k3_some by assumption. reflexivity.
  - rewrite k2_eq. rewrite <- orb_assoc.
    destruct ((f0 =? "byte") || ((f0 =? "pushbytes") || (f0 =? "method"))) eqn:E1.
    + (* byte / pushbytes / method *)
      assert (Hkw : is_bytes_kw f0 = true).
      { unfold is_bytes_kw. revert E1. destruct (f0 =? "byte"), (f0 =? "pushbytes"), (f0 =? "method"); intros E1; try reflexivity; discriminate. }
      rewrite (parse_byte_arguments_gen_eq_partial wf rest Hwf (Hok Hkw)).
      destruct (parse_byte_args (S (List.length rest)) rest) as [imm|e]; [|reflexivity].
      cbn [of_res bind Parse.bind]. destruct imm as [|b [|b2 r]]; try reflexivity.
      cbn [List.length Nat.eqb negb subscript nth_error].
      destruct (String.eqb_spec f0 "byte") as [->|N1].
      { cbn [dict_get String.eqb Ascii.eqb Bool.eqb andb bind ret]. rewrite k3_some by reflexivity.
        rewrite new_bytes by (cbn; tauto). reflexivity. }
      destruct (String.eqb_spec f0 "pushbytes") as [->|N2].
      { cbn [dict_get String.eqb Ascii.eqb Bool.eqb andb bind ret]. rewrite k3_some by reflexivity.
        rewrite new_bytes by (cbn; tauto). reflexivity. }
      destruct (String.eqb_spec f0 "method") as [->|N3]; [|discriminate].
      cbn [dict_get String.eqb Ascii.eqb Bool.eqb andb bind ret]. rewrite k3_some by reflexivity.
      rewrite new_bytes by (cbn; tauto). reflexivity.
    + rewrite k3_eq. destruct (String.eqb_spec f0 "bytecblock") as [->|N4].
      * rewrite (parse_byte_arguments_gen_eq_partial wf rest Hwf (Hok eq_refl)).
        destruct (parse_byte_args (S (List.length rest)) rest) as [imm|e]; [|reflexivity].
        cbn [of_res bind Parse.bind]. rewrite k4_eq. cbn [String.eqb Ascii.eqb Bool.eqb andb]. rewrite k5_eq.
        rewrite new_bytes by (cbn; tauto). reflexivity.
      * rewrite k4_eq. destruct (String.eqb_spec f0 "pushbytess") as [->|N5].
        -- rewrite (parse_byte_arguments_gen_eq_partial wf rest Hwf (Hok eq_refl)).
           destruct (parse_byte_args (S (List.length rest)) rest) as [imm|e]; [|reflexivity].
           cbn [of_res bind Parse.bind]. rewrite k5_eq. rewrite new_bytes by (cbn; tauto). reflexivity.
        -- rewrite k5_eq. reflexivity.
Qed.

Lemma k1_nil : forall wf line sc cm, parse_line_gen_k1 wf line sc [] cm = Some None.
Proof. reflexivity. Qed.

(* the lines on which the byte-argument loop agrees with the model: when the instruction is one of the five byte
   instructions, no argument token has two "(" *)
Definition bytes_args_ok (line : string) : Prop :=
  forall fs f0 rest, tokenize line = Ok fs -> strip_comment fs = f0 :: rest -> is_bytes_kw f0 = true ->
  Forall (fun x => lparen_once x = true) rest.

Lemma str_is_empty_eqb : forall s, str_is_empty s = (s =? "").
Proof. intros [|c t]; reflexivity. Qed.
Lemma but_last_facts : forall (fs : list string), Forall (fun t => t <> "") fs ->
  Forall (fun t => t <> "") (but_last fs) /\ List.length (but_last fs) <= List.length fs.
Proof.
  induction fs as [|x t IH]; intros H; [split; [constructor|apply le_n]|].
  inversion H as [|? ? Hx Ht]; subst. destruct (IH Ht) as [A B].
  destruct t as [|y t']; [split; [constructor|cbn; lia]|].
  change (but_last (x :: y :: t')) with (x :: but_last (y :: t')). split; [constructor; assumption|cbn [List.length] in *; lia].
Qed.

Theorem parse_line_gen_eq_partial : forall wfuel line,
  String.length line < wfuel -> bytes_args_ok line ->
  parse_line_gen wfuel line = of_res (parse_line line).
Proof.
  intros wf line Hwf Hok. rewrite parse_line_unfold. unfold parse_line_gen.
  rewrite str_is_empty_eqb, negb_involutive, str_strip_eq.
  destruct (strip line =? "") eqn:Eblank; [reflexivity|]. cbv zeta.
  rewrite split_instruction_into_tokens_gen_eq by (pose proof (strip_len line); lia).
  destruct (tokenize line) as [fs|e] eqn:Etok; [|reflexivity]. cbn [of_res bind Parse.bind].
  apply String.eqb_neq in Eblank. destruct (tokenize_facts line fs Eblank Etok) as [Hne [Hall Hlen]].
  rewrite (list_last_some fs "" Hne). cbn [bind ret]. rewrite in_base64_literal_gen_eq, list_but_last_eq.
  change (rev_string "") with "". unfold str_startswith. fold (starts_with "//" (List.last fs "")).
  assert (Hok' : forall f0 rest, strip_comment fs = f0 :: rest -> is_bytes_kw f0 = true ->
                 Forall (fun x => lparen_once x = true) rest).
  { intros f0 rest Hs Hk. exact (Hok fs f0 rest Etok Hs Hk). }
  clear Hok. unfold strip_comment in *.
  destruct (starts_with "//" (List.last fs "")); [destruct (in_b64 (List.last (but_last fs) "") "")|];
    cbn [andE notE option_map negb andb ifE].
  - destruct fs as [|f0 rest]; [congruence|]. inversion Hall; subst.
    apply k1_eq; [assumption|cbn [List.length] in Hlen; lia|]. intros Hk. apply (Hok' f0 rest eq_refl Hk).
  - destruct (but_last_facts fs Hall) as [A B].
    destruct (but_last fs) as [|f0 rest] eqn:Eb; [reflexivity|]. inversion A; subst.
    apply k1_eq; [assumption|cbn [List.length] in B; lia|]. intros Hk. apply (Hok' f0 rest eq_refl Hk).
  - destruct fs as [|f0 rest]; [congruence|]. inversion Hall; subst.
    apply k1_eq; [assumption|cbn [List.length] in Hlen; lia|]. intros Hk. apply (Hok' f0 rest eq_refl Hk).
Qed.

(* (3) the regenerated top of parse_line (with the regenerated rule table) is the model's, on every line whose
   byte arguments have at most one "(" each *)
Theorem parse_line_top_eq_partial : forall line, bytes_args_ok line -> parse_line_top line = of_res (parse_line line).
Proof. intros line H. unfold parse_line_top, line_fuel. apply parse_line_gen_eq_partial; [lia|exact H]. Qed.

(* every line that is not one of the five byte instructions *)
Corollary parse_line_top_eq_nonbytes : forall line,
  (forall fs f0 rest, tokenize line = Ok fs -> strip_comment fs = f0 :: rest -> is_bytes_kw f0 = false) ->
  parse_line_top line = of_res (parse_line line).
Proof.
  intros line H. apply parse_line_top_eq_partial. intros fs f0 rest Ht Hs Hk.
  rewrite (H fs f0 rest Ht Hs) in Hk. discriminate.
Qed.

Theorem parse_line_top_eq_refuted :
  exists line, parse_line_top line = Some (Some (IOther "Byte" [PStr "0x69b7"])) /\
               parse_line line = Ok (Some (IOther "Byte" [PStr "0x69b71d79"])) /\ line = "byte b64(abcd(ef)".
Proof. exists "byte b64(abcd(ef)". repeat split; lazy; reflexivity. Qed.

(* ====================================================================== *)
(* PART 7 : theorems of ParseLemmas / ParseLemmas2 transported to the regenerated functions                *)
(* ====================================================================== *)
(* (1) ParseLemmas2.tokenize_toks_b64: a line made of well-formed tokens (words, string literals, base64 data that
   may contain "//" after base64 / b64 or inside base64(..) / b64(..)) is split into exactly these tokens *)
Theorem tokens_gen_toks_b64 : forall ts, toks_ok ts -> tokens_gen (join " " ts) = Some ts.
Proof. intros ts H. rewrite tokens_gen_eq, (tokenize_toks_b64 ts H). reflexivity. Qed.
(* the past defect (D30): "//" inside base64 data is data, after it a comment is a comment *)
Theorem tokens_gen_base64_slashes :
  tokens_gen "byte base64 //8= // c" = Some ["byte"; "base64"; "//8="; "// c"] /\
  tokens_gen "byte b64(//8=) // c" = Some ["byte"; "b64(//8=)"; "// c"] /\
  tokens_gen "int 1 //8=" = Some ["int"; "1"; "//8="] /\
  tokens_gen "byte ""a\\"" ""//"" // c" = Some ["byte"; """a\\"""; """//"""; "// c"].
Proof. repeat split; vm_compute; reflexivity. Qed.

(* (2) ParseLemmas.parse_int_spellings (Props/C15.C15_integer_spelling): decimal, hex and octal spellings *)
Theorem parse_int_gen_spellings : forall n,
  parse_int_gen (string_of_N n) = Some (Z.of_N n) /\
  parse_int_gen ("0x" ++ hex_of_N n) = Some (Z.of_N n) /\
  parse_int_gen ("0" ++ oct_of_N n) = Some (Z.of_N n).
Proof.
  intros n. destruct (parse_int_spellings n) as [A [B C]].
  repeat split; apply parse_int_gen_complete; assumption.
Qed.
(* ParseLemmas.is_int_string_of_N *)
Theorem is_int_gen_string_of_N : forall n, is_int_gen (string_of_N n) = Some true.
Proof. intros n. rewrite is_int_gen_eq, is_int_string_of_N. reflexivity. Qed.

(* (3) ParseLemmas.parse_line_words: a line of plain words is parsed from its words *)
Lemma bytes_args_ok_words : forall ws, ws <> [] -> forallb word_ok ws = true ->
  (is_bytes_kw (hd "" ws) = true -> Forall (fun x => lparen_once x = true) (tl ws)) ->
  bytes_args_ok (join " " ws).
Proof.
  intros ws Hne H Hb fs f0 rest Ht Hs Hk. rewrite (tokenize_words ws H) in Ht. injection Ht as <-.
  unfold strip_comment in Hs.
  assert (Hl : starts_with "//" (List.last ws "") = false).
  { apply plain_not_comment. rewrite forallb_forall in H. specialize (H _ (last_In ws "" Hne)).
    apply word_ok_elim in H. tauto. }
  rewrite Hl in Hs. cbn [andb] in Hs. subst ws. apply Hb. exact Hk.
Qed.
Theorem parse_line_top_words : forall ws, ws <> [] -> forallb word_ok ws = true ->
  (is_bytes_kw (hd "" ws) = true -> Forall (fun x => lparen_once x = true) (tl ws)) ->
  parse_line_top (join " " ws) = of_res (parse_fields ws).
Proof.
  intros ws Hne H Hb. rewrite parse_line_top_eq_partial by (apply bytes_args_ok_words; assumption).
  rewrite parse_line_words by assumption. reflexivity.
Qed.
(* ParseLemmas.roundtrip_int (Props/C16): the printed form of `int n` parses back *)
Theorem parse_line_top_roundtrip_int : forall n,
  parse_line_top (str_of_instr (IInt (IANum n))) = Some (Some (IInt (IANum n))).
Proof.
  intros n. rewrite parse_line_top_eq_partial; [rewrite roundtrip_int; reflexivity|].
  rewrite str_int. change ("int " ++ string_of_N n) with (join " " ["int"; string_of_N n]).
  apply bytes_args_ok_words; [discriminate| |discriminate].
  cbn [forallb]. rewrite word_ok_string_of_N. reflexivity.
Qed.
(* ParseLemmas.parse_line_comment_only / parse_line_blank *)
Theorem parse_line_top_blank : forall l, all_space l = true -> parse_line_top l = Some None.
Proof.
  intros l H. unfold parse_line_top, parse_line_gen. rewrite str_is_empty_eqb, negb_involutive, str_strip_eq.
  rewrite strip_eq, lstrip_all_space by exact H. reflexivity.
Qed.

(* (4) ParseLemmas2.parse_byte_args_forms: the ten spellings of a byte literal *)
Theorem parse_byte_arguments_gen_forms : forall ts vs, byte_forms ts vs ->
  Forall (fun x => lparen_once x = true) ts ->
  forall fuel, List.length ts < fuel -> parse_byte_arguments_gen fuel ts = Some vs.
Proof.
  intros ts vs H Hok fuel Hf. rewrite parse_byte_arguments_gen_eq_partial by assumption.
  rewrite (parse_byte_args_forms ts vs H) by lia. reflexivity.
Qed.

Print Assumptions tokens_gen_eq.
Print Assumptions in_base64_literal_gen_eq.
Print Assumptions parse_int_gen_eq_partial.
Print Assumptions parse_int_gen_complete.
Print Assumptions parse_int_gen_eq_refuted.
Print Assumptions is_int_gen_eq.
Print Assumptions parse_byte_arguments_gen_eq_partial.
Print Assumptions parse_byte_arguments_gen_eq_refuted.
Print Assumptions parse_line_top_eq_partial.
Print Assumptions parse_line_top_eq_refuted.
Print Assumptions tokens_gen_toks_b64.
Print Assumptions parse_int_gen_spellings.
Print Assumptions parse_line_top_words.
Print Assumptions parse_line_top_roundtrip_int.
Print Assumptions parse_byte_arguments_gen_forms.

(* ====================================================================== *)
(* PART 7 : signed immediates (frame_dig / frame_bury): _parse_int against Parse.parse_sint *)
(* ====================================================================== *)
(* "-d1..dk": neither "0x" nor "0" is a prefix, so _parse_int evaluates int(x) in base 10, which reads the sign *)
Lemma parse_int_gen_minus : forall t, str_forall int_plain_char t = true ->
  parse_int_gen (String "-" t) = option_map (fun n => Z.opp (Z.of_N n)) (parse_base 10 t).
Proof.
  intros t Ht. unfold parse_int_gen, str_startswith.
  change (String.prefix "0x" (String "-" t)) with false. change (String.prefix "0" (String "-" t)) with false.
  cbv iota. unfold py_int.
  rewrite lstrip_by_id by reflexivity.
  rewrite rstrip_by_id by (cbn [str_forall]; rewrite (plain_no_blank t Ht); reflexivity).
  change (Ascii.eqb "-" "-") with true. cbv iota.
  unfold int_unsigned. rewrite has_prefix_10.
  destruct t as [|c t']; [reflexivity|].
  pose proof Ht as Ht0. cbn [str_forall] in Ht. apply andb_true_iff in Ht. destruct Ht as [Hc _].
  unfold int_plain_char in Hc. rewrite !andb_true_iff, !negb_true_iff in Hc. destruct Hc as [[[_ Hu] _] _].
  rewrite Hu. rewrite int_digits_plain by (lia || exact Ht0). reflexivity.
Qed.

(* the domain of the equality for a signed immediate: a plain integer, or "-" followed by plain characters *)
Definition sint_plain (x : string) : bool :=
  match x with
  | String c t => if Ascii.eqb c "-" then str_forall int_plain_char t else int_plain x
  | EmptyString => int_plain x
  end.
Lemma of_res_sint_unsigned : forall x,
  of_res (Parse.bind (parse_int x) (fun n => Ok (Z.of_N n))) = option_map Z.of_N (of_res (parse_int x)).
Proof. intros x. destruct (parse_int x); reflexivity. Qed.
(* on that domain _parse_int IS the model's parse_sint: same integer, an exception on the same strings *)
Theorem parse_sint_gen_eq_partial : forall x, sint_plain x = true -> parse_int_gen x = of_res (parse_sint x).
Proof.
  intros x H. destruct x as [|c t].
  - cbn [sint_plain] in H. unfold parse_sint. rewrite of_res_sint_unsigned. apply parse_int_gen_eq_partial. exact H.
  - cbn [sint_plain] in H. unfold parse_sint. destruct (Ascii.eqb c "-") eqn:E.
    + apply Ascii.eqb_eq in E. subst c. rewrite (parse_int_gen_minus t H). destruct (parse_base 10 t); reflexivity.
    + rewrite of_res_sint_unsigned. apply parse_int_gen_eq_partial. exact H.
Qed.
(* every string: the model never accepts more than the code, and the integers agree *)
Theorem parse_sint_gen_complete : forall x z, parse_sint x = Ok z -> parse_int_gen x = Some z.
Proof.
  intros x z H.
  assert (U : forall y, Parse.bind (parse_int y) (fun n => Ok (Z.of_N n)) = Ok z -> parse_int_gen y = Some z).
  { intros y Hy. destruct (parse_int y) as [n|e] eqn:E; [|discriminate]. cbn [Parse.bind] in Hy. injection Hy as <-.
    apply parse_int_gen_complete. exact E. }
  destruct x as [|c t]; [exact (U _ H)|]. unfold parse_sint in H. destruct (Ascii.eqb c "-") eqn:E; [|exact (U _ H)].
  apply Ascii.eqb_eq in E. subst c. destruct (parse_base 10 t) as [n|] eqn:Ep; [|discriminate]. injection H as <-.
  rewrite (parse_int_gen_minus t (parse_base_plain 10 t n ltac:(lia) Ep)), Ep. reflexivity.
Qed.
(* outside the domain the code still accepts more (underscores, blanks after the sign are not among them: "- 1" raises) *)
Theorem parse_sint_gen_eq_refuted :
  parse_int_gen "-1_0" = Some (-10)%Z /\ of_res (parse_sint "-1_0") = None /\ sint_plain "-1_0" = false /\
  parse_int_gen "-0x1" = None /\ of_res (parse_sint "-0x1") = None /\
  parse_int_gen "-010" = Some (-10)%Z /\ of_res (parse_sint "-010") = Some (-10)%Z /\
  parse_int_gen "- 1" = None /\ of_res (parse_sint "- 1") = None /\
  parse_int_gen "--1" = None /\ of_res (parse_sint "--1") = None.
Proof. repeat split; reflexivity. Qed.

Print Assumptions parse_sint_gen_eq_partial.
Print Assumptions parse_sint_gen_complete.
Print Assumptions parse_sint_gen_eq_refuted.
