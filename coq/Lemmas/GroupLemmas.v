(* C12 / C13: structural theorems about Model/Group.v.
   C12  A. walk_path_spec            the dispatch-path walk
        B. construct_function_identity   construct_function t [0] = whole_function t
        C. cut_block_closed_form, cut_block_spec, cut_path_spec   departures from the path lead to err blocks
        D. err_block_constraint_null  err blocks reject
   C13  E. rel_dict_spec             dict semantics of relative indexes
        F. relative_accessors_spec   offset inversion
        G. cleared_by_*, vulnerable_iff   the verdict logic
        H. single_logic_sig / single_application   a single transaction with one contract *)
From Coq Require Import String List NArith ZArith Bool Arith Lia.
From Tealer Require Import Tables LeafPrelude Leaves Syntax Parse Cfg StackAst Keys Analysis Domains Detect Group.
From Tealer Require Import CfgLemmas SubLemmas GraphWf.
Import ListNotations.
Close Scope string_scope.
Open Scope nat_scope.
Open Scope list_scope.

(* ================================================================== A. walk_path *)
(* [chain t valid path]: the first block of the path is in [valid], every later one is a successor
   (b_next of tblock) of the block before it *)
Inductive chain (t : teal) : list nat -> list nat -> Prop :=
| chain_nil valid : chain t valid []
| chain_cons valid b rest : In b valid -> chain t (tnext t b) rest -> chain t valid (b :: rest).

Lemma walk_path_cons t bid rest valid acc :
  walk_path t (bid :: rest) valid acc =
  if nat_mem bid valid then
    if nat_mem bid acc then Err "TealerException: Dispatch path is a loop"%string
    else walk_path t rest (tnext t bid) (acc ++ [bid])
  else Err "TealerException: Invalid dispatch path"%string.
Proof. reflexivity. Qed.

Theorem walk_path_spec t : forall path valid acc r,
  walk_path t path valid acc = Ok r ->
  r = acc ++ path /\ NoDup path /\ (forall x, In x path -> ~ In x acc) /\ chain t valid path.
Proof.
  induction path as [|bid rest IH]; intros valid acc r H.
  - simpl in H. inversion H; subst. rewrite app_nil_r.
    repeat split; [constructor | intros x [] | constructor].
  - rewrite walk_path_cons in H.
    destruct (nat_mem bid valid) eqn:Ev; [|discriminate].
    destruct (nat_mem bid acc) eqn:Ea; [discriminate|].
    apply IH in H. destruct H as (Hr & Hnd & Hdisj & Hch).
    apply nat_mem_In in Ev.
    assert (Hna : ~ In bid acc) by (intro Hin; apply nat_mem_In in Hin; congruence).
    split; [rewrite Hr, <- app_assoc; reflexivity|]. split; [|split].
    + constructor; [|assumption]. intro Hin. apply (Hdisj bid Hin). apply in_or_app. right. left. reflexivity.
    + intros x [<-|Hx]; [assumption|]. intro Hin. apply (Hdisj x Hx). apply in_or_app. left. assumption.
    + constructor; assumption.
Qed.

(* the converse: the walk accepts exactly the duplicate-free chains avoiding [acc] *)
Theorem walk_path_complete t : forall path valid acc,
  NoDup path -> (forall x, In x path -> ~ In x acc) -> chain t valid path ->
  walk_path t path valid acc = Ok (acc ++ path).
Proof.
  induction path as [|bid rest IH]; intros valid acc Hnd Hdisj Hch.
  - simpl. rewrite app_nil_r. reflexivity.
  - rewrite walk_path_cons. inversion Hch; subst. apply NoDup_cons_iff in Hnd. destruct Hnd as [Hni Hnd].
    assert (Ev : nat_mem bid valid = true) by (apply nat_mem_In; assumption). rewrite Ev.
    destruct (nat_mem bid acc) eqn:Ea.
    { apply nat_mem_In in Ea. exfalso. apply (Hdisj bid); [left; reflexivity | assumption]. }
    rewrite IH; try assumption.
    + rewrite <- app_assoc. reflexivity.
    + intros x Hx Hin. apply in_app_iff in Hin. destruct Hin as [Hin|[<-|[]]].
      * apply (Hdisj x); [right; assumption | assumption].
      * contradiction.
Qed.

Corollary walk_path_iff t path valid acc r :
  walk_path t path valid acc = Ok r <->
  r = acc ++ path /\ NoDup path /\ (forall x, In x path -> ~ In x acc) /\ chain t valid path.
Proof.
  split; [apply walk_path_spec|]. intros (-> & H1 & H2 & H3). apply walk_path_complete; assumption.
Qed.

(* consecutive elements of a chain are successors *)
Lemma chain_consecutive t : forall path valid pre a b post,
  chain t valid path -> path = pre ++ a :: b :: post -> In b (tnext t a).
Proof.
  induction path as [|x rest IH]; intros valid pre a b post Hch E.
  - destruct pre; discriminate.
  - inversion Hch; subst. destruct pre as [|y pre]; simpl in E; inversion E; subst.
    + inversion H3; subst. assumption.
    + eapply IH; eauto.
Qed.

Lemma chain_head t valid b rest : chain t valid (b :: rest) -> In b valid.
Proof. intros H. inversion H; assumption. Qed.

(* the walk of construct_function: starts at block 0 *)
Corollary dispatch_path_spec t path r :
  walk_path t path [0] [] = Ok r ->
  r = path /\ NoDup path /\ chain t [0] path /\ (forall b rest, path = b :: rest -> b = 0).
Proof.
  intros H. apply walk_path_spec in H. destruct H as (Hr & Hnd & _ & Hch).
  split; [exact Hr|]. split; [assumption|]. split; [assumption|].
  intros b rest E. subst path. apply chain_head in Hch. destruct Hch as [<-|[]]. reflexivity.
Qed.

(* ================================================================== D. err blocks reject *)
Lemma emulate_ins_custom_err pos : emulate_ins ICustomErr pos [] = Some ([], []).
Proof.
  unfold emulate_ins.
  assert (H1 : stack_pop_size ICustomErr = Some 0) by (vm_compute; reflexivity).
  assert (H2 : stack_push_size ICustomErr = Some 0) by (vm_compute; reflexivity).
  rewrite H1, H2. reflexivity.
Qed.

Theorem err_block_constraint_null (T : Type) (univ null : T) (union inter : T -> T -> T)
        (single : instr -> nat -> list sval -> T * T) (f : func) (b : block) (pos : nat) :
  b_ins b = [pos] -> op_at (fn_prog f) pos = Some ICustomErr ->
  block_constraint T univ null union inter single f b = Some null.
Proof.
  intros Hi Hop. unfold block_constraint. rewrite Hi. simpl. rewrite Hop.
  rewrite emulate_ins_custom_err. reflexivity.
Qed.

(* the same for err (the source-level instruction) *)
Lemma emulate_ins_err pos : emulate_ins IErr pos [] = Some ([], []).
Proof.
  unfold emulate_ins.
  assert (H1 : stack_pop_size IErr = Some 0) by (vm_compute; reflexivity).
  assert (H2 : stack_push_size IErr = Some 0) by (vm_compute; reflexivity).
  rewrite H1, H2. reflexivity.
Qed.

(* ================================================================== generic dict semantics *)
Section Dict.
  Context {K V : Type}.
  Variable eqb : K -> K -> bool.
  Hypothesis eqb_eq : forall a b, eqb a b = true <-> a = b.

  Fixpoint gset (k : K) (v : V) (l : list (K * V)) : list (K * V) :=
    match l with
    | [] => [(k, v)]
    | (k', v') :: t => if eqb k k' then (k, v) :: t else (k', v') :: gset k v t
    end.
  Definition gfold (l : list (K * V)) (d : list (K * V)) : list (K * V) :=
    fold_left (fun d '(k, v) => gset k v d) l d.

  (* (k, v) is the last pair with key k in l *)
  Definition last_with (l : list (K * V)) (k : K) (v : V) : Prop :=
    exists l1 l2, l = l1 ++ (k, v) :: l2 /\ forall v', ~ In (k, v') l2.
  Definition nokey (l : list (K * V)) (k : K) : Prop := forall v', ~ In (k, v') l.

  Lemma eqb_refl' a : eqb a a = true.
  Proof. apply eqb_eq. reflexivity. Qed.
  Lemma eqb_neq a b : eqb a b = false <-> a <> b.
  Proof.
    split.
    - intros H E. apply eqb_eq in E. congruence.
    - intros H. destruct (eqb a b) eqn:E; [|reflexivity]. apply eqb_eq in E. contradiction.
  Qed.

  Lemma nokey_keys l k : nokey l k <-> ~ In k (map fst l).
  Proof.
    unfold nokey. split.
    - intros H Hin. apply in_map_iff in Hin. destruct Hin as ([k' v'] & E & Hin). simpl in E. subst k'.
      apply (H v'). assumption.
    - intros H v' Hin. apply H. apply in_map_iff. exists (k, v'). auto.
  Qed.

  Lemma gset_keys k v l :
    map fst (gset k v l) = if existsb (eqb k) (map fst l) then map fst l else map fst l ++ [k].
  Proof.
    induction l as [|[k' v'] l IH]; simpl; [reflexivity|].
    destruct (eqb k k') eqn:E; simpl.
    - apply eqb_eq in E. subst. reflexivity.
    - rewrite IH. destruct (existsb (eqb k) (map fst l)); reflexivity.
  Qed.

  Lemma existsb_eqb_In' k l : existsb (eqb k) l = true <-> In k l.
  Proof.
    rewrite existsb_exists. split.
    - intros (x & Hx & E). apply eqb_eq in E. subst; assumption.
    - intros H. exists k. split; [assumption | apply eqb_refl'].
  Qed.

  Lemma gset_NoDup k v l : NoDup (map fst l) -> NoDup (map fst (gset k v l)).
  Proof.
    intros H. rewrite gset_keys. destruct (existsb (eqb k) (map fst l)) eqn:E; [assumption|].
    apply NoDup_snoc; [assumption|]. intro Hin. apply existsb_eqb_In' in Hin. congruence.
  Qed.

  Lemma gset_In k v l k' v' :
    NoDup (map fst l) ->
    (In (k', v') (gset k v l) <-> (k' = k /\ v' = v) \/ (k' <> k /\ In (k', v') l)).
  Proof.
    induction l as [|[k0 v0] l IH]; intros Hnd; simpl.
    - split.
      + intros [E|[]]. inversion E. auto.
      + intros [[-> ->]|[_ []]]. left; reflexivity.
    - simpl in Hnd. apply NoDup_cons_iff in Hnd. destruct Hnd as [Hni Hnd].
      destruct (eqb k k0) eqn:E; simpl.
      + apply eqb_eq in E. subst k0. split.
        * intros [E|Hin]; [inversion E; auto|]. right. split; [|right; assumption].
          intros ->. apply Hni. apply in_map_iff. exists (k, v'). auto.
        * intros [[-> ->]|[Hne [E|Hin]]]; [left; reflexivity | inversion E; congruence | right; assumption].
      + apply eqb_neq in E. rewrite (IH Hnd). split.
        * intros [E0|[H|[H1 H2]]]; [inversion E0; subst; right; split; [congruence | left; reflexivity] | left; assumption | right; split; [assumption | right; assumption]].
        * intros [H|[H1 [E0|H2]]]; [right; left; assumption | left; assumption | right; right; split; assumption].
  Qed.

  Lemma gfold_NoDup : forall l d, NoDup (map fst d) -> NoDup (map fst (gfold l d)).
  Proof.
    induction l as [|[k v] l IH]; intros d H; [assumption|]. unfold gfold. simpl.
    apply (IH (gset k v d)). apply gset_NoDup. assumption.
  Qed.

  Lemma gfold_app l1 l2 d : gfold (l1 ++ l2) d = gfold l2 (gfold l1 d).
  Proof. unfold gfold. apply fold_left_app. Qed.

  Lemma nokey_cons k0 v0 l k : nokey ((k0, v0) :: l) k <-> k <> k0 /\ nokey l k.
  Proof.
    unfold nokey. split.
    - intros H. split.
      + intros ->. apply (H v0). left; reflexivity.
      + intros v' Hin. apply (H v'). right; assumption.
    - intros [H1 H2] v' [E|Hin]; [inversion E; congruence | apply (H2 v'); assumption].
  Qed.

  Lemma last_with_cons k0 v0 l k v :
    last_with ((k0, v0) :: l) k v <-> last_with l k v \/ (nokey l k /\ k = k0 /\ v = v0).
  Proof.
    unfold last_with. split.
    - intros (l1 & l2 & E & Hn). destruct l1 as [|x l1]; simpl in E; inversion E; subst.
      + right. split; [exact Hn | auto].
      + left. exists l1, l2. auto.
    - intros [(l1 & l2 & E & Hn)|(Hn & -> & ->)].
      + exists ((k0, v0) :: l1), l2. subst l. auto.
      + exists [], l. auto.
  Qed.

  Theorem gfold_spec : forall l d k v,
    NoDup (map fst d) ->
    (In (k, v) (gfold l d) <-> last_with l k v \/ (nokey l k /\ In (k, v) d)).
  Proof.
    induction l as [|[k0 v0] l IH]; intros d k v Hnd.
    - unfold gfold. simpl. split.
      + intros H. right. split; [intros v' []| assumption].
      + intros [(l1 & l2 & E & _)|[_ H]]; [destruct l1; discriminate | assumption].
    - change (gfold ((k0, v0) :: l) d) with (gfold l (gset k0 v0 d)).
      rewrite (IH (gset k0 v0 d) k v (gset_NoDup k0 v0 d Hnd)).
      rewrite (gset_In k0 v0 d k v Hnd), last_with_cons, nokey_cons. tauto.
  Qed.

  Corollary gfold_nil_spec l k v : In (k, v) (gfold l []) <-> last_with l k v.
  Proof.
    rewrite gfold_spec by constructor. split; [|auto]. intros [H|[_ []]]. assumption.
  Qed.

  Lemma last_with_In l k v : last_with l k v -> In (k, v) l.
  Proof. intros (l1 & l2 & -> & _). apply in_or_app. right. left. reflexivity. Qed.

  Lemma last_with_fun l k v v' : last_with l k v -> last_with l k v' -> v = v'.
  Proof.
    intros (l1 & l2 & E & Hn) (l1' & l2' & E' & Hn'). subst l.
    revert l1' E'. induction l1 as [|x l1 IH]; intros l1' E'.
    - destruct l1' as [|y l1']; simpl in E'; inversion E'; [reflexivity|].
      subst. exfalso. apply (Hn v'). apply in_or_app. right. left. reflexivity.
    - destruct l1' as [|y l1']; simpl in E'; inversion E'.
      + subst. exfalso. apply (Hn' v). apply in_or_app. right. left. reflexivity.
      + eapply IH; eauto.
  Qed.

  (* a key that occurs has a last occurrence *)
  Lemma last_with_exists : forall l k v, In (k, v) l -> exists v', last_with l k v'.
  Proof.
    induction l as [|[k0 v0] l IH]; intros k v Hin; [destruct Hin|].
    destruct (in_dec (fun a b => Bool.bool_dec a b) true (map (fun kv => eqb k (fst kv)) l)) as [Hk|Hk].
    - apply in_map_iff in Hk. destruct Hk as ([k1 v1] & E & Hin1). simpl in E. apply eqb_eq in E. subst k1.
      destruct (IH k v1 Hin1) as (v' & Hl). exists v'. apply last_with_cons. left. assumption.
    - assert (Hn : nokey l k).
      { intros v' Hin'. apply Hk. apply in_map_iff. exists (k, v'). split; [apply eqb_refl' | assumption]. }
      destruct Hin as [E|Hin]; [|exfalso; apply (Hn v); assumption].
      inversion E; subst. exists v. apply last_with_cons. right. auto.
  Qed.
End Dict.

(* ================================================================== E. rel_dict *)
Lemma dict_set_gset {A} k (v : A) l : dict_set k v l = gset Z.eqb k v l.
Proof.
  induction l as [|[k' v'] l IH]; simpl; [reflexivity|]. rewrite IH. reflexivity.
Qed.

Lemma rel_dict_gfold t : rel_dict t = gfold Z.eqb (g_rel t) [].
Proof.
  unfold rel_dict, gfold. generalize (@nil (Z * string)). induction (g_rel t) as [|[k v] l IH]; intros d; [reflexivity|].
  simpl. rewrite dict_set_gset. apply IH.
Qed.

(* (off, id) is the last pair with that offset *)
Definition last_entry {V} (l : list (Z * V)) (off : Z) (id : V) : Prop :=
  exists l1 l2, l = l1 ++ (off, id) :: l2 /\ forall id', ~ In (off, id') l2.

Theorem rel_dict_spec t off id :
  In (off, id) (rel_dict t) <-> last_entry (g_rel t) off id.
Proof. rewrite rel_dict_gfold. apply (gfold_nil_spec Z.eqb Z.eqb_eq). Qed.

Theorem rel_dict_offsets_distinct t : NoDup (map fst (rel_dict t)).
Proof. rewrite rel_dict_gfold. apply (gfold_NoDup Z.eqb Z.eqb_eq). constructor. Qed.

Corollary rel_dict_functional t off id id' :
  In (off, id) (rel_dict t) -> In (off, id') (rel_dict t) -> id = id'.
Proof.
  rewrite !rel_dict_spec. apply (last_with_fun (g_rel t) off id id').
Qed.

Corollary rel_dict_In_g_rel t off id : In (off, id) (rel_dict t) -> In (off, id) (g_rel t).
Proof. rewrite rel_dict_spec. apply last_with_In. Qed.

(* every offset mentioned in g_rel has an entry *)
Corollary rel_dict_total t off id : In (off, id) (g_rel t) -> exists id', In (off, id') (rel_dict t).
Proof.
  intros H. destruct (last_with_exists Z.eqb Z.eqb_eq _ _ _ H) as (id' & Hl).
  exists id'. apply rel_dict_spec. exact Hl.
Qed.

(* ================================================================== F. relative_accessors *)
(* the update of group_relative_indexes[txn][other] *)
Definition ra_upsert (k : string) (off : Z) (acc : list (string * Z)) : list (string * Z) :=
  if existsb (fun '(o, _) => String.eqb o k) acc
  then map (fun '(o, x) => if String.eqb o k then (o, off) else (o, x)) acc
  else acc ++ [(k, off)].

Lemma ra_upsert_gset k off acc :
  NoDup (map fst acc) -> ra_upsert k off acc = gset String.eqb k off acc.
Proof.
  unfold ra_upsert. induction acc as [|[o x] acc IH]; intros Hnd; [reflexivity|].
  simpl in Hnd. apply NoDup_cons_iff in Hnd. destruct Hnd as [Hni Hnd]. specialize (IH Hnd).
  simpl. rewrite (String.eqb_sym k o). destruct (String.eqb o k) eqn:E; simpl.
  - apply String.eqb_eq in E. subst o. f_equal.
    rewrite <- (map_id acc) at 2. apply map_ext_in. intros [o' x'] Hin.
    destruct (String.eqb o' k) eqn:E'; [|reflexivity]. apply String.eqb_eq in E'. subst o'.
    exfalso. apply Hni. apply in_map_iff. exists (k, x'). auto.
  - destruct (existsb (fun '(o0, _) => String.eqb o0 k) acc); simpl; rewrite <- IH; reflexivity.
Qed.

(* the entries other contributes for t, in dict order *)
Definition ra_events_of (t other : gtxn) : list (string * Z) :=
  map (fun '(off, _) => (g_id other, off))
      (filter (fun '(_, target) => String.eqb target (g_id t)) (rel_dict other)).
Definition ra_events (group : list gtxn) (t : gtxn) : list (string * Z) := flat_map (ra_events_of t) group.

Lemma ra_inner t other : forall (l : list (Z * string)) (acc : list (string * Z)),
  NoDup (map fst acc) ->
  fold_left (fun acc2 '(off, target) =>
               if String.eqb target (g_id t) then
                 (if existsb (fun '(o, _) => String.eqb o (g_id other)) acc2
                  then map (fun '(o, x) => if String.eqb o (g_id other) then (o, off) else (o, x)) acc2
                  else acc2 ++ [(g_id other, off)])
               else acc2) l acc =
  gfold String.eqb (map (fun '(off, _) => (g_id other, off))
                        (filter (fun '(_, target) => String.eqb target (g_id t)) l)) acc.
Proof.
  induction l as [|[off target] l IH]; intros acc Hnd; [reflexivity|].
  simpl. destruct (String.eqb target (g_id t)) eqn:E.
  - fold (ra_upsert (g_id other) off acc). rewrite ra_upsert_gset by assumption.
    rewrite IH by (apply (gset_NoDup String.eqb String.eqb_eq); assumption). reflexivity.
  - apply IH. assumption.
Qed.

Lemma relative_accessors_gfold group t :
  relative_accessors group t = gfold String.eqb (ra_events group t) [].
Proof.
  unfold relative_accessors, ra_events.
  assert (H : forall g (acc : list (string * Z)), NoDup (map fst acc) ->
    fold_left (fun acc other =>
       fold_left (fun acc2 '(off, target) =>
               if String.eqb target (g_id t) then
                 (if existsb (fun '(o, _) => String.eqb o (g_id other)) acc2
                  then map (fun '(o, x) => if String.eqb o (g_id other) then (o, off) else (o, x)) acc2
                  else acc2 ++ [(g_id other, off)])
               else acc2) (rel_dict other) acc) g acc =
    gfold String.eqb (flat_map (ra_events_of t) g) acc).
  { induction g as [|other g IH]; intros acc Hnd; [reflexivity|].
    simpl. rewrite ra_inner by assumption. rewrite gfold_app.
    apply IH. apply (gfold_NoDup String.eqb String.eqb_eq). assumption. }
  apply H. constructor.
Qed.

(* one entry per other transaction *)
Theorem relative_accessors_keys_distinct group t : NoDup (map fst (relative_accessors group t)).
Proof. rewrite relative_accessors_gfold. apply (gfold_NoDup String.eqb String.eqb_eq). constructor. Qed.

Lemma ra_events_of_In t other oid off :
  In (oid, off) (ra_events_of t other) <-> oid = g_id other /\ In (off, g_id t) (rel_dict other).
Proof.
  unfold ra_events_of. rewrite in_map_iff. split.
  - intros ([off' tg] & E & Hin). inversion E; subst. apply filter_In in Hin. destruct Hin as [Hin Ht].
    apply String.eqb_eq in Ht. subst tg. auto.
  - intros [-> Hin]. exists (off, g_id t). split; [reflexivity|]. apply filter_In.
    split; [assumption | apply String.eqb_refl].
Qed.

(* F1: every accessor entry comes from an entry of the other transaction's dict pointing to t *)
Theorem relative_accessors_sound group t oid off :
  In (oid, off) (relative_accessors group t) ->
  exists other, In other group /\ g_id other = oid /\ In (off, g_id t) (rel_dict other).
Proof.
  rewrite relative_accessors_gfold, (gfold_nil_spec String.eqb String.eqb_eq).
  intros H. apply last_with_In in H. unfold ra_events in H. apply in_flat_map in H.
  destruct H as (other & Ho & Hin). apply ra_events_of_In in Hin. destruct Hin as [-> Hin]. eauto.
Qed.

(* (off, target) is the last entry of [other]'s dict that points to [target] *)
Definition last_pointing (d : list (Z * string)) (target : string) (off : Z) : Prop :=
  exists l1 l2, d = l1 ++ (off, target) :: l2 /\ forall o, ~ In (o, target) l2.

Lemma last_pointing_exists target : forall d off,
  In (off, target) d -> exists off', last_pointing d target off'.
Proof.
  induction d as [|[o tg] d IH]; intros off Hin; [destruct Hin|].
  destruct (in_dec string_dec target (map snd d)) as [Hk|Hk].
  - apply in_map_iff in Hk. destruct Hk as ([o1 t1] & E & Hin1). simpl in E. subst t1.
    destruct (IH o1 Hin1) as (off' & l1 & l2 & -> & Hn). exists off', ((o, tg) :: l1), l2. auto.
  - destruct Hin as [E|Hin].
    + inversion E; subst. exists off, [], d. split; [reflexivity|].
      intros o' Hin. apply Hk. apply in_map_iff. exists (o', target). auto.
    + exfalso. apply Hk. apply in_map_iff. exists (off, target). auto.
Qed.

Lemma last_pointing_In d target off : last_pointing d target off -> In (off, target) d.
Proof. intros (l1 & l2 & -> & _). apply in_or_app. right. left. reflexivity. Qed.

Lemma filter_none {A} (P : A -> bool) l : (forall x, In x l -> P x = false) -> filter P l = [].
Proof.
  induction l as [|a l IH]; intros H; [reflexivity|]. simpl.
  rewrite (H a (or_introl eq_refl)). apply IH. intros x Hx. apply H. right; assumption.
Qed.

(* F2: with distinct ids, the entry of [other] is the last of its offsets pointing to t *)
Theorem relative_accessors_complete group t other off' :
  NoDup (map g_id group) -> In other group -> last_pointing (rel_dict other) (g_id t) off' ->
  In (g_id other, off') (relative_accessors group t).
Proof.
  intros Hnd Ho (l1 & l2 & Ed & Hn).
  rewrite relative_accessors_gfold, (gfold_nil_spec String.eqb String.eqb_eq).
  apply in_split in Ho. destruct Ho as (g1 & g2 & ->).
  unfold ra_events. rewrite flat_map_app. simpl.
  assert (Ee : ra_events_of t other =
               map (fun '(off, _) => (g_id other, off))
                   (filter (fun '(_, target) => String.eqb target (g_id t)) l1) ++ [(g_id other, off')]).
  { unfold ra_events_of. rewrite Ed, filter_app, map_app. f_equal. simpl.
    rewrite String.eqb_refl. simpl. f_equal.
    rewrite filter_none; [reflexivity|]. intros [o tg] Hin.
    destruct (String.eqb tg (g_id t)) eqn:E; [|reflexivity]. apply String.eqb_eq in E. subst tg.
    exfalso. apply (Hn o). assumption. }
  rewrite Ee. exists (flat_map (ra_events_of t) g1 ++
                      map (fun '(off, _) => (g_id other, off))
                          (filter (fun '(_, target) => String.eqb target (g_id t)) l1)),
                     (flat_map (ra_events_of t) g2).
  split; [rewrite <- !app_assoc; reflexivity|].
  intros v' Hin. apply in_flat_map in Hin. destruct Hin as (o2 & Ho2 & Hin).
  apply ra_events_of_In in Hin. destruct Hin as [E _].
  rewrite map_app in Hnd. simpl in Hnd. apply NoDup_remove_2 in Hnd. apply Hnd.
  apply in_or_app. right. rewrite E. apply in_map. assumption.
Qed.

Corollary relative_accessors_converse group t other off :
  NoDup (map g_id group) -> In other group -> In (off, g_id t) (rel_dict other) ->
  exists off', last_pointing (rel_dict other) (g_id t) off' /\
               In (g_id other, off') (relative_accessors group t).
Proof.
  intros Hnd Ho Hin. destruct (last_pointing_exists (g_id t) _ _ Hin) as (off' & Hl).
  exists off'. split; [assumption|]. apply relative_accessors_complete; assumption.
Qed.

Lemma NoDup_fst_fun {A B} (l : list (A * B)) k v v' :
  NoDup (map fst l) -> In (k, v) l -> In (k, v') l -> v = v'.
Proof.
  induction l as [|[o x] l IH]; intros Hk H1 H2; [destruct H1|]. simpl in Hk. apply NoDup_cons_iff in Hk.
  destruct Hk as [Hni Hk]. destruct H1 as [E1|H1]; destruct H2 as [E2|H2].
  - congruence.
  - inversion E1; subst. exfalso. apply Hni. apply in_map_iff. exists (k, v'). auto.
  - inversion E2; subst. exfalso. apply Hni. apply in_map_iff. exists (k, v). auto.
  - apply IH; assumption.
Qed.

(* the inversion as an equivalence *)
Theorem relative_accessors_spec group t oid off :
  NoDup (map g_id group) ->
  (In (oid, off) (relative_accessors group t) <->
   exists other, In other group /\ g_id other = oid /\ last_pointing (rel_dict other) (g_id t) off).
Proof.
  intros Hnd. split.
  - intros H. destruct (relative_accessors_sound group t oid off H) as (other & Ho & Hid & Hin).
    exists other. split; [assumption|]. split; [assumption|].
    destruct (relative_accessors_converse group t other off Hnd Ho Hin) as (off' & Hl & Hin').
    rewrite Hid in Hin'.
    assert (E : off = off').
    { eapply NoDup_fst_fun; [apply (relative_accessors_keys_distinct group t) | exact H | exact Hin']. }
    subst off'. assumption.
  - intros (other & Ho & <- & Hl). apply relative_accessors_complete; assumption.
Qed.

(* ================================================================== G. verdict logic *)
Section VerdictLemmas.
  Variable funcs : list (func * fn_result).
  Variable checks : bctx -> bool.
  Variable dtype : string.
  Variable vtypes : option (list string).

  Local Notation vuln := (txn_vulnerable funcs checks dtype vtypes).
  Local Notation cif := (checks_its_field funcs checks).
  Local Notation cabs := (checks_abs funcs checks).
  Local Notation crel := (checks_rel funcs checks).

  (* the detector applies to the transaction *)
  Definition eligible (t : gtxn) : Prop :=
    ~ (dtype = "STATELESS"%string /\ g_has_logic_sig t = false) /\
    ~ (dtype = "STATEFULL"%string /\ g_application t = None) /\
    (forall l, vtypes = Some l -> In (g_type t) l).

  (* the clearing conditions *)
  Definition own_cleared (t : gtxn) : Prop :=
    (exists k, g_logic_sig t = Some k /\ cif k (g_abs t) = true) \/
    (exists k, g_application t = Some k /\ cif k (g_abs t) = true).
  Definition abs_cleared (group : list gtxn) (t : gtxn) : Prop :=
    exists i other, g_abs t = Some i /\ In other group /\
      ((exists k, g_logic_sig other = Some k /\ cabs k i = true) \/
       (exists k, g_application other = Some k /\ cabs k i = true)).
  (* the implementation looks the other transaction up by id: the first transaction with that id *)
  Definition rel_cleared (group : list gtxn) (t : gtxn) : Prop :=
    exists oid off other, In (oid, off) (relative_accessors group t) /\
      find (fun o => String.eqb (g_id o) oid) group = Some other /\
      ((exists k, g_logic_sig other = Some k /\ crel k off = true) \/
       (exists k, g_application other = Some k /\ crel k off = true)).

  Lemma opt_check_true o g : opt_check o g = true <-> exists k, o = Some k /\ g k = true.
  Proof.
    unfold opt_check. destruct o as [k|]; split.
    - intros H. exists k. auto.
    - intros (k' & E & H). inversion E; subst. assumption.
    - discriminate.
    - intros (k' & E & _). discriminate.
  Qed.

  Definition test_stateless (t : gtxn) : bool := String.eqb dtype "STATELESS" && negb (g_has_logic_sig t).
  Definition test_statefull (t : gtxn) : bool :=
    String.eqb dtype "STATEFULL" && (match g_application t with None => true | Some _ => false end).
  Definition test_type (t : gtxn) : bool :=
    match vtypes with Some l => negb (LeafPrelude.smem (g_type t) l) | None => false end.
  Definition test_own (t : gtxn) : bool :=
    opt_check (g_logic_sig t) (fun k => cif k (g_abs t)) || opt_check (g_application t) (fun k => cif k (g_abs t)).
  Definition test_abs (group : list gtxn) (t : gtxn) : bool :=
    match g_abs t with
    | Some i => existsb (fun o => opt_check (g_logic_sig o) (fun k => cabs k i) || opt_check (g_application o) (fun k => cabs k i)) group
    | None => false end.
  Definition test_rel (group : list gtxn) (t : gtxn) : bool :=
    existsb (fun '(oid, off) =>
               match find (fun o => String.eqb (g_id o) oid) group with
               | Some o => opt_check (g_logic_sig o) (fun k => crel k off) || opt_check (g_application o) (fun k => crel k off)
               | None => false end) (relative_accessors group t).

  (* the chain of tests *)
  Lemma txn_vulnerable_tests group t :
    vuln group t =
    negb (test_stateless t) && negb (test_statefull t) && negb (test_type t) &&
    negb (test_own t) && negb (test_abs group t) && negb (test_rel group t).
  Proof.
    unfold txn_vulnerable, test_stateless, test_statefull, test_type, test_own, test_abs, test_rel.
    destruct (String.eqb dtype "STATELESS" && negb (g_has_logic_sig t)); [reflexivity|].
    destruct (String.eqb dtype "STATEFULL" && match g_application t with None => true | Some _ => false end); [reflexivity|].
    destruct (match vtypes with Some l => negb (LeafPrelude.smem (g_type t) l) | None => false end); [reflexivity|].
    destruct (opt_check (g_logic_sig t) (fun k => cif k (g_abs t))); [reflexivity|].
    destruct (opt_check (g_application t) (fun k => cif k (g_abs t))); [reflexivity|].
    simpl.
    destruct (match g_abs t with Some i => _ | None => false end); [reflexivity|].
    simpl. destruct (existsb _ (relative_accessors group t)); reflexivity.
  Qed.

  Lemma eligible_tests t :
    eligible t <-> test_stateless t = false /\ test_statefull t = false /\ test_type t = false.
  Proof.
    unfold eligible, test_stateless, test_statefull, test_type. split.
    - intros (H1 & H2 & H3). split; [|split].
      + destruct (String.eqb dtype "STATELESS") eqn:E; [|reflexivity]. apply String.eqb_eq in E.
        destruct (g_has_logic_sig t) eqn:El; [reflexivity|]. exfalso. apply H1. auto.
      + destruct (String.eqb dtype "STATEFULL") eqn:E; [|reflexivity]. apply String.eqb_eq in E.
        destruct (g_application t) eqn:Ea; [reflexivity|]. exfalso. apply H2. auto.
      + destruct vtypes as [l|]; [|reflexivity]. specialize (H3 l eq_refl). apply smem_In in H3.
        rewrite H3. reflexivity.
    - intros (H1 & H2 & H3). split; [|split].
      + intros [E El]. rewrite E, El in H1. discriminate.
      + intros [E Ea]. rewrite E, Ea in H2. discriminate.
      + intros l E. rewrite E in H3. apply smem_In. destruct (LeafPrelude.smem (g_type t) l); [reflexivity | discriminate].
  Qed.

  Lemma own_cleared_test t : own_cleared t <-> test_own t = true.
  Proof. unfold own_cleared, test_own. rewrite orb_true_iff, !opt_check_true. tauto. Qed.

  Lemma abs_cleared_test group t : abs_cleared group t <-> test_abs group t = true.
  Proof.
    unfold abs_cleared, test_abs. split.
    - intros (i & other & Ei & Ho & H). rewrite Ei. apply existsb_exists. exists other. split; [assumption|].
      rewrite orb_true_iff, !opt_check_true. exact H.
    - destruct (g_abs t) as [i|]; [|discriminate]. intros H. apply existsb_exists in H.
      destruct H as (other & Ho & H). rewrite orb_true_iff, !opt_check_true in H.
      exists i, other. auto.
  Qed.

  Lemma rel_cleared_test group t : rel_cleared group t <-> test_rel group t = true.
  Proof.
    unfold rel_cleared, test_rel. rewrite existsb_exists. split.
    - intros (oid & off & other & Hin & Hf & H). exists (oid, off). split; [assumption|].
      rewrite Hf. rewrite orb_true_iff, !opt_check_true. exact H.
    - intros ([oid off] & Hin & H).
      destruct (find (fun o => String.eqb (g_id o) oid) group) as [other|] eqn:Ef; [|discriminate].
      rewrite orb_true_iff, !opt_check_true in H. exists oid, off, other. auto.
  Qed.

  (* the converse: vulnerable iff eligible and not cleared *)
  Theorem vulnerable_iff group t :
    vuln group t = true <->
    eligible t /\ ~ own_cleared t /\ ~ abs_cleared group t /\ ~ rel_cleared group t.
  Proof.
    rewrite txn_vulnerable_tests, eligible_tests, own_cleared_test, abs_cleared_test, rel_cleared_test.
    rewrite !andb_true_iff, !negb_true_iff.
    destruct (test_own t), (test_abs group t), (test_rel group t); intuition congruence.
  Qed.

  Corollary vulnerable_iff_explicit group t :
    vuln group t = true <->
    eligible t /\ ~ (own_cleared t \/ abs_cleared group t \/ rel_cleared group t).
  Proof. rewrite vulnerable_iff. tauto. Qed.

  Corollary not_vulnerable_iff group t :
    vuln group t = false <->
    ~ eligible t \/ own_cleared t \/ abs_cleared group t \/ rel_cleared group t.
  Proof.
    rewrite txn_vulnerable_tests, eligible_tests, own_cleared_test, abs_cleared_test, rel_cleared_test.
    destruct (test_stateless t), (test_statefull t), (test_type t), (test_own t), (test_abs group t), (test_rel group t);
      simpl; intuition congruence.
  Qed.

  (* ---------------------------------------------------------------- "cleared when" *)
  Theorem cleared_by_own_logic_sig group t k :
    g_logic_sig t = Some k -> cif k (g_abs t) = true -> vuln group t = false.
  Proof. intros H1 H2. apply not_vulnerable_iff. right. left. left. eauto. Qed.

  Theorem cleared_by_own_application group t k :
    g_application t = Some k -> cif k (g_abs t) = true -> vuln group t = false.
  Proof. intros H1 H2. apply not_vulnerable_iff. right. left. right. eauto. Qed.

  Theorem cleared_by_absolute group t i other :
    g_abs t = Some i -> In other group ->
    (exists k, g_logic_sig other = Some k /\ cabs k i = true) \/
    (exists k, g_application other = Some k /\ cabs k i = true) ->
    vuln group t = false.
  Proof. intros H1 H2 H3. apply not_vulnerable_iff. right. right. left. exists i, other. auto. Qed.

  (* as the code does it: the other transaction is the first one with the id *)
  Theorem cleared_by_relative_find group t oid off other :
    In (oid, off) (relative_accessors group t) ->
    find (fun o => String.eqb (g_id o) oid) group = Some other ->
    (exists k, g_logic_sig other = Some k /\ crel k off = true) \/
    (exists k, g_application other = Some k /\ crel k off = true) ->
    vuln group t = false.
  Proof. intros H1 H2 H3. apply not_vulnerable_iff. right. right. right. exists oid, off, other. auto. Qed.

  Lemma find_by_id group other :
    NoDup (map g_id group) -> In other group ->
    find (fun o => String.eqb (g_id o) (g_id other)) group = Some other.
  Proof.
    induction group as [|a g IH]; intros Hnd Hin; [destruct Hin|].
    simpl in *. apply NoDup_cons_iff in Hnd. destruct Hnd as [Hni Hnd]. destruct Hin as [->|Hin].
    - rewrite String.eqb_refl. reflexivity.
    - destruct (String.eqb (g_id a) (g_id other)) eqn:E.
      + apply String.eqb_eq in E. exfalso. apply Hni. rewrite E. apply in_map. assumption.
      + apply IH; assumption.
  Qed.

  (* with distinct ids: any transaction of the group with that id *)
  Theorem cleared_by_relative group t oid off other :
    NoDup (map g_id group) ->
    In (oid, off) (relative_accessors group t) -> In other group -> g_id other = oid ->
    (exists k, g_logic_sig other = Some k /\ crel k off = true) \/
    (exists k, g_application other = Some k /\ crel k off = true) ->
    vuln group t = false.
  Proof.
    intros Hnd H1 H2 H3 H4. eapply cleared_by_relative_find; eauto. rewrite <- H3. apply find_by_id; assumption.
  Qed.

  (* ---------------------------------------------------------------- not eligible *)
  Theorem stateless_without_logic_sig group t :
    dtype = "STATELESS"%string -> g_has_logic_sig t = false -> vuln group t = false.
  Proof. intros H1 H2. apply not_vulnerable_iff. left. intros (H & _). apply H. auto. Qed.

  Theorem statefull_without_application group t :
    dtype = "STATEFULL"%string -> g_application t = None -> vuln group t = false.
  Proof. intros H1 H2. apply not_vulnerable_iff. left. intros (_ & H & _). apply H. auto. Qed.

  Theorem type_not_vulnerable group t l :
    vtypes = Some l -> ~ In (g_type t) l -> vuln group t = false.
  Proof. intros H1 H2. apply not_vulnerable_iff. left. intros (_ & _ & H). apply H2. apply H. assumption. Qed.

  (* the verdict lists exactly the vulnerable transactions *)
  Theorem group_verdict_spec group id :
    In id (group_verdict funcs checks dtype vtypes group) <->
    exists t, In t group /\ g_id t = id /\ vuln group t = true.
  Proof.
    unfold group_verdict. rewrite in_map_iff. split.
    - intros (t & E & Hin). apply filter_In in Hin. exists t. tauto.
    - intros (t & Hin & E & Hv). exists t. split; [assumption|]. apply filter_In. auto.
  Qed.
End VerdictLemmas.

Print Assumptions walk_path_iff.
Print Assumptions err_block_constraint_null.
Print Assumptions rel_dict_spec.
Print Assumptions relative_accessors_spec.
Print Assumptions vulnerable_iff.

(* ================================================================== H. a single transaction *)
Lemma forallb_false {A} (g : A -> bool) l : forallb g l = false <-> exists x, In x l /\ g x = false.
Proof.
  induction l as [|a l IH]; simpl.
  - split; [discriminate | intros (x & [] & _)].
  - rewrite andb_false_iff, IH. split.
    + intros [H|(x & Hx & H)]; [exists a; auto | exists x; auto].
    + intros (x & [<-|Hx] & H); [left; assumption | right; exists x; auto].
Qed.

(* b is (the id of) a leaf block of the function *)
Definition fn_leaf_block (f : func) (b : nat) : Prop :=
  exists blk, In blk (fn_blocks f) /\ leaf_global f blk = true /\ b_idx blk = b.

Lemma fn_leaves_In f b : In b (fn_leaves f) <-> fn_leaf_block f b.
Proof.
  unfold fn_leaves, fn_leaf_block. rewrite in_map_iff. split.
  - intros (blk & E & Hin). apply filter_In in Hin. exists blk. tauto.
  - intros (blk & Hin & Hl & E). exists blk. split; [assumption|]. apply filter_In. auto.
Qed.

Lemma checks_its_field_false funcs checks k abs f r :
  nth_error funcs k = Some (f, r) ->
  (checks_its_field funcs checks k abs = false <->
   exists b, fn_leaf_block f b /\ validated_in_block r checks abs b = false).
Proof.
  intros E. unfold checks_its_field. rewrite E, forallb_false. split.
  - intros (b & Hb & H). exists b. split; [apply fn_leaves_In; assumption | assumption].
  - intros (b & Hb & H). exists b. split; [apply fn_leaves_In; assumption | assumption].
Qed.

(* no entry of t's own relative indexes points to t itself *)
Lemma relative_accessors_single_nil t :
  (forall off, ~ In (off, g_id t) (g_rel t)) -> relative_accessors [t] t = [].
Proof.
  intros H. destruct (relative_accessors [t] t) as [|[oid off] l] eqn:E; [reflexivity|]. exfalso.
  assert (Hin : In (oid, off) (relative_accessors [t] t)) by (rewrite E; left; reflexivity).
  apply relative_accessors_sound in Hin. destruct Hin as (other & [<-|[]] & _ & Hin).
  apply rel_dict_In_g_rel in Hin. apply (H off). assumption.
Qed.

Section Single.
  Variable funcs : list (func * fn_result).
  Variable checks : bctx -> bool.
  Variable dtype : string.
  Variable vtypes : option (list string).

  (* general form: only the transaction's own contracts matter *)
  Theorem single_txn t :
    g_abs t = None -> relative_accessors [t] t = [] -> eligible dtype vtypes t ->
    (txn_vulnerable funcs checks dtype vtypes [t] t = true <->
     (forall k, g_logic_sig t = Some k -> checks_its_field funcs checks k None = false) /\
     (forall k, g_application t = Some k -> checks_its_field funcs checks k None = false)).
  Proof.
    intros Ha Hr He. rewrite vulnerable_iff. unfold own_cleared, abs_cleared, rel_cleared.
    rewrite Ha, Hr. split.
    - intros (_ & Ho & _ & _). split; intros k Ek;
        destruct (checks_its_field funcs checks k None) eqn:E; try reflexivity; exfalso; apply Ho; eauto.
    - intros [H1 H2]. split; [assumption|]. split; [|split].
      + intros [(k & Ek & E)|(k & Ek & E)]; [rewrite (H1 k Ek) in E | rewrite (H2 k Ek) in E]; discriminate.
      + intros (i & other & E & _). discriminate.
      + intros (oid & off & other & [] & _).
  Qed.

  Theorem single_logic_sig t k f r :
    g_logic_sig t = Some k -> g_application t = None -> nth_error funcs k = Some (f, r) ->
    g_abs t = None -> relative_accessors [t] t = [] -> eligible dtype vtypes t ->
    (txn_vulnerable funcs checks dtype vtypes [t] t = true <->
     exists b, fn_leaf_block f b /\ validated_in_block r checks None b = false).
  Proof.
    intros El Ea Ef Hab Hr He. rewrite (single_txn t Hab Hr He), El, Ea.
    rewrite <- (checks_its_field_false funcs checks k None f r Ef). split.
    - intros [H _]. apply H. reflexivity.
    - intros H. split; [intros k' E; inversion E; subst; assumption | intros k' E; discriminate].
  Qed.

  Theorem single_application t k f r :
    g_application t = Some k -> g_logic_sig t = None -> nth_error funcs k = Some (f, r) ->
    g_abs t = None -> relative_accessors [t] t = [] -> eligible dtype vtypes t ->
    (txn_vulnerable funcs checks dtype vtypes [t] t = true <->
     exists b, fn_leaf_block f b /\ validated_in_block r checks None b = false).
  Proof.
    intros Ea El Ef Hab Hr He. rewrite (single_txn t Hab Hr He), El, Ea.
    rewrite <- (checks_its_field_false funcs checks k None f r Ef). split.
    - intros [_ H]. apply H. reflexivity.
    - intros H. split; [intros k' E; discriminate | intros k' E; inversion E; subst; assumption].
  Qed.

  (* a function index outside the table never clears: the transaction is reported *)
  Theorem single_missing_function t k :
    g_logic_sig t = Some k -> g_application t = None -> nth_error funcs k = None ->
    g_abs t = None -> relative_accessors [t] t = [] -> eligible dtype vtypes t ->
    txn_vulnerable funcs checks dtype vtypes [t] t = true.
  Proof.
    intros El Ea Ef Hab Hr He. rewrite (single_txn t Hab Hr He), El, Ea. split.
    - intros k' E. inversion E; subst. unfold checks_its_field. rewrite Ef. reflexivity.
    - intros k' E. discriminate.
  Qed.
End Single.

Print Assumptions single_logic_sig.
Print Assumptions single_application.
(* ================================================================== C. cut_block / cut_path *)
Definition upd_at (bs : list block) (n : nat) (g : block -> block) : list block :=
  match get_blk bs n with Some nb => set_block bs (g nb) | None => bs end.

Definition cut_step (bi valid_next : nat) (s : fstate) (nx : nat) : fstate :=
  if Nat.eqb nx valid_next then s else
  let eid := fs_next_id s in
  let bs1 := upd_at (fs_blocks s) bi
               (fun cur => mkBlock bi (b_ins cur) (map (fun y => if Nat.eqb y nx then eid else y) (b_next cur)) (b_prev cur)) in
  let bs2 := upd_at bs1 nx (fun nb => mkBlock nx (b_ins nb) (b_next nb) (remove_first_nat bi (b_prev nb))) in
  mkFS (bs2 ++ [mkBlock eid [length (fs_prog s)] [] [bi]]) (fs_prog s ++ [mkIns 0 ICustomErr]) (S eid)
       (fs_errs s ++ [(eid, (nx, bi))]).

Lemma cut_block_unfold st bi v :
  cut_block st bi v =
  match get_blk (fs_blocks st) bi with None => st | Some b => fold_left (cut_step bi v) (b_next b) st end.
Proof. reflexivity. Qed.

(* ---------------------------------------------------------------- block lists with distinct ids *)
Lemma get_blk_some bs n b : get_blk bs n = Some b -> In b bs /\ b_idx b = n.
Proof. unfold get_blk. intros H. apply find_some in H. destruct H as [H1 H2]. apply Nat.eqb_eq in H2. auto. Qed.

Lemma get_blk_unique bs b : NoDup (map b_idx bs) -> In b bs -> get_blk bs (b_idx b) = Some b.
Proof. intros Hnd Hin. unfold get_blk. apply (find_unique b_idx); assumption. Qed.

Lemma get_blk_none bs n : get_blk bs n = None <-> ~ In n (map b_idx bs).
Proof.
  unfold get_blk. split.
  - intros H Hin. apply in_map_iff in Hin. destruct Hin as (b & E & Hin).
    pose proof (find_none _ _ H b Hin) as Hf. simpl in Hf. rewrite E, Nat.eqb_refl in Hf. discriminate.
  - intros H. destruct (find (fun b => Nat.eqb (b_idx b) n) bs) as [b|] eqn:E; [|reflexivity].
    apply find_some in E. destruct E as [E1 E2]. apply Nat.eqb_eq in E2. exfalso. apply H.
    rewrite <- E2. apply in_map. assumption.
Qed.

Lemma get_blk_app l1 l2 n :
  get_blk (l1 ++ l2) n = match get_blk l1 n with Some b => Some b | None => get_blk l2 n end.
Proof.
  unfold get_blk. induction l1 as [|a l1 IH]; simpl; [reflexivity|].
  destruct (Nat.eqb (b_idx a) n); [reflexivity | exact IH].
Qed.

Lemma get_blk_map (h : block -> block) bs n :
  (forall x, b_idx (h x) = b_idx x) -> get_blk (map h bs) n = option_map h (get_blk bs n).
Proof.
  intros Hh. unfold get_blk. induction bs as [|a bs IH]; simpl; [reflexivity|].
  rewrite Hh. destruct (Nat.eqb (b_idx a) n); [reflexivity | exact IH].
Qed.

Lemma map_idx_map (h : block -> block) bs :
  (forall x, b_idx (h x) = b_idx x) -> map b_idx (map h bs) = map b_idx bs.
Proof. intros Hh. rewrite map_map. apply map_ext. exact Hh. Qed.

Lemma upd_at_map bs n g :
  NoDup (map b_idx bs) -> (forall x, b_idx x = n -> b_idx (g x) = n) ->
  upd_at bs n g = map (fun x => if Nat.eqb (b_idx x) n then g x else x) bs.
Proof.
  intros Hnd Hg. unfold upd_at. destruct (get_blk bs n) as [nb|] eqn:E.
  - destruct (get_blk_some _ _ _ E) as [Hin Hidx]. unfold set_block. apply map_ext_in.
    intros x Hx. rewrite (Hg nb Hidx). destruct (Nat.eqb (b_idx x) n) eqn:Ex; [|reflexivity].
    apply Nat.eqb_eq in Ex. pose proof (get_blk_unique bs x Hnd Hx) as Hu. rewrite Ex, E in Hu.
    inversion Hu. reflexivity.
  - rewrite <- (map_id bs) at 1. apply map_ext_in. intros x Hx.
    destruct (Nat.eqb (b_idx x) n) eqn:Ex; [|reflexivity]. apply Nat.eqb_eq in Ex.
    apply get_blk_none in E. exfalso. apply E. rewrite <- Ex. apply in_map. assumption.
Qed.

(* ---------------------------------------------------------------- the closed form *)
(* successors after the cut: v stays, every other one becomes the next fresh id *)
Fixpoint cut_next (nexts : list nat) (v eid : nat) : list nat :=
  match nexts with
  | [] => []
  | nx :: r => if Nat.eqb nx v then nx :: cut_next r v eid else eid :: cut_next r v (S eid)
  end.
(* the successors that are cut off *)
Definition cut_list (nexts : list nat) (v : nat) : list nat := filter (fun nx => negb (Nat.eqb nx v)) nexts.

Definition cut_upd (bi : nat) (newnext cl : list nat) (xb : block) : block :=
  mkBlock (b_idx xb) (b_ins xb) (if Nat.eqb (b_idx xb) bi then newnext else b_next xb)
          (if nat_mem (b_idx xb) cl then remove_first_nat bi (b_prev xb) else b_prev xb).

Fixpoint err_blocks (bi eid epos m : nat) : list block :=
  match m with O => [] | S m' => mkBlock eid [epos] [] [bi] :: err_blocks bi (S eid) (S epos) m' end.
Fixpoint err_origins (bi eid : nat) (cl : list nat) : list (nat * (nat * nat)) :=
  match cl with [] => [] | nx :: r => (eid, (nx, bi)) :: err_origins bi (S eid) r end.

Definition cut_closed (s : fstate) (bi v : nat) (pre todo : list nat) : fstate :=
  let cl := cut_list todo v in
  let m := length cl in
  mkFS (map (cut_upd bi (pre ++ cut_next todo v (fs_next_id s)) cl) (fs_blocks s)
          ++ err_blocks bi (fs_next_id s) (length (fs_prog s)) m)
       (fs_prog s ++ repeat (mkIns 0 ICustomErr) m)
       (fs_next_id s + m)
       (fs_errs s ++ err_origins bi (fs_next_id s) cl).

Lemma block_eta b : mkBlock (b_idx b) (b_ins b) (b_next b) (b_prev b) = b.
Proof. destruct b; reflexivity. Qed.

Lemma map_repl_notin nx eid l : ~ In nx l -> map (fun y => if Nat.eqb y nx then eid else y) l = l.
Proof.
  intros H. rewrite <- (map_id l) at 2. apply map_ext_in. intros y Hy.
  destruct (Nat.eqb y nx) eqn:E; [|reflexivity]. apply Nat.eqb_eq in E. subst. contradiction.
Qed.

Lemma nat_mem_false x l : nat_mem x l = false <-> ~ In x l.
Proof.
  split.
  - intros H Hin. apply nat_mem_In in Hin. congruence.
  - intros H. destruct (nat_mem x l) eqn:E; [|reflexivity]. apply nat_mem_In in E. contradiction.
Qed.

Lemma cut_list_In l v x : In x (cut_list l v) <-> In x l /\ x <> v.
Proof.
  unfold cut_list. rewrite filter_In, negb_true_iff, Nat.eqb_neq. tauto.
Qed.

(* one step of the fold, on the block list *)
Lemma cut_step_blocks bi v s nx pre todo cur :
  NoDup (map b_idx (fs_blocks s)) ->
  get_blk (fs_blocks s) bi = Some cur -> b_next cur = pre ++ nx :: todo ->
  ~ In nx pre -> ~ In nx todo -> Nat.eqb nx v = false ->
  cut_step bi v s nx =
  mkFS (map (cut_upd bi (pre ++ fs_next_id s :: todo) [nx]) (fs_blocks s)
          ++ [mkBlock (fs_next_id s) [length (fs_prog s)] [] [bi]])
       (fs_prog s ++ [mkIns 0 ICustomErr]) (S (fs_next_id s)) (fs_errs s ++ [(fs_next_id s, (nx, bi))]).
Proof.
  intros Hnd Hget Hnext Hpre Htodo Ev. unfold cut_step. rewrite Ev. cbv zeta.
  f_equal. f_equal.
  destruct (get_blk_some _ _ _ Hget) as [Hcin Hcidx].
  set (g1 := fun cur0 => mkBlock bi (b_ins cur0) (map (fun y => if Nat.eqb y nx then fs_next_id s else y) (b_next cur0)) (b_prev cur0)).
  set (g2 := fun nb => mkBlock nx (b_ins nb) (b_next nb) (remove_first_nat bi (b_prev nb))).
  rewrite (upd_at_map (fs_blocks s) bi g1 Hnd) by (intros; reflexivity).
  rewrite upd_at_map.
  - rewrite map_map. apply map_ext_in. intros x Hx. unfold cut_upd.
    assert (Hmem : nat_mem (b_idx x) [nx] = Nat.eqb (b_idx x) nx).
    { unfold nat_mem. simpl. apply orb_false_r. }
    rewrite Hmem.
    destruct (Nat.eqb (b_idx x) bi) eqn:E1.
    + apply Nat.eqb_eq in E1. pose proof (get_blk_unique _ x Hnd Hx) as Hu. rewrite E1, Hget in Hu.
      inversion Hu; subst x. unfold g1 at 1 2. simpl b_idx.
      assert (Hr : map (fun y => if Nat.eqb y nx then fs_next_id s else y) (b_next cur) = pre ++ fs_next_id s :: todo).
      { rewrite Hnext, map_app. simpl. rewrite Nat.eqb_refl, !map_repl_notin by assumption. reflexivity. }
      clear Hu Hcidx. subst bi. destruct (Nat.eqb (b_idx cur) nx) eqn:E2.
      * apply Nat.eqb_eq in E2. unfold g2, g1. simpl. rewrite Hr. rewrite <- E2. reflexivity.
      * unfold g1. rewrite Hr. reflexivity.
    + destruct (Nat.eqb (b_idx x) nx) eqn:E2.
      * apply Nat.eqb_eq in E2. unfold g2. rewrite <- E2. reflexivity.
      * symmetry. apply block_eta.
  - rewrite map_idx_map; [assumption|]. intros x. destruct (Nat.eqb (b_idx x) bi) eqn:E; [|reflexivity].
    apply Nat.eqb_eq in E. unfold g1. simpl. auto.
  - intros; reflexivity.
Qed.

Lemma cut_upd_idx bi nn cl x : b_idx (cut_upd bi nn cl x) = b_idx x.
Proof. reflexivity. Qed.

Lemma cut_fold bi v : forall todo s pre cur,
  NoDup (map b_idx (fs_blocks s)) ->
  (forall x, In x (map b_idx (fs_blocks s)) -> x < fs_next_id s) ->
  get_blk (fs_blocks s) bi = Some cur -> b_next cur = pre ++ todo -> NoDup todo ->
  (forall x, In x pre -> ~ In x todo) -> (forall x, In x todo -> x < fs_next_id s) ->
  fold_left (cut_step bi v) todo s = cut_closed s bi v pre todo.
Proof.
  induction todo as [|nx todo IH]; intros s pre cur Hnd Hlt Hget Hnext Hndt Hpre Htlt.
  - simpl. unfold cut_closed. simpl. rewrite !app_nil_r, Nat.add_0_r.
    rewrite app_nil_r in Hnext.
    assert (E : map (cut_upd bi pre []) (fs_blocks s) = fs_blocks s).
    { rewrite <- (map_id (fs_blocks s)) at 2. apply map_ext_in. intros x Hx. unfold cut_upd. simpl.
      destruct (Nat.eqb (b_idx x) bi) eqn:E1; [|apply block_eta].
      apply Nat.eqb_eq in E1. pose proof (get_blk_unique _ x Hnd Hx) as Hu. rewrite E1, Hget in Hu.
      inversion Hu; subst x. rewrite <- Hnext. apply block_eta. }
    rewrite E. destruct s; reflexivity.
  - apply NoDup_cons_iff in Hndt. destruct Hndt as [Hnx Hndt].
    simpl fold_left. destruct (Nat.eqb nx v) eqn:Ev.
    + assert (Es : cut_step bi v s nx = s) by (unfold cut_step; rewrite Ev; reflexivity).
      rewrite Es. rewrite (IH s (pre ++ [nx]) cur); try assumption.
      * unfold cut_closed, cut_list. simpl. rewrite Ev. simpl. rewrite <- !app_assoc. reflexivity.
      * rewrite <- app_assoc. exact Hnext.
      * intros x Hx. apply in_app_iff in Hx. destruct Hx as [Hx|[<-|[]]]; [|assumption].
        intro Hin. apply (Hpre x Hx). right. assumption.
      * intros x Hx. apply Htlt. right. assumption.
    + assert (Hprenx : ~ In nx pre) by (intros Hin; apply (Hpre nx Hin); left; reflexivity).
      rewrite (cut_step_blocks bi v s nx pre todo cur Hnd Hget Hnext Hprenx Hnx Ev).
      set (eid := fs_next_id s). set (eb := mkBlock eid [length (fs_prog s)] [] [bi]).
      set (h := cut_upd bi (pre ++ eid :: todo) [nx]).
      destruct (get_blk_some _ _ _ Hget) as [Hcin Hcidx].
      assert (Hbi : bi < eid) by (apply Hlt; rewrite <- Hcidx; apply in_map; assumption).
      assert (Hids : map b_idx (map h (fs_blocks s) ++ [eb]) = map b_idx (fs_blocks s) ++ [eid]).
      { rewrite map_app, map_idx_map by (intros; reflexivity). reflexivity. }
      rewrite (IH _ (pre ++ [eid]) (h cur)); cbn [fs_blocks fs_prog fs_next_id fs_errs].
      * unfold cut_closed. cbn [fs_blocks fs_prog fs_next_id fs_errs]. unfold cut_list. simpl filter. rewrite Ev. simpl negb. cbv iota.
        fold (cut_list todo v). simpl length. simpl cut_next. rewrite Ev.
        f_equal.
        -- rewrite map_app, map_map, <- app_assoc. f_equal.
           ++ apply map_ext_in. intros x Hx. unfold h, cut_upd. simpl.
              rewrite <- app_assoc. simpl. f_equal.
              ** fold eid. destruct (Nat.eqb (b_idx x) bi); reflexivity.
              ** rewrite orb_false_r.
                 destruct (Nat.eqb (b_idx x) nx) eqn:E2; simpl; [|reflexivity].
                 apply Nat.eqb_eq in E2. rewrite E2.
                 assert (Hf : nat_mem nx (cut_list todo v) = false).
                 { apply nat_mem_false. intro Hin. apply cut_list_In in Hin. tauto. }
                 rewrite Hf. reflexivity.
           ++ simpl. rewrite app_length. simpl. rewrite Nat.add_1_r. f_equal.
              unfold eb, cut_upd. simpl.
              assert (E1 : Nat.eqb eid bi = false) by (apply Nat.eqb_neq; lia). rewrite E1.
              assert (Hf : nat_mem eid (cut_list todo v) = false).
              { apply nat_mem_false. intro Hin. apply cut_list_In in Hin. destruct Hin as [Hin _].
                assert (eid < eid) by (apply Htlt; right; assumption). lia. }
              rewrite Hf. reflexivity.
        -- rewrite <- app_assoc. reflexivity.
        -- fold eid. lia.
        -- rewrite <- app_assoc. reflexivity.
      * rewrite Hids. apply NoDup_snoc; [assumption|]. intro Hin. apply Hlt in Hin. fold eid in Hin. lia.
      * rewrite Hids. intros x Hx. apply in_app_iff in Hx. destruct Hx as [Hx|[<-|[]]]; [apply Hlt in Hx; fold eid in Hx; lia | lia].
      * rewrite get_blk_app, get_blk_map by (intros; reflexivity). rewrite Hget. reflexivity.
      * unfold h, cut_upd. simpl. rewrite Hcidx, Nat.eqb_refl. rewrite <- app_assoc. reflexivity.
      * assumption.
      * intros x Hx. apply in_app_iff in Hx. destruct Hx as [Hx|[<-|[]]].
        -- intro Hin. apply (Hpre x Hx). right. assumption.
        -- intro Hin. assert (eid < eid) by (apply Htlt; right; assumption). lia.
      * intros x Hx. assert (x < eid) by (apply Htlt; right; assumption). lia.
Qed.

(* ---------------------------------------------------------------- well-formed function states *)
Record fs_wf (st : fstate) : Prop := {
  fw_nodup : NoDup (map b_idx (fs_blocks st));
  fw_ids : forall x, In x (map b_idx (fs_blocks st)) -> x < fs_next_id st;
  fw_next_nodup : forall b, In b (fs_blocks st) -> NoDup (b_next b);
  fw_next_lt : forall b y, In b (fs_blocks st) -> In y (b_next b) -> y < fs_next_id st }.

Theorem cut_block_closed_form st bi v b :
  fs_wf st -> get_blk (fs_blocks st) bi = Some b ->
  cut_block st bi v = cut_closed st bi v [] (b_next b).
Proof.
  intros [H1 H2 H3 H4] Hget. rewrite cut_block_unfold, Hget.
  destruct (get_blk_some _ _ _ Hget) as [Hin _].
  apply (cut_fold bi v (b_next b) st [] b); auto.
  intros x Hx. eapply H4; eauto.
Qed.

Lemma cut_block_absent st bi v : get_blk (fs_blocks st) bi = None -> cut_block st bi v = st.
Proof. intros H. rewrite cut_block_unfold, H. reflexivity. Qed.

(* ---------------------------------------------------------------- facts about the closed form *)
Lemma cut_next_length : forall l v e, length (cut_next l v e) = length l.
Proof. induction l as [|a l IH]; intros v e; simpl; [reflexivity|]. destruct (Nat.eqb a v); simpl; rewrite IH; reflexivity. Qed.

Lemma cut_next_In : forall l v e y,
  In y (cut_next l v e) -> (y = v /\ In v l) \/ (e <= y < e + length (cut_list l v)).
Proof.
  induction l as [|a l IH]; intros v e y H; [destruct H|]. unfold cut_list in *. simpl in *.
  destruct (Nat.eqb a v) eqn:E; simpl in *.
  - apply Nat.eqb_eq in E. subst a. destruct H as [<-|H]; [left; auto|].
    apply IH in H. destruct H as [[H1 H2]|H]; [left; auto | right; assumption].
  - destruct H as [<-|H]; [right; lia|]. apply IH in H. destruct H as [[H1 H2]|H]; [left; auto | right; lia].
Qed.

(* position by position: v stays where it is; the k-th cut successor becomes err block e + k *)
Lemma cut_next_nth : forall l v e j y,
  nth_error l j = Some y ->
  (y = v /\ nth_error (cut_next l v e) j = Some v) \/
  (y <> v /\ exists k, nth_error (cut_list l v) k = Some y /\ nth_error (cut_next l v e) j = Some (e + k)).
Proof.
  induction l as [|a l IH]; intros v e j y H; [destruct j; discriminate|].
  unfold cut_list in *. simpl. destruct (Nat.eqb a v) eqn:E; simpl.
  - destruct j as [|j]; simpl in *.
    + inversion H; subst. apply Nat.eqb_eq in E. left. subst. auto.
    + apply (IH v e) in H. exact H.
  - destruct j as [|j]; simpl in *.
    + inversion H; subst. apply Nat.eqb_neq in E. right. split; [assumption|]. exists 0. rewrite Nat.add_0_r. auto.
    + apply (IH v (S e)) in H. destruct H as [H|(Hne & k & H1 & H2)]; [left; assumption|].
      right. split; [assumption|]. exists (S k). simpl. rewrite Nat.add_succ_r. auto.
Qed.

Lemma cut_next_NoDup : forall l v e, NoDup l -> (forall y, In y l -> y < e) -> NoDup (cut_next l v e).
Proof.
  induction l as [|a l IH]; intros v e Hnd Hlt; simpl; [constructor|].
  apply NoDup_cons_iff in Hnd. destruct Hnd as [Ha Hnd].
  destruct (Nat.eqb a v) eqn:E.
  - apply Nat.eqb_eq in E. subst a. constructor.
    + intro Hin. apply cut_next_In in Hin. destruct Hin as [[_ Hin]|Hin]; [contradiction|].
      assert (v < e) by (apply Hlt; left; reflexivity). lia.
    + apply IH; [assumption|]. intros y Hy. apply Hlt. right; assumption.
  - constructor.
    + intro Hin. apply cut_next_In in Hin. destruct Hin as [[E1 Hin]|Hin]; [|lia].
      assert (v < e) by (apply Hlt; right; assumption). lia.
    + apply IH; [assumption|]. intros y Hy. assert (y < e) by (apply Hlt; right; assumption). lia.
Qed.

Lemma err_blocks_ids bi : forall m e p, map b_idx (err_blocks bi e p m) = seq e m.
Proof. induction m as [|m IH]; intros e p; simpl; [reflexivity|]. rewrite IH. reflexivity. Qed.

Lemma err_blocks_In bi : forall m e p x,
  In x (err_blocks bi e p m) <-> exists k, k < m /\ x = mkBlock (e + k) [p + k] [] [bi].
Proof.
  induction m as [|m IH]; intros e p x; simpl.
  - split; [intros [] | intros (k & Hk & _); lia].
  - rewrite IH. split.
    + intros [<-|(k & Hk & ->)].
      * exists 0. rewrite !Nat.add_0_r. split; [lia | reflexivity].
      * exists (S k). rewrite !Nat.add_succ_r. split; [lia | reflexivity].
    + intros (k & Hk & ->). destruct k as [|k].
      * left. rewrite !Nat.add_0_r. reflexivity.
      * right. exists k. rewrite !Nat.add_succ_r. split; [lia | reflexivity].
Qed.

Lemma get_blk_err_blocks bi m e p k :
  k < m -> get_blk (err_blocks bi e p m) (e + k) = Some (mkBlock (e + k) [p + k] [] [bi]).
Proof.
  intros Hk.
  assert (Hin : In (mkBlock (e + k) [p + k] [] [bi]) (err_blocks bi e p m)) by (apply err_blocks_In; eauto).
  apply (get_blk_unique _ _) in Hin; [exact Hin|]. rewrite err_blocks_ids. apply seq_NoDup.
Qed.

Lemma op_at_app_l p ext k : k < length p -> op_at (p ++ ext) k = op_at p k.
Proof. intros H. unfold op_at. rewrite nth_error_app1 by assumption. reflexivity. Qed.

Lemma op_at_repeat p i m k : k < m -> op_at (p ++ repeat i m) (length p + k) = Some (i_op i).
Proof.
  intros H. unfold op_at. rewrite nth_error_app2 by lia.
  replace (length p + k - length p) with k by lia.
  assert (E : nth_error (repeat i m) k = Some i).
  { revert k H. induction m as [|m IH]; intros k H; [lia|]. destruct k; simpl; [reflexivity | apply IH; lia]. }
  rewrite E. reflexivity.
Qed.

(* e is an err block hanging off a: its only instruction is a TealerCustomErrInstruction *)
Definition is_err (st : fstate) (e a : nat) : Prop :=
  exists pos, get_blk (fs_blocks st) e = Some (mkBlock e [pos] [] [a]) /\
              op_at (fs_prog st) pos = Some ICustomErr.

Section CutBlock.
  Variables (st : fstate) (bi v : nat) (b : block).
  Hypothesis Hwf : fs_wf st.
  Hypothesis Hget : get_blk (fs_blocks st) bi = Some b.

  Let st' := cut_block st bi v.
  Let n0 := fs_next_id st.
  Let cl := cut_list (b_next b) v.
  Let m := length cl.
  Let newnext := cut_next (b_next b) v n0.

  Lemma cb_eq : st' = cut_closed st bi v [] (b_next b).
  Proof. apply cut_block_closed_form; assumption. Qed.

  (* the program is only extended *)
  Theorem cut_block_prog : fs_prog st' = fs_prog st ++ repeat (mkIns 0 ICustomErr) m.
  Proof. rewrite cb_eq. reflexivity. Qed.
  Theorem cut_block_next_id : fs_next_id st' = n0 + m.
  Proof. rewrite cb_eq. reflexivity. Qed.
  Theorem cut_block_errs : fs_errs st' = fs_errs st ++ err_origins bi n0 cl.
  Proof. rewrite cb_eq. reflexivity. Qed.
  Theorem cut_block_blocks :
    fs_blocks st' = map (cut_upd bi newnext cl) (fs_blocks st) ++ err_blocks bi n0 (length (fs_prog st)) m.
  Proof. rewrite cb_eq. reflexivity. Qed.

  Theorem cut_block_ids : map b_idx (fs_blocks st') = map b_idx (fs_blocks st) ++ seq n0 m.
  Proof. rewrite cut_block_blocks, map_app, map_idx_map, err_blocks_ids by (intros; reflexivity). reflexivity. Qed.

  (* old blocks: successors change only for bi, predecessors only for the cut successors *)
  Theorem cut_block_old x xb :
    get_blk (fs_blocks st) x = Some xb -> get_blk (fs_blocks st') x = Some (cut_upd bi newnext cl xb).
  Proof.
    intros H. rewrite cut_block_blocks, get_blk_app, get_blk_map by (intros; reflexivity). rewrite H. reflexivity.
  Qed.

  Theorem cut_block_bi :
    exists b', get_blk (fs_blocks st') bi = Some b' /\ b_idx b' = bi /\ b_ins b' = b_ins b /\ b_next b' = newnext.
  Proof.
    exists (cut_upd bi newnext cl b). split; [apply cut_block_old; assumption|].
    destruct (get_blk_some _ _ _ Hget) as [_ Hidx]. unfold cut_upd. simpl.
    rewrite Hidx, Nat.eqb_refl. auto.
  Qed.

  Theorem cut_block_unchanged x xb :
    get_blk (fs_blocks st) x = Some xb -> x <> bi -> ~ In x cl -> get_blk (fs_blocks st') x = Some xb.
  Proof.
    intros H Hne Hcl. rewrite (cut_block_old x xb H). f_equal.
    destruct (get_blk_some _ _ _ H) as [_ Hidx]. unfold cut_upd. rewrite Hidx.
    apply Nat.eqb_neq in Hne. rewrite Hne. apply nat_mem_false in Hcl. rewrite Hcl. rewrite <- Hidx. apply block_eta.
  Qed.

  (* a cut successor loses the predecessor bi (once) *)
  Theorem cut_block_cut_succ x xb :
    get_blk (fs_blocks st) x = Some xb -> x <> bi -> In x cl ->
    get_blk (fs_blocks st') x = Some (mkBlock x (b_ins xb) (b_next xb) (remove_first_nat bi (b_prev xb))).
  Proof.
    intros H Hne Hcl. rewrite (cut_block_old x xb H). f_equal.
    destruct (get_blk_some _ _ _ H) as [_ Hidx]. unfold cut_upd. rewrite Hidx.
    apply Nat.eqb_neq in Hne. rewrite Hne. apply nat_mem_In in Hcl. rewrite Hcl. reflexivity.
  Qed.

  (* successors and instructions of every other block are untouched *)
  Theorem cut_block_other_next x xb :
    get_blk (fs_blocks st) x = Some xb -> x <> bi ->
    exists xb', get_blk (fs_blocks st') x = Some xb' /\ b_ins xb' = b_ins xb /\ b_next xb' = b_next xb.
  Proof.
    intros H Hne. exists (cut_upd bi newnext cl xb). split; [apply cut_block_old; assumption|].
    destruct (get_blk_some _ _ _ H) as [_ Hidx]. unfold cut_upd. simpl. rewrite Hidx.
    apply Nat.eqb_neq in Hne. rewrite Hne. auto.
  Qed.

  (* the new blocks *)
  Theorem cut_block_new k :
    k < m ->
    get_blk (fs_blocks st') (n0 + k) = Some (mkBlock (n0 + k) [length (fs_prog st) + k] [] [bi]) /\
    op_at (fs_prog st') (length (fs_prog st) + k) = Some ICustomErr.
  Proof.
    intros Hk. split.
    - rewrite cut_block_blocks, get_blk_app.
      assert (E : get_blk (map (cut_upd bi newnext cl) (fs_blocks st)) (n0 + k) = None).
      { apply get_blk_none. rewrite map_idx_map by (intros; reflexivity). intro Hin.
        apply (fw_ids _ Hwf) in Hin. unfold n0 in Hin. lia. }
      rewrite E. apply get_blk_err_blocks. assumption.
    - rewrite cut_block_prog. apply (op_at_repeat (fs_prog st) (mkIns 0 ICustomErr)). assumption.
  Qed.

  Corollary cut_block_new_is_err k : k < m -> is_err st' (n0 + k) bi.
  Proof. intros Hk. destruct (cut_block_new k Hk) as [H1 H2]. eexists. eauto. Qed.

  Theorem cut_block_absent_ids x :
    get_blk (fs_blocks st) x = None -> x < n0 \/ n0 + m <= x -> get_blk (fs_blocks st') x = None.
  Proof.
    intros H Hx. apply get_blk_none. rewrite cut_block_ids, in_app_iff, in_seq.
    apply get_blk_none in H. intros [Hin|Hin]; [contradiction | lia].
  Qed.

  (* the statement of C, position by position *)
  Theorem cut_block_spec :
    exists b', get_blk (fs_blocks st') bi = Some b' /\ b_ins b' = b_ins b /\
      length (b_next b') = length (b_next b) /\
      forall j y, nth_error (b_next b) j = Some y ->
        (y = v /\ nth_error (b_next b') j = Some v) \/
        (y <> v /\ exists e, nth_error (b_next b') j = Some e /\ n0 <= e < fs_next_id st' /\ is_err st' e bi).
  Proof.
    destruct cut_block_bi as (b' & Hb' & _ & Hins & Hnx). exists b'. split; [assumption|]. split; [assumption|].
    rewrite Hnx. split; [apply cut_next_length|]. intros j y Hj.
    destruct (cut_next_nth (b_next b) v n0 j y Hj) as [H|(Hne & k & Hk & He)]; [left; assumption|].
    right. split; [assumption|]. exists (n0 + k). split; [assumption|].
    assert (Hkm : k < m) by (apply nth_error_Some; fold cl in Hk; rewrite Hk; discriminate).
    split; [rewrite cut_block_next_id; lia | apply cut_block_new_is_err; assumption].
  Qed.

  (* every successor of bi after the cut is v or an err block *)
  Corollary cut_block_succs b' e :
    get_blk (fs_blocks st') bi = Some b' -> In e (b_next b') -> (e = v /\ In v (b_next b)) \/ (n0 <= e /\ is_err st' e bi).
  Proof.
    intros Hb' He. destruct cut_block_bi as (b'' & Hb'' & _ & _ & Hnx). rewrite Hb' in Hb''. inversion Hb''; subst b''.
    rewrite Hnx in He. apply cut_next_In in He. destruct He as [H|H]; [left; assumption|].
    right. split; [lia|]. replace e with (n0 + (e - n0)) by lia. apply cut_block_new_is_err. fold cl in H. unfold m. lia.
  Qed.

  Theorem cut_block_wf : fs_wf st'.
  Proof.
    destruct Hwf as [H1 H2 H3 H4]. constructor.
    - rewrite cut_block_ids. apply NoDup_app_intro; [assumption | apply seq_NoDup|].
      intros x Hx Hs. apply H2 in Hx. apply in_seq in Hs. unfold n0 in Hs. lia.
    - rewrite cut_block_ids, cut_block_next_id. intros x Hx. apply in_app_iff in Hx.
      destruct Hx as [Hx|Hx]; [apply H2 in Hx; unfold n0; lia | apply in_seq in Hx; lia].
    - rewrite cut_block_blocks. intros x Hx. apply in_app_iff in Hx. destruct Hx as [Hx|Hx].
      + apply in_map_iff in Hx. destruct Hx as (xb & <- & Hxb). unfold cut_upd. simpl.
        destruct (Nat.eqb (b_idx xb) bi) eqn:E; [|apply H3; assumption].
        destruct (get_blk_some _ _ _ Hget) as [Hbin _].
        apply cut_next_NoDup; [apply H3; assumption | intros y Hy; eapply H4; eauto].
      + apply err_blocks_In in Hx. destruct Hx as (k & _ & ->). constructor.
    - rewrite cut_block_blocks, cut_block_next_id. intros x y Hx Hy. apply in_app_iff in Hx. destruct Hx as [Hx|Hx].
      + apply in_map_iff in Hx. destruct Hx as (xb & <- & Hxb). unfold cut_upd in Hy. simpl in Hy.
        destruct (Nat.eqb (b_idx xb) bi) eqn:E.
        * apply cut_next_In in Hy. destruct (get_blk_some _ _ _ Hget) as [Hbin _].
          destruct Hy as [[-> Hy]|Hy]; [|fold cl in Hy; unfold m; lia].
          assert (v < n0) by (eapply H4; eauto). lia.
        * assert (y < n0) by (eapply H4; eauto). lia.
      + apply err_blocks_In in Hx. destruct Hx as (k & _ & ->). destruct Hy.
  Qed.
End CutBlock.

(* ---------------------------------------------------------------- frame properties of one cut *)
Lemma op_at_some_lt p k i : op_at p k = Some i -> k < length p.
Proof.
  unfold op_at. intros H. apply nth_error_Some. destruct (nth_error p k); [discriminate | discriminate].
Qed.

Lemma cut_block_prog_prefix st bi v : fs_wf st -> exists ext, fs_prog (cut_block st bi v) = fs_prog st ++ ext.
Proof.
  intros Hwf. destruct (get_blk (fs_blocks st) bi) as [b|] eqn:E.
  - eexists. apply (cut_block_prog st bi v b Hwf E).
  - rewrite cut_block_absent by assumption. exists []. rewrite app_nil_r. reflexivity.
Qed.

Lemma cut_block_next_id_mono st bi v : fs_wf st -> fs_next_id st <= fs_next_id (cut_block st bi v).
Proof.
  intros Hwf. destruct (get_blk (fs_blocks st) bi) as [b|] eqn:E.
  - rewrite (cut_block_next_id st bi v b Hwf E). lia.
  - rewrite cut_block_absent by assumption. lia.
Qed.

Lemma cut_block_wf_any st bi v : fs_wf st -> fs_wf (cut_block st bi v).
Proof.
  intros Hwf. destruct (get_blk (fs_blocks st) bi) as [b|] eqn:E.
  - apply (cut_block_wf st bi v b Hwf E).
  - rewrite cut_block_absent; assumption.
Qed.

Lemma cut_block_frame_next st bi v x xb :
  fs_wf st -> x <> bi -> get_blk (fs_blocks st) x = Some xb ->
  exists xb', get_blk (fs_blocks (cut_block st bi v)) x = Some xb' /\ b_ins xb' = b_ins xb /\ b_next xb' = b_next xb.
Proof.
  intros Hwf Hne Hx. destruct (get_blk (fs_blocks st) bi) as [b|] eqn:E.
  - apply (cut_block_other_next st bi v b Hwf E); assumption.
  - rewrite cut_block_absent by assumption. eauto.
Qed.

Lemma cut_block_frame_err st bi v e c :
  fs_wf st -> e <> bi -> (forall b, get_blk (fs_blocks st) bi = Some b -> ~ In e (b_next b)) ->
  is_err st e c -> is_err (cut_block st bi v) e c.
Proof.
  intros Hwf Hne Hns (pos & He & Hop). destruct (get_blk (fs_blocks st) bi) as [b|] eqn:E.
  - exists pos. split.
    + apply (cut_block_unchanged st bi v b Hwf E); [assumption | assumption|].
      intro Hin. apply cut_list_In in Hin. apply (Hns b eq_refl). tauto.
    + rewrite (cut_block_prog st bi v b Hwf E). rewrite op_at_app_l; [assumption|]. eapply op_at_some_lt; eauto.
  - rewrite cut_block_absent by assumption. exists pos. auto.
Qed.

Lemma is_err_prog_ext st st' e c ext :
  fs_blocks st' = fs_blocks st -> fs_prog st' = fs_prog st ++ ext -> is_err st e c -> is_err st' e c.
Proof.
  intros Hb Hp (pos & He & Hop). exists pos. rewrite Hb, Hp. split; [assumption|].
  rewrite op_at_app_l; [assumption|]. eapply op_at_some_lt; eauto.
Qed.

(* ---------------------------------------------------------------- the whole path *)
Lemma cut_path_cons2 st a b rest : cut_path st (a :: b :: rest) = cut_path (cut_block st a b) (b :: rest).
Proof. reflexivity. Qed.

Section CutPath.
  (* every id of the original graph is below N0; err blocks get ids from N0 on *)
  Variable N0 : nat.

  Record cp_inv (st : fstate) (rest : list nat) : Prop := {
    cp_wf : fs_wf st;
    cp_N0 : N0 <= fs_next_id st;
    cp_lt : forall x, In x rest -> x < N0;
    cp_succ : forall x xb y, In x rest -> get_blk (fs_blocks st) x = Some xb -> In y (b_next xb) -> y < N0 }.

  Lemma cp_inv_step st a v rest : cp_inv st (a :: rest) -> ~ In a rest -> cp_inv (cut_block st a v) rest.
  Proof.
    intros [Hwf HN Hlt Hsucc] Ha. constructor.
    - apply cut_block_wf_any. assumption.
    - pose proof (cut_block_next_id_mono st a v Hwf). lia.
    - intros x Hx. apply Hlt. right; assumption.
    - intros x xb' y Hx Hg Hy.
      assert (Hne : x <> a) by (intros ->; contradiction).
      destruct (get_blk (fs_blocks st) x) as [xb|] eqn:Ex.
      + destruct (cut_block_frame_next st a v x xb Hwf Hne Ex) as (xb'' & Hg' & _ & Hnx).
        rewrite Hg in Hg'. inversion Hg'; subst xb''. rewrite Hnx in Hy.
        apply (Hsucc x xb y); [right; assumption | assumption | assumption].
      + exfalso. destruct (get_blk (fs_blocks st) a) as [ab|] eqn:Ea.
        * rewrite (cut_block_absent_ids st a v ab Hwf Ea x Ex) in Hg; [discriminate|].
          left. assert (x < N0) by (apply Hlt; right; assumption). lia.
        * rewrite cut_block_absent in Hg by assumption. congruence.
  Qed.

  Lemma cut_path_frame : forall path st,
    cp_inv st path -> NoDup path ->
    let st' := cut_path st path in
    fs_wf st' /\ fs_next_id st <= fs_next_id st' /\ (exists ext, fs_prog st' = fs_prog st ++ ext) /\
    (forall e c, N0 <= e -> is_err st e c -> is_err st' e c) /\
    (forall x xb, ~ In x (removelast path) -> get_blk (fs_blocks st) x = Some xb ->
       exists xb', get_blk (fs_blocks st') x = Some xb' /\ b_ins xb' = b_ins xb /\ b_next xb' = b_next xb).
  Proof.
    induction path as [|a path IH]; intros st Hinv Hnd.
    - simpl. split; [apply Hinv|]. split; [lia|]. split; [exists []; rewrite app_nil_r; reflexivity|].
      split; [auto|]. intros x xb _ H. eauto.
    - destruct path as [|b rest].
      + simpl. split; [apply Hinv|]. split; [lia|]. split; [exists []; rewrite app_nil_r; reflexivity|].
        split; [auto|]. intros x xb _ H. eauto.
      + rewrite cut_path_cons2. apply NoDup_cons_iff in Hnd. destruct Hnd as [Ha Hnd].
        pose proof (cp_inv_step st a b (b :: rest) Hinv Ha) as Hinv1.
        destruct (IH (cut_block st a b) Hinv1 Hnd) as (W & L & (ext & P) & Er & Fr).
        pose proof (cp_wf _ _ Hinv) as Hwf.
        split; [exact W|]. split; [pose proof (cut_block_next_id_mono st a b Hwf); lia|].
        split.
        { destruct (cut_block_prog_prefix st a b Hwf) as (ext1 & P1). exists (ext1 ++ ext).
          rewrite P, P1, app_assoc. reflexivity. }
        split.
        { intros e c He Herr. apply Er; [assumption|].
          apply cut_block_frame_err; try assumption.
          - assert (a < N0) by (apply (cp_lt _ _ Hinv); left; reflexivity). lia.
          - intros ab Hab Hin. assert (e < N0); [|lia].
            apply (cp_succ _ _ Hinv a ab e); [left; reflexivity | assumption | assumption]. }
        intros x xb Hx Hg. change (removelast (a :: b :: rest)) with (a :: removelast (b :: rest)) in Hx.
        assert (Hne : x <> a) by (intros ->; apply Hx; left; reflexivity).
        destruct (cut_block_frame_next st a b x xb Hwf Hne Hg) as (xb1 & Hg1 & Hi1 & Hn1).
        destruct (Fr x xb1) as (xb' & Hg' & Hi' & Hn'); [intro Hin; apply Hx; right; assumption | assumption|].
        exists xb'. split; [assumption|]. split; congruence.
  Qed.

  (* C, consequence: along the path every departure before the last block leads to an err block *)
  Theorem cut_path_spec : forall pre st path a b post ab,
    cp_inv st path -> NoDup path -> path = pre ++ a :: b :: post ->
    get_blk (fs_blocks st) a = Some ab ->
    let st' := cut_path st path in
    exists ab' e0,
      get_blk (fs_blocks st') a = Some ab' /\ b_ins ab' = b_ins ab /\
      b_next ab' = cut_next (b_next ab) b e0 /\ N0 <= e0 /\
      forall e, In e (b_next ab') -> (e = b /\ In b (b_next ab)) \/ (N0 <= e /\ is_err st' e a).
  Proof.
    induction pre as [|x pre IH]; intros st path a b post ab Hinv Hnd E Hg; subst path.
    - simpl app in *. rewrite cut_path_cons2. apply NoDup_cons_iff in Hnd. destruct Hnd as [Ha Hnd].
      pose proof (cp_wf _ _ Hinv) as Hwf.
      pose proof (cp_inv_step st a b (b :: post) Hinv Ha) as Hinv1.
      destruct (cut_path_frame (b :: post) (cut_block st a b) Hinv1 Hnd) as (_ & _ & _ & Er & Fr).
      destruct (cut_block_bi st a b ab Hwf Hg) as (ab1 & Hg1 & _ & Hi1 & Hn1).
      destruct (Fr a ab1) as (ab' & Hg' & Hi' & Hn'); [|assumption|].
      { intro Hin. apply Ha. clear -Hin. revert Hin. generalize (b :: post). intros l Hin.
        induction l as [|y l IHl]; [destruct Hin|]. destruct l as [|z l]; [destruct Hin|].
        change (removelast (y :: z :: l)) with (y :: removelast (z :: l)) in Hin.
        destruct Hin as [<-|Hin]; [left; reflexivity | right; apply IHl; assumption]. }
      exists ab', (fs_next_id st). split; [assumption|]. split; [congruence|].
      split; [congruence|]. split; [apply (cp_N0 _ _ Hinv)|].
      intros e He. rewrite Hn' in He.
      destruct (cut_block_succs st a b ab Hwf Hg ab1 e Hg1 He) as [H|[H1 H2]]; [left; assumption|].
      pose proof (cp_N0 _ _ Hinv). right. split; [lia|]. apply Er; [lia | assumption].
    - simpl app in *. destruct (pre ++ a :: b :: post) as [|y tl] eqn:Et; [destruct pre; discriminate|].
      rewrite cut_path_cons2. apply NoDup_cons_iff in Hnd. destruct Hnd as [Hx Hnd].
      pose proof (cp_wf _ _ Hinv) as Hwf.
      pose proof (cp_inv_step st x y (y :: tl) Hinv Hx) as Hinv1.
      assert (Hne : a <> x).
      { intros ->. apply Hx. rewrite <- Et. apply in_or_app. right. left. reflexivity. }
      destruct (cut_block_frame_next st x y a ab Hwf Hne Hg) as (ab1 & Hg1 & Hi1 & Hn1).
      destruct (IH (cut_block st x y) (y :: tl) a b post ab1 Hinv1 Hnd (eq_sym Et) Hg1)
        as (ab' & e0 & G & I & Nx & HN & Hs).
      exists ab', e0. split; [assumption|]. split; [congruence|]. split; [congruence|]. split; [assumption|].
      intros e He. rewrite <- Hn1. apply Hs. assumption.
  Qed.
End CutPath.

Print Assumptions cut_block_closed_form.
Print Assumptions cut_block_spec.
Print Assumptions cut_block_wf.
Print Assumptions cut_path_spec.

(* ================================================================== B. the identity dispatch path *)
Lemma dfs_list_step f bl s1 bb visited :
  dfs_list (S f) bl (s1 ++ [bb]) visited =
  dfs_list f bl (fold_left (push_new (visited ++ [bb]))
                           (match get_blk bl bb with Some b => b_next b | None => [] end) s1) (visited ++ [bb]).
Proof.
  cbn [dfs_list]. destruct (s1 ++ [bb]) eqn:E; [destruct s1; discriminate|].
  rewrite <- E. rewrite last_last, removelast_last. reflexivity.
Qed.

Lemma dfs_list_nil f bl visited : dfs_list f bl [] visited = visited.
Proof. destruct f; reflexivity. Qed.

(* dfs_list over a block list that agrees with the full graph on everything reachable, with any sufficient
   fuel, is identify_subroutine_blocks' DFS *)
Lemma dfs_list_agree bs e (bl : list block) (R : list nat) :
  (forall x, Reach bs e x -> In x R) ->
  (forall x, Reach bs e x -> match get_blk bl x with Some b => b_next b | None => [] end = next_of bs x) ->
  forall f1 f2 stack visited,
    dinv bs e stack visited -> length R < f1 + length visited -> length R < f2 + length visited ->
    dfs_list f2 bl stack visited = dfs_blocks f1 bs stack visited.
Proof.
  intros HR Hnext.
  assert (Hbound : forall stack visited, dinv bs e stack visited -> length visited <= length R).
  { intros stack visited Hinv. apply NoDup_incl_length; [apply (d_ndv _ _ _ _ Hinv)|].
    intros x Hx. apply HR. apply (d_reach _ _ _ _ Hinv). left; assumption. }
  induction f1 as [|f1 IH]; intros f2 stack visited Hinv H1 H2.
  - exfalso. pose proof (Hbound _ _ Hinv). simpl in H1. lia.
  - destruct f2 as [|f2]; [exfalso; pose proof (Hbound _ _ Hinv); simpl in H2; lia|].
    destruct stack as [|s0 stack'].
    + reflexivity.
    + assert (Hne : s0 :: stack' <> []) by discriminate.
      destruct (exists_last Hne) as (s1 & bb & E). rewrite E in *.
      rewrite dfs_step, dfs_list_step.
      rewrite Hnext by (apply (d_reach _ _ _ _ Hinv); right; apply in_or_app; right; left; reflexivity).
      apply IH.
      * apply dinv_step. assumption.
      * rewrite app_length. simpl. lia.
      * rewrite app_length. simpl. lia.
Qed.

Lemma flat_map_ext_in {A B} (f g : A -> list B) l :
  (forall x, In x l -> f x = g x) -> flat_map f l = flat_map g l.
Proof.
  induction l as [|a l IH]; intros H; [reflexivity|]. simpl.
  rewrite (H a (or_introl eq_refl)), IH; [reflexivity|]. intros x Hx. apply H. right; assumption.
Qed.

Lemma flat_map_flat_map {A B C} (f : B -> list C) (g : A -> list B) l :
  flat_map f (flat_map g l) = flat_map (fun a => flat_map f (g a)) l.
Proof. induction l as [|a l IH]; [reflexivity|]. simpl. rewrite flat_map_app, IH. reflexivity. Qed.

Lemma filter_all {A} (P : A -> bool) l : (forall x, In x l -> P x = true) -> filter P l = l.
Proof.
  induction l as [|a l IH]; intros H; [reflexivity|]. simpl. rewrite (H a (or_introl eq_refl)).
  f_equal. apply IH. intros x Hx. apply H. right; assumption.
Qed.

Lemma lookup_blocks_length t ids :
  (forall n, In n ids -> exists b, tblock t n = Some b) -> length (lookup_blocks t ids) = length ids.
Proof.
  induction ids as [|n ids IH]; intros H; [reflexivity|]. unfold lookup_blocks in *. simpl.
  destruct (H n (or_introl eq_refl)) as (b & Hb). rewrite Hb. simpl. f_equal. apply IH.
  intros x Hx. apply H. right; assumption.
Qed.

Lemma get_blk_lookup t : forall ids x,
  (forall n, In n ids -> exists b, tblock t n = Some b) -> In x ids ->
  get_blk (lookup_blocks t ids) x = tblock t x.
Proof.
  induction ids as [|n ids IH]; intros x H Hx; [destruct Hx|]. unfold lookup_blocks in *. simpl.
  destruct (H n (or_introl eq_refl)) as (b & Hb). rewrite Hb. simpl.
  unfold get_blk. simpl. rewrite (tblock_idx t n b Hb).
  destruct (Nat.eqb n x) eqn:E.
  - apply Nat.eqb_eq in E. subst x. symmetry. assumption.
  - apply Nat.eqb_neq in E. destruct Hx as [Hx|Hx]; [contradiction|].
    apply IH; [|assumption]. intros y Hy. apply H. right; assumption.
Qed.

(* the initial state of construct_function *)
Definition fn_state0 (t : teal) : fstate :=
  mkFS (lookup_blocks t (s_blocks (t_main t))) (t_prog t) (S (max_idx (t_blocks t))) [].

Lemma construct_function_unfold t path :
  construct_function t path =
  match walk_path t path [0] [] with
  | Err e => Err e
  | Ok pblocks =>
      match pblocks with
      | [] => Err "IndexError: empty dispatch path"%string
      | entry :: _ =>
          let st := cut_path (fn_state0 t) pblocks in
          let main_ids := dfs_list (S (length (fs_blocks st))) (fs_blocks st) [entry] [] in
          let main_blocks := flat_map (fun n => match get_blk (fs_blocks st) n with
                                                | Some b => [mkBlock (b_idx b) (b_ins b) (b_next b) (filter (fun p => nat_mem p main_ids) (b_prev b))]
                                                | None => [] end) main_ids in
          let called := dedup_s
                          (flat_map (fun b => match b_ins b with
                                              | [] => []
                                              | l => match op_at (fs_prog st) (List.last l 0) with Some (ICallsub n) => [n] | _ => [] end
                                              end) main_blocks) in
          let used := used_subs (S (length (t_subs t))) t called called in
          let subs := flat_map (fun n => match find_sub t n with Some s => [s] | None => [] end) used in
          let sub_blocks := lookup_blocks t (flat_map s_blocks subs) in
          Ok (mkFunc (fs_prog st) (main_blocks ++ sub_blocks) entry main_ids subs (t_subs t) (t_intcs t), fs_errs st)
      end
  end.
Proof. reflexivity. Qed.

Section Identity.
  Variables (p : prog) (t : teal).
  Hypothesis Hparse : parse_teal p = Ok t.
  Let mainl := s_blocks (t_main t).

  Lemma main_tblock n : In n mainl -> exists b, tblock t n = Some b.
  Proof.
    intros Hn. destruct (parse_teal_blocks p t Hparse) as (bs & Hbs).
    apply (wf_ids_tblock p t bs Hparse Hbs). apply wf_ids_In. left. exact Hn.
  Qed.

  (* dfs_list over the main block list = the parser's DFS over all blocks *)
  Lemma main_dfs_list :
    dfs_list (S (length (lookup_blocks t mainl))) (lookup_blocks t mainl) [0] [] = mainl.
  Proof.
    destruct (parse_teal_blocks p t Hparse) as (bs & Hbs).
    destruct (parse_teal_inv p t Hparse) as (bs0 & subs0 & Hp & Hb & _ & _ & _ & _ & Hmain).
    rewrite Hbs in Hb. inversion Hb; subst bs0; clear Hb.
    destruct (main_blocks_are_local_reach p t bs Hparse Hbs) as (_ & Hreach & Hnd).
    assert (Hm : mainl = dfs_blocks (S (length bs)) bs [0] []).
    { unfold mainl. rewrite Hmain. reflexivity. }
    rewrite Hm at 3.
    pose proof (bs_nonempty p bs Hp Hbs) as H0.
    assert (Hlen : length mainl <= length bs).
    { apply NoDup_bounded_length; [assumption|]. intros x Hx. apply Hreach in Hx.
      eapply Reach_lt; [intros a b; apply (next_of_range p bs a b Hbs) | exact H0 | exact Hx]. }
    apply (dfs_list_agree bs 0 (lookup_blocks t mainl) mainl).
    - intros x Hx. apply Hreach. assumption.
    - intros x Hx. apply Hreach in Hx. rewrite (get_blk_lookup t mainl x main_tblock Hx).
      destruct (main_tblock x Hx) as (b & Hb). rewrite Hb. eapply tblock_next; eauto.
    - constructor; simpl; try tauto.
      + constructor.
      + constructor; [intros [] | constructor].
      + intros x [[]|[<-|[]]]. constructor.
    - simpl. lia.
    - rewrite (lookup_blocks_length t mainl main_tblock). simpl. lia.
  Qed.

  (* the main blocks with their predecessor lists restricted to main blocks *)
  Definition prune_main_block (b : block) : block :=
    mkBlock (b_idx b) (b_ins b) (b_next b) (filter (fun q => nat_mem q mainl) (b_prev b)).

  (* no hypothesis beyond parsing: everything but the predecessor lists of the main blocks agrees with
     whole_function *)
  Theorem construct_function_identity_partial :
    construct_function t [0] =
    Ok (mkFunc (t_prog t)
               (map prune_main_block (lookup_blocks t mainl) ++ lookup_blocks t (flat_map s_blocks (wf_subs t)))
               0 mainl (wf_subs t) (t_subs t) (t_intcs t), []).
  Proof.
    rewrite construct_function_unfold.
    change (walk_path t [0] [0] []) with (@Ok (list nat) [0]). cbv iota.
    change (cut_path (fn_state0 t) [0]) with (fn_state0 t).
    unfold fn_state0. cbn [fs_blocks fs_prog fs_errs]. fold mainl. cbv zeta.
    rewrite main_dfs_list.
    assert (Hmb : flat_map (fun n => match get_blk (lookup_blocks t mainl) n with
                                     | Some b => [mkBlock (b_idx b) (b_ins b) (b_next b) (filter (fun q => nat_mem q mainl) (b_prev b))]
                                     | None => [] end) mainl
                  = flat_map (fun n => match tblock t n with Some b => [prune_main_block b] | None => [] end) mainl).
    { apply flat_map_ext_in. intros n Hn. rewrite (get_blk_lookup t mainl n main_tblock Hn). reflexivity. }
    rewrite Hmb.
    assert (Hc : flat_map (fun b => match b_ins b with
                                    | [] => []
                                    | l => match op_at (t_prog t) (List.last l 0) with Some (ICallsub n) => [n] | _ => [] end
                                    end)
                          (flat_map (fun n => match tblock t n with Some b => [prune_main_block b] | None => [] end) mainl)
                 = called_from t mainl).
    { unfold called_from. rewrite flat_map_flat_map. apply flat_map_ext_in. intros n _.
      destruct (tblock t n) as [b|]; [|reflexivity]. simpl. rewrite app_nil_r. unfold exit_op.
      destruct (b_ins b); reflexivity. }
    rewrite Hc.
    assert (Hm : flat_map (fun n => match tblock t n with Some b => [prune_main_block b] | None => [] end) mainl
                 = map prune_main_block (lookup_blocks t mainl)).
    { unfold lookup_blocks. clear. induction mainl as [|n l IH]; [reflexivity|]. simpl.
      rewrite map_app, IH. destruct (tblock t n); reflexivity. }
    rewrite Hm. reflexivity.
  Qed.

  (* local predecessors of main blocks are main blocks (implied by struct_ok) *)
  Hypothesis Hprev : forall n b m, In n mainl -> tblock t n = Some b -> In m (b_prev b) -> In m mainl.

  Theorem construct_function_identity : construct_function t [0] = Ok (whole_function t, []).
  Proof.
    rewrite construct_function_identity_partial, whole_function_eq. unfold wf_ids. fold mainl.
    unfold lookup_blocks at 3. rewrite flat_map_app. fold (lookup_blocks t mainl).
    fold (lookup_blocks t (flat_map s_blocks (wf_subs t))).
    assert (E : map prune_main_block (lookup_blocks t mainl) = lookup_blocks t mainl).
    { rewrite <- (map_id (lookup_blocks t mainl)) at 2. apply map_ext_in. intros b Hb.
      unfold lookup_blocks in Hb. apply in_flat_map in Hb. destruct Hb as (n & Hn & Hb).
      destruct (tblock t n) as [b'|] eqn:Eb; [|destruct Hb]. destruct Hb as [->|[]].
      unfold prune_main_block. rewrite filter_all; [apply block_eta|].
      intros m Hm. apply nat_mem_In. eapply Hprev; eauto. }
    rewrite E. reflexivity.
  Qed.
End Identity.

(* under the structural hypotheses of GraphWf the predecessor condition holds *)
Lemma struct_ok_main_prev p t :
  parse_teal p = Ok t -> struct_ok t ->
  forall n b m, In n (s_blocks (t_main t)) -> tblock t n = Some b -> In m (b_prev b) -> In m (s_blocks (t_main t)).
Proof.
  intros Hparse Hok n b m Hn Hb Hm.
  destruct (parse_teal_blocks p t Hparse) as (bs & Hbs).
  destruct (retained_char p t bs Hparse Hbs) as (Hret & _ & _ & Htb & Hpr & _).
  assert (Hbin : In b (t_blocks t)).
  { apply (in_t_blocks p t b Hparse). rewrite (tblock_idx t n b Hb). exact Hb. }
  pose proof (Hpr b m Hbin Hm) as Hmr.
  pose proof Hmr as Hmr'. apply (tblock_retained_ids p t m Hparse) in Hmr'. destruct Hmr' as (mb & Hmb).
  assert (Hedge : In n (next_of bs m)).
  { rewrite <- (tblock_next p t bs m mb Hparse Hbs Hmb). apply (tblock_mirror p t m n mb b Hparse Hmb Hb). exact Hm. }
  apply Hret in Hmr. destruct Hmr as [Hr|(s & Hs & Hr)].
  - apply (main_reach p t bs Hparse Hbs). exact Hr.
  - exfalso. apply (so_main_disj t Hok s n Hs); [|exact Hn].
    apply (sub_reach p t bs Hparse Hbs s n Hs). econstructor; eauto.
Qed.

Corollary construct_function_identity_struct_ok p t :
  parse_teal p = Ok t -> struct_ok t -> construct_function t [0] = Ok (whole_function t, []).
Proof.
  intros Hparse Hok. apply (construct_function_identity p t Hparse). apply (struct_ok_main_prev p t Hparse Hok).
Qed.


(* the predecessor hypothesis cannot be dropped: a subroutine that jumps into main code.  Block 2 ("L:") has
   the predecessors [1; 0; 3] in whole_function and [1; 0] in construct_function t [0] *)
Definition ex_jump_prog : prog :=
  [ mkIns 1 (IInt (IANum 1)); mkIns 2 (IBNZ "L"%string); mkIns 3 (ICallsub "f"%string);
    mkIns 4 (ILabel "L"%string); mkIns 5 (IInt (IANum 1)); mkIns 6 IReturn;
    mkIns 7 (ILabel "f"%string); mkIns 8 (IB "L"%string) ].

Definition prevs_of (f : func) : list (nat * list nat) := map (fun b => (b_idx b, b_prev b)) (fn_blocks f).

Example ex_jump_prevs :
  match parse_teal ex_jump_prog with
  | Ok t => Some (prevs_of (whole_function t),
                  match construct_function t [0] with Ok (f, _) => Some (prevs_of f) | Err _ => None end)
  | Err _ => None
  end =
  Some ([(0, []); (2, [1; 0; 3]); (1, [0]); (3, []); (2, [1; 0; 3])],
        Some [(0, []); (2, [1; 0]); (1, [0]); (3, []); (2, [1; 0; 3])]).
Proof. vm_compute. reflexivity. Qed.

Example construct_function_identity_refuted :
  exists p t, parse_teal p = Ok t /\ construct_function t [0] <> Ok (whole_function t, []).
Proof.
  exists ex_jump_prog. pose proof ex_jump_prevs as H.
  destruct (parse_teal ex_jump_prog) as [t|e]; [|discriminate].
  exists t. split; [reflexivity|]. intros E. rewrite E in H. inversion H as [H1]. rewrite H1 in *. discriminate.
Qed.

Print Assumptions construct_function_identity_partial.
Print Assumptions construct_function_identity.
Print Assumptions construct_function_identity_struct_ok.
Print Assumptions construct_function_identity_refuted.
Lemma seq_nth_error_aux x n : x < n -> nth_error (seq 0 n) x = Some x.
Proof.
  intros H. rewrite (nth_error_nth' (seq 0 n) 0) by (rewrite seq_length; assumption).
  rewrite seq_nth by assumption. reflexivity.
Qed.

(* ================================================================== C, end to end: the function cut out by a path *)
(* ---------------------------------------------------------------- successors stay inside the block list *)
Definition fs_closed (st : fstate) : Prop :=
  forall b y, In b (fs_blocks st) -> In y (b_next b) -> In y (map b_idx (fs_blocks st)).

Lemma cut_next_keeps : forall l v e, In v l -> In v (cut_next l v e).
Proof.
  induction l as [|a l IH]; intros v e H; [destruct H|]. simpl.
  destruct (Nat.eqb a v) eqn:E.
  - apply Nat.eqb_eq in E. subst. left; reflexivity.
  - destruct H as [->|H]; [rewrite Nat.eqb_refl in E; discriminate|]. right. apply IH. assumption.
Qed.

Lemma cut_block_ids_incl st bi v x :
  fs_wf st -> In x (map b_idx (fs_blocks st)) -> In x (map b_idx (fs_blocks (cut_block st bi v))).
Proof.
  intros Hwf Hx. destruct (get_blk (fs_blocks st) bi) as [b|] eqn:E.
  - rewrite (cut_block_ids st bi v b Hwf E). apply in_or_app. left; assumption.
  - rewrite cut_block_absent; assumption.
Qed.

Lemma cut_block_closed st bi v : fs_wf st -> fs_closed st -> fs_closed (cut_block st bi v).
Proof.
  intros Hwf Hc. destruct (get_blk (fs_blocks st) bi) as [b|] eqn:E; [|rewrite cut_block_absent; assumption].
  intros x y Hx Hy. rewrite (cut_block_ids st bi v b Hwf E).
  rewrite (cut_block_blocks st bi v b Hwf E) in Hx. apply in_app_iff in Hx. destruct Hx as [Hx|Hx].
  - apply in_map_iff in Hx. destruct Hx as (xb & <- & Hxb). unfold cut_upd in Hy. simpl in Hy.
    destruct (Nat.eqb (b_idx xb) bi) eqn:E1.
    + apply cut_next_In in Hy. destruct (get_blk_some _ _ _ E) as [Hbin _]. apply in_or_app.
      destruct Hy as [[-> Hy]|Hy]; [left; eapply Hc; eauto | right; apply in_seq; lia].
    + apply in_or_app. left. eapply Hc; eauto.
  - apply err_blocks_In in Hx. destruct Hx as (k & _ & ->). destruct Hy.
Qed.

Lemma cut_path_closed : forall path st,
  fs_wf st -> fs_closed st ->
  fs_closed (cut_path st path) /\
  forall x, In x (map b_idx (fs_blocks st)) -> In x (map b_idx (fs_blocks (cut_path st path))).
Proof.
  induction path as [|a path IH]; intros st Hwf Hc; [simpl; auto|].
  destruct path as [|b rest]; [simpl; auto|]. rewrite cut_path_cons2.
  destruct (IH (cut_block st a b) (cut_block_wf_any st a b Hwf) (cut_block_closed st a b Hwf Hc)) as [H1 H2].
  split; [assumption|]. intros x Hx. apply H2. apply cut_block_ids_incl; assumption.
Qed.

(* ---------------------------------------------------------------- DFS over a block list = reachability *)
Definition lnext (bl : list block) (x : nat) : list nat :=
  match get_blk bl x with Some b => b_next b | None => [] end.
Inductive LReach (bl : list block) (e : nat) : nat -> Prop :=
| LReach_refl : LReach bl e e
| LReach_step x y : LReach bl e x -> In y (lnext bl x) -> LReach bl e y.

Lemma LReach_trans bl a b c : LReach bl a b -> LReach bl b c -> LReach bl a c.
Proof. intros H1 H2. induction H2; [assumption | econstructor; eauto]. Qed.

Lemma max_idx_ge : forall bs b, In b bs -> b_idx b <= max_idx bs.
Proof.
  unfold max_idx.
  assert (H : forall bs m, m <= fold_left (fun m b => Nat.max m (b_idx b)) bs m /\
                           forall b, In b bs -> b_idx b <= fold_left (fun m b => Nat.max m (b_idx b)) bs m).
  { induction bs as [|a bs IH]; intros m; simpl; [split; [lia | intros b []]|].
    destruct (IH (Nat.max m (b_idx a))) as [H1 H2]. split; [lia|].
    intros b [->|Hb]; [lia | apply H2; assumption]. }
  intros bs b Hb. apply (H bs 0). assumption.
Qed.

(* the block list, indexed by position, as dfs_blocks reads it *)
Definition as_indexed (bl : list block) : list block :=
  map (fun i => match get_blk bl i with Some b => b | None => mkBlock i [] [] [] end) (seq 0 (S (max_idx bl))).

Lemma next_of_as_indexed bl x : next_of (as_indexed bl) x = lnext bl x.
Proof.
  unfold next_of, get_block, as_indexed, lnext.
  destruct (Nat.ltb x (S (max_idx bl))) eqn:E.
  - apply Nat.ltb_lt in E. rewrite (map_nth_error _ x _ (seq_nth_error_aux x (S (max_idx bl)) E)).
    destruct (get_blk bl x); reflexivity.
  - apply Nat.ltb_ge in E.
    assert (Hn : nth_error (map (fun i => match get_blk bl i with Some b => b | None => mkBlock i [] [] [] end)
                                (seq 0 (S (max_idx bl)))) x = None).
    { apply nth_error_None. rewrite map_length, seq_length. assumption. }
    rewrite Hn. destruct (get_blk bl x) as [b|] eqn:Eb; [|reflexivity].
    destruct (get_blk_some _ _ _ Eb) as [Hin Hidx]. pose proof (max_idx_ge bl b Hin). lia.
Qed.

Lemma Reach_as_indexed bl e x : Reach (as_indexed bl) e x <-> LReach bl e x.
Proof.
  split; intros H; induction H; try constructor.
  - econstructor; [eassumption|]. rewrite <- next_of_as_indexed. assumption.
  - econstructor; [eassumption|]. rewrite next_of_as_indexed. assumption.
Qed.

Theorem dfs_list_reach bl e :
  NoDup (map b_idx bl) -> In e (map b_idx bl) ->
  (forall b y, In b bl -> In y (b_next b) -> In y (map b_idx bl)) ->
  (forall x, In x (dfs_list (S (length bl)) bl [e] []) <-> LReach bl e x) /\
  NoDup (dfs_list (S (length bl)) bl [e] []).
Proof.
  intros Hnd He Hclosed.
  set (N := S (max_idx bl)).
  assert (Hlen : length (as_indexed bl) = N) by (unfold as_indexed; rewrite map_length, seq_length; reflexivity).
  pose proof (next_of_as_indexed bl) as Hnx. pose proof (Reach_as_indexed bl e) as Hrl.
  set (bs := as_indexed bl) in *. clearbody bs.
  assert (Hid_lt : forall x, In x (map b_idx bl) -> x < N).
  { intros x Hx. apply in_map_iff in Hx. destruct Hx as (b & <- & Hb). pose proof (max_idx_ge bl b Hb). unfold N. lia. }
  assert (Hlnext : forall a y, In y (lnext bl a) -> In y (map b_idx bl)).
  { intros a y Hy. unfold lnext in Hy. destruct (get_blk bl a) as [b|] eqn:Eb; [|destruct Hy].
    destruct (get_blk_some _ _ _ Eb) as [Hin _]. eapply Hclosed; eauto. }
  assert (Hrange : forall a y, In y (next_of bs a) -> y < length bs).
  { intros a y Hy. rewrite Hnx in Hy. rewrite Hlen. apply Hid_lt. eapply Hlnext; eauto. }
  assert (HeN : e < length bs) by (rewrite Hlen; apply Hid_lt; assumption).
  destruct (dfs_reach_gen bs e Hrange HeN) as [Hr Hndr].
  unfold identify_subroutine_blocks in Hr, Hndr.
  assert (Hreach_ids : forall x, Reach bs e x -> In x (map b_idx bl)).
  { intros x Hx. induction Hx; [assumption|]. rewrite Hnx in H. eapply Hlnext; eauto. }
  assert (E : dfs_list (S (length bl)) bl [e] [] = dfs_blocks (S (length bs)) bs [e] []).
  { apply (dfs_list_agree bs e bl (dfs_blocks (S (length bs)) bs [e] [])).
    - intros x Hx. apply Hr. assumption.
    - intros x _. symmetry. apply Hnx.
    - constructor; simpl; try tauto.
      + constructor.
      + constructor; [intros [] | constructor].
      + intros x [[]|[<-|[]]]. constructor.
    - simpl. rewrite Nat.add_0_r. apply Nat.lt_succ_r. apply NoDup_bounded_length; [assumption|].
      intros x Hx. apply Hr in Hx. rewrite Hlen. apply Hid_lt. apply Hreach_ids. assumption.
    - simpl. rewrite Nat.add_0_r. apply Nat.lt_succ_r. rewrite <- (map_length b_idx bl).
      apply NoDup_incl_length; [assumption|]. intros x Hx. apply Hreach_ids. apply Hr. assumption. }
  rewrite E. split; [|assumption]. intros x. rewrite Hr. apply Hrl.
Qed.

(* a list of consecutive successors is reachable from its head *)
Lemma path_LReach bl : forall path e,
  (forall l1 x y l2, e :: path = l1 ++ x :: y :: l2 -> In y (lnext bl x)) ->
  forall x, In x (e :: path) -> LReach bl e x.
Proof.
  induction path as [|y path IH]; intros e Hcons x Hx.
  - destruct Hx as [<-|[]]. constructor.
  - destruct Hx as [<-|Hx]; [constructor|].
    apply (LReach_trans bl e y x).
    + econstructor; [constructor|]. apply (Hcons [] e y path). reflexivity.
    + apply IH; [|assumption]. intros l1 a b l2 E. apply (Hcons (e :: l1) a b l2). simpl. rewrite E. reflexivity.
Qed.

Lemma get_blk_flat (lk : nat -> option block) :
  (forall n b, lk n = Some b -> b_idx b = n) ->
  forall ids x b, In x ids -> lk x = Some b ->
  get_blk (flat_map (fun n => match lk n with Some b => [b] | None => [] end) ids) x = Some b.
Proof.
  intros Hlk. induction ids as [|n ids IH]; intros x b Hx Hb; [destruct Hx|]. simpl.
  destruct (lk n) as [b'|] eqn:En; simpl.
  - unfold get_blk. simpl. rewrite (Hlk n b' En). destruct (Nat.eqb n x) eqn:E.
    + apply Nat.eqb_eq in E. subst. congruence.
    + apply Nat.eqb_neq in E. destruct Hx as [Hx|Hx]; [contradiction|]. apply IH; assumption.
  - destruct Hx as [Hx|Hx]; [subst; congruence|]. apply IH; assumption.
Qed.

Section FunctionOfPath.
  Variables (p : prog) (t : teal).
  Hypothesis Hparse : parse_teal p = Ok t.

  Let N0 := S (max_idx (t_blocks t)).
  Let mainl := s_blocks (t_main t).

  Lemma fop_main_tblock n : In n mainl -> exists b, tblock t n = Some b.
  Proof. apply (main_tblock p t Hparse). Qed.

  Lemma lookup_blocks_ids : forall ids,
    (forall n, In n ids -> exists b, tblock t n = Some b) -> map b_idx (lookup_blocks t ids) = ids.
  Proof.
    induction ids as [|n ids IH]; intros H; [reflexivity|]. unfold lookup_blocks in *. simpl.
    destruct (H n (or_introl eq_refl)) as (b & Hb). rewrite Hb. simpl.
    rewrite (tblock_idx t n b Hb). f_equal. apply IH. intros x Hx. apply H. right; assumption.
  Qed.

  Lemma lookup_blocks_In ids b : In b (lookup_blocks t ids) -> In (b_idx b) ids /\ tblock t (b_idx b) = Some b.
  Proof.
    unfold lookup_blocks. intros H. apply in_flat_map in H. destruct H as (n & Hn & Hb).
    destruct (tblock t n) as [b'|] eqn:E; [|destruct Hb]. destruct Hb as [->|[]].
    rewrite (tblock_idx t n b E). auto.
  Qed.

  Lemma tblock_In n b : tblock t n = Some b -> In b (t_blocks t).
  Proof. unfold tblock. intros H. apply find_some in H. tauto. Qed.

  Lemma retained_lt n : In n (retained_ids t) -> n < N0.
  Proof.
    unfold retained_ids. intros H. apply in_map_iff in H. destruct H as (b & <- & Hb).
    pose proof (max_idx_ge _ _ Hb). unfold N0. lia.
  Qed.

  Lemma tblock_succ_retained n b y : tblock t n = Some b -> In y (b_next b) -> In y (retained_ids t).
  Proof.
    intros Hb Hy. destruct (parse_teal_blocks p t Hparse) as (bs & Hbs).
    destruct (retained_char p t bs Hparse Hbs) as (_ & _ & _ & _ & _ & Hnx).
    apply (Hnx b y); [eapply tblock_In; eauto | assumption].
  Qed.

  Lemma main_succ_closed n b y : In n mainl -> tblock t n = Some b -> In y (b_next b) -> In y mainl.
  Proof.
    intros Hn Hb Hy. destruct (parse_teal_blocks p t Hparse) as (bs & Hbs).
    apply (main_reach p t bs Hparse Hbs). apply (main_reach p t bs Hparse Hbs) in Hn.
    econstructor; [exact Hn|]. rewrite <- (tblock_next p t bs n b Hparse Hbs Hb). assumption.
  Qed.

  Lemma fn_state0_get n : In n mainl -> get_blk (fs_blocks (fn_state0 t)) n = tblock t n.
  Proof. intros Hn. apply (get_blk_lookup t mainl n fop_main_tblock Hn). Qed.

  Lemma fn_state0_ids : map b_idx (fs_blocks (fn_state0 t)) = mainl.
  Proof. apply lookup_blocks_ids. exact fop_main_tblock. Qed.

  Lemma fn_state0_wf : fs_wf (fn_state0 t).
  Proof.
    destruct (parse_teal_blocks p t Hparse) as (bs & Hbs).
    destruct (main_blocks_are_local_reach p t bs Hparse Hbs) as (_ & _ & Hnd).
    constructor.
    - rewrite fn_state0_ids. exact Hnd.
    - rewrite fn_state0_ids. intros x Hx. destruct (fop_main_tblock x Hx) as (b & Hb).
      apply tblock_In in Hb as Hin. pose proof (max_idx_ge _ _ Hin). rewrite (tblock_idx t x b Hb) in H.
      simpl. lia.
    - intros b Hb. apply lookup_blocks_In in Hb. destruct Hb as [_ Hb].
      rewrite (tblock_next p t bs _ b Hparse Hbs Hb). unfold next_of, get_block.
      destruct (nth_error bs (b_idx b)) as [b0|] eqn:E; [|constructor].
      eapply next_nodup; eauto. eapply nth_error_In; eauto.
    - intros b y Hb Hy. apply lookup_blocks_In in Hb. destruct Hb as [_ Hb].
      apply retained_lt. eapply tblock_succ_retained; eauto.
  Qed.

  Lemma fn_state0_closed : fs_closed (fn_state0 t).
  Proof.
    intros b y Hb Hy. rewrite fn_state0_ids. apply lookup_blocks_In in Hb. destruct Hb as [Hn Hb].
    eapply main_succ_closed; eauto.
  Qed.

  Lemma chain_main : forall path valid,
    chain t valid path -> (forall x, In x valid -> In x mainl) -> forall x, In x path -> In x mainl.
  Proof.
    intros path valid H. induction H as [|valid b rest Hb Hch IH]; intros Hv x Hx; [destruct Hx|].
    destruct Hx as [<-|Hx]; [apply Hv; assumption|]. apply IH; [|assumption].
    intros y Hy. unfold tnext in Hy. destruct (tblock t b) as [bb|] eqn:E; [|destruct Hy].
    eapply main_succ_closed; eauto.
  Qed.

  Lemma zero_main : In 0 mainl.
  Proof.
    destruct (parse_teal_blocks p t Hparse) as (bs & Hbs).
    apply (main_reach p t bs Hparse Hbs). constructor.
  Qed.

  Lemma main_retained n : In n mainl -> In n (retained_ids t).
  Proof. intros H. apply (tblock_retained_ids p t n Hparse). apply fop_main_tblock. assumption. Qed.

  Lemma fn_state0_inv path : (forall x, In x path -> In x mainl) -> cp_inv N0 (fn_state0 t) path.
  Proof.
    intros Hp. constructor.
    - exact fn_state0_wf.
    - simpl. unfold N0. lia.
    - intros x Hx. apply retained_lt. apply main_retained. apply Hp. assumption.
    - intros x xb y Hx Hg Hy. rewrite (fn_state0_get x (Hp x Hx)) in Hg.
      apply retained_lt. eapply tblock_succ_retained; eauto.
  Qed.

  (* the function cut out along an accepted dispatch path: for consecutive path blocks (a, b), block a of the
     function keeps its instructions, its successor list is [b or a fresh err block] position by position, and
     every such err block consists of one TealerCustomErrInstruction, has a as only predecessor, no successor,
     and its block constraint is the null value of any domain *)
  Theorem construct_function_cut_spec path f errs :
    construct_function t path = Ok (f, errs) ->
    forall pre a b post ab, path = pre ++ a :: b :: post -> tblock t a = Some ab ->
    exists ab' e0,
      fblock f a = Some ab' /\ b_ins ab' = b_ins ab /\ b_next ab' = cut_next (b_next ab) b e0 /\
      max_idx (t_blocks t) < e0 /\
      forall e, In e (b_next ab') ->
        (e = b /\ In b (b_next ab)) \/
        (max_idx (t_blocks t) < e /\
         exists pos, fblock f e = Some (mkBlock e [pos] [] [a]) /\ op_at (fn_prog f) pos = Some ICustomErr /\
                     forall (T : Type) (univ null : T) (union inter : T -> T -> T) single,
                       block_constraint T univ null union inter single f (mkBlock e [pos] [] [a]) = Some null).
  Proof.
    intros Hcf pre a b post ab Epath Hab. rewrite construct_function_unfold in Hcf.
    destruct (walk_path t path [0] []) as [pb|err] eqn:Ew; [|discriminate].
    apply dispatch_path_spec in Ew. destruct Ew as (-> & Hnd & Hch & _).
    assert (Hmain : forall x, In x path -> In x mainl).
    { apply (chain_main path [0] Hch). intros x [<-|[]]. apply zero_main. }
    destruct path as [|entry rest] eqn:Ep; [destruct pre; discriminate|]. rewrite <- Ep in *.
    assert (Hentry : In entry path) by (rewrite Ep; left; reflexivity).
    cbv zeta in Hcf.
    set (st := cut_path (fn_state0 t) path) in *.
    set (bl := fs_blocks st) in *.
    set (main_ids := dfs_list (S (length bl)) bl [entry] []) in *.
    pose proof (fn_state0_inv path Hmain) as Hinv.
    destruct (cut_path_frame N0 path (fn_state0 t) Hinv Hnd) as (Hwf & _ & _ & _ & _). fold st in Hwf.
    destruct (cut_path_closed path (fn_state0 t) fn_state0_wf fn_state0_closed) as [Hcl Hincl]. fold st in Hcl, Hincl.
    assert (Hids : forall x, In x mainl -> In x (map b_idx bl)).
    { intros x Hx. apply Hincl. rewrite fn_state0_ids. assumption. }
    destruct (dfs_list_reach bl entry (fw_nodup _ Hwf) (Hids entry (Hmain entry Hentry)) Hcl) as [Hdfs _].
    fold main_ids in Hdfs.
    (* consecutive path blocks stay connected *)
    assert (Hcons : forall l1 x y l2, path = l1 ++ x :: y :: l2 -> In y (lnext bl x)).
    { intros l1 x y l2 E.
      assert (Hx : In x mainl) by (apply Hmain; rewrite E; apply in_or_app; right; left; reflexivity).
      destruct (fop_main_tblock x Hx) as (xb & Hxb).
      assert (Hg : get_blk (fs_blocks (fn_state0 t)) x = Some xb) by (rewrite fn_state0_get; assumption).
      destruct (cut_path_spec N0 l1 (fn_state0 t) path x y l2 xb Hinv Hnd E Hg) as (xb' & e0 & G & _ & Nx & _).
      fold st in G. fold bl in G. unfold lnext. rewrite G, Nx. apply cut_next_keeps.
      pose proof (chain_consecutive t path [0] l1 x y l2 Hch E) as Hy. unfold tnext in Hy. rewrite Hxb in Hy. exact Hy. }
    assert (Hreach : forall x, In x path -> In x main_ids).
    { intros x Hx. apply Hdfs. rewrite Ep in Hx. apply (path_LReach bl rest entry); [|assumption].
      intros l1 u w l2 E. apply (Hcons l1 u w l2). rewrite Ep. assumption. }
    (* lookup in the function *)
    set (prune := fun b0 : block => mkBlock (b_idx b0) (b_ins b0) (b_next b0) (filter (fun q => nat_mem q main_ids) (b_prev b0))) in *.
    assert (Hfb : forall x xb, In x main_ids -> get_blk bl x = Some xb -> fblock f x = Some (prune xb)).
    { intros x xb Hx Hg. injection Hcf as Hf _. subst f. unfold fblock. cbn [fn_blocks].
      change (find (fun b0 => Nat.eqb (b_idx b0) x)) with (fun l => get_blk l x). cbv beta.
      rewrite get_blk_app.
      assert (E : get_blk (flat_map (fun n => match get_blk bl n with Some b0 => [prune b0] | None => [] end) main_ids) x
                  = Some (prune xb)).
      { rewrite (flat_map_ext_in _ (fun n => match option_map prune (get_blk bl n) with Some b0 => [b0] | None => [] end)).
        - apply get_blk_flat; [|assumption | rewrite Hg; reflexivity].
          intros n b0 H0. destruct (get_blk bl n) as [b1|] eqn:E1; [|discriminate]. simpl in H0.
          inversion H0; subst b0. simpl. apply (get_blk_some _ _ _ E1).
        - intros n _. destruct (get_blk bl n); reflexivity. }
      unfold prune in E. rewrite E. reflexivity. }
    assert (Hprog : fn_prog f = fs_prog st) by (injection Hcf as Hf _; subst f; reflexivity).
    assert (Ha : In a path) by (rewrite Epath; apply in_or_app; right; left; reflexivity).
    assert (Hga : get_blk (fs_blocks (fn_state0 t)) a = Some ab) by (rewrite fn_state0_get; auto).
    destruct (cut_path_spec N0 pre (fn_state0 t) path a b post ab Hinv Hnd Epath Hga) as (ab' & e0 & G & I & Nx & HN & Hs).
    fold st in G, Hs. fold bl in G.
    exists (prune ab'), e0. split; [apply Hfb; [apply Hreach; assumption | assumption]|].
    split; [exact I|]. split; [exact Nx|]. split; [unfold N0 in HN; lia|].
    intros e He. simpl in He. destruct (Hs e He) as [H|[HNe (pos & Hge & Hop)]]; [left; assumption|].
    right. split; [unfold N0 in HNe; lia|]. exists pos.
    assert (Hein : In e main_ids).
    { apply Hdfs. econstructor; [apply Hdfs; apply Hreach; exact Ha|]. unfold lnext. rewrite G. exact He. }
    fold bl in Hge. pose proof (Hfb e _ Hein Hge) as Hfe. unfold prune in Hfe. simpl in Hfe.
    assert (Em : nat_mem a main_ids = true) by (apply nat_mem_In; apply Hreach; assumption).
    rewrite Em in Hfe. split; [exact Hfe|]. split; [rewrite Hprog; exact Hop|].
    intros T univ null union inter single. apply (err_block_constraint_null T univ null union inter single f _ pos).
    - reflexivity.
    - rewrite Hprog. exact Hop.
  Qed.
End FunctionOfPath.

Print Assumptions dfs_list_reach.
Print Assumptions construct_function_cut_spec.

(* ================================================================== non-vacuity checks *)
(* block 0 branches to block 1 (fall through) and block 2 ("L:"); the dispatch path [0; 2] replaces the edge
   to block 1 by the err block 3 (instruction position 7, predecessor 0); block 1 is no longer part of the
   function *)
Definition ex_dispatch_prog : prog :=
  [ mkIns 1 (IInt (IANum 1)); mkIns 2 (IBNZ "L"%string); mkIns 3 (IInt (IANum 0)); mkIns 4 IReturn;
    mkIns 5 (ILabel "L"%string); mkIns 6 (IInt (IANum 1)); mkIns 7 IReturn ].

Example ex_dispatch_cut :
  match parse_teal ex_dispatch_prog with
  | Ok t => match construct_function t [0; 2] with
            | Ok (f, errs) => Some (map (fun b => (b_idx b, b_ins b, b_next b, b_prev b)) (fn_blocks f), fn_main f, errs,
                                    op_at (fn_prog f) 7)
            | Err _ => None end
  | Err _ => None end =
  Some ([(0, [0; 1], [3; 2], []); (2, [4; 5; 6], [], [0]); (3, [7], [], [0])], [0; 2; 3], [(3, (1, 0))],
        Some ICustomErr).
Proof. vm_compute. reflexivity. Qed.

Example ex_dispatch_invalid :
  match parse_teal ex_dispatch_prog with
  | Ok t => Some (walk_path t [0; 0] [0] [], walk_path t [1] [0] [], walk_path t [0; 2; 1] [0] [])
  | Err _ => None end =
  Some (Err "TealerException: Invalid dispatch path"%string, Err "TealerException: Invalid dispatch path"%string,
        Err "TealerException: Invalid dispatch path"%string).
Proof. vm_compute. reflexivity. Qed.

(* a later entry for the same offset overwrites; one accessor entry per other transaction (the last offset) *)
Open Scope string_scope.
Example ex_rel_dict :
  rel_dict (mkTxn "a" "Pay" false None None None [(1%Z, "x"); (2%Z, "y"); (1%Z, "z")])
  = [(1%Z, "z"); (2%Z, "y")].
Proof. vm_compute. reflexivity. Qed.

Example ex_relative_accessors :
  let t := mkTxn "t" "Pay" false None None None [] in
  let a := mkTxn "a" "Pay" false None None None [(1%Z, "t"); (2%Z, "u"); (3%Z, "t")] in
  let b := mkTxn "b" "Pay" false None None None [((-1)%Z, "t"); ((-1)%Z, "u")] in
  relative_accessors [t; a; b] t = [("a", 3%Z)].
Proof. vm_compute. reflexivity. Qed.
Close Scope string_scope.

(* cleared_by_relative needs distinct ids: the code looks the accessor up by id and takes the first match.
   Two transactions share the id "a"; the second one's logic sig validates offset 1 (its function has no
   leaf), the first one has no contract: t stays vulnerable *)
Open Scope string_scope.
Definition ex_dup_funcs : list (func * fn_result) := [ (mkFunc [] [] 0 [] [] [] None, mkRes [] [] [] [] []) ].
Definition ex_dup_t : gtxn := mkTxn "t" "Pay" false None None None [].
Definition ex_dup_a1 : gtxn := mkTxn "a" "Pay" false None None None [(1%Z, "t")].
Definition ex_dup_a2 : gtxn := mkTxn "a" "Pay" true (Some 0) None None [].

Example cleared_by_relative_refuted :
  let group := [ex_dup_t; ex_dup_a1; ex_dup_a2] in
  let checks := fun _ : bctx => false in
  In ("a", 1%Z) (relative_accessors group ex_dup_t) /\ In ex_dup_a2 group /\ g_id ex_dup_a2 = "a" /\
  (exists k, g_logic_sig ex_dup_a2 = Some k /\ checks_rel ex_dup_funcs checks k 1%Z = true) /\
  txn_vulnerable ex_dup_funcs checks "STATELESS_AND_STATEFULL" None group ex_dup_t = true.
Proof.
  cbv zeta. split; [vm_compute; auto|]. split; [right; right; left; reflexivity|]. split; [reflexivity|].
  split; [exists 0; split; [reflexivity | vm_compute; reflexivity]|]. vm_compute. reflexivity.
Qed.
Close Scope string_scope.

Print Assumptions walk_path_spec.
Print Assumptions rel_dict_offsets_distinct.
Print Assumptions relative_accessors_sound.
Print Assumptions relative_accessors_complete.
Print Assumptions relative_accessors_keys_distinct.
Print Assumptions cleared_by_own_logic_sig.
Print Assumptions cleared_by_own_application.
Print Assumptions cleared_by_absolute.
Print Assumptions cleared_by_relative.
Print Assumptions cleared_by_relative_find.
Print Assumptions stateless_without_logic_sig.
Print Assumptions statefull_without_application.
Print Assumptions type_not_vulnerable.
Print Assumptions not_vulnerable_iff.
Print Assumptions group_verdict_spec.
Print Assumptions single_txn.
Print Assumptions cut_block_unchanged.
Print Assumptions cut_block_new.
Print Assumptions cut_block_prog.
Print Assumptions cut_path_frame.
Print Assumptions cleared_by_relative_refuted.
