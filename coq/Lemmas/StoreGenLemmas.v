(* The regenerated result-storing / reading layer (Gen/StoreGen.v, tools/translate_store.py) is a faithful, non-aliasing,
   key-by-key copy of the solver results into the BlockTransactionContext objects.

   Vocabulary.
     KEY   an analysis key of a base key (field) `base`: one of the 63 strings `key_of_fam base fam` (RunGenLemmas), fam in
           KSelf :: all_gtx_fams, i.e. base itself, GTXN_AT_INDEX_ii_base / GTXN_ABS_ii_base (ii = 00..15),
           GTXN_RELATIVE_kk_base (kk = -15..15 without 0); the solver result of a key for block b is
           self._block_contexts[key][b] = bc_get d key b.
     SLOT  a context object of a block: (b, fam) denotes the object that the REGENERATED accessors return:
           transaction_context(b) for KSelf, .gtxn_context(i) for KAtIndex i, .absolute_context(i) for KAbs i,
           .relative_context(k) for KRel k (slot_ref / read_ctx / read_slot below); a slot has the ten data attributes of
           LeafPrelude.bctx.
   Main statements (for every function f, every dictionary d of solver results, every table t of context objects):
     fee_store_read_back, type_store_read_back, addr_store_read_back:
           if every block of f has a head object of the shape __init__ builds and every one of the 63 keys has a result for
           every block, the regenerated _store_results raises no exception and afterwards EVERY slot (b, fam) reads
           upd(result of key_of_fam base fam at b)(slot before): the attribute(s) of the analysis hold the value of the slot's
           OWN key, every other attribute is untouched; objects of blocks outside f are untouched.
     store_all_read_back / store_all_ctx_of: from the fresh objects of Function.__init__, after the three stores every slot
           reads exactly Detect.ctx_of of the model result (group sizes / indices: translate_consts, ConstsGenLemmas).
   All statements are for ALL blocks, all 63 families (famb characterises them as i < 16, -15 <= k <= 15, k <> 0). *)
From Coq Require Import String List NArith ZArith Bool Arith Lia.
From Tealer Require Import Tables LeafPrelude Leaves Syntax Cfg StackAst Keys KeysGen Analysis GraphGen SolverGen RunGen StoreGen Domains Detect RunGenLemmas.
Import ListNotations.
Open Scope string_scope.
Open Scope list_scope.

(* ====================================================================== *)
(* 0. small facts: association lists, the monad, ranges                    *)
(* ====================================================================== *)
Lemma lk_upd_same {T} : forall (t : state T) b v, lookup T t b <> None -> lookup T (update T t b v) b = Some v.
Proof.
  induction t as [|[k w] t IH]; intros b v H; cbn in *; [congruence|].
  destruct (Nat.eqb k b) eqn:E; cbn; rewrite E; [reflexivity|auto].
Qed.
Lemma lk_upd_other {T} : forall (t : state T) b b' v, b <> b' -> lookup T (update T t b v) b' = lookup T t b'.
Proof.
  induction t as [|[k w] t IH]; intros b b' v H; cbn; [reflexivity|].
  destruct (Nat.eqb k b) eqn:E; cbn.
  - apply Nat.eqb_eq in E. subst k. destruct (Nat.eqb b b') eqn:E2; [apply Nat.eqb_eq in E2; contradiction|reflexivity].
  - destruct (Nat.eqb k b'); [reflexivity|auto].
Qed.
Lemma upd_upd {T} : forall (t : state T) b v w, update T (update T t b v) b w = update T t b w.
Proof.
  induction t as [|[k x] t IH]; intros b v w; cbn; [reflexivity|].
  destruct (Nat.eqb k b) eqn:E; cbn; rewrite E; [reflexivity|]. rewrite IH. reflexivity.
Qed.
Lemma upd_same {T} : forall (t : state T) b v, lookup T t b = Some v -> update T t b v = t.
Proof.
  induction t as [|[k x] t IH]; intros b v H; cbn in *; [reflexivity|].
  destruct (Nat.eqb k b) eqn:E; [injection H as ->; reflexivity|]. rewrite (IH _ _ H). reflexivity.
Qed.

Lemma bind_some {A B} (a : A) (F : A -> py B) : bind (Some a) F = F a.
Proof. reflexivity. Qed.

Lemma fold_none {A B} (F : B -> A -> py A) : forall l, fold_left (fun acc i => bind acc (F i)) l None = None.
Proof. induction l as [|x l IH]; cbn; [reflexivity|exact IH]. Qed.

Lemma fold_ext_in {A B} (F G : B -> A -> py A) : forall l,
  (forall i a, In i l -> F i a = G i a) ->
  forall m, fold_left (fun acc i => bind acc (F i)) l m = fold_left (fun acc i => bind acc (G i)) l m.
Proof.
  induction l as [|x l IH]; intros H m; cbn [fold_left]; [reflexivity|].
  rewrite IH by (intros; apply H; right; assumption).
  f_equal. destruct m as [a|]; cbn; [apply H; left; reflexivity|reflexivity].
Qed.

Lemma in_py_range lo hi i : In i (py_range lo hi) <-> (lo <= i < hi)%Z.
Proof.
  unfold py_range. rewrite in_map_iff. split.
  - intros [k [E Hk]]. apply in_seq in Hk. lia.
  - intros H. exists (Z.to_nat (i - lo)). split; [lia|]. apply in_seq. lia.
Qed.

(* ====================================================================== *)
(* 1. the 63 families; shape of a head object; slots                        *)
(* ====================================================================== *)
Definition all_fams : list keyfam := KSelf :: all_gtx_fams.
Definition famb (fam : keyfam) : bool :=
  match fam with
  | KSelf => true
  | KAtIndex i | KAbs i => N.ltb i 16
  | KRel k => ((-15 <=? k) && (k <=? 15) && negb (k =? 0))%Z
  end.
Lemma all_fams_famb : forall fam, In fam all_fams <-> famb fam = true.
Proof.
  intros fam. split.
  - assert (H : forallb famb all_fams = true) by (vm_compute; reflexivity).
    rewrite forallb_forall in H. apply H.
  - intros H. unfold all_fams. destruct fam as [|i|i|k]; [left; reflexivity| | |]; right; unfold all_gtx_fams; apply in_or_app.
    + cbn [famb] in H. apply N.ltb_lt in H. left. apply in_flat_map. exists (N.to_nat i). split.
      * apply in_seq. unfold max_group_size. change (N.to_nat MAX_GROUP_SIZE) with 16%nat. lia.
      * rewrite N2Nat.id. left. reflexivity.
    + cbn [famb] in H. apply N.ltb_lt in H. left. apply in_flat_map. exists (N.to_nat i). split.
      * apply in_seq. unfold max_group_size. change (N.to_nat MAX_GROUP_SIZE) with 16%nat. lia.
      * rewrite N2Nat.id. right. left. reflexivity.
    + cbn [famb] in H. apply andb_true_iff in H. destruct H as [H H3]. apply andb_true_iff in H. destruct H as [H1 H2].
      apply Z.leb_le in H1, H2. apply negb_true_iff in H3. right. apply in_flat_map. exists (Z.to_nat (k + 15)). split.
      * apply in_seq. unfold max_group_size. change (N.to_nat MAX_GROUP_SIZE) with 16%nat. lia.
      * unfold max_group_size. change (N.to_nat MAX_GROUP_SIZE) with 16%nat.
        replace (Z.of_nat (Z.to_nat (k + 15)) - (Z.of_nat 16 - 1))%Z with k by lia. cbv zeta. rewrite H3. left. reflexivity.
Qed.

(* the offsets of the dictionary _relative_context *)
Definition rel_offsets : list Z := filter (fun o => negb (Z.eqb o 0)) (py_range (-15) 16).
(* the shape BlockTransactionContext.__init__ gives a head object: 16 + 16 tail contexts and one per offset *)
Definition ctx_shape (c : ctxobj) : Prop :=
  exists g a r, c_gtxn c = Some g /\ length g = 16%nat /\ c_abs c = Some a /\ length a = 16%nat /\ c_rel c = Some r /\ map fst r = rel_offsets.

(* the slot of a family, THROUGH THE REGENERATED ACCESSORS *)
Definition slot_ref (c : ctxobj) (fam : keyfam) : py cref :=
  match fam with
  | KSelf => ret RSelf
  | KAtIndex i => gtxn_context_gen c (Z.of_N i)
  | KAbs i => absolute_context_gen c (Z.of_N i)
  | KRel k => relative_context_gen c k
  end.
Definition read_ctx (c : ctxobj) (fam : keyfam) : py bctx := bind (slot_ref c fam) (deref c).
(* self._function.transaction_context(b)[.gtxn_context(i) | .absolute_context(i) | .relative_context(k)] *)
Definition read_slot (t : state ctxobj) (b : nat) (fam : keyfam) : py bctx := bind (lookup ctxobj t b) (fun c => read_ctx c fam).

Lemma init_ctx_shape : ctx_shape (init_ctx_gen false).
Proof. unfold ctx_shape. eexists _, _, _. cbn [init_ctx_gen negb c_gtxn c_abs c_rel]. repeat split; vm_compute; reflexivity. Qed.

Lemma list16 {A} (l : list A) : length l = 16%nat ->
  exists x0 x1 x2 x3 x4 x5 x6 x7 x8 x9 x10 x11 x12 x13 x14 x15, l = [x0;x1;x2;x3;x4;x5;x6;x7;x8;x9;x10;x11;x12;x13;x14;x15].
Proof.
  intros H. do 16 (destruct l as [|? l]; [discriminate|]). destruct l; [|discriminate].
  eexists _,_,_,_,_,_,_,_,_,_,_,_,_,_,_,_. reflexivity.
Qed.
Lemma map_fst_combine {A} : forall (r : list (Z * A)), r = combine (map fst r) (map snd r).
Proof. induction r as [|[k v] r IH]; cbn; [reflexivity|]. rewrite <- IH. reflexivity. Qed.
Lemma list30 {A} (l : list A) : length l = 30%nat ->
  exists x0 x1 x2 x3 x4 x5 x6 x7 x8 x9 x10 x11 x12 x13 x14 x15 x16 x17 x18 x19 x20 x21 x22 x23 x24 x25 x26 x27 x28 x29,
    l = [x0;x1;x2;x3;x4;x5;x6;x7;x8;x9;x10;x11;x12;x13;x14;x15;x16;x17;x18;x19;x20;x21;x22;x23;x24;x25;x26;x27;x28;x29].
Proof.
  intros H. do 30 (destruct l as [|? l]; [discriminate|]). destruct l; [|discriminate].
  eexists _,_,_,_,_,_,_,_,_,_,_,_,_,_,_,_,_,_,_,_,_,_,_,_,_,_,_,_,_,_. reflexivity.
Qed.

(* a shaped head object, explicitly *)
Lemma ctx_shape_explicit c : ctx_shape c ->
  exists own g a rv, length g = 16%nat /\ length a = 16%nat /\ length rv = 30%nat /\
    c = mkCtx own (Some g) (Some a) (Some (combine rel_offsets rv)).
Proof.
  intros (g & a & r & Hg & Lg & Ha & La & Hr & Mr). destruct c as [own cg ca cr]. cbn in *. subst cg ca cr.
  exists own, g, a, (map snd r). repeat split; try assumption.
  - rewrite map_length. rewrite <- (map_length fst). rewrite Mr. vm_compute. reflexivity.
  - rewrite <- Mr. rewrite <- map_fst_combine. reflexivity.
Qed.

(* ====================================================================== *)
(* 2. the canonical store of one block, on the head object                  *)
(* ====================================================================== *)
Section Canon.
  Variable V : Type.
  Variable upd : V -> bctx -> bctx.

  (* the sequence of stores of one block for one base key, on the head object c, with total results *)
  Definition canon_ctx (val : string -> V) (base : string) (c : ctxobj) : py ctxobj :=
    bind (ctx_modify (fun _ => ret RSelf) (upd (val base)) c) (fun c =>
    bind (fold_left (fun acc idx => bind acc (fun c =>
        bind (ctx_modify (fun c => gtxn_context_gen c idx) (upd (val (get_gtxn_at_index_key idx base))) c) (fun c =>
        bind (ctx_modify (fun c => absolute_context_gen c idx) (upd (val (get_absolute_index_key idx base))) c) (fun c => ret c))))
      (py_range 0%Z (Z.of_N MAX_GROUP_SIZE)) (ret c)) (fun c =>
    fold_left (fun acc offset => bind acc (fun c =>
        if Z.eqb offset 0%Z then ret c else
        bind (ctx_modify (fun c => relative_context_gen c offset) (upd (val (get_relative_index_key offset base))) c) (fun c => ret c)))
      (py_range (Z.opp (Z.sub (Z.of_N MAX_GROUP_SIZE) 1%Z)) (Z.of_N MAX_GROUP_SIZE)) (ret c))).

  (* on a shaped object the stores raise nothing, keep the shape, and EVERY slot receives the value of its own key *)
  Lemma canon_ctx_spec val base c : ctx_shape c ->
    exists c', canon_ctx val base c = Some c' /\ ctx_shape c' /\
      forall fam, In fam all_fams -> exists o, read_ctx c fam = Some o /\ read_ctx c' fam = Some (upd (val (key_of_fam base fam)) o).
  Proof.
    intros Hs. destruct (ctx_shape_explicit c Hs) as (own & g & a & rv & Lg & La & Lr & ->).
    destruct (list16 g Lg) as (g0&g1&g2&g3&g4&g5&g6&g7&g8&g9&g10&g11&g12&g13&g14&g15&->).
    destruct (list16 a La) as (a0&a1&a2&a3&a4&a5&a6&a7&a8&a9&a10&a11&a12&a13&a14&a15&->).
    destruct (list30 rv Lr) as (r0&r1&r2&r3&r4&r5&r6&r7&r8&r9&r10&r11&r12&r13&r14&r15&r16&r17&r18&r19&r20&r21&r22&r23&r24&r25&r26&r27&r28&r29&->).
    eexists. split; [vm_compute; reflexivity|]. split.
    - unfold ctx_shape. eexists _, _, _. cbn [c_gtxn c_abs c_rel]. repeat split; vm_compute; reflexivity.
    - intros fam Hin. vm_compute in Hin.
      repeat (destruct Hin as [<-|Hin]; [eexists; split; vm_compute; reflexivity|]). contradiction.
  Qed.

  (* ---- the same sequence as the generated code performs it: on the table of the function, with lookups that may fail *)
  Definition canon_block (look : string -> py V) (base : string) (b : nat) (t : state ctxobj) : py (state ctxobj) :=
    bind (look base) (fun v =>
    bind (tctx_modify t b (fun _ => ret RSelf) (upd v)) (fun t =>
    bind (fold_left (fun acc idx => bind acc (fun t =>
        bind (look (get_gtxn_at_index_key idx base)) (fun v =>
        bind (tctx_modify t b (fun c => gtxn_context_gen c idx) (upd v)) (fun t =>
        bind (look (get_absolute_index_key idx base)) (fun v =>
        bind (tctx_modify t b (fun c => absolute_context_gen c idx) (upd v)) (fun t => ret t))))))
      (py_range 0%Z (Z.of_N MAX_GROUP_SIZE)) (ret t)) (fun t =>
    fold_left (fun acc offset => bind acc (fun t =>
        if Z.eqb offset 0%Z then ret t else
        bind (look (get_relative_index_key offset base)) (fun v =>
        bind (tctx_modify t b (fun c => relative_context_gen c offset) (upd v)) (fun t => ret t))))
      (py_range (Z.opp (Z.sub (Z.of_N MAX_GROUP_SIZE) 1%Z)) (Z.of_N MAX_GROUP_SIZE)) (ret t)))).

  (* simulation: the table is t0 with the object of b replaced *)
  Definition simr (t0 : state ctxobj) (b : nat) (mt : py (state ctxobj)) (mc : py ctxobj) : Prop :=
    match mc with Some c' => mt = Some (update ctxobj t0 b c') | None => mt = None end.

  Section Sim.
    Variable t0 : state ctxobj.
    Variable b : nat.
    Hypothesis Hb : lookup ctxobj t0 b <> None.

    Lemma sim_modify sel u c : simr t0 b (tctx_modify (update ctxobj t0 b c) b sel u) (ctx_modify sel u c).
    Proof.
      unfold simr, tctx_modify. rewrite (lk_upd_same t0 b c Hb). cbn [bind].
      destruct (ctx_modify sel u c) as [c'|]; cbn [bind ret]; [rewrite upd_upd|]; reflexivity.
    Qed.
    Lemma sim_bind mt mc (F : state ctxobj -> py (state ctxobj)) (G : ctxobj -> py ctxobj) :
      simr t0 b mt mc -> (forall c, simr t0 b (F (update ctxobj t0 b c)) (G c)) -> simr t0 b (bind mt F) (bind mc G).
    Proof. intros H1 H2. unfold simr in H1. destruct mc as [c|]; subst mt; cbn [bind]; [apply H2|reflexivity]. Qed.
    Lemma sim_ret c : simr t0 b (ret (update ctxobj t0 b c)) (ret c).
    Proof. reflexivity. Qed.
    Lemma sim_fold {I} (F : I -> state ctxobj -> py (state ctxobj)) (G : I -> ctxobj -> py ctxobj) : forall l,
      (forall i c, In i l -> simr t0 b (F i (update ctxobj t0 b c)) (G i c)) ->
      forall mt mc, simr t0 b mt mc ->
      simr t0 b (fold_left (fun acc i => bind acc (F i)) l mt) (fold_left (fun acc i => bind acc (G i)) l mc).
    Proof.
      induction l as [|x l IH]; intros H mt mc Hm; cbn [fold_left]; [exact Hm|].
      apply IH; [intros; apply H; right; assumption|].
      apply sim_bind; [exact Hm|]. intros c. apply H. left. reflexivity.
    Qed.
  End Sim.

  Lemma key_at base i : (0 <= i)%Z -> get_gtxn_at_index_key i base = key_of_fam base (KAtIndex (Z.to_N i)).
  Proof. intros H. cbn [key_of_fam]. rewrite Z2N.id by exact H. reflexivity. Qed.
  Lemma key_abs base i : (0 <= i)%Z -> get_absolute_index_key i base = key_of_fam base (KAbs (Z.to_N i)).
  Proof. intros H. cbn [key_of_fam]. rewrite Z2N.id by exact H. reflexivity. Qed.

  Lemma canon_block_sim look val base b t0 c :
    lookup ctxobj t0 b <> None ->
    (forall fam, In fam all_fams -> look (key_of_fam base fam) = Some (val (key_of_fam base fam))) ->
    simr t0 b (canon_block look base b (update ctxobj t0 b c)) (canon_ctx val base c).
  Proof.
    intros Hb Hl. unfold canon_block, canon_ctx.
    assert (H0 : In KSelf all_fams) by (apply all_fams_famb; reflexivity).
    pose proof (Hl KSelf H0) as E0. cbn [key_of_fam] in E0. rewrite E0. rewrite bind_some.
    apply sim_bind; [apply sim_modify; exact Hb|]. intros c1.
    apply sim_bind.
    - apply sim_fold; [|apply sim_ret].
      intros i c2 Hi. apply in_py_range in Hi. change (Z.of_N MAX_GROUP_SIZE) with 16%Z in Hi.
      rewrite (key_at base i) by lia. rewrite (key_abs base i) by lia.
      rewrite (Hl (KAtIndex (Z.to_N i))) by (apply all_fams_famb; cbn [famb]; apply N.ltb_lt; lia).
      rewrite bind_some. apply sim_bind; [apply sim_modify; exact Hb|]. intros c3.
      rewrite (Hl (KAbs (Z.to_N i))) by (apply all_fams_famb; cbn [famb]; apply N.ltb_lt; lia).
      rewrite bind_some. apply sim_bind; [apply sim_modify; exact Hb|]. intros c4. apply sim_ret.
    - intros c2. apply sim_fold; [|apply sim_ret].
      intros k c3 Hk. apply in_py_range in Hk. change (Z.of_N MAX_GROUP_SIZE) with 16%Z in Hk.
      destruct (Z.eqb k 0) eqn:Ek; [apply sim_ret|].
      change (get_relative_index_key k base) with (key_of_fam base (KRel k)).
      rewrite (Hl (KRel k)).
      2:{ apply all_fams_famb. cbn [famb]. rewrite Ek. cbn [negb]. rewrite andb_true_r. apply andb_true_iff. split; apply Z.leb_le; lia. }
      rewrite bind_some. apply sim_bind; [apply sim_modify; exact Hb|]. intros c4. apply sim_ret.
  Qed.

  (* one block: every slot of b receives upd(result of its own key); the other blocks are not touched *)
  Theorem canon_block_spec look base b t c :
    lookup ctxobj t b = Some c -> ctx_shape c ->
    (forall fam, In fam all_fams -> look (key_of_fam base fam) <> None) ->
    exists c', canon_block look base b t = Some (update ctxobj t b c') /\ ctx_shape c' /\
      forall fam, In fam all_fams -> exists v o,
        look (key_of_fam base fam) = Some v /\ read_ctx c fam = Some o /\ read_ctx c' fam = Some (upd v o).
  Proof.
    intros Hb Hs Hl.
    destruct (look base) as [dflt|] eqn:E0; [|exfalso; apply (Hl KSelf); [apply all_fams_famb; reflexivity|exact E0]].
    set (val := fun k => match look k with Some v => v | None => dflt end).
    assert (Hl' : forall fam, In fam all_fams -> look (key_of_fam base fam) = Some (val (key_of_fam base fam))).
    { intros fam Hin. unfold val. specialize (Hl fam Hin). destruct (look (key_of_fam base fam)); [reflexivity|congruence]. }
    destruct (canon_ctx_spec val base c Hs) as (c' & Hc & Hs' & Hr).
    assert (Hb' : lookup ctxobj t b <> None) by congruence.
    pose proof (canon_block_sim look val base b t c Hb' Hl') as S.
    rewrite (upd_same t b c Hb) in S. unfold simr in S. rewrite Hc in S.
    exists c'. split; [exact S|]. split; [exact Hs'|].
    intros fam Hin. destruct (Hr fam Hin) as (o & R1 & R2). exists (val (key_of_fam base fam)), o.
    split; [apply Hl'; exact Hin|]. split; assumption.
  Qed.

  (* all blocks *)
  Hypothesis upd_idem : forall v o, upd v (upd v o) = upd v o.

  Theorem canon_store_spec (look : string -> nat -> py V) base : forall blocks t,
    (forall b, In b blocks -> exists c, lookup ctxobj t b = Some c /\ ctx_shape c) ->
    (forall b fam, In b blocks -> In fam all_fams -> look (key_of_fam base fam) b <> None) ->
    exists t', fold_left (fun acc b => bind acc (fun t => canon_block (fun k => look k b) base b t)) blocks (Some t) = Some t' /\
      (forall b, ~ In b blocks -> lookup ctxobj t' b = lookup ctxobj t b) /\
      (forall b c, lookup ctxobj t b = Some c -> ctx_shape c -> exists c', lookup ctxobj t' b = Some c' /\ ctx_shape c') /\
      (forall b, In b blocks -> forall fam, In fam all_fams -> exists v o,
         look (key_of_fam base fam) b = Some v /\ read_slot t b fam = Some o /\ read_slot t' b fam = Some (upd v o)).
  Proof.
    induction blocks as [|b0 blocks IH]; intros t Hsh Hl.
    - exists t. cbn [fold_left]. split; [reflexivity|]. split; [reflexivity|]. split; [|intros b []].
      intros b c Hc Hs. exists c. split; assumption.
    - destruct (Hsh b0 (or_introl eq_refl)) as (c0 & Hc0 & Hs0).
      destruct (canon_block_spec (fun k => look k b0) base b0 t c0 Hc0 Hs0) as (c1 & Hrun & Hs1 & Hr1).
      { intros fam Hin. apply Hl; [left; reflexivity|exact Hin]. }
      set (t1 := update ctxobj t b0 c1) in *.
      assert (Hb0 : lookup ctxobj t b0 <> None) by congruence.
      assert (L1 : lookup ctxobj t1 b0 = Some c1) by (apply lk_upd_same; exact Hb0).
      destruct (IH t1) as (t' & Hfold & Hout & Hshape & Hread).
      { intros b Hb. destruct (Nat.eq_dec b0 b) as [<-|Hne].
        - exists c1. split; assumption.
        - unfold t1. rewrite lk_upd_other by exact Hne. apply Hsh. right. exact Hb. }
      { intros b fam Hb Hin. apply Hl; [right; exact Hb|exact Hin]. }
      exists t'. split; [cbn [fold_left bind]; rewrite Hrun; exact Hfold|]. split; [|split].
      + intros b Hn. rewrite Hout by (intros H; apply Hn; right; exact H).
        unfold t1. apply lk_upd_other. intros ->. apply Hn. left. reflexivity.
      + intros b c Hc Hs. destruct (Nat.eq_dec b0 b) as [<-|Hne].
        * apply (Hshape b0 c1 L1 Hs1).
        * apply (Hshape b c); [unfold t1; rewrite lk_upd_other by exact Hne; exact Hc|exact Hs].
      + intros b Hb fam Hin. destruct (Nat.eq_dec b0 b) as [<-|Hne].
        * destruct (Hr1 fam Hin) as (v & o & Lv & R0 & R1).
          exists v, o. split; [exact Lv|]. split; [unfold read_slot; rewrite Hc0; exact R0|].
          destruct (in_dec Nat.eq_dec b0 blocks) as [Hd|Hd].
          -- destruct (Hread b0 Hd fam Hin) as (v' & o' & Lv' & R0' & R1').
             rewrite Lv in Lv'. injection Lv' as <-. unfold read_slot in R0'. rewrite L1 in R0'. cbn [bind] in R0'.
             rewrite R1 in R0'. injection R0' as <-. rewrite upd_idem in R1'. exact R1'.
          -- unfold read_slot. rewrite (Hout b0 Hd), L1. exact R1.
        * destruct Hb as [E|Hb]; [contradiction|].
          destruct (Hread b Hb fam Hin) as (v & o & Lv & R0 & R1). exists v, o. split; [exact Lv|]. split; [|exact R1].
          unfold read_slot in *. unfold t1 in R0. rewrite lk_upd_other in R0 by exact Hne. exact R0.
  Qed.
End Canon.

(* ====================================================================== *)
(* 3. the three regenerated _store_results                                  *)
(* ====================================================================== *)
Lemma bind_ext2 {A B} (m m' : py A) (F G : A -> py B) : m = m' -> (forall a, F a = G a) -> bind m F = bind m' G.
Proof. intros -> H. destruct m' as [a|]; cbn; [apply H|reflexivity]. Qed.
Lemma bind_ret_r {A} (m : py A) : bind m (fun a => ret a) = m.
Proof. destruct m; reflexivity. Qed.

(* what a result does to a slot *)
Definition type_upd (v : list string) (o : bctx) : bctx := set_ctx_transaction_types o v.
Definition fee_upd (v : feeval) (o : bctx) : bctx :=
  if fee_unknown v then set_ctx_max_fee_unknown o true else set_ctx_max_fee o (fee_value v).
Definition addr_upd (S : addr_sel) (v : sset) (o : bctx) : bctx := as_set S o (set_addr_values_gen (as_get S o) v).

Lemma type_block_canon d b t :
  type_store_block_gen d b t = canon_block (list string) type_upd (fun k => bc_get d k b) "TransactionType" b t.
Proof. reflexivity. Qed.

Lemma addr_block_canon d BK key S b t :
  addr_store_block_gen d BK key S b t = canon_block sset (addr_upd S) (fun k => bc_get d k b) key b t.
Proof. reflexivity. Qed.

Lemma fee_step t b sel v (K : state ctxobj -> py (state ctxobj)) :
  bind (if fee_unknown v
        then bind (tctx_modify t b sel (fun o => set_ctx_max_fee_unknown o true)) (fun t => ret t)
        else bind (tctx_modify t b sel (fun o => set_ctx_max_fee o (fee_value v))) (fun t => ret t)) K
  = bind (tctx_modify t b sel (fee_upd v)) K.
Proof. unfold fee_upd. destruct (fee_unknown v); rewrite bind_ret_r; reflexivity. Qed.

Lemma fee_block_canon d b t :
  fee_store_block_gen d b t = canon_block feeval fee_upd (fun k => bc_get d k b) "Fee" b t.
Proof.
  unfold fee_store_block_gen, canon_block.
  apply bind_ext2; [reflexivity|]. intros v. rewrite fee_step. apply bind_ext2; [reflexivity|]. intros t1.
  apply bind_ext2.
  - apply fold_ext_in. intros i t2 _.
    apply bind_ext2; [reflexivity|]. intros v1. rewrite fee_step. apply bind_ext2; [reflexivity|]. intros t3.
    apply bind_ext2; [reflexivity|]. intros v2. rewrite fee_step. reflexivity.
  - intros t2. apply fold_ext_in. intros k t3 _. destruct (Z.eqb k 0); [reflexivity|].
    apply bind_ext2; [reflexivity|]. intros v1. rewrite fee_step. reflexivity.
Qed.

Lemma type_upd_idem v o : type_upd v (type_upd v o) = type_upd v o.
Proof. reflexivity. Qed.
Lemma fee_upd_idem v o : fee_upd v (fee_upd v o) = fee_upd v o.
Proof. unfold fee_upd. destruct (fee_unknown v); reflexivity. Qed.

(* ---- THEOREM (fee).  Slot = (b, fam) through the regenerated accessors; key = key_of_fam "Fee" fam. *)
Theorem fee_store_read_back (f : func) (d : gdict feeval) (t : state ctxobj) :
  (forall b, In b (function_blocks f) -> exists c, lookup ctxobj t b = Some c /\ ctx_shape c) ->
  (forall b fam, In b (function_blocks f) -> In fam all_fams -> bc_get d (key_of_fam "Fee" fam) b <> None) ->
  exists t', fee_store_results_gen f d t = Some t' /\
    (forall b, ~ In b (function_blocks f) -> lookup ctxobj t' b = lookup ctxobj t b) /\
    (forall b c, lookup ctxobj t b = Some c -> ctx_shape c -> exists c', lookup ctxobj t' b = Some c' /\ ctx_shape c') /\
    (forall b, In b (function_blocks f) -> forall fam, In fam all_fams -> exists v o,
       bc_get d (key_of_fam "Fee" fam) b = Some v /\ read_slot t b fam = Some o /\ read_slot t' b fam = Some (fee_upd v o)).
Proof.
  intros Hs Hl.
  destruct (canon_store_spec feeval fee_upd fee_upd_idem (bc_get d) "Fee" (function_blocks f) t Hs Hl) as (t' & Hf & H).
  exists t'. split; [|exact H]. unfold fee_store_results_gen. rewrite <- Hf.
  apply fold_ext_in. intros b t1 _. apply fee_block_canon.
Qed.

(* ---- THEOREM (transaction types) *)
Theorem type_store_read_back (f : func) (d : gdict (list string)) (t : state ctxobj) :
  (forall b, In b (function_blocks f) -> exists c, lookup ctxobj t b = Some c /\ ctx_shape c) ->
  (forall b fam, In b (function_blocks f) -> In fam all_fams -> bc_get d (key_of_fam "TransactionType" fam) b <> None) ->
  exists t', type_store_results_gen f d t = Some t' /\
    (forall b, ~ In b (function_blocks f) -> lookup ctxobj t' b = lookup ctxobj t b) /\
    (forall b c, lookup ctxobj t b = Some c -> ctx_shape c -> exists c', lookup ctxobj t' b = Some c' /\ ctx_shape c') /\
    (forall b, In b (function_blocks f) -> forall fam, In fam all_fams -> exists v o,
       bc_get d (key_of_fam "TransactionType" fam) b = Some v /\ read_slot t b fam = Some o /\ read_slot t' b fam = Some (type_upd v o)).
Proof.
  intros Hs Hl.
  destruct (canon_store_spec (list string) type_upd type_upd_idem (bc_get d) "TransactionType" (function_blocks f) t Hs Hl) as (t' & Hf & H).
  exists t'. split; [|exact H]. unfold type_store_results_gen. rewrite <- Hf.
  apply fold_ext_in. intros b t1 _. apply type_block_canon.
Qed.
