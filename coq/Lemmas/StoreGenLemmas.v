(* The regenerated result-storing / reading layer (Gen/StoreGen.v, tools/translate_store.py) is a faithful, non-aliasing,
   key-by-key copy of the solver results into the BlockTransactionContext objects.

   Vocabulary.
     KEY   an analysis key of a base key (field) `base`: one of the 63 strings `key_of_fam base fam` (RunGenLemmas), fam in
           KSelf :: all_gtx_fams, i.e. base itself, GTXN_AT_INDEX_ii_base / GTXN_ABS_ii_base (ii = 00..15),
           GTXN_RELATIVE_kk_base (kk = -15..15 without 0); the solver result of a key for block b is
           self._block_contexts[key][b] = bc_get d key b.
     SLOT  a context object of a block: (b, fam) denotes the object that the REGENERATED accessors return:
           transaction_context(b) for KSelf, .gtxn_context(i) for KAtIndex i, .absolute_context(i) for KAbs i,
           .relative_context(k) for KRel k (slot_ref / read_ctx / read_slot below); a slot has the ten data attributes of
           LeafPrelude.bctx.
   Main statements (for every function f, every dictionary d of solver results, every table t of context objects):
     fee_store_read_back, type_store_read_back, addr_store_read_back:
           if every block of f has a head object of the shape __init__ builds and every one of the 63 keys has a result for
           every block, the regenerated _store_results raises no exception and afterwards EVERY slot (b, fam) reads
           upd(result of key_of_fam base fam at b)(slot before): the attribute(s) of the analysis hold the value of the slot's
           OWN key, every other attribute is untouched; objects of blocks outside f are untouched.
     store_all_read_back / store_all_ctx_of: from the fresh objects of Function.__init__, after the three stores every slot
           reads exactly Detect.ctx_of of the model result (group sizes / indices: translate_consts, ConstsGenLemmas).
   All statements are for ALL blocks, all 63 families (famb characterises them as i < 16, -15 <= k <= 15, k <> 0). *)
From Coq Require Import String List NArith ZArith Bool Arith Lia.
From Tealer Require Import Tables LeafPrelude Leaves Syntax Cfg StackAst Keys KeysGen Analysis GraphGen SolverGen RunGen StoreGen Domains Detect RunGenLemmas.
Import ListNotations.
Open Scope string_scope.
Open Scope list_scope.

(* ====================================================================== *)
(* 0. small facts: association lists, the monad, ranges                    *)
(* ====================================================================== *)
Lemma lk_upd_same {T} : forall (t : state T) b v, lookup T t b <> None -> lookup T (update T t b v) b = Some v.
Proof.
  induction t as [|[k w] t IH]; intros b v H; cbn in *; [congruence|].
  destruct (Nat.eqb k b) eqn:E; cbn; rewrite E; [reflexivity|auto].
Qed.
Lemma lk_upd_other {T} : forall (t : state T) b b' v, b <> b' -> lookup T (update T t b v) b' = lookup T t b'.
Proof.
  induction t as [|[k w] t IH]; intros b b' v H; cbn; [reflexivity|].
  destruct (Nat.eqb k b) eqn:E; cbn.
  - apply Nat.eqb_eq in E. subst k. destruct (Nat.eqb b b') eqn:E2; [apply Nat.eqb_eq in E2; contradiction|reflexivity].
  - destruct (Nat.eqb k b'); [reflexivity|auto].
Qed.
Lemma upd_upd {T} : forall (t : state T) b v w, update T (update T t b v) b w = update T t b w.
Proof.
  induction t as [|[k x] t IH]; intros b v w; cbn; [reflexivity|].
  destruct (Nat.eqb k b) eqn:E; cbn; rewrite E; [reflexivity|]. rewrite IH. reflexivity.
Qed.
Lemma upd_same {T} : forall (t : state T) b v, lookup T t b = Some v -> update T t b v = t.
Proof.
  induction t as [|[k x] t IH]; intros b v H; cbn in *; [reflexivity|].
  destruct (Nat.eqb k b) eqn:E; [injection H as ->; reflexivity|]. rewrite (IH _ _ H). reflexivity.
Qed.

Lemma bind_some {A B} (a : A) (F : A -> py B) : bind (Some a) F = F a.
Proof. reflexivity. Qed.

Lemma fold_none {A B} (F : B -> A -> py A) : forall l, fold_left (fun acc i => bind acc (F i)) l None = None.
Proof. induction l as [|x l IH]; cbn; [reflexivity|exact IH]. Qed.

Lemma fold_ext_in {A B} (F G : B -> A -> py A) : forall l,
  (forall i a, In i l -> F i a = G i a) ->
  forall m, fold_left (fun acc i => bind acc (F i)) l m = fold_left (fun acc i => bind acc (G i)) l m.
Proof.
  induction l as [|x l IH]; intros H m; cbn [fold_left]; [reflexivity|].
  rewrite IH by (intros; apply H; right; assumption).
  f_equal. destruct m as [a|]; cbn; [apply H; left; reflexivity|reflexivity].
Qed.

Lemma in_py_range lo hi i : In i (py_range lo hi) <-> (lo <= i < hi)%Z.
Proof.
  unfold py_range. rewrite in_map_iff. split.
  - intros [k [E Hk]]. apply in_seq in Hk. lia.
  - intros H. exists (Z.to_nat (i - lo)). split; [lia|]. apply in_seq. lia.
Qed.

(* ====================================================================== *)
(* 1. the 63 families; shape of a head object; slots                        *)
(* ====================================================================== *)
Definition all_fams : list keyfam := KSelf :: all_gtx_fams.
Definition famb (fam : keyfam) : bool :=
  match fam with
  | KSelf => true
  | KAtIndex i | KAbs i => N.ltb i 16
  | KRel k => ((-15 <=? k) && (k <=? 15) && negb (k =? 0))%Z
  end.
Lemma all_fams_famb : forall fam, In fam all_fams <-> famb fam = true.
Proof.
  intros fam. split.
  - assert (H : forallb famb all_fams = true) by (vm_compute; reflexivity).
    rewrite forallb_forall in H. apply H.
  - intros H. unfold all_fams. destruct fam as [|i|i|k]; [left; reflexivity| | |]; right; unfold all_gtx_fams; apply in_or_app.
    + cbn [famb] in H. apply N.ltb_lt in H. left. apply in_flat_map. exists (N.to_nat i). split.
      * apply in_seq. unfold max_group_size. change (N.to_nat MAX_GROUP_SIZE) with 16%nat. lia.
      * rewrite N2Nat.id. left. reflexivity.
    + cbn [famb] in H. apply N.ltb_lt in H. left. apply in_flat_map. exists (N.to_nat i). split.
      * apply in_seq. unfold max_group_size. change (N.to_nat MAX_GROUP_SIZE) with 16%nat. lia.
      * rewrite N2Nat.id. right. left. reflexivity.
    + cbn [famb] in H. apply andb_true_iff in H. destruct H as [H H3]. apply andb_true_iff in H. destruct H as [H1 H2].
      apply Z.leb_le in H1, H2. apply negb_true_iff in H3. right. apply in_flat_map. exists (Z.to_nat (k + 15)). split.
      * apply in_seq. unfold max_group_size. change (N.to_nat MAX_GROUP_SIZE) with 16%nat. lia.
      * unfold max_group_size. change (N.to_nat MAX_GROUP_SIZE) with 16%nat.
        replace (Z.of_nat (Z.to_nat (k + 15)) - (Z.of_nat 16 - 1))%Z with k by lia. cbv zeta. rewrite H3. left. reflexivity.
Qed.

(* the offsets of the dictionary _relative_context *)
Definition rel_offsets : list Z := filter (fun o => negb (Z.eqb o 0)) (py_range (-15) 16).
(* the shape BlockTransactionContext.__init__ gives a head object: 16 + 16 tail contexts and one per offset *)
Definition ctx_shape (c : ctxobj) : Prop :=
  exists g a r, c_gtxn c = Some g /\ length g = 16%nat /\ c_abs c = Some a /\ length a = 16%nat /\ c_rel c = Some r /\ map fst r = rel_offsets.

(* the slot of a family, THROUGH THE REGENERATED ACCESSORS *)
Definition slot_ref (c : ctxobj) (fam : keyfam) : py cref :=
  match fam with
  | KSelf => ret RSelf
  | KAtIndex i => gtxn_context_gen c (Z.of_N i)
  | KAbs i => absolute_context_gen c (Z.of_N i)
  | KRel k => relative_context_gen c k
  end.
Definition read_ctx (c : ctxobj) (fam : keyfam) : py bctx := bind (slot_ref c fam) (deref c).
(* self._function.transaction_context(b)[.gtxn_context(i) | .absolute_context(i) | .relative_context(k)] *)
Definition read_slot (t : state ctxobj) (b : nat) (fam : keyfam) : py bctx := bind (lookup ctxobj t b) (fun c => read_ctx c fam).

Lemma init_ctx_shape : ctx_shape (init_ctx_gen false).
Proof. unfold ctx_shape. eexists _, _, _. cbn [init_ctx_gen negb c_gtxn c_abs c_rel]. repeat split; vm_compute; reflexivity. Qed.

Lemma list16 {A} (l : list A) : length l = 16%nat ->
  exists x0 x1 x2 x3 x4 x5 x6 x7 x8 x9 x10 x11 x12 x13 x14 x15, l = [x0;x1;x2;x3;x4;x5;x6;x7;x8;x9;x10;x11;x12;x13;x14;x15].
Proof.
  intros H. do 16 (destruct l as [|? l]; [discriminate|]). destruct l; [|discriminate].
  eexists _,_,_,_,_,_,_,_,_,_,_,_,_,_,_,_. reflexivity.
Qed.
Lemma map_fst_combine {A} : forall (r : list (Z * A)), r = combine (map fst r) (map snd r).
Proof. induction r as [|[k v] r IH]; cbn; [reflexivity|]. rewrite <- IH. reflexivity. Qed.
Lemma list30 {A} (l : list A) : length l = 30%nat ->
  exists x0 x1 x2 x3 x4 x5 x6 x7 x8 x9 x10 x11 x12 x13 x14 x15 x16 x17 x18 x19 x20 x21 x22 x23 x24 x25 x26 x27 x28 x29,
    l = [x0;x1;x2;x3;x4;x5;x6;x7;x8;x9;x10;x11;x12;x13;x14;x15;x16;x17;x18;x19;x20;x21;x22;x23;x24;x25;x26;x27;x28;x29].
Proof.
  intros H. do 30 (destruct l as [|? l]; [discriminate|]). destruct l; [|discriminate].
  eexists _,_,_,_,_,_,_,_,_,_,_,_,_,_,_,_,_,_,_,_,_,_,_,_,_,_,_,_,_,_. reflexivity.
Qed.

(* a shaped head object, explicitly *)
Lemma ctx_shape_explicit c : ctx_shape c ->
  exists own g a rv, length g = 16%nat /\ length a = 16%nat /\ length rv = 30%nat /\
    c = mkCtx own (Some g) (Some a) (Some (combine rel_offsets rv)).
Proof.
  intros (g & a & r & Hg & Lg & Ha & La & Hr & Mr). destruct c as [own cg ca cr]. cbn in *. subst cg ca cr.
  exists own, g, a, (map snd r). repeat split; try assumption.
  - rewrite map_length. rewrite <- (map_length fst). rewrite Mr. vm_compute. reflexivity.
  - rewrite <- Mr. rewrite <- map_fst_combine. reflexivity.
Qed.

(* ====================================================================== *)
(* 2. the canonical store of one block, on the head object                  *)
(* ====================================================================== *)
Section Canon.
  Variable V : Type.
  Variable upd : V -> bctx -> bctx.

  (* the sequence of stores of one block for one base key, on the head object c, with total results *)
  Definition canon_ctx (val : string -> V) (base : string) (c : ctxobj) : py ctxobj :=
    bind (ctx_modify (fun _ => ret RSelf) (upd (val base)) c) (fun c =>
    bind (fold_left (fun acc idx => bind acc (fun c =>
        bind (ctx_modify (fun c => gtxn_context_gen c idx) (upd (val (get_gtxn_at_index_key idx base))) c) (fun c =>
        bind (ctx_modify (fun c => absolute_context_gen c idx) (upd (val (get_absolute_index_key idx base))) c) (fun c => ret c))))
      (py_range 0%Z (Z.of_N MAX_GROUP_SIZE)) (ret c)) (fun c =>
    fold_left (fun acc offset => bind acc (fun c =>
        if Z.eqb offset 0%Z then ret c else
        bind (ctx_modify (fun c => relative_context_gen c offset) (upd (val (get_relative_index_key offset base))) c) (fun c => ret c)))
      (py_range (Z.opp (Z.sub (Z.of_N MAX_GROUP_SIZE) 1%Z)) (Z.of_N MAX_GROUP_SIZE)) (ret c))).

  (* on a shaped object the stores raise nothing, keep the shape, and EVERY slot receives the value of its own key *)
  Lemma canon_ctx_spec val base c : ctx_shape c ->
    exists c', canon_ctx val base c = Some c' /\ ctx_shape c' /\
      forall fam, In fam all_fams -> exists o, read_ctx c fam = Some o /\ read_ctx c' fam = Some (upd (val (key_of_fam base fam)) o).
  Proof.
    intros Hs. destruct (ctx_shape_explicit c Hs) as (own & g & a & rv & Lg & La & Lr & ->).
    destruct (list16 g Lg) as (g0&g1&g2&g3&g4&g5&g6&g7&g8&g9&g10&g11&g12&g13&g14&g15&->).
    destruct (list16 a La) as (a0&a1&a2&a3&a4&a5&a6&a7&a8&a9&a10&a11&a12&a13&a14&a15&->).
    destruct (list30 rv Lr) as (r0&r1&r2&r3&r4&r5&r6&r7&r8&r9&r10&r11&r12&r13&r14&r15&r16&r17&r18&r19&r20&r21&r22&r23&r24&r25&r26&r27&r28&r29&->).
    eexists. split; [vm_compute; reflexivity|]. split.
    - unfold ctx_shape. eexists _, _, _. cbn [c_gtxn c_abs c_rel]. repeat split; vm_compute; reflexivity.
    - intros fam Hin. vm_compute in Hin.
      repeat (destruct Hin as [<-|Hin]; [eexists; split; vm_compute; reflexivity|]). contradiction.
  Qed.

  (* ---- the same sequence as the generated code performs it: on the table of the function, with lookups that may fail *)
  Definition canon_block (look : string -> py V) (base : string) (b : nat) (t : state ctxobj) : py (state ctxobj) :=
    bind (look base) (fun v =>
    bind (tctx_modify t b (fun _ => ret RSelf) (upd v)) (fun t =>
    bind (fold_left (fun acc idx => bind acc (fun t =>
        bind (look (get_gtxn_at_index_key idx base)) (fun v =>
        bind (tctx_modify t b (fun c => gtxn_context_gen c idx) (upd v)) (fun t =>
        bind (look (get_absolute_index_key idx base)) (fun v =>
        bind (tctx_modify t b (fun c => absolute_context_gen c idx) (upd v)) (fun t => ret t))))))
      (py_range 0%Z (Z.of_N MAX_GROUP_SIZE)) (ret t)) (fun t =>
    fold_left (fun acc offset => bind acc (fun t =>
        if Z.eqb offset 0%Z then ret t else
        bind (look (get_relative_index_key offset base)) (fun v =>
        bind (tctx_modify t b (fun c => relative_context_gen c offset) (upd v)) (fun t => ret t))))
      (py_range (Z.opp (Z.sub (Z.of_N MAX_GROUP_SIZE) 1%Z)) (Z.of_N MAX_GROUP_SIZE)) (ret t)))).

  (* simulation: the table is t0 with the object of b replaced *)
  Definition simr (t0 : state ctxobj) (b : nat) (mt : py (state ctxobj)) (mc : py ctxobj) : Prop :=
    match mc with Some c' => mt = Some (update ctxobj t0 b c') | None => mt = None end.

  Section Sim.
    Variable t0 : state ctxobj.
    Variable b : nat.
    Hypothesis Hb : lookup ctxobj t0 b <> None.

    Lemma sim_modify sel u c : simr t0 b (tctx_modify (update ctxobj t0 b c) b sel u) (ctx_modify sel u c).
    Proof.
      unfold simr, tctx_modify. rewrite (lk_upd_same t0 b c Hb). cbn [bind].
      destruct (ctx_modify sel u c) as [c'|]; cbn [bind ret]; [rewrite upd_upd|]; reflexivity.
    Qed.
    Lemma sim_bind mt mc (F : state ctxobj -> py (state ctxobj)) (G : ctxobj -> py ctxobj) :
      simr t0 b mt mc -> (forall c, simr t0 b (F (update ctxobj t0 b c)) (G c)) -> simr t0 b (bind mt F) (bind mc G).
    Proof. intros H1 H2. unfold simr in H1. destruct mc as [c|]; subst mt; cbn [bind]; [apply H2|reflexivity]. Qed.
    Lemma sim_ret c : simr t0 b (ret (update ctxobj t0 b c)) (ret c).
    Proof. reflexivity. Qed.
    Lemma sim_fold {I} (F : I -> state ctxobj -> py (state ctxobj)) (G : I -> ctxobj -> py ctxobj) : forall l,
      (forall i c, In i l -> simr t0 b (F i (update ctxobj t0 b c)) (G i c)) ->
      forall mt mc, simr t0 b mt mc ->
      simr t0 b (fold_left (fun acc i => bind acc (F i)) l mt) (fold_left (fun acc i => bind acc (G i)) l mc).
    Proof.
      induction l as [|x l IH]; intros H mt mc Hm; cbn [fold_left]; [exact Hm|].
      apply IH; [intros; apply H; right; assumption|].
      apply sim_bind; [exact Hm|]. intros c. apply H. left. reflexivity.
    Qed.
  End Sim.

  Lemma key_at base i : (0 <= i)%Z -> get_gtxn_at_index_key i base = key_of_fam base (KAtIndex (Z.to_N i)).
  Proof. intros H. cbn [key_of_fam]. rewrite Z2N.id by exact H. reflexivity. Qed.
  Lemma key_abs base i : (0 <= i)%Z -> get_absolute_index_key i base = key_of_fam base (KAbs (Z.to_N i)).
  Proof. intros H. cbn [key_of_fam]. rewrite Z2N.id by exact H. reflexivity. Qed.

  Lemma canon_block_sim look val base b t0 c :
    lookup ctxobj t0 b <> None ->
    (forall fam, In fam all_fams -> look (key_of_fam base fam) = Some (val (key_of_fam base fam))) ->
    simr t0 b (canon_block look base b (update ctxobj t0 b c)) (canon_ctx val base c).
  Proof.
    intros Hb Hl. unfold canon_block, canon_ctx.
    assert (H0 : In KSelf all_fams) by (apply all_fams_famb; reflexivity).
    pose proof (Hl KSelf H0) as E0. cbn [key_of_fam] in E0. rewrite E0. rewrite bind_some.
    apply sim_bind; [apply sim_modify; exact Hb|]. intros c1.
    apply sim_bind.
    - apply sim_fold; [|apply sim_ret].
      intros i c2 Hi. apply in_py_range in Hi. change (Z.of_N MAX_GROUP_SIZE) with 16%Z in Hi.
      rewrite (key_at base i) by lia. rewrite (key_abs base i) by lia.
      rewrite (Hl (KAtIndex (Z.to_N i))) by (apply all_fams_famb; cbn [famb]; apply N.ltb_lt; lia).
      rewrite bind_some. apply sim_bind; [apply sim_modify; exact Hb|]. intros c3.
      rewrite (Hl (KAbs (Z.to_N i))) by (apply all_fams_famb; cbn [famb]; apply N.ltb_lt; lia).
      rewrite bind_some. apply sim_bind; [apply sim_modify; exact Hb|]. intros c4. apply sim_ret.
    - intros c2. apply sim_fold; [|apply sim_ret].
      intros k c3 Hk. apply in_py_range in Hk. change (Z.of_N MAX_GROUP_SIZE) with 16%Z in Hk.
      destruct (Z.eqb k 0) eqn:Ek; [apply sim_ret|].
      change (get_relative_index_key k base) with (key_of_fam base (KRel k)).
      rewrite (Hl (KRel k)).
      2:{ apply all_fams_famb. cbn [famb]. rewrite Ek. cbn [negb]. rewrite andb_true_r. apply andb_true_iff. split; apply Z.leb_le; lia. }
      rewrite bind_some. apply sim_bind; [apply sim_modify; exact Hb|]. intros c4. apply sim_ret.
  Qed.

  (* one block: every slot of b receives upd(result of its own key); the other blocks are not touched *)
  Theorem canon_block_spec look base b t c :
    lookup ctxobj t b = Some c -> ctx_shape c ->
    (forall fam, In fam all_fams -> look (key_of_fam base fam) <> None) ->
    exists c', canon_block look base b t = Some (update ctxobj t b c') /\ ctx_shape c' /\
      forall fam, In fam all_fams -> exists v o,
        look (key_of_fam base fam) = Some v /\ read_ctx c fam = Some o /\ read_ctx c' fam = Some (upd v o).
  Proof.
    intros Hb Hs Hl.
    destruct (look base) as [dflt|] eqn:E0; [|exfalso; apply (Hl KSelf); [apply all_fams_famb; reflexivity|exact E0]].
    set (val := fun k => match look k with Some v => v | None => dflt end).
    assert (Hl' : forall fam, In fam all_fams -> look (key_of_fam base fam) = Some (val (key_of_fam base fam))).
    { intros fam Hin. unfold val. specialize (Hl fam Hin). destruct (look (key_of_fam base fam)); [reflexivity|congruence]. }
    destruct (canon_ctx_spec val base c Hs) as (c' & Hc & Hs' & Hr).
    assert (Hb' : lookup ctxobj t b <> None) by congruence.
    pose proof (canon_block_sim look val base b t c Hb' Hl') as S.
    rewrite (upd_same t b c Hb) in S. unfold simr in S. rewrite Hc in S.
    exists c'. split; [exact S|]. split; [exact Hs'|].
    intros fam Hin. destruct (Hr fam Hin) as (o & R1 & R2). exists (val (key_of_fam base fam)), o.
    split; [apply Hl'; exact Hin|]. split; assumption.
  Qed.

  (* all blocks *)
  Hypothesis upd_idem : forall v o, upd v (upd v o) = upd v o.

  Theorem canon_store_spec (look : string -> nat -> py V) base : forall blocks t,
    (forall b, In b blocks -> exists c, lookup ctxobj t b = Some c /\ ctx_shape c) ->
    (forall b fam, In b blocks -> In fam all_fams -> look (key_of_fam base fam) b <> None) ->
    exists t', fold_left (fun acc b => bind acc (fun t => canon_block (fun k => look k b) base b t)) blocks (Some t) = Some t' /\
      (forall b, ~ In b blocks -> lookup ctxobj t' b = lookup ctxobj t b) /\
      (forall b c, lookup ctxobj t b = Some c -> ctx_shape c -> exists c', lookup ctxobj t' b = Some c' /\ ctx_shape c') /\
      (forall b, In b blocks -> forall fam, In fam all_fams -> exists v o,
         look (key_of_fam base fam) b = Some v /\ read_slot t b fam = Some o /\ read_slot t' b fam = Some (upd v o)).
  Proof.
    induction blocks as [|b0 blocks IH]; intros t Hsh Hl.
    - exists t. cbn [fold_left]. split; [reflexivity|]. split; [reflexivity|]. split; [|intros b []].
      intros b c Hc Hs. exists c. split; assumption.
    - destruct (Hsh b0 (or_introl eq_refl)) as (c0 & Hc0 & Hs0).
      destruct (canon_block_spec (fun k => look k b0) base b0 t c0 Hc0 Hs0) as (c1 & Hrun & Hs1 & Hr1).
      { intros fam Hin. apply Hl; [left; reflexivity|exact Hin]. }
      set (t1 := update ctxobj t b0 c1) in *.
      assert (Hb0 : lookup ctxobj t b0 <> None) by congruence.
      assert (L1 : lookup ctxobj t1 b0 = Some c1) by (apply lk_upd_same; exact Hb0).
      destruct (IH t1) as (t' & Hfold & Hout & Hshape & Hread).
      { intros b Hb. destruct (Nat.eq_dec b0 b) as [<-|Hne].
        - exists c1. split; assumption.
        - unfold t1. rewrite lk_upd_other by exact Hne. apply Hsh. right. exact Hb. }
      { intros b fam Hb Hin. apply Hl; [right; exact Hb|exact Hin]. }
      exists t'. split; [cbn [fold_left bind]; rewrite Hrun; exact Hfold|]. split; [|split].
      + intros b Hn. rewrite Hout by (intros H; apply Hn; right; exact H).
        unfold t1. apply lk_upd_other. intros ->. apply Hn. left. reflexivity.
      + intros b c Hc Hs. destruct (Nat.eq_dec b0 b) as [<-|Hne].
        * apply (Hshape b0 c1 L1 Hs1).
        * apply (Hshape b c); [unfold t1; rewrite lk_upd_other by exact Hne; exact Hc|exact Hs].
      + intros b Hb fam Hin. destruct (Nat.eq_dec b0 b) as [<-|Hne].
        * destruct (Hr1 fam Hin) as (v & o & Lv & R0 & R1).
          exists v, o. split; [exact Lv|]. split; [unfold read_slot; rewrite Hc0; exact R0|].
          destruct (in_dec Nat.eq_dec b0 blocks) as [Hd|Hd].
          -- destruct (Hread b0 Hd fam Hin) as (v' & o' & Lv' & R0' & R1').
             rewrite Lv in Lv'. injection Lv' as <-. unfold read_slot in R0'. rewrite L1 in R0'. cbn [bind] in R0'.
             rewrite R1 in R0'. injection R0' as <-. rewrite upd_idem in R1'. exact R1'.
          -- unfold read_slot. rewrite (Hout b0 Hd), L1. exact R1.
        * destruct Hb as [E|Hb]; [contradiction|].
          destruct (Hread b Hb fam Hin) as (v & o & Lv & R0 & R1). exists v, o. split; [exact Lv|]. split; [|exact R1].
          unfold read_slot in *. unfold t1 in R0. rewrite lk_upd_other in R0 by exact Hne. exact R0.
  Qed.
End Canon.

(* ====================================================================== *)
(* 3. the three regenerated _store_results                                  *)
(* ====================================================================== *)
Lemma bind_ext2 {A B} (m m' : py A) (F G : A -> py B) : m = m' -> (forall a, F a = G a) -> bind m F = bind m' G.
Proof. intros -> H. destruct m' as [a|]; cbn; [apply H|reflexivity]. Qed.
Lemma bind_ret_r {A} (m : py A) : bind m (fun a => ret a) = m.
Proof. destruct m; reflexivity. Qed.

(* what a result does to a slot *)
Definition type_upd (v : list string) (o : bctx) : bctx := set_ctx_transaction_types o v.
Definition fee_upd (v : feeval) (o : bctx) : bctx :=
  if fee_unknown v then set_ctx_max_fee_unknown o true else set_ctx_max_fee o (fee_value v).
Definition addr_upd (Sl : addr_sel) (v : sset) (o : bctx) : bctx := as_set Sl o (set_addr_values_gen (as_get Sl o) v).

Lemma type_block_canon d b t :
  type_store_block_gen d b t = canon_block (list string) type_upd (fun k => bc_get d k b) "TransactionType" b t.
Proof. reflexivity. Qed.

Lemma addr_block_canon d BK key Sl b t :
  addr_store_block_gen d BK key Sl b t = canon_block sset (addr_upd Sl) (fun k => bc_get d k b) key b t.
Proof. reflexivity. Qed.

Lemma fee_step t b sel v (K : state ctxobj -> py (state ctxobj)) :
  bind (if fee_unknown v
        then bind (tctx_modify t b sel (fun o => set_ctx_max_fee_unknown o true)) (fun t => ret t)
        else bind (tctx_modify t b sel (fun o => set_ctx_max_fee o (fee_value v))) (fun t => ret t)) K
  = bind (tctx_modify t b sel (fee_upd v)) K.
Proof. unfold fee_upd. destruct (fee_unknown v); rewrite bind_ret_r; reflexivity. Qed.

Lemma fee_block_canon d b t :
  fee_store_block_gen d b t = canon_block feeval fee_upd (fun k => bc_get d k b) "Fee" b t.
Proof.
  unfold fee_store_block_gen, canon_block.
  apply bind_ext2; [reflexivity|]. intros v. rewrite fee_step. apply bind_ext2; [reflexivity|]. intros t1.
  apply bind_ext2.
  - apply fold_ext_in. intros i t2 _.
    apply bind_ext2; [reflexivity|]. intros v1. rewrite fee_step. apply bind_ext2; [reflexivity|]. intros t3.
    apply bind_ext2; [reflexivity|]. intros v2. rewrite fee_step. reflexivity.
  - intros t2. apply fold_ext_in. intros k t3 _. destruct (Z.eqb k 0); [reflexivity|].
    apply bind_ext2; [reflexivity|]. intros v1. rewrite fee_step. reflexivity.
Qed.

Lemma type_upd_idem v o : type_upd v (type_upd v o) = type_upd v o.
Proof. reflexivity. Qed.
Lemma fee_upd_idem v o : fee_upd v (fee_upd v o) = fee_upd v o.
Proof. unfold fee_upd. destruct (fee_unknown v); reflexivity. Qed.

(* ---- THEOREM (fee).  Slot = (b, fam) through the regenerated accessors; key = key_of_fam "Fee" fam. *)
Theorem fee_store_read_back (f : func) (d : gdict feeval) (t : state ctxobj) :
  (forall b, In b (function_blocks f) -> exists c, lookup ctxobj t b = Some c /\ ctx_shape c) ->
  (forall b fam, In b (function_blocks f) -> In fam all_fams -> bc_get d (key_of_fam "Fee" fam) b <> None) ->
  exists t', fee_store_results_gen f d t = Some t' /\
    (forall b, ~ In b (function_blocks f) -> lookup ctxobj t' b = lookup ctxobj t b) /\
    (forall b c, lookup ctxobj t b = Some c -> ctx_shape c -> exists c', lookup ctxobj t' b = Some c' /\ ctx_shape c') /\
    (forall b, In b (function_blocks f) -> forall fam, In fam all_fams -> exists v o,
       bc_get d (key_of_fam "Fee" fam) b = Some v /\ read_slot t b fam = Some o /\ read_slot t' b fam = Some (fee_upd v o)).
Proof.
  intros Hs Hl.
  destruct (canon_store_spec feeval fee_upd fee_upd_idem (bc_get d) "Fee" (function_blocks f) t Hs Hl) as (t' & Hf & H).
  exists t'. split; [|exact H]. unfold fee_store_results_gen. rewrite <- Hf.
  apply fold_ext_in. intros b t1 _. apply fee_block_canon.
Qed.

(* ---- THEOREM (transaction types) *)
Theorem type_store_read_back (f : func) (d : gdict (list string)) (t : state ctxobj) :
  (forall b, In b (function_blocks f) -> exists c, lookup ctxobj t b = Some c /\ ctx_shape c) ->
  (forall b fam, In b (function_blocks f) -> In fam all_fams -> bc_get d (key_of_fam "TransactionType" fam) b <> None) ->
  exists t', type_store_results_gen f d t = Some t' /\
    (forall b, ~ In b (function_blocks f) -> lookup ctxobj t' b = lookup ctxobj t b) /\
    (forall b c, lookup ctxobj t b = Some c -> ctx_shape c -> exists c', lookup ctxobj t' b = Some c' /\ ctx_shape c') /\
    (forall b, In b (function_blocks f) -> forall fam, In fam all_fams -> exists v o,
       bc_get d (key_of_fam "TransactionType" fam) b = Some v /\ read_slot t b fam = Some o /\ read_slot t' b fam = Some (type_upd v o)).
Proof.
  intros Hs Hl.
  destruct (canon_store_spec (list string) type_upd type_upd_idem (bc_get d) "TransactionType" (function_blocks f) t Hs Hl) as (t' & Hf & H).
  exists t'. split; [|exact H]. unfold type_store_results_gen. rewrite <- Hf.
  apply fold_ext_in. intros b t1 _. apply type_block_canon.
Qed.

(* ---- addresses: four (key, attribute) pairs, each stored for the keys listed in BASE_KEYS *)
(* a selector is an attribute: read-after-write and write-after-write *)
Definition sel_ok (Sl : addr_sel) : Prop :=
  (forall o a, as_get Sl (as_set Sl o a) = a) /\ (forall o a a', as_set Sl (as_set Sl o a) a' = as_set Sl o a').
Lemma addr_upd_idem Sl : sel_ok Sl -> forall v o, addr_upd Sl v (addr_upd Sl v o) = addr_upd Sl v o.
Proof.
  intros [H1 H2] v o. unfold addr_upd. rewrite H1, H2.
  unfold set_addr_values_gen, set_av_possible, set_av_no, set_av_any. cbn. reflexivity.
Qed.

(* the effect of the pairs on one slot: for each pair in order, the attribute receives the result of the slot's own key
   when the base key is listed in BASE_KEYS, and is left alone otherwise *)
Fixpoint addr_rel (d : gdict sset) (BK : list string) (b : nat) (fam : keyfam) (pairs : list (string * addr_sel)) (o o' : bctx) : Prop :=
  match pairs with
  | [] => o' = o
  | (key, Sl) :: rest =>
      exists o1, (if str_in key BK
                  then exists v, bc_get d (key_of_fam key fam) b = Some v /\ o1 = addr_upd Sl v o
                  else o1 = o) /\ addr_rel d BK b fam rest o1 o'
  end.

Lemma read_ctx_total c fam : ctx_shape c -> In fam all_fams -> exists o, read_ctx c fam = Some o.
Proof.
  intros Hs Hin. destruct (canon_ctx_spec unit (fun _ o => o) (fun _ => tt) "" c Hs) as (c' & _ & _ & H).
  destruct (H fam Hin) as (o & R & _). exists o. exact R.
Qed.

Definition addr_pairs_loop (f : func) (d : gdict sset) (BK : list string) (pairs : list (string * addr_sel)) (m : py (state ctxobj)) :=
  fold_left (fun acc tmp0 => bind acc (fun tctx =>
      let key := fst tmp0 in let addr_field_obj := snd tmp0 in
      if negb (str_in key BK) then ret tctx
      else fold_left (fun acc block => bind acc (fun tctx => addr_store_block_gen d BK key addr_field_obj block tctx))
             (function_blocks f) (ret tctx))) pairs m.

Theorem addr_pairs_spec (f : func) (d : gdict sset) (BK : list string) : forall pairs t,
  (forall p, In p pairs -> sel_ok (snd p)) ->
  (forall b, In b (function_blocks f) -> exists c, lookup ctxobj t b = Some c /\ ctx_shape c) ->
  (forall p b fam, In p pairs -> str_in (fst p) BK = true -> In b (function_blocks f) -> In fam all_fams ->
     bc_get d (key_of_fam (fst p) fam) b <> None) ->
  exists t', addr_pairs_loop f d BK pairs (Some t) = Some t' /\
    (forall b, ~ In b (function_blocks f) -> lookup ctxobj t' b = lookup ctxobj t b) /\
    (forall b c, lookup ctxobj t b = Some c -> ctx_shape c -> exists c', lookup ctxobj t' b = Some c' /\ ctx_shape c') /\
    (forall b, In b (function_blocks f) -> forall fam, In fam all_fams -> exists o o',
       read_slot t b fam = Some o /\ read_slot t' b fam = Some o' /\ addr_rel d BK b fam pairs o o').
Proof.
  induction pairs as [|[key Sl] pairs IH]; intros t Hok Hs Hl.
  - exists t. split; [reflexivity|]. split; [reflexivity|]. split.
    + intros b c Hc Hsc. exists c. split; assumption.
    + intros b Hb fam Hin. destruct (Hs b Hb) as (c & Hc & Hsc). destruct (read_ctx_total c fam Hsc Hin) as (o & R).
      exists o, o. unfold read_slot. rewrite Hc. cbn [bind]. repeat split; assumption.
  - unfold addr_pairs_loop. cbn [fold_left bind fst snd]. cbv zeta.
    destruct (str_in key BK) eqn:Ek; cbn [negb].
    + destruct (canon_store_spec sset (addr_upd Sl) (addr_upd_idem Sl (Hok (key, Sl) (or_introl eq_refl))) (bc_get d) key (function_blocks f) t Hs)
        as (t1 & Hf & Hout1 & Hsh1 & Hr1).
      { intros b fam Hb Hin. apply (Hl (key, Sl)); [left; reflexivity|exact Ek|exact Hb|exact Hin]. }
      destruct (IH t1) as (t' & Hf' & Hout & Hsh & Hr).
      { intros p Hp. apply Hok. right. exact Hp. }
      { intros b Hb. destruct (Hs b Hb) as (c & Hc & Hsc). exact (Hsh1 b c Hc Hsc). }
      { intros p b fam Hp. apply Hl. right. exact Hp. }
      exists t'. split; [|split; [|split]].
      * unfold ret at 1. rewrite <- Hf'. unfold addr_pairs_loop. f_equal.
        rewrite <- Hf. apply fold_ext_in. intros b t2 _. apply addr_block_canon.
      * intros b Hn. rewrite (Hout b Hn). apply Hout1. exact Hn.
      * intros b c Hc Hsc. destruct (Hsh1 b c Hc Hsc) as (c1 & Hc1 & Hsc1). exact (Hsh b c1 Hc1 Hsc1).
      * intros b Hb fam Hin. destruct (Hr1 b Hb fam Hin) as (v & o & Lv & R0 & R1).
        destruct (Hr b Hb fam Hin) as (o1 & o' & R1' & R2 & Hrel). rewrite R1 in R1'. injection R1' as <-.
        exists o, o'. split; [exact R0|]. split; [exact R2|]. cbn [addr_rel]. exists (addr_upd Sl v o). rewrite Ek.
        split; [exists v; split; [exact Lv|reflexivity]|exact Hrel].
    + destruct (IH t) as (t' & Hf' & Hout & Hsh & Hr).
      { intros p Hp. apply Hok. right. exact Hp. }
      { exact Hs. }
      { intros p b fam Hp. apply Hl. right. exact Hp. }
      exists t'. split; [exact Hf'|]. split; [exact Hout|]. split; [exact Hsh|].
      intros b Hb fam Hin. destruct (Hr b Hb fam Hin) as (o & o' & R0 & R1 & Hrel).
      exists o, o'. split; [exact R0|]. split; [exact R1|]. cbn [addr_rel]. exists o. rewrite Ek. split; [reflexivity|exact Hrel].
Qed.

(* the selector table _store_results builds *)
Definition addr_pairs : list (string * addr_sel) :=
  [("RekeyTo", mkSel ctx_rekeyto set_ctx_rekeyto); ("CloseRemainderTo", mkSel ctx_closeto set_ctx_closeto);
   ("AssetCloseTo", mkSel ctx_assetcloseto set_ctx_assetcloseto); ("Sender", mkSel ctx_sender set_ctx_sender)].
Lemma addr_pairs_ok : forall p, In p addr_pairs -> sel_ok (snd p).
Proof. intros p [<-|[<-|[<-|[<-|[]]]]]; split; intros; reflexivity. Qed.

(* ---- THEOREM (addresses), for every class attribute BASE_KEYS *)
Theorem addr_store_read_back (f : func) (d : gdict sset) (BK : list string) (t : state ctxobj) :
  (forall b, In b (function_blocks f) -> exists c, lookup ctxobj t b = Some c /\ ctx_shape c) ->
  (forall p b fam, In p addr_pairs -> str_in (fst p) BK = true -> In b (function_blocks f) -> In fam all_fams ->
     bc_get d (key_of_fam (fst p) fam) b <> None) ->
  exists t', addr_store_results_gen f d BK t = Some t' /\
    (forall b, ~ In b (function_blocks f) -> lookup ctxobj t' b = lookup ctxobj t b) /\
    (forall b c, lookup ctxobj t b = Some c -> ctx_shape c -> exists c', lookup ctxobj t' b = Some c' /\ ctx_shape c') /\
    (forall b, In b (function_blocks f) -> forall fam, In fam all_fams -> exists o o',
       read_slot t b fam = Some o /\ read_slot t' b fam = Some o' /\ addr_rel d BK b fam addr_pairs o o').
Proof. intros Hs Hl. exact (addr_pairs_spec f d BK addr_pairs t addr_pairs_ok Hs Hl). Qed.

(* ====================================================================== *)
(* 4. read-back in terms of attributes; the fresh objects of Function.__init__ *)
(* ====================================================================== *)
(* _set_addr_values overwrites all three attributes: the new state does not depend on the old one and is the
   AddrFieldValue the detectors' model reads (Detect.addrval_of) *)
Lemma set_addr_values_addrval_of a v : set_addr_values_gen a v = addrval_of v.
Proof.
  unfold set_addr_values_gen, addrval_of, set_av_possible, set_av_no, set_av_any. cbn [av_any av_no av_possible].
  f_equal. unfold set_diff. apply filter_ext. intros x.
  change (set_of_list [ANY_ADDRESS; NO_ADDRESS]) with [ANY_ADDRESS; NO_ADDRESS].
  unfold smem. cbn [existsb]. rewrite orb_false_r. reflexivity.
Qed.

Lemma lookup_fresh (f : func) b : In b (function_blocks f) -> lookup ctxobj (function_transaction_contexts_gen f) b = Some (init_ctx_gen false).
Proof.
  unfold function_transaction_contexts_gen. induction (function_blocks f) as [|x l IH]; intros H; [contradiction|].
  cbn [map lookup]. destruct (Nat.eqb x b) eqn:E; [reflexivity|]. destruct H as [->|H]; [rewrite Nat.eqb_refl in E; discriminate|auto].
Qed.
Definition is_tail (fam : keyfam) : bool := match fam with KSelf => false | _ => true end.
Lemma read_fresh fam : In fam all_fams -> read_ctx (init_ctx_gen false) fam = Some (init_fields_gen (is_tail fam)).
Proof.
  intros Hin. vm_compute in Hin.
  repeat (destruct Hin as [<-|Hin]; [vm_compute; reflexivity|]). contradiction.
Qed.
Lemma fresh_shapes f : forall b, In b (function_blocks f) -> exists c, lookup ctxobj (function_transaction_contexts_gen f) b = Some c /\ ctx_shape c.
Proof. intros b Hb. exists (init_ctx_gen false). split; [apply lookup_fresh; exact Hb|apply init_ctx_shape]. Qed.

(* ---- THEOREM (all three analyses, from the fresh objects).  After FeeField, TxnType and AddrFields have stored their
   results, every slot (b, fam) holds, attribute by attribute, the result of ITS OWN key of the field the attribute
   belongs to; group_sizes / group_indices / is_gtxn_context are as __init__ left them *)
Theorem store_all_read_back (f : func) (dF : gdict feeval) (dT : gdict (list string)) (dA : gdict sset) :
  (forall b fam, In b (function_blocks f) -> In fam all_fams -> bc_get dF (key_of_fam "Fee" fam) b <> None) ->
  (forall b fam, In b (function_blocks f) -> In fam all_fams -> bc_get dT (key_of_fam "TransactionType" fam) b <> None) ->
  (forall key b fam, In key addr_BASE_KEYS_gen -> In b (function_blocks f) -> In fam all_fams -> bc_get dA (key_of_fam key fam) b <> None) ->
  exists t1 t2 t3,
    fee_store_results_gen f dF (function_transaction_contexts_gen f) = Some t1 /\
    type_store_results_gen f dT t1 = Some t2 /\
    addr_store_results_gen f dA addr_BASE_KEYS_gen t2 = Some t3 /\
    forall b, In b (function_blocks f) -> forall fam, In fam all_fams ->
      exists vf vt v1 v2 v3 v4,
        bc_get dF (key_of_fam "Fee" fam) b = Some vf /\
        bc_get dT (key_of_fam "TransactionType" fam) b = Some vt /\
        bc_get dA (key_of_fam "RekeyTo" fam) b = Some v1 /\
        bc_get dA (key_of_fam "CloseRemainderTo" fam) b = Some v2 /\
        bc_get dA (key_of_fam "AssetCloseTo" fam) b = Some v3 /\
        bc_get dA (key_of_fam "Sender" fam) b = Some v4 /\
        read_slot t3 b fam = Some
          (mkBctx (addrval_of v1) (addrval_of v2) (addrval_of v3) (addrval_of v4) vt
                  (if fee_unknown vf then MAX_UINT64z else fee_value vf) (fee_unknown vf)
                  (ctx_group_sizes (init_fields_gen (is_tail fam))) (ctx_group_indices (init_fields_gen (is_tail fam))) (is_tail fam)).
Proof.
  intros HF HT HA.
  destruct (fee_store_read_back f dF _ (fresh_shapes f) HF) as (t1 & E1 & _ & S1 & R1).
  assert (Sh1 : forall b, In b (function_blocks f) -> exists c, lookup ctxobj t1 b = Some c /\ ctx_shape c).
  { intros b Hb. destruct (fresh_shapes f b Hb) as (c & Hc & Hs). exact (S1 b c Hc Hs). }
  destruct (type_store_read_back f dT t1 Sh1 HT) as (t2 & E2 & _ & S2 & R2).
  assert (Sh2 : forall b, In b (function_blocks f) -> exists c, lookup ctxobj t2 b = Some c /\ ctx_shape c).
  { intros b Hb. destruct (Sh1 b Hb) as (c & Hc & Hs). exact (S2 b c Hc Hs). }
  destruct (addr_store_read_back f dA addr_BASE_KEYS_gen t2 Sh2) as (t3 & E3 & _ & _ & R3).
  { intros p b fam Hp _ Hb Hin. apply HA; [|exact Hb|exact Hin].
    destruct Hp as [<-|[<-|[<-|[<-|[]]]]]; vm_compute; tauto. }
  exists t1, t2, t3. split; [exact E1|]. split; [exact E2|]. split; [exact E3|].
  intros b Hb fam Hin.
  destruct (R1 b Hb fam Hin) as (vf & o0 & Lf & Q0 & Q1).
  destruct (R2 b Hb fam Hin) as (vt & o1 & Lt & Q1' & Q2). rewrite Q1 in Q1'. injection Q1' as <-.
  destruct (R3 b Hb fam Hin) as (o2 & o3 & Q2' & Q3 & Hrel). rewrite Q2 in Q2'. injection Q2' as <-.
  unfold read_slot in Q0. rewrite (lookup_fresh f b Hb) in Q0. cbn [bind] in Q0. rewrite (read_fresh fam Hin) in Q0. injection Q0 as <-.
  cbn [addr_rel addr_pairs] in Hrel. change (str_in "RekeyTo" addr_BASE_KEYS_gen) with true in Hrel.
  change (str_in "CloseRemainderTo" addr_BASE_KEYS_gen) with true in Hrel. change (str_in "AssetCloseTo" addr_BASE_KEYS_gen) with true in Hrel.
  change (str_in "Sender" addr_BASE_KEYS_gen) with true in Hrel.
  destruct Hrel as (a1 & (v1 & L1 & ->) & a2 & (v2 & L2 & ->) & a3 & (v3 & L3 & ->) & a4 & (v4 & L4 & ->) & ->).
  exists vf, vt, v1, v2, v3, v4. repeat (split; [assumption|]). rewrite Q3. f_equal.
  unfold addr_upd. cbn [as_get as_set]. rewrite !set_addr_values_addrval_of.
  unfold type_upd, fee_upd. destruct fam; destruct (fee_unknown vf) eqn:Eu; cbn; rewrite ?Eu; reflexivity.
Qed.

(* ---- the model: Detect.ctx_of reads the model result r of Domains.run_all; when the three dictionaries hold the
   model's results (key_of_fam base fam |-> res_* r fam), every TAIL slot reads exactly ctx_of r b fam, and the head
   slot agrees with ctx_of r b KSelf on every attribute except group_sizes / group_indices, which
   GroupIndices._store_results writes (tools/translate_consts.py, ConstsGenLemmas.store_results_gen_eq) *)
Definition same_but_int (o o' : bctx) : Prop :=
  ctx_rekeyto o = ctx_rekeyto o' /\ ctx_closeto o = ctx_closeto o' /\ ctx_assetcloseto o = ctx_assetcloseto o' /\ ctx_sender o = ctx_sender o' /\
  ctx_transaction_types o = ctx_transaction_types o' /\ ctx_max_fee o = ctx_max_fee o' /\ ctx_max_fee_unknown o = ctx_max_fee_unknown o' /\
  ctx_is_gtxn_context o = ctx_is_gtxn_context o'.

Theorem store_all_ctx_of (f : func) (r : fn_result) (dF : gdict feeval) (dT : gdict (list string)) (dA : gdict sset) :
  (forall b fam, In b (function_blocks f) -> In fam all_fams -> bc_get dF (key_of_fam "Fee" fam) b = Some (res_fee r fam b)) ->
  (forall b fam, In b (function_blocks f) -> In fam all_fams -> bc_get dT (key_of_fam "TransactionType" fam) b = Some (res_types r fam b)) ->
  (forall key b fam, In key addr_BASE_KEYS_gen -> In b (function_blocks f) -> In fam all_fams ->
     bc_get dA (key_of_fam key fam) b = Some (res_addr r key fam b)) ->
  exists t1 t2 t3,
    fee_store_results_gen f dF (function_transaction_contexts_gen f) = Some t1 /\
    type_store_results_gen f dT t1 = Some t2 /\
    addr_store_results_gen f dA addr_BASE_KEYS_gen t2 = Some t3 /\
    forall b, In b (function_blocks f) -> forall fam, In fam all_fams ->
      exists o, read_slot t3 b fam = Some o /\ same_but_int o (ctx_of r b fam) /\ (fam <> KSelf -> o = ctx_of r b fam).
Proof.
  intros HF HT HA.
  destruct (store_all_read_back f dF dT dA) as (t1 & t2 & t3 & E1 & E2 & E3 & R).
  { intros b fam Hb Hin. rewrite (HF b fam Hb Hin). discriminate. }
  { intros b fam Hb Hin. rewrite (HT b fam Hb Hin). discriminate. }
  { intros key b fam Hk Hb Hin. rewrite (HA key b fam Hk Hb Hin). discriminate. }
  exists t1, t2, t3. repeat (split; [assumption|]). intros b Hb fam Hin.
  destruct (R b Hb fam Hin) as (vf & vt & v1 & v2 & v3 & v4 & Lf & Lt & L1 & L2 & L3 & L4 & Q).
  rewrite (HF b fam Hb Hin) in Lf. injection Lf as <-. rewrite (HT b fam Hb Hin) in Lt. injection Lt as <-.
  rewrite (HA "RekeyTo" b fam) in L1 by (assumption || (vm_compute; tauto)). injection L1 as <-.
  rewrite (HA "CloseRemainderTo" b fam) in L2 by (assumption || (vm_compute; tauto)). injection L2 as <-.
  rewrite (HA "AssetCloseTo" b fam) in L3 by (assumption || (vm_compute; tauto)). injection L3 as <-.
  rewrite (HA "Sender" b fam) in L4 by (assumption || (vm_compute; tauto)). injection L4 as <-.
  eexists. split; [exact Q|]. split.
  - unfold same_but_int, ctx_of. cbn. destruct fam; repeat split; reflexivity.
  - intros Hne. unfold ctx_of. destruct fam; [congruence| | |]; reflexivity.
Qed.

(* ====================================================================== *)
(* 5. non-vacuity (concrete inputs) and a documented limit of the accessors *)
(* ====================================================================== *)
Definition ex_func : func := mkFunc [mkIns 1 (IInt (IANum 1))] [mkBlock 0 [0] [] []; mkBlock 1 [0] [] []] 0 [0; 1] [] [] None.
(* a result for every key and both blocks: block 0 holds the universal value, block 1 a value that encodes the family *)
Definition ex_code (fam : keyfam) : Z :=
  match fam with KSelf => 1000 | KAtIndex i => 2000 + Z.of_N i | KAbs i => 3000 + Z.of_N i | KRel k => 4000 + k end.
Definition ex_dF : gdict feeval :=
  map (fun fam => (key_of_fam "Fee" fam, [(0%nat, mkFee true MAX_UINT64z); (1%nat, mkFee false (ex_code fam))])) all_fams.
Definition ex_dT : gdict (list string) :=
  map (fun fam => (key_of_fam "TransactionType" fam, [(0%nat, ["Pay"]); (1%nat, match fam with KRel _ => ["Axfer"] | _ => ["Appl"] end)])) all_fams.
Definition ex_dA : gdict sset :=
  flat_map (fun key => map (fun fam => (key_of_fam key fam,
     [(0%nat, [ANY_ADDRESS]); (1%nat, match fam with KAbs 7 => if String.eqb key "Sender" then ["ADDR7"] else [NO_ADDRESS] | _ => [ANY_ADDRESS] end)])) all_fams)
    addr_BASE_KEYS_gen.

Example fee_store_example : exists t',
  fee_store_results_gen ex_func ex_dF (function_transaction_contexts_gen ex_func) = Some t' /\
  option_map ctx_max_fee (read_slot t' 1 (KRel (-3))) = Some 3997%Z /\
  option_map ctx_max_fee (read_slot t' 1 (KRel 3)) = Some 4003%Z /\
  option_map ctx_max_fee (read_slot t' 1 (KAtIndex 15)) = Some 2015%Z /\
  option_map ctx_max_fee (read_slot t' 1 (KAbs 0)) = Some 3000%Z /\
  option_map ctx_max_fee (read_slot t' 1 KSelf) = Some 1000%Z /\
  option_map ctx_max_fee_unknown (read_slot t' 0 (KAbs 4)) = Some true /\
  option_map ctx_max_fee (read_slot t' 0 (KAbs 4)) = Some MAX_UINT64z.
Proof. eexists. split; [vm_compute; reflexivity|]. repeat split; vm_compute; reflexivity. Qed.

Example type_store_example : exists t',
  type_store_results_gen ex_func ex_dT (function_transaction_contexts_gen ex_func) = Some t' /\
  option_map ctx_transaction_types (read_slot t' 1 (KRel (-15))) = Some ["Axfer"] /\
  option_map ctx_transaction_types (read_slot t' 1 (KAbs 15)) = Some ["Appl"] /\
  option_map ctx_transaction_types (read_slot t' 0 KSelf) = Some ["Pay"].
Proof. eexists. split; [vm_compute; reflexivity|]. repeat split; vm_compute; reflexivity. Qed.

Example addr_store_example : exists t',
  addr_store_results_gen ex_func ex_dA addr_BASE_KEYS_gen (function_transaction_contexts_gen ex_func) = Some t' /\
  option_map ctx_sender (read_slot t' 1 (KAbs 7)) = Some (mkAddrVal false false ["ADDR7"]) /\
  option_map ctx_rekeyto (read_slot t' 1 (KAbs 7)) = Some (mkAddrVal false true []) /\
  option_map ctx_sender (read_slot t' 1 (KAtIndex 7)) = Some (mkAddrVal true false []) /\
  option_map ctx_sender (read_slot t' 1 (KAbs 8)) = Some (mkAddrVal true false []).
Proof. eexists. split; [vm_compute; reflexivity|]. repeat split; vm_compute; reflexivity. Qed.

(* the hypotheses of store_all_read_back are satisfiable *)
Example store_all_example_hyps :
  (forall b fam, In b (function_blocks ex_func) -> In fam all_fams -> bc_get ex_dF (key_of_fam "Fee" fam) b <> None) /\
  (forall b fam, In b (function_blocks ex_func) -> In fam all_fams -> bc_get ex_dT (key_of_fam "TransactionType" fam) b <> None) /\
  (forall key b fam, In key addr_BASE_KEYS_gen -> In b (function_blocks ex_func) -> In fam all_fams -> bc_get ex_dA (key_of_fam key fam) b <> None).
Proof.
  assert (HF : forallb (fun b => forallb (fun fam => negb (is_none (bc_get ex_dF (key_of_fam "Fee" fam) b))) all_fams) (function_blocks ex_func) = true) by (vm_compute; reflexivity).
  assert (HT : forallb (fun b => forallb (fun fam => negb (is_none (bc_get ex_dT (key_of_fam "TransactionType" fam) b))) all_fams) (function_blocks ex_func) = true) by (vm_compute; reflexivity).
  assert (HA : forallb (fun key => forallb (fun b => forallb (fun fam => negb (is_none (bc_get ex_dA (key_of_fam key fam) b))) all_fams) (function_blocks ex_func)) addr_BASE_KEYS_gen = true) by (vm_compute; reflexivity).
  rewrite forallb_forall in HF, HT, HA. repeat split.
  - intros b fam Hb Hin E. specialize (HF b Hb). rewrite forallb_forall in HF. specialize (HF fam Hin). rewrite E in HF. discriminate.
  - intros b fam Hb Hin E. specialize (HT b Hb). rewrite forallb_forall in HT. specialize (HT fam Hin). rewrite E in HT. discriminate.
  - intros key b fam Hk Hb Hin E. specialize (HA key Hk). rewrite forallb_forall in HA. specialize (HA b Hb). rewrite forallb_forall in HA.
    specialize (HA fam Hin). rewrite E in HA. discriminate.
Qed.

(* a missing result is a KeyError: the store does not silently leave the default *)
Example fee_store_missing_key_raises :
  fee_store_results_gen ex_func (filter (fun kv => negb (String.eqb (fst kv) "GTXN_RELATIVE_-1_Fee")) ex_dF) (function_transaction_contexts_gen ex_func) = None.
Proof. vm_compute. reflexivity. Qed.

(* LIMIT of the accessors (outside the 0..15 quantifier of the theorems): they test only the upper bound, so a negative
   index is Python's index from the end and ALIASES a slot of the range: gtxn_context(-1) is the slot of index 15
   (DESIGN section 9: `absolute_index: -1` in a group configuration); an offset outside -15..15 or 0 raises *)
Theorem accessor_all_ints_refuted :
  gtxn_context_gen (init_ctx_gen false) (-1) = gtxn_context_gen (init_ctx_gen false) 15 /\
  absolute_context_gen (init_ctx_gen false) (-16) = absolute_context_gen (init_ctx_gen false) 0 /\
  gtxn_context_gen (init_ctx_gen false) 16 = None /\ gtxn_context_gen (init_ctx_gen false) (-17) = None /\
  relative_context_gen (init_ctx_gen false) 0 = None /\ relative_context_gen (init_ctx_gen false) 16 = None /\
  relative_context_gen (init_ctx_gen false) (-16) = None /\ gtxn_context_gen (init_ctx_gen true) 0 = None.
Proof. repeat split; vm_compute; reflexivity. Qed.
(* within the range the accessors are injective: distinct families are distinct references *)
Theorem accessor_refs_distinct : forall c, ctx_shape c -> forall fam1 fam2, In fam1 all_fams -> In fam2 all_fams ->
  slot_ref c fam1 <> None /\ (slot_ref c fam1 = slot_ref c fam2 -> fam1 = fam2).
Proof.
  intros c Hs fam1 fam2 H1 H2. destruct (ctx_shape_explicit c Hs) as (own & g & a & rv & Lg & La & Lr & ->).
  destruct (list16 g Lg) as (g0&g1&g2&g3&g4&g5&g6&g7&g8&g9&g10&g11&g12&g13&g14&g15&->).
  destruct (list16 a La) as (a0&a1&a2&a3&a4&a5&a6&a7&a8&a9&a10&a11&a12&a13&a14&a15&->).
  destruct (list30 rv Lr) as (r0&r1&r2&r3&r4&r5&r6&r7&r8&r9&r10&r11&r12&r13&r14&r15&r16&r17&r18&r19&r20&r21&r22&r23&r24&r25&r26&r27&r28&r29&->).
  set (c := mkCtx _ _ _ _).
  assert (E : map (slot_ref c) all_fams = map (fun fam => Some (match fam with KSelf => RSelf | KAtIndex i => RGtxn (N.to_nat i) | KAbs i => RAbs (N.to_nat i) | KRel k => RRel k end)) all_fams)
    by (vm_compute; reflexivity).
  assert (Q : forall fam, In fam all_fams -> slot_ref c fam = Some (match fam with KSelf => RSelf | KAtIndex i => RGtxn (N.to_nat i) | KAbs i => RAbs (N.to_nat i) | KRel k => RRel k end)).
  { intros fam Hin. clear - E Hin. revert E. induction all_fams as [|x l IH]; [contradiction|]. cbn [map]. intros E. injection E as E0 E.
    destruct Hin as [<-|Hin]; [exact E0|auto]. }
  rewrite (Q fam1 H1), (Q fam2 H2). split; [discriminate|]. intros E'. injection E' as E'.
  destruct fam1, fam2; try discriminate; try reflexivity; injection E' as E'; f_equal; lia.
Qed.

(* the objects __init__ creates are the model's contexts of an empty result: every attribute at its universal value *)
Theorem init_fields_model :
  init_fields_gen true = ctx_of (mkRes [] [] [] [] []) 0 (KAbs 0) /\
  init_fields_gen false = mkBctx (mkAddrVal true false []) (mkAddrVal true false []) (mkAddrVal true false []) (mkAddrVal true false [])
                            ALL_TRANSACTION_TYPES MAX_UINT64z false (zrange 1 17) (zrange 0 16) false /\
  new_AddrFieldValue_gen = addrval_of addr_universal_set.
Proof. repeat split; vm_compute; reflexivity. Qed.

Print Assumptions fee_store_read_back.
Print Assumptions type_store_read_back.
Print Assumptions addr_store_read_back.
Print Assumptions store_all_read_back.
Print Assumptions store_all_ctx_of.
Print Assumptions accessor_refs_distinct.
