(* The function construction REGENERATED from tealer's Python source (Gen/FunctionGen.v: dispatch_walk_gen, cut_path_gen,
   identify_subroutine_blocks_floop_gen / _fgen, function_main_blocks_gen, called_subroutines_gen,
   used_subroutines_loop_gen / used_subroutines_gen, function_object_gen, construct_function_gen -- translated statement
   by statement from teal/parse_functions.py (construct_function, in the segments A..E of its body),
   teal/parse_teal.py (identify_subroutine_blocks, read on the function heap) and teal/subroutine.py
   (Subroutine.called_subroutines) by tools/translate_function.py) against the hand-written model: Model/Group.v
   (walk_path, cut_block / cut_path, dfs_list, construct_function) and Model/Detect.v (dedup_first, used_subs).

   Representation (prelude of Gen/FunctionGen.v): a BasicBlock object of the function is an identifier, its cell the
   element of fh_blocks with that b_idx (Group.get_blk / set_block); an Instruction object is its position in fh_prog;
   a Subroutine object is FunctionMain or TealSub name; `_idx` / `_line_num` stored by construct_function live in the
   tables fh_idx / fh_line.  copy_main_cfg is NOT translated: its result is the pair (function_blocks0 t, heap0 t) =
   the model's initial state Group.fn_state0 (main blocks of the contract under their own idx, same cells).

   Results, for EVERY t with parse_teal p = Ok t and EVERY path (list of block indices "B<n>"):
   1. the walk (dispatch_walk_gen_eq): dispatch_walk_gen (function_blocks0 t) path (heap0 t) = Some (walk_path t path [0] []):
      same accepted blocks, same TealerException ("Dispatch path is a loop" / "Invalid dispatch path"), no other
      exception.  Transported: dispatch_walk_gen_spec (GroupLemmas.dispatch_path_spec).
   2. the cutting loop (cut_path_gen_eq): on the accepted blocks it leaves heap_of t (cut_path (fn_state0 t) path): the
      model's cells in the same order, the appended err instructions, the next fresh identifier, and in the tables
      exactly  err_block.idx = (nx << 16) + nx  and  err_instruction.line = (entry line of nx << 16) + exit line of bi
      for every entry (eid, (nx, bi)) of the model's origin table fs_errs (err_idx, err_line).  No exception.
      Transported: cut_path_gen_spec (GroupLemmas.cut_path_spec).
   3. the closure (called_subroutines_gen_sub, used_subroutines_loop_gen_sound, used_subroutines_gen_eq): the property
      on a subroutine of the contract is dict.fromkeys of its call sites (= dedup_first (called_from ..)); for EVERY
      budget the generated worklist loop raises no exception and, if it ends, returns Detect.used_subs with the same
      budget; the budget S (S |t_subs t|) suffices.
   4. main blocks and assembly (identify_floop_gen_sound, identify_subroutine_blocks_fgen_eq, function_main_blocks_gen_eq,
      function_object_gen_eq) and the whole function: construct_function_gen_eq (generated = Group.construct_function
      with the model's budgets: same func record, heap tables = formulas of fs_errs), construct_function_gen_rejected
      (same TealerException for every budget), construct_function_gen_empty (path [] : Python IndexError = None; the
      model says Err "IndexError: empty dispatch path"), construct_function_gen_inv (the converse).
      Transported: construct_function_gen_graph_ok (CutGraphOk.cutfun_graph_ok), construct_function_gen_run_complete
      (CutExec.cutfun_run_complete).
   5. copy_main_cfg: assumption only (fingerprinted text; see the prelude of Gen/FunctionGen.v).

   Differences between the Python text and the hand-written model found while proving (none changes a result on a
   parsed contract; each is now a proved fact, not a reading):
   - `bi.next[j] = err_block` replaces POSITION j; Group.cut_block replaces EVERY occurrence of the successor
     (map (fun y => if y =? nx then eid else y)).  Equal because successor lists are duplicate free
     (fs_wf / fw_next_nodup, kept by the cuts): fl_setitem_repl.
   - `bi_next.prev.remove(bi)` raises ValueError when bi is absent; Group.remove_first_nat is total.  The exception
     never happens: bi is a predecessor of each of its successors (SubLemmas.tblock_mirror) and earlier cuts only
     remove OTHER path blocks from predecessor lists (binv / bv_rest).  No NoDup of the predecessor lists is needed.
   - Python scans current_valid_next_blocks for the FIRST block whose idx is the wanted index; the model tests
     nat_mem and then uses the index itself.  Equal because _idx of a copied block is its identity (assumption 5).
   - `if sub not in worklist` in the closure is redundant: whenever a callee is not in used_subroutines it is not in
     the worklist either (closure_fold; the worklist only holds function_main and members of used_subroutines).
     Detect.used_subs appends to the worklist unconditionally.  The Python loop also spends one iteration on
     function_main, which the model unrolls (called); hence the budget + 1.
   - the loop that drops predecessors removes them one by one from the live list while iterating over a snapshot;
     this is the model's filter even for predecessor lists WITH duplicates (prevf_inner_fold).
   - the err block keeps _idx = 0 and the err instruction _line_num = 0 until the two stores; the model records
     line 0 in fs_prog and leaves idx / line to Driver.impl_idx: the tables proved here are that formula. *)
From Coq Require Import String List NArith ZArith Bool Arith Lia.
From Tealer Require Import Tables LeafPrelude Leaves Syntax Parse Cfg StackAst Keys Analysis Domains Detect Group.
From Tealer Require Import KeysGen FunctionGen.
From Tealer Require Import CfgLemmas SubLemmas GraphWf GroupLemmas CutExec CutExecEx CutGraphOk SubOrderEx.
Import ListNotations.
Open Scope string_scope.
Open Scope list_scope.

(* ====================================================================== *)
(* 0. The assumed result of copy_main_cfg, small facts                     *)
(* ====================================================================== *)
(* copy_main_cfg(teal): the copies of the main blocks sorted by idx, in a heap that is the model's initial state *)
Definition function_blocks0 (t : teal) : list nat :=
  filter (fun k => nat_mem k (s_blocks (t_main t))) (seq 0 (S (max_idx (t_blocks t)))).
Definition heap_of_state (s : fstate) (idx line : list (nat * nat)) : fheap :=
  mkFH (fs_blocks s) (fs_prog s) (fs_next_id s) idx line.
Definition heap0 (t : teal) : fheap := heap_of_state (fn_state0 t) [] [].

Lemma bind_some {A B} (a : A) (f : A -> py B) : bind (Some a) f = f a.
Proof. reflexivity. Qed.
Lemma bind_none {A B} (f : A -> py B) : bind None f = None.
Proof. reflexivity. Qed.

Lemma fold_bind_none {S X : Type} (g : py S -> X -> py S) (l : list X) :
  (forall x, g None x = None) -> fold_left g l None = None.
Proof. intros H. induction l as [|x l IH]; [reflexivity|]. simpl. rewrite H. exact IH. Qed.

Lemma fl_mem_nat_mem x l : fl_mem x l = nat_mem x l.
Proof. reflexivity. Qed.

Lemma function_blocks0_head p t : parse_teal p = Ok t -> fl_nth (function_blocks0 t) 0 = Some 0.
Proof.
  intros Hp. unfold function_blocks0. cbn [seq filter].
  assert (E : nat_mem 0 (s_blocks (t_main t)) = true) by (apply nat_mem_In; apply (zero_main p t Hp)).
  rewrite E. reflexivity.
Qed.

(* ====================================================================== *)
(* 1. Segment A: the dispatch-path walk = Group.walk_path                  *)
(* ====================================================================== *)
Definition wstate : Type := (ctl * list nat * list nat)%type.

(* the bodies of the two loops, as generated *)
Definition walk_inner (heap : fheap) (block_index : nat) : py wstate -> nat -> py wstate :=
  (fun acc2 bi => (bind acc2 (fun st2 =>
          (let dispatch_path_blocks := (snd (fst st2)) in
          (let current_valid_next_blocks := (snd st2) in
          (match (fst (fst st2)) with
           | Run =>
              (ifE (bind (fo_idx heap bi) (fun tmp1 => (ret (Nat.eqb tmp1 block_index))))
                  (if (fl_mem bi dispatch_path_blocks)
                   then
                      (ret ((Raised "TealerException: Dispatch path is a loop"), dispatch_path_blocks, current_valid_next_blocks))
                   else
                      (let dispatch_path_blocks := (dispatch_path_blocks ++ [bi]) in
                      (bind (fo_next heap bi) (fun current_valid_next_blocks =>
                      (ret (Broke, dispatch_path_blocks, current_valid_next_blocks))))))
                  (ret (Run, dispatch_path_blocks, current_valid_next_blocks)))
           | _ => (ret st2)
           end)))))).

Definition walk_outer (heap : fheap) : py wstate -> nat -> py wstate :=
  (fun acc bid => (bind acc (fun st =>
    (let dispatch_path_blocks := (snd (fst st)) in
    (let current_valid_next_blocks := (snd st) in
    (match (fst (fst st)) with
     | Run =>
        (let block_index := (bid_index bid) in
        (bind (fold_left (walk_inner heap block_index)
          current_valid_next_blocks (ret (Run, dispatch_path_blocks, current_valid_next_blocks))) (fun tmp2 =>
        (let dispatch_path_blocks := (snd (fst tmp2)) in
        (let current_valid_next_blocks := (snd tmp2) in
        (match (fst (fst tmp2)) with
         | Raised exc2 =>
            (ret ((Raised exc2), dispatch_path_blocks, current_valid_next_blocks))
         | Run =>
            (ret ((Raised "TealerException: Invalid dispatch path"), dispatch_path_blocks, current_valid_next_blocks))
         | _ =>
            (ret (Run, dispatch_path_blocks, current_valid_next_blocks))
         end))))))
     | _ => (ret st)
     end)))))).

Lemma dispatch_walk_gen_unfold fb dp heap :
  dispatch_walk_gen fb dp heap =
  bind (fl_nth fb 0) (fun entry =>
  bind (fold_left (walk_outer heap) dp (ret (Run, [], [entry]))) (fun tmp3 =>
  match fst (fst tmp3) with
  | Raised e => ret (Err e)
  | _ => ret (Ok (snd (fst tmp3)))
  end)).
Proof. reflexivity. Qed.

Lemma walk_inner_none heap bi x : walk_inner heap bi None x = None.
Proof. reflexivity. Qed.

Lemma walk_inner_stop heap bi c a cv : c <> Run -> forall l,
  fold_left (walk_inner heap bi) l (Some (c, a, cv)) = Some (c, a, cv).
Proof.
  intros Hc. induction l as [|x l IH]; [reflexivity|]. cbn [fold_left]. rewrite <- IH at 2. f_equal.
  unfold walk_inner. cbn [bind fst snd]. destruct c; [contradiction | reflexivity | reflexivity].
Qed.

(* the inner loop: the first block of [valid] whose idx is [bid] *)
Lemma walk_inner_fold heap bid acc cv : forall valid,
  (forall x, In x valid -> fo_idx heap x = Some x) ->
  fold_left (walk_inner heap bid) valid (Some (Run, acc, cv)) =
  if nat_mem bid valid then
    if nat_mem bid acc then Some (Raised "TealerException: Dispatch path is a loop", acc, cv)
    else bind (fo_next heap bid) (fun nx => Some (Broke, acc ++ [bid], nx))
  else Some (Run, acc, cv).
Proof.
  induction valid as [|a valid IH]; intros Hidx; [reflexivity|].
  cbn [fold_left]. unfold nat_mem at 1. cbn [existsb]. fold (nat_mem bid valid).
  assert (Ea : walk_inner heap bid (Some (Run, acc, cv)) a =
               if Nat.eqb a bid then
                 if nat_mem a acc then Some (Raised "TealerException: Dispatch path is a loop", acc, cv)
                 else bind (fo_next heap a) (fun nx => Some (Broke, acc ++ [a], nx))
               else Some (Run, acc, cv)).
  { unfold walk_inner. cbn [bind fst snd]. rewrite (Hidx a (or_introl eq_refl)). cbn [bind ret ifE].
    destruct (Nat.eqb a bid); [|reflexivity]. rewrite fl_mem_nat_mem. destruct (nat_mem a acc); reflexivity. }
  rewrite Ea. rewrite (Nat.eqb_sym bid a). destruct (Nat.eqb a bid) eqn:E.
  - apply Nat.eqb_eq in E. subst a. cbn [orb]. destruct (nat_mem bid acc).
    + apply walk_inner_stop. discriminate.
    + destruct (fo_next heap bid) as [nx|]; cbn [bind].
      * apply walk_inner_stop. discriminate.
      * apply fold_bind_none. intros x. apply walk_inner_none.
  - cbn [orb]. apply IH. intros x Hx. apply Hidx. right. exact Hx.
Qed.

Lemma walk_outer_none heap x : walk_outer heap None x = None.
Proof. reflexivity. Qed.

Lemma walk_outer_raised heap e a cv : forall l,
  fold_left (walk_outer heap) l (Some (Raised e, a, cv)) = Some (Raised e, a, cv).
Proof. induction l as [|x l IH]; [reflexivity|]. cbn [fold_left]. exact IH. Qed.

(* what the outer loop leaves, against the model's walk *)
Definition walk_res (r : res (list nat)) (o : py wstate) : Prop :=
  match r with
  | Ok l => exists cv, o = Some (Run, l, cv)
  | Err e => exists a cv, o = Some (Raised e, a, cv)
  end.

Section Walk.
  Variables (p : prog) (t : teal).
  Hypothesis Hparse : parse_teal p = Ok t.
  Let mainl := s_blocks (t_main t).

  Lemma heap0_cell n : In n mainl -> get_blk (fh_blocks (heap0 t)) n = tblock t n.
  Proof. intros Hn. exact (fn_state0_get p t Hparse n Hn). Qed.

  Lemma heap0_idx n : In n mainl -> fo_idx (heap0 t) n = Some n.
  Proof.
    intros Hn. unfold fo_idx. rewrite (heap0_cell n Hn). destruct (main_tblock p t Hparse n Hn) as (b & ->). reflexivity.
  Qed.

  Lemma heap0_next n : In n mainl -> fo_next (heap0 t) n = Some (tnext t n).
  Proof.
    intros Hn. unfold fo_next, tnext. rewrite (heap0_cell n Hn). destruct (main_tblock p t Hparse n Hn) as (b & ->). reflexivity.
  Qed.

  Lemma tnext_main n y : In n mainl -> In y (tnext t n) -> In y mainl.
  Proof.
    intros Hn Hy. unfold tnext in Hy. destruct (tblock t n) as [b|] eqn:E; [|destruct Hy].
    exact (main_succ_closed p t Hparse n b y Hn E Hy).
  Qed.

  Lemma walk_outer_fold : forall path valid acc,
    (forall x, In x valid -> In x mainl) ->
    walk_res (walk_path t path valid acc) (fold_left (walk_outer (heap0 t)) path (Some (Run, acc, valid))).
  Proof.
    induction path as [|bid rest IH]; intros valid acc Hv.
    - cbn. eauto.
    - rewrite walk_path_cons. cbn [fold_left].
      assert (Es : walk_outer (heap0 t) (Some (Run, acc, valid)) bid =
                   bind (fold_left (walk_inner (heap0 t) bid) valid (Some (Run, acc, valid))) (fun tmp2 =>
                   match fst (fst tmp2) with
                   | Raised e => Some (Raised e, snd (fst tmp2), snd tmp2)
                   | Run => Some (Raised "TealerException: Invalid dispatch path", snd (fst tmp2), snd tmp2)
                   | _ => Some (Run, snd (fst tmp2), snd tmp2)
                   end)) by reflexivity.
      rewrite Es. rewrite walk_inner_fold by (intros x Hx; apply heap0_idx; apply Hv; exact Hx).
      destruct (nat_mem bid valid) eqn:Ev.
      + destruct (nat_mem bid acc) eqn:Ea.
        * cbn [bind fst snd]. rewrite walk_outer_raised. cbn. eauto.
        * apply nat_mem_In in Ev. rewrite (heap0_next bid (Hv bid Ev)). cbn [bind fst snd].
          apply IH. intros x Hx. exact (tnext_main bid x (Hv bid Ev) Hx).
      + cbn [bind fst snd]. rewrite walk_outer_raised. cbn. eauto.
  Qed.

  (* THEOREM 1: the generated walk, run on the assumed result of copy_main_cfg, is the model's walk_path: same
     dispatch-path blocks, same TealerException (loop / invalid path), and no other exception, for EVERY path *)
  Theorem dispatch_walk_gen_eq path :
    dispatch_walk_gen (function_blocks0 t) path (heap0 t) = Some (walk_path t path [0] []).
  Proof.
    rewrite dispatch_walk_gen_unfold, (function_blocks0_head p t Hparse). cbn [bind].
    pose proof (walk_outer_fold path [0] []) as H.
    assert (H0 : forall x, In x [0] -> In x mainl) by (intros x [<-|[]]; apply (zero_main p t Hparse)).
    specialize (H H0). unfold ret. destruct (walk_path t path [0] []) as [l|e]; cbn [walk_res] in H.
    - destruct H as (cv & ->). reflexivity.
    - destruct H as (a & cv & ->). reflexivity.
  Qed.

  (* TRANSPORTED (GroupLemmas.dispatch_path_spec): what the generated walk accepts *)
  Theorem dispatch_walk_gen_spec path r :
    dispatch_walk_gen (function_blocks0 t) path (heap0 t) = Some (Ok r) ->
    r = path /\ NoDup path /\ chain t [0] path /\ (forall b rest, path = b :: rest -> b = 0).
  Proof. rewrite dispatch_walk_gen_eq. intros H. inversion H as [H1]. apply dispatch_path_spec. exact H1. Qed.
End Walk.

(* ====================================================================== *)
(* 2. Segment B: the cutting loop = Group.cut_path                         *)
(* ====================================================================== *)
(* ---- the heap operations on explicit heaps *)
Lemma get_blk_snoc_old bs d x c : get_blk bs x = Some c -> get_blk (bs ++ [d]) x = Some c.
Proof. intros H. rewrite get_blk_app, H. reflexivity. Qed.

Lemma get_blk_snoc_new bs d : ~ In (b_idx d) (map b_idx bs) -> get_blk (bs ++ [d]) (b_idx d) = Some d.
Proof.
  intros H. rewrite get_blk_app. apply get_blk_none in H. rewrite H. unfold get_blk. cbn [find].
  rewrite Nat.eqb_refl. reflexivity.
Qed.

Lemma set_block_snoc_old bs d c : b_idx c <> b_idx d -> set_block (bs ++ [d]) c = set_block bs c ++ [d].
Proof.
  intros H. unfold set_block. rewrite map_app. cbn [map]. apply Nat.eqb_neq in H. rewrite (Nat.eqb_sym (b_idx d)), H. reflexivity.
Qed.

Lemma set_block_absent bs c : ~ In (b_idx c) (map b_idx bs) -> set_block bs c = bs.
Proof.
  intros H. unfold set_block. rewrite <- (map_id bs) at 2. apply map_ext_in. intros x Hx.
  destruct (Nat.eqb (b_idx x) (b_idx c)) eqn:E; [|reflexivity]. apply Nat.eqb_eq in E. exfalso. apply H.
  rewrite <- E. apply in_map. exact Hx.
Qed.

Lemma set_block_snoc_new bs d c : ~ In (b_idx c) (map b_idx bs) -> b_idx c = b_idx d -> set_block (bs ++ [d]) c = bs ++ [c].
Proof.
  intros H E. unfold set_block at 1. rewrite map_app. fold (set_block bs c). rewrite (set_block_absent bs c H).
  cbn [map]. rewrite E, Nat.eqb_refl. reflexivity.
Qed.

Lemma tab_get_none d k : ~ In k (map fst d) -> tab_get d k = None.
Proof.
  induction d as [|[k' v] d IH]; intros H; [reflexivity|]. cbn [tab_get]. cbn [map fst] in H.
  destruct (Nat.eqb k' k) eqn:E; [apply Nat.eqb_eq in E; exfalso; apply H; left; exact E|].
  apply IH. intro Hin. apply H. right. exact Hin.
Qed.

Lemma tab_get_snoc_none d k k' w : tab_get d k = None -> k' <> k -> tab_get (d ++ [(k', w)]) k = None.
Proof.
  intros H Hne. induction d as [|[k0 v] d IH]; cbn [app tab_get] in *.
  - apply Nat.eqb_neq in Hne. rewrite Hne. reflexivity.
  - destruct (Nat.eqb k0 k); [discriminate|]. apply IH. exact H.
Qed.

Lemma tab_set_snoc d k w v : ~ In k (map fst d) -> tab_set (d ++ [(k, w)]) k v = d ++ [(k, v)].
Proof.
  induction d as [|[k0 v0] d IH]; intros H; cbn [app tab_set].
  - rewrite Nat.eqb_refl. reflexivity.
  - cbn [map fst] in H. destruct (Nat.eqb k0 k) eqn:E; [apply Nat.eqb_eq in E; exfalso; apply H; left; exact E|].
    f_equal. apply IH. intro Hin. apply H. right. exact Hin.
Qed.

Lemma tab_set_new d k v : ~ In k (map fst d) -> tab_set d k v = d ++ [(k, v)].
Proof.
  induction d as [|[k0 v0] d IH]; intros H; cbn [app tab_set]; [reflexivity|].
  cbn [map fst] in H. destruct (Nat.eqb k0 k) eqn:E; [apply Nat.eqb_eq in E; exfalso; apply H; left; exact E|].
  f_equal. apply IH. intro Hin. apply H. right. exact Hin.
Qed.

Lemma fl_setitem_repl e nx : forall l j, NoDup l -> nth_error l j = Some nx ->
  fl_setitem l j e = Some (map (fun y => if Nat.eqb y nx then e else y) l).
Proof.
  induction l as [|a l IH]; intros j Hnd Hj; [destruct j; discriminate|].
  apply NoDup_cons_iff in Hnd. destruct Hnd as [Ha Hnd]. destruct j as [|j]; cbn [nth_error fl_setitem map] in *.
  - inversion Hj; subst a. rewrite Nat.eqb_refl, map_repl_notin by exact Ha. reflexivity.
  - rewrite (IH j Hnd Hj). cbn [bind ret]. destruct (Nat.eqb a nx) eqn:E; [|reflexivity].
    apply Nat.eqb_eq in E. subst a. exfalso. apply Ha. eapply nth_error_In. exact Hj.
Qed.

Lemma fl_remove_first x : forall l, In x l -> fl_remove l x = Some (remove_first_nat x l).
Proof.
  induction l as [|a l IH]; intros H; [destruct H|]. cbn [fl_remove remove_first_nat]. rewrite (Nat.eqb_sym a x).
  destruct (Nat.eqb x a) eqn:E; [reflexivity|]. destruct H as [H|H]; [apply Nat.eqb_neq in E; congruence|].
  rewrite (IH H). reflexivity.
Qed.

(* ---- the bodies of the two loops, as generated *)
Definition cut_inner (bi valid_next : nat) : py fheap -> nat * nat -> py fheap :=
  (fun acc2 tmp3 => (bind acc2 (fun st2 =>
      (let heap := st2 in
      (let j := (fst tmp3) in
      (let bi_next := (snd tmp3) in
      (if (negb (Nat.eqb bi_next valid_next))
       then
          (let tmp4 := (new_BasicBlock heap) in
          (let err_block := (fst tmp4) in
          (let heap := (snd tmp4) in
          (let tmp5 := (new_TealerCustomErrInstruction heap) in
          (let err_instruction := (fst tmp5) in
          (let heap := (snd tmp5) in
          (bind (bind (bind (bind (bind (fo_entry_instr heap bi_next) (fun tmp6 => (io_line heap tmp6))) (fun tmp7 => (ret (Nat.shiftl tmp7 16)))) (fun tmp9 => (bind (bind (fo_exit_instr heap bi) (fun tmp8 => (io_line heap tmp8))) (fun tmp10 => (ret (tmp9 + tmp10)))))) (fun tmp11 => (set_io_line heap err_instruction tmp11))) (fun heap =>
          (bind (bind (bind (bind (fo_idx heap bi_next) (fun tmp12 => (ret (Nat.shiftl tmp12 16)))) (fun tmp13 => (bind (fo_idx heap bi_next) (fun tmp14 => (ret (tmp13 + tmp14)))))) (fun tmp15 => (set_fo_idx heap err_block tmp15))) (fun heap =>
          (bind (fo_add_instruction heap err_block err_instruction) (fun heap =>
          (bind (fo_next_setitem heap bi j err_block) (fun heap =>
          (bind (fo_add_prev heap err_block bi) (fun heap =>
          (bind (fo_prev_remove heap bi_next bi) (fun heap =>
          (ret heap)))))))))))))))))))
       else
          (ret heap)))))))).

Definition cut_outer (dispatch_path_blocks : list nat) : py fheap -> nat * nat -> py fheap :=
  (fun acc tmp1 => (bind acc (fun st =>
    (let heap := st in
    (let i := (fst tmp1) in
    (let bi := (snd tmp1) in
    (bind (fl_nth dispatch_path_blocks (i + 1)) (fun valid_next =>
    (bind (fo_next heap bi) (fun tmp2 =>
    (bind (fold_left (cut_inner bi valid_next)
      (enumerate tmp2) (ret heap)) (fun tmp16 =>
    (let heap := tmp16 in
    (ret heap)))))))))))))).

Lemma cut_path_gen_unfold dpb heap :
  cut_path_gen dpb heap = bind (fold_left (cut_outer dpb) (enumerate (removelast dpb)) (ret heap)) (fun tmp17 => ret tmp17).
Proof. reflexivity. Qed.

Lemma cut_inner_none bi v x : cut_inner bi v None x = None.
Proof. reflexivity. Qed.
Lemma cut_outer_none dpb x : cut_outer dpb None x = None.
Proof. reflexivity. Qed.

Lemma cut_inner_skip bi v h j : cut_inner bi v (Some h) (j, v) = Some h.
Proof. unfold cut_inner. cbn [bind fst snd]. rewrite Nat.eqb_refl. reflexivity. Qed.

(* ---- one iteration that cuts a successor, on an explicit heap *)
Lemma cut_inner_step s idx line bi v j nx cur nb k0 kx l0 lx :
  NoDup (map b_idx (fs_blocks s)) ->
  (forall x, In x (map b_idx (fs_blocks s)) -> x < fs_next_id s) ->
  get_blk (fs_blocks s) bi = Some cur -> NoDup (b_next cur) -> nth_error (b_next cur) j = Some nx ->
  get_blk (fs_blocks s) nx = Some nb -> In bi (b_prev nb) ->
  fl_nth (b_ins nb) 0 = Some k0 -> io_line (heap_of_state s idx line) k0 = Some l0 ->
  fl_last (b_ins cur) = Some kx -> io_line (heap_of_state s idx line) kx = Some lx ->
  tab_get idx nx = None -> ~ In (fs_next_id s) (map fst idx) -> ~ In (length (fs_prog s)) (map fst line) ->
  Nat.eqb nx v = false ->
  cut_inner bi v (Some (heap_of_state s idx line)) (j, nx) =
  Some (heap_of_state (cut_step bi v s nx)
          (idx ++ [(fs_next_id s, Nat.shiftl nx 16 + nx)])
          (line ++ [(length (fs_prog s), Nat.shiftl l0 16 + lx)])).
Proof.
  intros Hnd Hlt Hbi Hndn Hj Hnx Hprev Hk0 Hl0 Hkx Hlx Hti Hie Hle Ev.
  destruct s as [bs pr eid errs]. cbn [fs_blocks fs_prog fs_next_id fs_errs] in *.
  destruct (get_blk_some _ _ _ Hbi) as [Hcin Hcidx]. destruct (get_blk_some _ _ _ Hnx) as [Hnin Hnidx].
  assert (Hfresh : ~ In eid (map b_idx bs)) by (intro Hin; apply Hlt in Hin; lia).
  assert (Hbilt : bi <> eid). { intros ->. apply Hfresh. rewrite <- Hcidx. apply in_map. exact Hcin. }
  assert (Hnxlt : nx <> eid). { intros ->. apply Hfresh. rewrite <- Hnidx. apply in_map. exact Hnin. }
  unfold cut_inner, heap_of_state. cbn [bind fst snd fs_blocks fs_prog fs_next_id fs_errs]. rewrite Ev. cbn [negb].
  unfold new_BasicBlock, new_TealerCustomErrInstruction. cbn [fst snd fh_blocks fh_prog fh_next_id fh_idx fh_line].
  set (nb0 := mkBlock eid [] [] []).
  (* the line of the err instruction *)
  unfold fo_entry_instr, fo_exit_instr, io_line in *. cbn [fh_blocks fh_prog fh_line heap_of_state fs_prog] in *.
  rewrite (get_blk_snoc_old bs nb0 nx nb Hnx), (get_blk_snoc_old bs nb0 bi cur Hbi). cbn [bind]. rewrite Hk0, Hkx. cbn [bind].
  destruct (nth_error pr k0) as [i0|] eqn:E0; [|discriminate]. destruct (nth_error pr kx) as [ix|] eqn:Ex; [|discriminate].
  cbn [bind] in Hl0, Hlx.
  assert (Hk0lt : k0 < length pr) by (apply nth_error_Some; rewrite E0; discriminate).
  assert (Hkxlt : kx < length pr) by (apply nth_error_Some; rewrite Ex; discriminate).
  rewrite (nth_error_app1 pr [mkIns 0 ICustomErr] Hk0lt), E0.
  rewrite (nth_error_app1 pr [mkIns 0 ICustomErr] Hkxlt), Ex. cbn [bind].
  replace (match tab_get line k0 with Some v0 => ret v0 | None => ret (i_line i0) end) with (Some l0) by (symmetry; exact Hl0).
  replace (match tab_get line kx with Some v0 => ret v0 | None => ret (i_line ix) end) with (Some lx) by (symmetry; exact Hlx).
  cbn [bind ret].
  unfold set_io_line. cbn [fh_blocks fh_prog fh_next_id fh_idx fh_line].
  rewrite nth_error_app2 by lia. rewrite Nat.sub_diag. cbn [nth_error bind ret].
  rewrite (tab_set_new line (length pr) _ Hle).
  (* the idx of the err block *)
  unfold fo_idx. cbn [fh_blocks fh_idx]. rewrite (get_blk_snoc_old bs nb0 nx nb Hnx). cbn [bind].
  rewrite (tab_get_snoc_none idx nx eid 0 Hti) by congruence. cbn [bind ret].
  unfold set_fo_idx. cbn [fh_blocks fh_prog fh_next_id fh_idx fh_line].
  assert (Hnew0 : get_blk (bs ++ [nb0]) eid = Some nb0) by (apply (get_blk_snoc_new bs nb0); exact Hfresh).
  rewrite Hnew0. cbn [bind ret]. rewrite (tab_set_snoc idx eid 0 _ Hie).
  (* add_instruction *)
  unfold fo_add_instruction, fo_update. cbn [fh_blocks fh_prog fh_next_id fh_idx fh_line]. rewrite Hnew0. cbn [bind ret].
  subst nb0. cbn [b_idx b_ins b_next b_prev app].
  rewrite (set_block_snoc_new bs (mkBlock eid [] [] []) (mkBlock eid [length pr] [] []) Hfresh eq_refl).
  (* bi.next[j] = err_block *)
  unfold fo_next_setitem, fo_update. cbn [fh_blocks fh_prog fh_next_id fh_idx fh_line].
  rewrite (get_blk_snoc_old bs _ bi cur Hbi). cbn [bind].
  rewrite (fl_setitem_repl eid nx (b_next cur) j Hndn Hj). cbn [bind ret].
  set (cur' := mkBlock (b_idx cur) (b_ins cur) (map (fun y => if Nat.eqb y nx then eid else y) (b_next cur)) (b_prev cur)).
  rewrite (set_block_snoc_old bs (mkBlock eid [length pr] [] []) cur') by (unfold cur'; cbn [b_idx]; rewrite Hcidx; exact Hbilt).
  (* add_prev *)
  unfold fo_add_prev, fo_update. cbn [fh_blocks fh_prog fh_next_id fh_idx fh_line].
  assert (Hids1 : map b_idx (set_block bs cur') = map b_idx bs).
  { unfold set_block. rewrite map_map. apply map_ext_in. intros x Hx. destruct (Nat.eqb (b_idx x) (b_idx cur')) eqn:E; [|reflexivity].
    apply Nat.eqb_eq in E. symmetry. exact E. }
  assert (Hnew1 : get_blk (set_block bs cur' ++ [mkBlock eid [length pr] [] []]) eid = Some (mkBlock eid [length pr] [] [])).
  { apply (get_blk_snoc_new (set_block bs cur') (mkBlock eid [length pr] [] [])). cbn [b_idx]. rewrite Hids1. exact Hfresh. }
  rewrite Hnew1.
  cbn [bind ret b_idx b_ins b_next b_prev app].
  rewrite (set_block_snoc_new (set_block bs cur') (mkBlock eid [length pr] [] []) (mkBlock eid [length pr] [] [bi])) by (rewrite ?Hids1; auto).
  (* bi_next.prev.remove(bi) *)
  unfold fo_prev_remove, fo_update. cbn [fh_blocks fh_prog fh_next_id fh_idx fh_line].
  unfold cut_step. rewrite Ev. cbn [fs_blocks fs_prog fs_next_id fs_errs]. unfold upd_at at 2. rewrite Hbi.
  assert (Hc' : mkBlock bi (b_ins cur) (map (fun y => if Nat.eqb y nx then eid else y) (b_next cur)) (b_prev cur) = cur')
    by (unfold cur'; rewrite Hcidx; reflexivity).
  rewrite Hc'. unfold upd_at.
  assert (Hnx1 : exists nb1, get_blk (set_block bs cur') nx = Some nb1 /\ b_idx nb1 = nx /\ In bi (b_prev nb1)).
  { destruct (Nat.eq_dec nx bi) as [->|Hne].
    - exists cur'. split; [|split; [exact Hcidx|]].
      + assert (Hin : In cur' (set_block bs cur')).
        { unfold set_block. apply in_map_iff. exists cur. split; [|exact Hcin]. cbn [cur' b_idx]. rewrite Nat.eqb_refl. reflexivity. }
        replace bi with (b_idx cur') by exact Hcidx. apply get_blk_unique; [rewrite Hids1; exact Hnd | exact Hin].
      + rewrite Hbi in Hnx. inversion Hnx; subst nb. exact Hprev.
    - exists nb. split; [|split; [exact Hnidx | exact Hprev]].
      assert (Hin : In nb (set_block bs cur')).
      { unfold set_block. apply in_map_iff. exists nb. split; [|exact Hnin]. cbn [cur' b_idx]. rewrite Hnidx, Hcidx.
        apply Nat.eqb_neq in Hne. rewrite Hne. reflexivity. }
      rewrite <- Hnidx. apply get_blk_unique; [rewrite Hids1; exact Hnd | exact Hin]. }
  destruct Hnx1 as (nb1 & Hg1 & Hi1 & Hp1).
  rewrite (get_blk_snoc_old _ _ nx nb1 Hg1), Hg1. cbn [bind]. rewrite (fl_remove_first bi (b_prev nb1) Hp1). cbn [bind ret].
  rewrite Hi1. rewrite set_block_snoc_old by (cbn [b_idx]; congruence). reflexivity.
Qed.

(* ---- what the tables hold: the idx and line formulas of the implementation, from the model's origin table *)
Definition ERRI : ins := mkIns 0 ICustomErr.
Definition tline (t : teal) (k : nat) : nat := match nth_error (t_prog t) k with Some i => i_line i | None => 0 end.
Definition entry_line (t : teal) (n : nat) : nat :=
  match tblock t n with Some b => match b_ins b with k :: _ => tline t k | [] => 0 end | None => 0 end.
Definition exit_line (t : teal) (n : nat) : nat :=
  match tblock t n with Some b => tline t (last (b_ins b) 0) | None => 0 end.
(* err_block.idx = (bi_next.idx << 16) + bi_next.idx *)
Definition err_idx (e : nat * (nat * nat)) : nat * nat := (fst e, Nat.shiftl (fst (snd e)) 16 + fst (snd e)).
(* err_instruction.line = (bi_next.entry_instr.line << 16) + bi.exit_instr.line; the k-th err instruction is at
   position |t_prog t| + k *)
Definition err_line (t : teal) (ke : nat * (nat * (nat * nat))) : nat * nat :=
  (length (t_prog t) + fst ke,
   Nat.shiftl (entry_line t (fst (snd (snd ke)))) 16 + exit_line t (snd (snd (snd ke)))).
Definition idx_tab (errs : list (nat * (nat * nat))) : list (nat * nat) := map err_idx errs.
Definition line_tab (t : teal) (errs : list (nat * (nat * nat))) : list (nat * nat) := map (err_line t) (enumerate errs).
Definition heap_of (t : teal) (s : fstate) : fheap := heap_of_state s (idx_tab (fs_errs s)) (line_tab t (fs_errs s)).

Lemma heap0_heap_of t : heap0 t = heap_of t (fn_state0 t).
Proof. reflexivity. Qed.

Lemma combine_app_eq {A B} : forall (l1 : list A) (m1 : list B) l2 m2,
  length l1 = length m1 -> combine (l1 ++ l2) (m1 ++ m2) = combine l1 m1 ++ combine l2 m2.
Proof.
  induction l1 as [|a l1 IH]; intros [|b m1] l2 m2 H; try discriminate; [reflexivity|].
  cbn [app combine]. f_equal. apply IH. cbn [length] in H. lia.
Qed.

Lemma enumerate_snoc {A} (l : list A) x : enumerate (l ++ [x]) = enumerate l ++ [(length l, x)].
Proof.
  unfold enumerate. rewrite app_length. cbn [length]. rewrite Nat.add_1_r, seq_S. cbn [plus].
  rewrite combine_app_eq by (rewrite seq_length; reflexivity). reflexivity.
Qed.

Lemma line_tab_snoc t errs e : line_tab t (errs ++ [e]) = line_tab t errs ++ [err_line t (length errs, e)].
Proof. unfold line_tab. rewrite enumerate_snoc, map_app. reflexivity. Qed.

Lemma line_tab_keys t errs k : In k (map fst (line_tab t errs)) -> length (t_prog t) <= k < length (t_prog t) + length errs.
Proof.
  unfold line_tab, enumerate. rewrite map_map. intros H. apply in_map_iff in H. destruct H as ((j & e) & <- & Hin).
  apply in_combine_l in Hin. apply in_seq in Hin. cbn [err_line fst]. lia.
Qed.

Lemma idx_tab_keys errs : map fst (idx_tab errs) = map fst errs.
Proof. unfold idx_tab. rewrite map_map. reflexivity. Qed.

Lemma repeat_snoc {A} (x : A) n : repeat x (S n) = repeat x n ++ [x].
Proof. induction n as [|n IH]; [reflexivity|]. cbn [repeat app] in *. rewrite <- IH. reflexivity. Qed.

Lemma fl_last_last (l : list nat) : l <> [] -> fl_last l = Some (last l 0).
Proof.
  induction l as [|a l IH]; intros H; [contradiction|]. destruct l as [|b l]; [reflexivity|].
  change (fl_last (a :: b :: l)) with (fl_last (b :: l)). change (last (a :: b :: l) 0) with (last (b :: l) 0).
  apply IH. discriminate.
Qed.

Lemma NoDup_add_mid {A} (a : A) : forall l1 l2, NoDup (l1 ++ l2) -> ~ In a (l1 ++ l2) -> NoDup (l1 ++ a :: l2).
Proof.
  induction l1 as [|x l1 IH]; intros l2 Hnd Hin; cbn [app] in *.
  - constructor; assumption.
  - apply NoDup_cons_iff in Hnd. destruct Hnd as [Hx Hnd]. constructor.
    + intro H. apply in_app_iff in H. destruct H as [H|[H|H]].
      * apply Hx. apply in_or_app. left. exact H.
      * apply Hin. left. symmetry. exact H.
      * apply Hx. apply in_or_app. right. exact H.
    + apply IH; [exact Hnd|]. intro H. apply Hin. right. exact H.
Qed.

Section Cut.
  Variables (p : prog) (t : teal).
  Hypothesis Hparse : parse_teal p = Ok t.
  Let mainl := s_blocks (t_main t).
  Let N0 := S (max_idx (t_blocks t)).

  (* ---- static facts about the parsed contract *)
  Lemma tblock_ins_ne x tb : tblock t x = Some tb -> b_ins tb <> [].
  Proof.
    intros Hb. destruct (parse_teal_inv p t Hparse) as (bs & subs0 & Hne & Hbs & _).
    destruct (retained_char p t bs Hparse Hbs) as (_ & _ & _ & Hchar & _).
    destruct (Hchar x tb Hb) as (b & Hn0 & _ & Hins & _).
    destruct (build_blocks_spec p bs Hbs) as (rbs & nexts & Hc & _ & _ & _ & Hn).
    destruct (Hn x b Hn0) as (rb & nx & Hrb & _ & _ & E). rewrite Hins, E. cbn [b_ins].
    apply (blocks_nonempty p rbs Hc Hne rb). eapply nth_error_In. exact Hrb.
  Qed.

  Lemma main_lt x : In x mainl -> x < N0.
  Proof. intros H. apply (retained_lt t). apply (main_retained p t Hparse). exact H. Qed.

  Lemma tnext_nodup x : In x mainl -> NoDup (tnext t x).
  Proof.
    intros Hx. unfold tnext. destruct (main_tblock p t Hparse x Hx) as (b & Hb). rewrite Hb.
    apply (fw_next_nodup _ (fn_state0_wf p t Hparse)). rewrite <- (fn_state0_get p t Hparse x Hx) in Hb.
    apply (get_blk_some _ _ _ Hb).
  Qed.

  Lemma tnext_mirror x y : In x mainl -> In y (tnext t x) -> exists yb, tblock t y = Some yb /\ In x (b_prev yb).
  Proof.
    intros Hx Hy. pose proof (tnext_main p t Hparse x y Hx Hy) as Hym.
    destruct (main_tblock p t Hparse y Hym) as (yb & Hyb). exists yb. split; [exact Hyb|].
    unfold tnext in Hy. destruct (tblock t x) as [xb|] eqn:Exb; [|destruct Hy].
    apply (tblock_mirror p t x y xb yb Hparse Exb Hyb). exact Hy.
  Qed.

  (* ---- the invariant of the cutting loops: [rest] = the path blocks still to be cut *)
  Record binv (s : fstate) (rest : list nat) : Prop := {
    bv_nodup : NoDup (map b_idx (fs_blocks s));
    bv_lt : forall x, In x (map b_idx (fs_blocks s)) -> x < fs_next_id s;
    bv_N0 : N0 <= fs_next_id s;
    bv_errs : forall e, In e (map fst (fs_errs s)) -> N0 <= e < fs_next_id s;
    bv_prog : fs_prog s = t_prog t ++ repeat ERRI (length (fs_errs s));
    bv_orig : forall x xb, x < N0 -> get_blk (fs_blocks s) x = Some xb -> exists tb, tblock t x = Some tb /\ b_ins xb = b_ins tb;
    bv_new : forall x xb, N0 <= x -> get_blk (fs_blocks s) x = Some xb ->
               exists pos, b_ins xb = [pos] /\ op_at (fs_prog s) pos = Some ICustomErr;
    bv_rest : forall x, In x rest -> In x mainl /\ exists xb, get_blk (fs_blocks s) x = Some xb /\ b_next xb = tnext t x /\
                forall y, In y (tnext t x) -> exists yb, get_blk (fs_blocks s) y = Some yb /\ In x (b_prev yb) }.

  Lemma binv_state0 path : (forall x, In x path -> In x mainl) -> binv (fn_state0 t) path.
  Proof.
    intros Hp. pose proof (fn_state0_wf p t Hparse) as Hwf. constructor.
    - apply (fw_nodup _ Hwf).
    - apply (fw_ids _ Hwf).
    - cbn. unfold N0. lia.
    - cbn. intros e [].
    - cbn. rewrite app_nil_r. reflexivity.
    - intros x xb _ Hg. exists xb. split; [|reflexivity].
      destruct (get_blk_some _ _ _ Hg) as [Hin Hidx]. apply (lookup_blocks_In t) in Hin. rewrite Hidx in Hin. apply Hin.
    - intros x xb Hx Hg. exfalso. destruct (get_blk_some _ _ _ Hg) as [Hin Hidx]. apply (lookup_blocks_In t) in Hin. rewrite Hidx in Hin.
      destruct Hin as [Hm _]. pose proof (main_lt x Hm). lia.
    - intros x Hx. pose proof (Hp x Hx) as Hxm. split; [exact Hxm|]. destruct (main_tblock p t Hparse x Hxm) as (xb & Hxb).
      exists xb. split; [rewrite (fn_state0_get p t Hparse x Hxm); exact Hxb|]. split; [unfold tnext; rewrite Hxb; reflexivity|].
      intros y Hy. destruct (tnext_mirror x y Hxm Hy) as (yb & Hyb & Hin). exists yb. split; [|exact Hin].
      rewrite (fn_state0_get p t Hparse y (tnext_main p t Hparse x y Hxm Hy)). exact Hyb.
  Qed.

  (* lines of the original instructions, read in a cut state *)
  Lemma io_line_orig s rest k : binv s rest -> k < length (t_prog t) -> io_line (heap_of t s) k = Some (tline t k).
  Proof.
    intros Hinv Hk. unfold io_line, heap_of, heap_of_state. cbn [fh_prog fh_line]. rewrite (bv_prog _ _ Hinv).
    rewrite nth_error_app1 by exact Hk. unfold tline. destruct (nth_error (t_prog t) k) as [i|] eqn:E.
    - cbn [bind]. rewrite tab_get_none; [reflexivity|]. intro Hin. apply line_tab_keys in Hin. lia.
    - apply nth_error_None in E. lia.
  Qed.

  Lemma binv_weaken s rest rest' : binv s rest -> (forall x, In x rest' -> In x rest) -> binv s rest'.
  Proof. intros [H1 H2 H3 H4 H5 H6 H6' H7] Hi. constructor; auto. Qed.

  (* ---- one cutting step preserves the invariant *)
  Lemma binv_cut_step s rest bi v nx pre todo cur :
    binv s rest -> ~ In bi rest ->
    get_blk (fs_blocks s) bi = Some cur -> b_next cur = pre ++ nx :: todo -> NoDup (pre ++ nx :: todo) ->
    Nat.eqb nx v = false ->
    binv (cut_step bi v s nx) rest /\
    get_blk (fs_blocks (cut_step bi v s nx)) bi = Some (cut_upd bi (pre ++ fs_next_id s :: todo) [nx] cur) /\
    (forall y yb, In y todo -> get_blk (fs_blocks s) y = Some yb -> In bi (b_prev yb) ->
       exists yb', get_blk (fs_blocks (cut_step bi v s nx)) y = Some yb' /\ In bi (b_prev yb')).
  Proof.
    intros Hinv Hbr Hget Hnext Hnd Ev. destruct Hinv as [H1 H2 H3 H4 H5 H6 H6' H7].
    assert (Hpre : ~ In nx pre /\ ~ In nx todo).
    { apply NoDup_remove_2 in Hnd. split; intro Hin; apply Hnd; apply in_or_app; [left | right]; exact Hin. }
    destruct Hpre as [Hpre Htodo].
    rewrite (cut_step_blocks bi v s nx pre todo cur H1 Hget Hnext Hpre Htodo Ev).
    set (eid := fs_next_id s). set (eb := mkBlock eid [length (fs_prog s)] [] [bi]).
    set (h := cut_upd bi (pre ++ eid :: todo) [nx]). cbn [fs_blocks fs_prog fs_next_id fs_errs].
    assert (Hids : map b_idx (map h (fs_blocks s) ++ [eb]) = map b_idx (fs_blocks s) ++ [eid]).
    { rewrite map_app, map_idx_map by (intros; reflexivity). reflexivity. }
    assert (Hold : forall x xb, get_blk (fs_blocks s) x = Some xb -> get_blk (map h (fs_blocks s) ++ [eb]) x = Some (h xb)).
    { intros x xb Hx. rewrite get_blk_app, get_blk_map by (intros; reflexivity). rewrite Hx. reflexivity. }
    split; [|split].
    - constructor; cbn [fs_blocks fs_prog fs_next_id fs_errs].
      + rewrite Hids. apply NoDup_snoc; [exact H1|]. intro Hin. apply H2 in Hin. fold eid in Hin. lia.
      + rewrite Hids. intros x Hx. apply in_app_iff in Hx. destruct Hx as [Hx|[<-|[]]]; [apply H2 in Hx; fold eid in Hx; lia | lia].
      + fold eid in H3. lia.
      + intros e He. rewrite map_app in He. apply in_app_iff in He. destruct He as [He|[<-|[]]].
        * apply H4 in He. fold eid in He. lia.
        * cbn [fst]. fold eid in H3. lia.
      + rewrite H5 at 1. rewrite app_length. cbn [length]. rewrite Nat.add_1_r, repeat_snoc, app_assoc. reflexivity.
      + intros x xb' Hx Hg. rewrite get_blk_app, get_blk_map in Hg by (intros; reflexivity).
        destruct (get_blk (fs_blocks s) x) as [xb|] eqn:Ex.
        * cbn [option_map] in Hg. inversion Hg; subst xb'. destruct (H6 x xb Hx Ex) as (tb & Htb & Hi). exists tb. split; [exact Htb | exact Hi].
        * cbn [option_map] in Hg. unfold get_blk in Hg. cbn [find eb b_idx] in Hg. destruct (Nat.eqb eid x) eqn:E; [|discriminate].
          apply Nat.eqb_eq in E. fold eid in H3. lia.
      + intros x xb' Hx Hg. rewrite get_blk_app, get_blk_map in Hg by (intros; reflexivity).
        destruct (get_blk (fs_blocks s) x) as [xb|] eqn:Ex.
        * cbn [option_map] in Hg. inversion Hg; subst xb'. destruct (H6' x xb Hx Ex) as (pos & Hi & Hop). exists pos. split; [exact Hi|].
          rewrite op_at_app_l; [exact Hop | eapply op_at_some_lt; exact Hop].
        * cbn [option_map] in Hg. unfold get_blk in Hg. cbn [find eb b_idx] in Hg. destruct (Nat.eqb eid x) eqn:E; [|discriminate].
          inversion Hg; subst xb'. exists (length (fs_prog s)). split; [reflexivity|].
          unfold op_at. rewrite nth_error_app2 by lia. rewrite Nat.sub_diag. reflexivity.
      + intros x Hx. destruct (H7 x Hx) as (Hxm & xb & Hxb & Hnx & Hys). split; [exact Hxm|].
        assert (Hne : x <> bi) by (intros ->; contradiction).
        exists (h xb). split; [apply Hold; exact Hxb|]. destruct (get_blk_some _ _ _ Hxb) as [_ Hxidx]. split.
        * unfold h, cut_upd. cbn [b_next]. rewrite Hxidx. apply Nat.eqb_neq in Hne. rewrite Hne. exact Hnx.
        * intros y Hy. destruct (Hys y Hy) as (yb & Hyb & Hin). exists (h yb). split; [apply Hold; exact Hyb|].
          unfold h, cut_upd. cbn [b_prev]. destruct (nat_mem (b_idx yb) [nx]); [|exact Hin]. apply remove_first_other; [exact Hin | exact Hne].
    - apply Hold. exact Hget.
    - intros y yb Hy Hyb Hin. exists (h yb). split; [apply Hold; exact Hyb|].
      destruct (get_blk_some _ _ _ Hyb) as [_ Hyidx]. unfold h, cut_upd. cbn [b_prev]. rewrite Hyidx.
      assert (E : nat_mem y [nx] = false).
      { unfold nat_mem. cbn [existsb]. rewrite orb_false_r. apply Nat.eqb_neq. intros ->. contradiction. }
      rewrite E. exact Hin.
  Qed.

  (* ---- the inner loop over the successors of one path block = the fold of Group.cut_block *)
  Lemma cut_block_gen_fold bi v rest : forall todo s pre cur,
    binv s rest -> ~ In bi rest -> bi < N0 ->
    get_blk (fs_blocks s) bi = Some cur -> b_next cur = pre ++ todo -> NoDup (pre ++ todo) ->
    (forall y, In y (pre ++ todo) -> y < fs_next_id s) ->
    (forall y, In y todo -> y < N0 /\ exists yb, get_blk (fs_blocks s) y = Some yb /\ In bi (b_prev yb)) ->
    fold_left (cut_inner bi v) (combine (seq (length pre) (length todo)) todo) (Some (heap_of t s)) =
      Some (heap_of t (fold_left (cut_step bi v) todo s)) /\
    binv (fold_left (cut_step bi v) todo s) rest.
  Proof.
    induction todo as [|nx todo IH]; intros s pre cur Hinv Hbr Hbi Hget Hnext Hnd Hlt Htodo.
    - cbn. auto.
    - cbn [length seq combine fold_left]. destruct (Nat.eqb nx v) eqn:Ev.
      + apply Nat.eqb_eq in Ev. subst nx. rewrite cut_inner_skip.
        assert (Es : cut_step bi v s v = s) by (unfold cut_step; rewrite Nat.eqb_refl; reflexivity). rewrite Es.
        replace (S (length pre)) with (length (pre ++ [v])) by (rewrite app_length; cbn; lia).
        apply (IH s (pre ++ [v]) cur); try assumption.
        * rewrite <- app_assoc. exact Hnext.
        * rewrite <- app_assoc. exact Hnd.
        * intros y Hy. apply Hlt. rewrite <- app_assoc in Hy. exact Hy.
        * intros y Hy. apply Htodo. right. exact Hy.
      + destruct (Htodo nx (or_introl eq_refl)) as (Hnxlt & nb & Hnb & Hprev).
        destruct (bv_orig _ _ Hinv nx nb Hnxlt Hnb) as (tnb & Htnb & Hinb).
        destruct (bv_orig _ _ Hinv bi cur Hbi Hget) as (tcb & Htcb & Hicb).
        pose proof (tblock_ins_ne nx tnb Htnb) as Hne1. pose proof (tblock_ins_ne bi tcb Htcb) as Hne2.
        destruct (b_ins tnb) as [|k0 insr] eqn:Eins; [contradiction|].
        assert (Hk0 : k0 < length (t_prog t)) by (apply (tblock_ins_lt p t Hparse nx tnb k0 Htnb); rewrite Eins; left; reflexivity).
        assert (Hkx : last (b_ins tcb) 0 < length (t_prog t)).
        { apply (tblock_ins_lt p t Hparse bi tcb _ Htcb). apply last_In_ne. exact Hne2. }
        assert (Hlen : length (fs_prog s) = length (t_prog t) + length (fs_errs s)).
        { rewrite (bv_prog _ _ Hinv), app_length, repeat_length. reflexivity. }
        assert (Hstep : cut_inner bi v (Some (heap_of t s)) (length pre, nx) = Some (heap_of t (cut_step bi v s nx))).
        { unfold heap_of at 1.
          rewrite (cut_inner_step s (idx_tab (fs_errs s)) (line_tab t (fs_errs s)) bi v (length pre) nx cur nb k0 (last (b_ins tcb) 0)
                      (tline t k0) (tline t (last (b_ins tcb) 0))).
          - unfold heap_of. assert (Ee : fs_errs (cut_step bi v s nx) = fs_errs s ++ [(fs_next_id s, (nx, bi))])
              by (unfold cut_step; rewrite Ev; reflexivity).
            rewrite Ee, line_tab_snoc. unfold idx_tab at 2. rewrite map_app. cbn [map err_idx fst snd]. f_equal.
            f_equal. f_equal. f_equal. unfold err_line. cbn [fst snd]. rewrite Hlen. f_equal.
            unfold entry_line, exit_line. rewrite Htnb, Htcb, Eins. reflexivity.
          - exact (bv_nodup _ _ Hinv).
          - exact (bv_lt _ _ Hinv).
          - exact Hget.
          - rewrite Hnext. exact Hnd.
          - rewrite Hnext. rewrite nth_error_app2 by lia. rewrite Nat.sub_diag. reflexivity.
          - exact Hnb.
          - exact Hprev.
          - rewrite Hinb. reflexivity.
          - apply (io_line_orig s rest k0 Hinv Hk0).
          - rewrite Hicb. apply fl_last_last. exact Hne2.
          - apply (io_line_orig s rest _ Hinv Hkx).
          - apply tab_get_none. rewrite idx_tab_keys. intro Hin. apply (bv_errs _ _ Hinv) in Hin. lia.
          - rewrite idx_tab_keys. intro Hin. apply (bv_errs _ _ Hinv) in Hin. lia.
          - intro Hin. apply line_tab_keys in Hin. lia.
          - exact Ev. }
        rewrite Hstep.
        destruct (binv_cut_step s rest bi v nx pre todo cur Hinv Hbr Hget Hnext Hnd Ev) as (Hinv' & Hget' & Hkeep).
        assert (Hid' : fs_next_id (cut_step bi v s nx) = S (fs_next_id s)) by (unfold cut_step; rewrite Ev; reflexivity).
        replace (S (length pre)) with (length (pre ++ [fs_next_id s])) by (rewrite app_length; cbn; lia).
        apply (IH (cut_step bi v s nx) (pre ++ [fs_next_id s]) (cut_upd bi (pre ++ fs_next_id s :: todo) [nx] cur)); try assumption.
        * unfold cut_upd. cbn [b_next b_idx]. destruct (get_blk_some _ _ _ Hget) as [_ Hcidx]. rewrite Hcidx, Nat.eqb_refl, <- app_assoc. reflexivity.
        * rewrite <- app_assoc. cbn [app].
          assert (Hn1 : NoDup (pre ++ todo)) by (eapply NoDup_remove_1; exact Hnd).
          apply NoDup_add_mid; [exact Hn1|]. intro Hin.
          assert (fs_next_id s < fs_next_id s); [|lia]. apply Hlt. apply in_app_iff in Hin. apply in_or_app.
          destruct Hin as [Hin|Hin]; [left; exact Hin | right; right; exact Hin].
        * rewrite Hid'. intros y Hy. rewrite <- app_assoc in Hy. cbn [app] in Hy. apply in_app_iff in Hy.
          destruct Hy as [Hy|[<-|Hy]]; [|lia|].
          -- assert (y < fs_next_id s) by (apply Hlt; apply in_or_app; left; exact Hy). lia.
          -- assert (y < fs_next_id s) by (apply Hlt; apply in_or_app; right; right; exact Hy). lia.
        * intros y Hy. destruct (Htodo y (or_intror Hy)) as (Hylt & yb & Hyb & Hyin). split; [exact Hylt|].
          destruct (Hkeep y yb Hy Hyb Hyin) as (yb' & H1 & H2). eauto.
  Qed.

  (* ---- one iteration of the outer loop = Group.cut_block *)
  Lemma cut_outer_step dpb s a b rest off :
    binv s (a :: rest) -> ~ In a rest -> fl_nth dpb (off + 1) = Some b ->
    cut_outer dpb (Some (heap_of t s)) (off, a) = Some (heap_of t (cut_block s a b)) /\ binv (cut_block s a b) rest.
  Proof.
    intros Hinv Ha Hb. destruct (bv_rest _ _ Hinv a (or_introl eq_refl)) as (Ham & cur & Hcur & Hnx & Hys).
    assert (Hinv' : binv s rest) by (apply (binv_weaken s (a :: rest)); [exact Hinv | intros x Hx; right; exact Hx]).
    rewrite cut_block_unfold, Hcur.
    destruct (cut_block_gen_fold a b rest (b_next cur) s [] cur Hinv' Ha (main_lt a Ham) Hcur eq_refl) as [Hf Hi].
    - cbn [app]. rewrite Hnx. apply tnext_nodup. exact Ham.
    - cbn [app]. rewrite Hnx. intros y Hy. pose proof (main_lt y (tnext_main p t Hparse a y Ham Hy)). pose proof (bv_N0 _ _ Hinv). lia.
    - rewrite Hnx. intros y Hy. split; [apply main_lt; apply (tnext_main p t Hparse a y Ham Hy) | apply Hys; exact Hy].
    - split; [|exact Hi]. unfold cut_outer. cbn [bind fst snd]. rewrite Hb. cbn [bind].
      unfold fo_next, heap_of, heap_of_state. cbn [fh_blocks]. rewrite Hcur. cbn [option_map bind].
      cbn [length] in Hf. unfold enumerate. unfold ret. fold (heap_of_state s (idx_tab (fs_errs s)) (line_tab t (fs_errs s))).
      fold (heap_of t s). rewrite Hf. reflexivity.
  Qed.

  Lemma cut_path_gen_fold dpb : forall l off s,
    (forall i x, nth_error l i = Some x -> nth_error dpb (off + i) = Some x) -> NoDup l -> binv s l ->
    fold_left (cut_outer dpb) (combine (seq off (length (removelast l))) (removelast l)) (Some (heap_of t s)) =
      Some (heap_of t (cut_path s l)) /\ binv (cut_path s l) [].
  Proof.
    induction l as [|a l IH]; intros off s Hdpb Hnd Hinv.
    - cbn. split; [reflexivity|]. apply (binv_weaken s []); [exact Hinv | intros x []].
    - destruct l as [|b r].
      + cbn. split; [reflexivity|]. apply (binv_weaken s [a]); [exact Hinv | intros x []].
      + change (removelast (a :: b :: r)) with (a :: removelast (b :: r)). cbn [length seq combine fold_left].
        rewrite cut_path_cons2. apply NoDup_cons_iff in Hnd. destruct Hnd as [Ha Hnd].
        destruct (cut_outer_step dpb s a b (b :: r) off Hinv Ha) as [Hs Hi].
        { unfold fl_nth. apply (Hdpb 1 b). reflexivity. }
        rewrite Hs. apply (IH (S off) (cut_block s a b)); [|exact Hnd | exact Hi].
        intros i x Hx. replace (S off + i) with (off + S i) by lia. apply Hdpb. exact Hx.
  Qed.

  (* THEOREM 2: on the blocks the walk accepted, the generated cutting loop raises no exception and leaves exactly the
     model's state cut_path: same cells in the same order (successor lists with the err blocks at the positions of the
     cut successors, predecessor lists without the path block), the same appended err instructions, the same next
     fresh identifier; and the idx / line values it stores in the err blocks / err instructions are the formulas of the
     implementation applied to the model's origin table fs_errs (heap_of: idx_tab, line_tab) *)
  Theorem cut_path_gen_eq path dpb :
    walk_path t path [0] [] = Ok dpb ->
    cut_path_gen dpb (heap0 t) = Some (heap_of t (cut_path (fn_state0 t) dpb)).
  Proof.
    intros Hw. destruct (dispatch_path_spec t path dpb Hw) as (-> & Hnd & Hch & _).
    assert (Hm : forall x, In x path -> In x mainl).
    { apply (chain_main p t Hparse path [0] Hch). intros x [<-|[]]. apply (zero_main p t Hparse). }
    rewrite cut_path_gen_unfold, heap0_heap_of. unfold enumerate, ret.
    assert (Hd : forall i x, nth_error path i = Some x -> nth_error path (0 + i) = Some x) by (intros i x Hx; exact Hx).
    pose proof (cut_path_gen_fold path path 0 (fn_state0 t) Hd Hnd (binv_state0 path Hm)) as [Hf _].
    rewrite Hf. reflexivity.
  Qed.

  Corollary cut_path_gen_fields path dpb h :
    walk_path t path [0] [] = Ok dpb -> cut_path_gen dpb (heap0 t) = Some h ->
    let st := cut_path (fn_state0 t) dpb in
    fh_blocks h = fs_blocks st /\ fh_prog h = fs_prog st /\ fh_next_id h = fs_next_id st /\
    fh_idx h = map err_idx (fs_errs st) /\ fh_line h = map (err_line t) (enumerate (fs_errs st)).
  Proof. intros Hw Hc. rewrite (cut_path_gen_eq path dpb Hw) in Hc. inversion Hc. cbn. auto. Qed.

  (* TRANSPORTED (GroupLemmas.cut_path_spec through construct_function's initial state): in the heap the generated
     loops leave, for consecutive path blocks (a, b) the block a keeps its instructions and every successor other than
     b is, position by position, an err block: one TealerCustomErrInstruction, only predecessor a, no successor *)
  Theorem cut_path_gen_spec path h pre a b post ab :
    walk_path t path [0] [] = Ok path -> cut_path_gen path (heap0 t) = Some h ->
    path = pre ++ a :: b :: post -> tblock t a = Some ab ->
    exists ab' e0,
      get_blk (fh_blocks h) a = Some ab' /\ b_ins ab' = b_ins ab /\ b_next ab' = cut_next (b_next ab) b e0 /\ N0 <= e0 /\
      forall e, In e (b_next ab') ->
        (e = b /\ In b (b_next ab)) \/
        (N0 <= e /\ exists pos, get_blk (fh_blocks h) e = Some (mkBlock e [pos] [] [a]) /\ op_at (fh_prog h) pos = Some ICustomErr).
  Proof.
    intros Hw Hc E Hab. rewrite (cut_path_gen_eq path path Hw) in Hc. inversion Hc; subst h. clear Hc.
    destruct (dispatch_path_spec t path path Hw) as (_ & Hnd & Hch & _).
    assert (Hm : forall x, In x path -> In x mainl).
    { apply (chain_main p t Hparse path [0] Hch). intros x [<-|[]]. apply (zero_main p t Hparse). }
    assert (Ha : In a mainl) by (apply Hm; rewrite E; apply in_or_app; right; left; reflexivity).
    assert (Hg : get_blk (fs_blocks (fn_state0 t)) a = Some ab) by (rewrite (fn_state0_get p t Hparse a Ha); exact Hab).
    destruct (cut_path_spec N0 pre (fn_state0 t) path a b post ab (fn_state0_inv p t Hparse path Hm) Hnd E Hg)
      as (ab' & e0 & G & I & Nx & HN & Hs).
    exists ab', e0. cbn [heap_of heap_of_state fh_blocks fh_prog]. repeat split; try assumption.
  Qed.
End Cut.

(* ====================================================================== *)
(* 3. Subroutine.called_subroutines and segment D: the closure = Detect.used_subs *)
(* ====================================================================== *)
Lemma subref_eqb_eq a b : subref_eqb a b = true <-> a = b.
Proof.
  destruct a as [|x], b as [|y]; cbn; split; intros H; try reflexivity; try discriminate.
  - apply String.eqb_eq in H. subst. reflexivity.
  - inversion H. apply String.eqb_refl.
Qed.

Lemma sub_mem_In x l : sub_mem x l = true <-> In x l.
Proof.
  unfold sub_mem. rewrite existsb_exists. split.
  - intros (y & Hy & E). apply subref_eqb_eq in E. subst. exact Hy.
  - intros H. exists x. split; [exact H | apply subref_eqb_eq; reflexivity].
Qed.

Lemma sub_mem_TealSub c d : sub_mem (TealSub c) (map TealSub d) = smem c d.
Proof. unfold sub_mem, smem. induction d as [|a d IH]; [reflexivity|]. cbn [map existsb subref_eqb]. rewrite IH. reflexivity. Qed.

Lemma fold_append_TealSub : forall cs d,
  fold_left (fun u c => if sub_mem c u then u else u ++ [c]) (map TealSub cs) (map TealSub d) = map TealSub (py_append_new d cs).
Proof.
  unfold py_append_new. induction cs as [|c cs IH]; intros d; [reflexivity|]. cbn [map fold_left].
  rewrite sub_mem_TealSub. destruct (smem c d); [apply IH|].
  replace (map TealSub d ++ [TealSub c]) with (map TealSub (d ++ [c])) by (rewrite map_app; reflexivity). apply IH.
Qed.

Lemma dict_fromkeys_TealSub l : dict_fromkeys (map TealSub l) = map TealSub (dedup_first l).
Proof.
  unfold dict_fromkeys. rewrite <- py_fromkeys_eq. unfold py_fromkeys. exact (fold_append_TealSub l []).
Qed.

(* ---- the property: the generator, as generated *)
Definition callsub_body (t : teal) (store : bstore) : py (list subref) -> nat -> py (list subref) :=
  (fun acc bi => (bind acc (fun st =>
      (ifE (sb_is_callsub_block store bi)
      (bind (sb_called_subroutine t store bi) (fun tmp1 => (ret (st ++ [tmp1]))))
      (ret st))))).

Lemma called_subroutines_gen_unfold t heap fmb self_ :
  called_subroutines_gen t heap fmb self_ =
  bind (bind (bind (sub_attr_blocks t fmb self_) (fun tmp2 =>
               fold_left (callsub_body t (sub_store t heap self_)) tmp2 (ret [])))
             (fun tmp3 => ret (dict_fromkeys tmp3))) (fun tmp4 => ret tmp4).
Proof. reflexivity. Qed.

(* the callee named by the exit instruction of block b of a store *)
Definition store_callee (st : bstore) (b : nat) : list string :=
  match get_blk (fst st) b with
  | Some c => match b_ins c with
              | [] => []
              | l => match op_at (snd st) (last l 0) with Some (ICallsub n) => [n] | _ => [] end
              end
  | None => []
  end.
(* block b is there, is not empty, its exit instruction exists, and a callsub names a subroutine of the contract *)
Definition store_good (t : teal) (st : bstore) (b : nat) : Prop :=
  exists c i, get_blk (fst st) b = Some c /\ b_ins c <> [] /\ op_at (snd st) (last (b_ins c) 0) = Some i /\
              forall l, i = ICallsub l -> find_sub t l <> None.

Lemma callsub_fold t st : forall ids acc,
  (forall b, In b ids -> store_good t st b) ->
  fold_left (callsub_body t st) ids (Some acc) = Some (acc ++ map TealSub (flat_map (store_callee st) ids)).
Proof.
  induction ids as [|b ids IH]; intros acc Hg; [cbn; rewrite app_nil_r; reflexivity|].
  cbn [fold_left flat_map]. destruct (Hg b (or_introl eq_refl)) as (c & i & Hc & Hne & Hop & Hsub).
  assert (Hl : fl_last (b_ins c) = Some (last (b_ins c) 0)) by (apply fl_last_last; exact Hne).
  assert (Es : callsub_body t st (Some acc) b = Some (acc ++ map TealSub (store_callee st b))).
  { unfold callsub_body, sb_is_callsub_block, sb_called_subroutine, store_callee. rewrite Hc. cbn [bind]. rewrite Hl. cbn [bind].
    rewrite Hop. cbn [bind ret]. destruct (b_ins c) as [|k0 r] eqn:Ei; [contradiction|]. rewrite Hop.
    destruct i; cbn [ifE]; try (rewrite app_nil_r; reflexivity).
    specialize (Hsub l eq_refl). destruct (find_sub t l); [|contradiction]. reflexivity. }
  rewrite Es, IH by (intros x Hx; apply Hg; right; exact Hx). rewrite map_app, app_assoc. reflexivity.
Qed.

Theorem called_subroutines_gen_spec t heap fmb self_ ids :
  sub_attr_blocks t fmb self_ = Some ids ->
  (forall b, In b ids -> store_good t (sub_store t heap self_) b) ->
  called_subroutines_gen t heap fmb self_ = Some (map TealSub (dedup_first (flat_map (store_callee (sub_store t heap self_)) ids))).
Proof.
  intros Hb Hg. rewrite called_subroutines_gen_unfold, Hb. cbn [bind]. unfold ret at 1.
  rewrite (callsub_fold t _ ids [] Hg). cbn [app bind ret]. rewrite dict_fromkeys_TealSub. reflexivity.
Qed.

Section Closure.
  Variables (p : prog) (t : teal).
  Hypothesis Hparse : parse_teal p = Ok t.

  Lemma teal_store_good n b : tblock t n = Some b -> store_good t (t_blocks t, t_prog t) n.
  Proof.
    intros Hb. pose proof (tblock_ins_ne p t Hparse n b Hb) as Hne.
    assert (Hlt : last (b_ins b) 0 < length (t_prog t)).
    { apply (tblock_ins_lt p t Hparse n b _ Hb). apply last_In_ne. exact Hne. }
    destruct (nth_error (t_prog t) (last (b_ins b) 0)) as [i|] eqn:E; [|apply nth_error_None in E; lia].
    exists b, (i_op i). cbn [fst snd]. split; [exact Hb|]. split; [exact Hne|]. split; [unfold op_at; rewrite E; reflexivity|].
    intros l El. assert (Hex : exit_op t b = Some (ICallsub l)).
    { unfold exit_op. destruct (b_ins b) as [|k0 r] eqn:Ei; [contradiction|]. unfold op_at. rewrite E. cbn [option_map]. rewrite El. reflexivity. }
    destruct (find_sub_called p t Hparse b l n Hb Hex) as (s & Hs & _). rewrite Hs. discriminate.
  Qed.

  Lemma teal_store_callee ids : flat_map (store_callee (t_blocks t, t_prog t)) ids = called_from t ids.
  Proof.
    unfold called_from. apply flat_map_ext. intros n. unfold store_callee. cbn [fst snd]. change (get_blk (t_blocks t) n) with (tblock t n).
    destruct (tblock t n) as [b|]; [|reflexivity]. unfold exit_op. destruct (b_ins b); reflexivity.
  Qed.

  (* the property on a subroutine of the contract: dict.fromkeys of its call sites *)
  Theorem called_subroutines_gen_sub heap fmb n sb :
    find_sub t n = Some sb ->
    called_subroutines_gen t heap fmb (TealSub n) = Some (map TealSub (dedup_first (called_from t (s_blocks sb)))).
  Proof.
    intros Hs. rewrite (called_subroutines_gen_spec t heap fmb (TealSub n) (s_blocks sb)).
    - cbn [sub_store]. rewrite teal_store_callee. reflexivity.
    - cbn [sub_attr_blocks]. rewrite Hs. reflexivity.
    - intros b Hb. cbn [sub_store]. destruct (find_sub_some t n sb Hs) as [Hin _].
      destruct (cg_sub_tblock p t Hparse sb b Hin Hb) as (bb & Hbb). exact (teal_store_good b bb Hbb).
  Qed.
End Closure.

(* ---- the worklist loop, as generated *)
Definition closure_body : py (list subref * list subref) -> subref -> py (list subref * list subref) :=
  (fun acc sub => (bind acc (fun st =>
          (let used_subroutines := (fst st) in
          (let worklist := (snd st) in
          (if (negb (sub_mem sub used_subroutines))
           then
              (let used_subroutines := (used_subroutines ++ [sub]) in
              (if (negb (sub_mem sub worklist))
               then
                  (let worklist := (worklist ++ [sub]) in
                  (ret (used_subroutines, worklist)))
               else
                  (ret (used_subroutines, worklist))))
           else
              (ret (used_subroutines, worklist)))))))).

Lemma used_subroutines_loop_gen_O t fmb heap fm used wl : used_subroutines_loop_gen 0 t fmb heap fm used wl = Some None.
Proof. reflexivity. Qed.

Lemma used_subroutines_loop_gen_S fuel t fmb heap fm used wl :
  used_subroutines_loop_gen (S fuel) t fmb heap fm used wl =
  if Nat.ltb 0 (length wl) then
    bind (bind (fl_nth wl 0) (fun tmp1 => called_subroutines_gen t heap fmb tmp1)) (fun tmp2 =>
    bind (fold_left closure_body tmp2 (ret (used, wl))) (fun tmp3 =>
    used_subroutines_loop_gen fuel t fmb heap fm (fst tmp3) (skipn 1 (snd tmp3))))
  else Some (Some (used, wl)).
Proof. reflexivity. Qed.

Lemma used_subroutines_gen_unfold fuel t fmb heap :
  used_subroutines_gen fuel t fmb heap =
  bind (used_subroutines_loop_gen fuel t fmb heap FunctionMain [] [FunctionMain]) (fun tmp4 =>
  match tmp4 with None => Some None | Some tmp5 => Some (Some (fst tmp5)) end).
Proof. reflexivity. Qed.

(* the inner loop appends the same new entries to used_subroutines and to the worklist, provided every callee that is
   in the worklist is already in used_subroutines *)
Lemma closure_fold : forall cs used wl,
  (forall c, In c cs -> In c wl -> In c used) ->
  exists new, fold_left closure_body cs (Some (used, wl)) = Some (used ++ new, wl ++ new) /\
              used ++ new = fold_left (fun u c => if sub_mem c u then u else u ++ [c]) cs used.
Proof.
  induction cs as [|c cs IH]; intros used wl H.
  - exists []. cbn. rewrite !app_nil_r. auto.
  - cbn [fold_left].
    assert (Es : closure_body (Some (used, wl)) c =
                 if sub_mem c used then Some (used, wl)
                 else if sub_mem c wl then Some (used ++ [c], wl) else Some (used ++ [c], wl ++ [c])).
    { unfold closure_body. cbn [bind fst snd]. destruct (sub_mem c used); cbn [negb]; [reflexivity|]. destruct (sub_mem c wl); reflexivity. }
    rewrite Es. destruct (sub_mem c used) eqn:Eu.
    + apply IH. intros x Hx. apply H. right. exact Hx.
    + assert (Ew : sub_mem c wl = false).
      { destruct (sub_mem c wl) eqn:E; [|reflexivity]. apply sub_mem_In in E. apply (H c (or_introl eq_refl)) in E.
        apply sub_mem_In in E. congruence. }
      rewrite Ew. destruct (IH (used ++ [c]) (wl ++ [c])) as (new & Hf & Hu).
      * intros x Hx Hw. apply in_app_iff in Hw. apply in_or_app. destruct Hw as [Hw|Hw]; [left; apply H; [right; exact Hx | exact Hw] | right; exact Hw].
      * exists (c :: new). rewrite Hf, <- Hu, <- !app_assoc. auto.
Qed.

Section ClosureLoop.
  Variables (p : prog) (t : teal).
  Hypothesis Hparse : parse_teal p = Ok t.
  Variables (heap : fheap) (fmb : list nat).

  Definition resolvable (l : list string) : Prop := forall u, In u l -> exists sb, find_sub t u = Some sb.

  Lemma new_callees_resolvable acc s : resolvable (new_callees t acc s).
  Proof.
    intros u Hu. apply new_callees_In in Hu. destruct Hu as [Hu _]. apply (callees_names p t Hparse) in Hu.
    apply in_map_iff in Hu. destruct Hu as (sb & <- & Hin). exists sb. apply (find_sub_self p t Hparse sb Hin).
  Qed.

  (* one iteration on a subroutine of the contract = one step of Detect.used_subs *)
  Lemma closure_step fuel s w acc :
    resolvable (s :: w) -> incl (s :: w) acc ->
    used_subroutines_loop_gen (S fuel) t fmb heap FunctionMain (map TealSub acc) (map TealSub (s :: w)) =
    used_subroutines_loop_gen fuel t fmb heap FunctionMain (map TealSub (acc ++ new_callees t acc s)) (map TealSub (w ++ new_callees t acc s)).
  Proof.
    intros Hres Hincl. rewrite used_subroutines_loop_gen_S. cbn [map length Nat.ltb Nat.leb fl_nth nth_error bind].
    destruct (Hres s (or_introl eq_refl)) as (sb & Hsb).
    rewrite (called_subroutines_gen_sub p t Hparse heap fmb s sb Hsb). cbn [bind].
    set (cs := dedup_first (called_from t (s_blocks sb))).
    destruct (closure_fold (map TealSub cs) (map TealSub acc) (TealSub s :: map TealSub w)) as (new & Hf & Hu).
    { intros c Hc Hw. change (TealSub s :: map TealSub w) with (map TealSub (s :: w)) in Hw.
      apply in_map_iff in Hw. destruct Hw as (x & <- & Hx). apply in_map. apply Hincl. exact Hx. }
    unfold ret. rewrite Hf. cbn [bind fst snd skipn app].
    rewrite fold_append_TealSub in Hu.
    assert (En : py_append_new acc cs = acc ++ new_callees t acc s).
    { unfold cs. rewrite py_append_new_eq. f_equal. unfold new_callees, callees, dedup_s. rewrite Hsb.
      rewrite (dedup_first_filter _ (dedup_first (called_from t (s_blocks sb)))), dedup_first_idem, <- dedup_first_filter. reflexivity. }
    rewrite En, map_app in Hu. apply app_inv_head in Hu. subst new. rewrite !map_app. reflexivity.
  Qed.

  (* soundness for EVERY budget: the generated loop raises no exception, and if it ends within its budget it returns
     Detect.used_subs with the same budget (and the empty worklist) *)
  Theorem used_subroutines_loop_gen_sound : forall fuel work acc,
    resolvable work -> incl work acc ->
    let r := used_subroutines_loop_gen fuel t fmb heap FunctionMain (map TealSub acc) (map TealSub work) in
    r = Some None \/ r = Some (Some (map TealSub (used_subs fuel t work acc), [])).
  Proof.
    induction fuel as [|fuel IH]; intros work acc Hres Hincl; [left; reflexivity|].
    destruct work as [|s w].
    - right. reflexivity.
    - cbv zeta. rewrite (closure_step fuel s w acc Hres Hincl), used_subs_S. apply IH.
      + intros u Hu. apply in_app_iff in Hu. destruct Hu as [Hu|Hu]; [apply Hres; right; exact Hu | apply (new_callees_resolvable acc s u Hu)].
      + intros u Hu. apply in_app_iff in Hu. apply in_or_app. destruct Hu as [Hu|Hu]; [left; apply Hincl; right; exact Hu | right; exact Hu].
  Qed.

  (* ... and the budget the model uses is enough *)
  Theorem used_subroutines_loop_gen_total : forall fuel work acc,
    resolvable work -> incl work acc -> NoDup acc -> incl acc (map s_name (t_subs t)) ->
    length work + length (t_subs t) < fuel + length acc ->
    used_subroutines_loop_gen fuel t fmb heap FunctionMain (map TealSub acc) (map TealSub work) <> Some None.
  Proof.
    induction fuel as [|fuel IH]; intros work acc Hres Hincl Hnd Hnames Hm.
    - exfalso. pose proof (NoDup_incl_length Hnd Hnames) as Hl. rewrite map_length in Hl. cbn in Hm. lia.
    - destruct work as [|s w]; [discriminate|].
      rewrite (closure_step fuel s w acc Hres Hincl).
      assert (Hnew : forall x, In x (new_callees t acc s) <-> In x (callees t s) /\ ~ In x acc) by (intros x; apply new_callees_In).
      apply IH.
      + intros u Hu. apply in_app_iff in Hu. destruct Hu as [Hu|Hu]; [apply Hres; right; exact Hu | apply (new_callees_resolvable acc s u Hu)].
      + intros u Hu. apply in_app_iff in Hu. apply in_or_app. destruct Hu as [Hu|Hu]; [left; apply Hincl; right; exact Hu | right; exact Hu].
      + apply NoDup_app_intro; [exact Hnd | apply dedup_s_NoDup|]. intros x H1 H2. apply Hnew in H2. tauto.
      + intros x Hx. apply in_app_iff in Hx. destruct Hx as [Hx|Hx]; [apply Hnames; exact Hx|].
        apply Hnew in Hx. apply (callees_names p t Hparse s x). apply Hx.
      + rewrite !app_length. cbn [length] in Hm. lia.
  Qed.

  (* THEOREM 3: segment D.  If the property on the function's main routine yields the callees [called] (first
     occurrence order), the generated closure with the budget fuel + 1 is Detect.used_subs fuel t called called; it
     raises no exception; and the model's budget S |t_subs t| (+ 1 for the iteration on the main routine) suffices *)
  Theorem used_subroutines_gen_eq called :
    called_subroutines_gen t heap fmb FunctionMain = Some (map TealSub called) ->
    NoDup called -> incl called (map s_name (t_subs t)) ->
    (forall fuel, used_subroutines_gen (S fuel) t fmb heap = Some None \/
                  used_subroutines_gen (S fuel) t fmb heap = Some (Some (map TealSub (used_subs fuel t called called)))) /\
    used_subroutines_gen (S (S (length (t_subs t)))) t fmb heap =
      Some (Some (map TealSub (used_subs (S (length (t_subs t))) t called called))).
  Proof.
    intros Hmain Hnd Hnames.
    assert (Hres : resolvable called).
    { intros u Hu. apply Hnames in Hu. apply in_map_iff in Hu. destruct Hu as (sb & <- & Hin). exists sb. apply (find_sub_self p t Hparse sb Hin). }
    assert (Hfirst : forall fuel, used_subroutines_loop_gen (S fuel) t fmb heap FunctionMain [] [FunctionMain] =
                                  used_subroutines_loop_gen fuel t fmb heap FunctionMain (map TealSub called) (map TealSub called)).
    { intros fuel. rewrite used_subroutines_loop_gen_S. cbn [length Nat.ltb Nat.leb fl_nth nth_error bind]. rewrite Hmain. cbn [bind].
      destruct (closure_fold (map TealSub called) [] [FunctionMain]) as (new & Hf & Hu).
      { intros c Hc [<-|[]]. apply in_map_iff in Hc. destruct Hc as (x & Hx & _). discriminate. }
      unfold ret. rewrite Hf. cbn [bind fst snd skipn app].
      change (@nil subref) with (map TealSub []) in Hu. rewrite fold_append_TealSub, py_append_new_eq in Hu. cbn [app] in Hu.
      assert (E : dedup_first (filter (fun c => negb (smem c [])) called) = called).
      { assert (Ef : filter (fun c => negb (smem c [])) called = called) by (apply filter_all; intros; reflexivity).
        rewrite Ef. clear -Hnd. induction called as [|a l IH]; [reflexivity|]. apply NoDup_cons_iff in Hnd. destruct Hnd as [Ha Hnd].
        cbn [dedup_first]. rewrite (IH Hnd). f_equal. apply filter_all. intros x Hx. apply negb_true_iff. apply String.eqb_neq. intros ->. contradiction. }
      rewrite E in Hu. cbn [map app] in Hu. subst new. reflexivity. }
    split.
    - intros fuel. rewrite used_subroutines_gen_unfold, Hfirst.
      destruct (used_subroutines_loop_gen_sound fuel called called Hres (incl_refl _)) as [H|H]; cbv zeta in H; rewrite H; [left | right]; reflexivity.
    - rewrite used_subroutines_gen_unfold, Hfirst.
      pose proof (used_subroutines_loop_gen_total (S (length (t_subs t))) called called Hres (incl_refl _) Hnd Hnames ltac:(lia)) as Ht.
      destruct (used_subroutines_loop_gen_sound (S (length (t_subs t))) called called Hres (incl_refl _)) as [H|H]; cbv zeta in H; [contradiction|].
      rewrite H. reflexivity.
  Qed.
End ClosureLoop.

(* ====================================================================== *)
(* 4. identify_subroutine_blocks on the function heap = Group.dfs_list; segment C *)
(* ====================================================================== *)
Lemma fdfs_push_fold visited : forall l stack,
  fold_left (fun acc next_bb => bind acc (fun st =>
               if (negb (fl_mem next_bb visited) && negb (fl_mem next_bb st))%bool then ret (st ++ [next_bb]) else ret st))
    l (ret stack) = Some (fold_left (push_new visited) l stack).
Proof.
  induction l as [|x l IH]; intros stack; [reflexivity|]. cbn [fold_left].
  replace (bind (ret stack) (fun st => if (negb (fl_mem x visited) && negb (fl_mem x st))%bool then ret (st ++ [x]) else ret st))
    with (ret (push_new visited stack x)).
  - apply IH.
  - unfold push_new, ret, bind, fl_mem, nat_mem.
    destruct (existsb (Nat.eqb x) visited); destruct (existsb (Nat.eqb x) stack); reflexivity.
Qed.

Lemma floop_gen_step fuel e heap visited s1 bb :
  identify_subroutine_blocks_floop_gen (S fuel) e heap visited (s1 ++ [bb]) =
  bind (fo_next heap bb) (fun nx =>
    identify_subroutine_blocks_floop_gen fuel e heap (visited ++ [bb]) (fold_left (push_new (visited ++ [bb])) nx s1)).
Proof.
  cbn [identify_subroutine_blocks_floop_gen].
  assert (Hl : Nat.ltb 0 (length (s1 ++ [bb])) = true) by (apply Nat.ltb_lt; rewrite app_length; cbn; lia).
  assert (Hlast : fl_last (s1 ++ [bb]) = Some bb).
  { clear. induction s1 as [|a s1 IH]; [reflexivity|]. cbn [app]. destruct (s1 ++ [bb]) as [|n l] eqn:E; [destruct s1; discriminate|].
    exact IH. }
  rewrite Hl, Hlast, removelast_last. cbn [bind].
  destruct (fo_next heap bb) as [nx|]; [|reflexivity]. cbn [bind].
  rewrite fdfs_push_fold. reflexivity.
Qed.

Lemma floop_gen_nil fuel e heap visited :
  identify_subroutine_blocks_floop_gen (S fuel) e heap visited [] = Some (Some (visited, [])).
Proof. reflexivity. Qed.

(* soundness for every budget and every heap: whenever the generated loop ends within its budget without exception,
   it returns what Group.dfs_list returns with the same fuel *)
Theorem identify_floop_gen_sound : forall fuel e heap visited stack v' s',
  identify_subroutine_blocks_floop_gen fuel e heap visited stack = Some (Some (v', s')) ->
  s' = [] /\ dfs_list fuel (fh_blocks heap) stack visited = v'.
Proof.
  induction fuel as [|f IH]; intros e heap visited stack v' s' H; [discriminate|].
  destruct stack as [|x r] eqn:Es.
  - rewrite floop_gen_nil in H. injection H as <- <-. split; reflexivity.
  - assert (Hne : x :: r <> []) by discriminate.
    destruct (exists_last Hne) as (s1 & bb & E). rewrite E in *.
    rewrite floop_gen_step in H. unfold fo_next in H. destruct (get_blk (fh_blocks heap) bb) as [b|] eqn:Hn; [|discriminate].
    cbn [option_map bind] in H. rewrite dfs_list_step, Hn. apply (IH _ _ _ _ _ _ H).
Qed.

(* on a heap closed under successors the model's budget suffices and no exception is raised *)
Lemma identify_floop_gen_total heap e :
  let bl := fh_blocks heap in
  NoDup (map b_idx bl) -> In e (map b_idx bl) ->
  (forall b y, In b bl -> In y (b_next b) -> In y (map b_idx bl)) ->
  forall fuel stack visited, dinv (as_indexed bl) e stack visited -> length bl < fuel + length visited ->
    identify_subroutine_blocks_floop_gen fuel e heap visited stack = Some (Some (dfs_list fuel bl stack visited, [])).
Proof.
  intros bl Hnd He Hclosed.
  assert (Hreach_ids : forall x, Reach (as_indexed bl) e x -> In x (map b_idx bl)).
  { intros x Hx. induction Hx; [assumption|]. rewrite next_of_as_indexed in H. unfold lnext in H.
    destruct (get_blk bl x) as [b|] eqn:Eb; [|destruct H]. destruct (get_blk_some _ _ _ Eb) as [Hin _]. eapply Hclosed; eauto. }
  induction fuel as [|f IH]; intros stack visited Hinv Hfuel.
  - exfalso. cbn in Hfuel. assert (length visited <= length bl); [|lia]. rewrite <- (map_length b_idx bl).
    apply NoDup_incl_length; [apply (d_ndv _ _ _ _ Hinv)|]. intros x Hx. apply Hreach_ids. apply (d_reach _ _ _ _ Hinv). left. exact Hx.
  - destruct stack as [|x r] eqn:Es; [reflexivity|].
    assert (Hne : x :: r <> []) by discriminate.
    destruct (exists_last Hne) as (s1 & bb & E). rewrite E in *.
    rewrite floop_gen_step, dfs_list_step.
    assert (Hbb : In bb (map b_idx bl)).
    { apply Hreach_ids. apply (d_reach _ _ _ _ Hinv). right. apply in_or_app. right. left. reflexivity. }
    unfold fo_next. fold bl. destruct (get_blk bl bb) as [b|] eqn:Hn; [|apply get_blk_none in Hn; contradiction].
    cbn [option_map bind]. apply IH.
    + pose proof (dinv_step _ _ _ _ _ Hinv) as Hs. rewrite next_of_as_indexed in Hs. unfold lnext in Hs. rewrite Hn in Hs. exact Hs.
    + rewrite app_length. cbn. lia.
Qed.

(* THEOREM 4a: on a heap with distinct identifiers that is closed under successors, the generated
   identify_subroutine_blocks with the model's budget is Group.dfs_list from the entry *)
Theorem identify_subroutine_blocks_fgen_eq heap e :
  let bl := fh_blocks heap in
  NoDup (map b_idx bl) -> In e (map b_idx bl) ->
  (forall b y, In b bl -> In y (b_next b) -> In y (map b_idx bl)) ->
  identify_subroutine_blocks_fgen (S (length bl)) e heap = Some (Some (dfs_list (S (length bl)) bl [e] [])).
Proof.
  intros bl Hnd He Hclosed. unfold identify_subroutine_blocks_fgen. cbn [app].
  rewrite (identify_floop_gen_total heap e Hnd He Hclosed (S (length bl)) [e] []); [reflexivity| |fold bl; cbn; lia].
  constructor; cbn; try tauto.
  - constructor.
  - constructor; [intros [] | constructor].
  - intros x [[]|[<-|[]]]. constructor.
Qed.

Theorem identify_subroutine_blocks_fgen_sound fuel e heap r :
  identify_subroutine_blocks_fgen fuel e heap = Some (Some r) -> dfs_list fuel (fh_blocks heap) [e] [] = r.
Proof.
  unfold identify_subroutine_blocks_fgen. cbn [app].
  destruct (identify_subroutine_blocks_floop_gen fuel e heap [] [e]) as [[[v s]|]|] eqn:H; cbn; try discriminate.
  intros E. injection E as <-. apply (identify_floop_gen_sound _ _ _ _ _ _ _ H).
Qed.

(* ---- segment C: the loop that drops the predecessors outside the function *)
Definition prevf_inner (fmb : list nat) (bi : nat) : py fheap -> nat -> py fheap :=
  (fun acc2 prev_b => (bind acc2 (fun st2 =>
          (let heap := st2 in
          (if (negb (fl_mem prev_b fmb))
           then
              (bind (fo_prev_remove heap bi prev_b) (fun heap =>
              (ret heap)))
           else
              (ret heap)))))).

Definition prevf_outer (fmb : list nat) : py fheap -> nat -> py fheap :=
  (fun acc bi => (bind acc (fun st =>
        (let heap := st in
        (bind (fo_prev heap bi) (fun tmp2 =>
        (bind (fold_left (prevf_inner fmb bi)
          tmp2 (ret heap)) (fun tmp3 =>
        (let heap := tmp3 in
        (ret heap)))))))))).

Lemma function_main_blocks_gen_unfold fuel dpb heap :
  function_main_blocks_gen fuel dpb heap =
  bind (fl_nth dpb 0) (fun entry =>
  bind (identify_subroutine_blocks_fgen fuel entry heap) (fun tmp1 =>
  match tmp1 with
  | None => ret None
  | Some fmb => bind (fold_left (prevf_outer fmb) fmb (ret heap)) (fun tmp4 => ret (Some (entry, fmb, tmp4)))
  end)).
Proof. reflexivity. Qed.

Definition map_cells (g : block -> block) (h : fheap) : fheap :=
  mkFH (map g (fh_blocks h)) (fh_prog h) (fh_next_id h) (fh_idx h) (fh_line h).
Definition set_cell (h : fheap) (c : block) : fheap :=
  mkFH (set_block (fh_blocks h) c) (fh_prog h) (fh_next_id h) (fh_idx h) (fh_line h).
(* the cells of the function's main blocks keep only the predecessors that are main blocks *)
Definition prune_cells (ids : list nat) (c : block) : block := if nat_mem (b_idx c) ids then prune_by ids c else c.

Lemma get_blk_set_block_same bs c c0 : get_blk bs (b_idx c) = Some c0 -> get_blk (set_block bs c) (b_idx c) = Some c.
Proof.
  unfold get_blk, set_block. induction bs as [|a bs IH]; intros H; [discriminate|]. cbn [map find] in *.
  destruct (Nat.eqb (b_idx a) (b_idx c)) eqn:E.
  - rewrite Nat.eqb_refl. reflexivity.
  - rewrite E. apply IH. exact H.
Qed.

Lemma set_block_twice bs c1 c2 : b_idx c1 = b_idx c2 -> set_block (set_block bs c1) c2 = set_block bs c2.
Proof.
  intros E. unfold set_block. rewrite map_map. apply map_ext. intros x. destruct (Nat.eqb (b_idx x) (b_idx c1)) eqn:E1.
  - rewrite E, Nat.eqb_refl. rewrite <- E, E1. reflexivity.
  - rewrite <- E, E1. reflexivity.
Qed.

Lemma set_block_id bs c : NoDup (map b_idx bs) -> In c bs -> set_block bs c = bs.
Proof.
  intros Hnd Hin. unfold set_block. rewrite <- (map_id bs) at 2. apply map_ext_in. intros x Hx.
  destruct (Nat.eqb (b_idx x) (b_idx c)) eqn:E; [|reflexivity]. apply Nat.eqb_eq in E.
  pose proof (get_blk_unique bs x Hnd Hx) as H1. pose proof (get_blk_unique bs c Hnd Hin) as H2. rewrite E, H2 in H1. inversion H1. reflexivity.
Qed.

Lemma fl_remove_app x : forall k r, ~ In x k -> fl_remove (k ++ x :: r) x = Some (k ++ r).
Proof.
  induction k as [|a k IH]; intros r H; cbn [app fl_remove]; [rewrite Nat.eqb_refl; reflexivity|].
  destruct (Nat.eqb a x) eqn:E; [apply Nat.eqb_eq in E; exfalso; apply H; left; exact E|].
  rewrite IH by (intro Hin; apply H; right; exact Hin). reflexivity.
Qed.

Lemma prevf_inner_fold fmb bi ins nx h0 c0 : get_blk (fh_blocks h0) bi = Some c0 ->
  forall todo kept, (forall x, In x kept -> nat_mem x fmb = true) ->
  fold_left (prevf_inner fmb bi) todo (Some (set_cell h0 (mkBlock bi ins nx (kept ++ todo)))) =
  Some (set_cell h0 (mkBlock bi ins nx (kept ++ filter (fun q => nat_mem q fmb) todo))).
Proof.
  intros H0. induction todo as [|x todo IH]; intros kept Hk; [reflexivity|]. cbn [fold_left filter].
  unfold prevf_inner at 2. cbn [bind]. rewrite fl_mem_nat_mem. destruct (nat_mem x fmb) eqn:Ex; cbn [negb].
  - unfold ret. replace (kept ++ x :: todo) with ((kept ++ [x]) ++ todo) by (rewrite <- app_assoc; reflexivity).
    replace (kept ++ x :: filter (fun q => nat_mem q fmb) todo) with ((kept ++ [x]) ++ filter (fun q => nat_mem q fmb) todo) by (rewrite <- app_assoc; reflexivity).
    apply IH. intros y Hy. apply in_app_iff in Hy. destruct Hy as [Hy|[<-|[]]]; [apply Hk; exact Hy | exact Ex].
  - assert (Hr : fo_prev_remove (set_cell h0 (mkBlock bi ins nx (kept ++ x :: todo))) bi x = Some (set_cell h0 (mkBlock bi ins nx (kept ++ todo)))).
    { unfold fo_prev_remove, fo_update, set_cell. cbn [fh_blocks fh_prog fh_next_id fh_idx fh_line].
      pose proof (get_blk_set_block_same (fh_blocks h0) (mkBlock bi ins nx (kept ++ x :: todo)) c0 H0) as Hg. cbn [b_idx] in Hg.
      rewrite Hg. cbn [bind b_prev b_idx b_ins b_next].
      rewrite fl_remove_app by (intro Hin; apply Hk in Hin; congruence). cbn [bind ret]. rewrite set_block_twice by reflexivity. reflexivity. }
    rewrite Hr. cbn [bind ret]. apply IH. exact Hk.
Qed.

Lemma prevf_outer_fold fmb : forall l h,
  NoDup (map b_idx (fh_blocks h)) -> NoDup l -> (forall x, In x l -> In x (map b_idx (fh_blocks h))) ->
  fold_left (prevf_outer fmb) l (Some h) =
  Some (map_cells (fun c => if nat_mem (b_idx c) l then prune_by fmb c else c) h).
Proof.
  induction l as [|bi l IH]; intros h Hnd Hl Hex.
  - cbn. unfold map_cells. rewrite map_id. destruct h; reflexivity.
  - cbn [fold_left]. apply NoDup_cons_iff in Hl. destruct Hl as [Hbi Hl].
    assert (Hc : exists c, get_blk (fh_blocks h) bi = Some c).
    { destruct (get_blk (fh_blocks h) bi) as [c|] eqn:E; [eauto|]. apply get_blk_none in E. exfalso. apply E. apply Hex. left. reflexivity. }
    destruct Hc as (c & Hc). destruct (get_blk_some _ _ _ Hc) as [Hcin Hcidx].
    assert (Es : prevf_outer fmb (Some h) bi = Some (set_cell h (prune_by fmb c))).
    { unfold prevf_outer. cbn [bind]. unfold fo_prev. rewrite Hc. cbn [option_map bind]. unfold ret.
      assert (Eh : h = set_cell h (mkBlock bi (b_ins c) (b_next c) ([] ++ b_prev c))).
      { unfold set_cell. cbn [app]. rewrite <- Hcidx, block_eta, (set_block_id _ c Hnd Hcin). destruct h; reflexivity. }
      rewrite Eh at 1. rewrite (prevf_inner_fold fmb bi (b_ins c) (b_next c) h c Hc (b_prev c) []) by (intros x []).
      cbn [bind app]. unfold prune_by. rewrite Hcidx. reflexivity. }
    rewrite Es.
    assert (Em : set_cell h (prune_by fmb c) = map_cells (fun x => if Nat.eqb (b_idx x) bi then prune_by fmb x else x) h).
    { unfold set_cell, map_cells. f_equal. unfold set_block. apply map_ext_in. intros x Hx. cbn [prune_by b_idx]. rewrite Hcidx.
      destruct (Nat.eqb (b_idx x) bi) eqn:E; [|reflexivity]. apply Nat.eqb_eq in E.
      pose proof (get_blk_unique _ x Hnd Hx) as Hu. rewrite E, Hc in Hu. inversion Hu. reflexivity. }
    rewrite Em. rewrite IH.
    + unfold map_cells. cbn [fh_blocks fh_prog fh_next_id fh_idx fh_line]. rewrite map_map. f_equal. f_equal. apply map_ext. intros x.
      destruct (Nat.eqb (b_idx x) bi) eqn:E.
      * cbn [prune_by b_idx].
        assert (Ef : nat_mem (b_idx x) l = false) by (apply nat_mem_false; apply Nat.eqb_eq in E; rewrite E; exact Hbi).
        assert (Et : nat_mem (b_idx x) (bi :: l) = true) by (unfold nat_mem; cbn [existsb]; rewrite E; reflexivity).
        rewrite Ef, Et. reflexivity.
      * assert (Et : nat_mem (b_idx x) (bi :: l) = nat_mem (b_idx x) l) by (unfold nat_mem; cbn [existsb]; rewrite E; reflexivity).
        rewrite Et. reflexivity.
    + unfold map_cells. cbn [fh_blocks]. rewrite map_idx_map; [exact Hnd|]. intros x. destruct (Nat.eqb (b_idx x) bi); reflexivity.
    + exact Hl.
    + unfold map_cells. cbn [fh_blocks]. rewrite map_idx_map; [|intros x; destruct (Nat.eqb (b_idx x) bi); reflexivity].
      intros x Hx. apply Hex. right. exact Hx.
Qed.

(* THEOREM 4b: segment C on a heap with distinct identifiers, closed under successors, whose first path block is in the
   heap: the main blocks are Group.dfs_list from the entry, and afterwards the cell of every main block has lost
   exactly the predecessors that are not main blocks (Group.construct_function's filter); no exception *)
Theorem function_main_blocks_gen_eq dpb heap entry :
  fl_nth dpb 0 = Some entry ->
  NoDup (map b_idx (fh_blocks heap)) -> In entry (map b_idx (fh_blocks heap)) ->
  (forall b y, In b (fh_blocks heap) -> In y (b_next b) -> In y (map b_idx (fh_blocks heap))) ->
  function_main_blocks_gen (S (length (fh_blocks heap))) dpb heap =
  Some (Some (entry, dfs_list (S (length (fh_blocks heap))) (fh_blocks heap) [entry] [],
              map_cells (prune_cells (dfs_list (S (length (fh_blocks heap))) (fh_blocks heap) [entry] [])) heap)).
Proof.
  intros He Hnd Hin Hclosed. rewrite function_main_blocks_gen_unfold, He. cbn [bind].
  rewrite (identify_subroutine_blocks_fgen_eq heap entry Hnd Hin Hclosed). cbn [bind].
  destruct (dfs_list_reach (fh_blocks heap) entry Hnd Hin Hclosed) as [Hr Hndr].
  set (ids := dfs_list (S (length (fh_blocks heap))) (fh_blocks heap) [entry] []) in *.
  unfold ret. rewrite (prevf_outer_fold ids ids heap Hnd Hndr).
  - reflexivity.
  - intros x Hx. apply Hr in Hx. clear -Hx Hin Hclosed. induction Hx; [exact Hin|].
    unfold lnext in H. destruct (get_blk (fh_blocks heap) x) as [b|] eqn:Eb; [|destruct H]. destruct (get_blk_some _ _ _ Eb) as [Hb _]. eapply Hclosed; eauto.
Qed.

(* ====================================================================== *)
(* 5. Segment E (the Function object) and the whole construct_function     *)
(* ====================================================================== *)
Lemma map_opt_total {A B} (f : A -> option B) : forall l, (forall x, In x l -> f x <> None) ->
  map_opt f l = Some (flat_map (fun x => match f x with Some y => [y] | None => [] end) l).
Proof.
  induction l as [|a l IH]; intros H; [reflexivity|]. cbn [map_opt flat_map].
  destruct (f a) as [y|] eqn:E; [|exfalso; apply (H a (or_introl eq_refl)); exact E].
  rewrite IH by (intros x Hx; apply H; right; exact Hx). reflexivity.
Qed.

Lemma sdict_set_new d k v : ~ In k (map fst d) -> sdict_set d k v = d ++ [(k, v)].
Proof.
  unfold sdict_set. induction d as [|[k0 w] d IH]; intros H; [reflexivity|]. cbn [map fst] in H.
  destruct (String.eqb k0 k) eqn:E; [apply String.eqb_eq in E; exfalso; apply H; left; exact E|].
  simpl. rewrite ?E. f_equal. apply IH. intro Hin. apply H. right. exact Hin.
Qed.

Definition fsubs_body (fmn : string) : py (list (string * subref)) -> subref -> py (list (string * subref)) :=
  (fun acc sub => (bind acc (fun st =>
      (ret (sdict_set st (sub_attr_name fmn sub) sub))))).
Definition fblocks_body (t : teal) (heap : fheap) (fmb : list nat) : py (list block) -> subref -> py (list block) :=
  (fun acc sub => (bind acc (fun st =>
    (let all_function_blocks := st in
    (bind (bind (sub_block_cells t heap fmb sub) (fun tmp1 => (ret (all_function_blocks ++ tmp1)))) (fun all_function_blocks =>
    (ret all_function_blocks))))))).

Lemma function_object_gen_unfold t fmn entry fmb used heap :
  function_object_gen t fmn entry fmb used heap =
  bind (fold_left (fsubs_body fmn) used (ret [])) (fun fsubs =>
  bind (fold_left (fblocks_body t heap fmb) ([FunctionMain] ++ used) (ret [])) (fun tmp2 =>
  bind (mk_Function t heap fmb entry tmp2 FunctionMain fsubs) (fun f => ret f))).
Proof. reflexivity. Qed.

Lemma fsubs_fold fmn : forall l d, NoDup (map fst d ++ l) ->
  fold_left (fsubs_body fmn) (map TealSub l) (Some d) = Some (d ++ map (fun n => (n, TealSub n)) l).
Proof.
  induction l as [|n l IH]; intros d Hnd; [cbn; rewrite app_nil_r; reflexivity|]. cbn [map fold_left].
  unfold fsubs_body at 2. cbn [bind ret sub_attr_name].
  rewrite sdict_set_new by (apply NoDup_remove_2 in Hnd; intro Hin; apply Hnd; apply in_or_app; left; exact Hin).
  rewrite IH.
  - rewrite <- app_assoc. reflexivity.
  - rewrite map_app. cbn [map fst]. rewrite <- app_assoc. exact Hnd.
Qed.

Lemma fblocks_fold t heap fmb (cells : subref -> list block) : forall subs acc,
  (forall s, In s subs -> sub_block_cells t heap fmb s = Some (cells s)) ->
  fold_left (fblocks_body t heap fmb) subs (Some acc) = Some (acc ++ flat_map cells subs).
Proof.
  induction subs as [|s subs IH]; intros acc H; [cbn; rewrite app_nil_r; reflexivity|]. cbn [fold_left flat_map].
  unfold fblocks_body at 2. cbn [bind]. rewrite (H s (or_introl eq_refl)). cbn [bind ret].
  rewrite IH by (intros x Hx; apply H; right; exact Hx). rewrite app_assoc. reflexivity.
Qed.

Section Whole.
  Variables (p : prog) (t : teal).
  Hypothesis Hparse : parse_teal p = Ok t.
  Let N0 := S (max_idx (t_blocks t)).

  Definition subs_of (used : list string) : list subroutine :=
    flat_map (fun n => match find_sub t n with Some s => [s] | None => [] end) used.

  (* THEOREM 5a: segment E.  For used subroutines that are distinct subroutines of the contract and main blocks that
     are all in the heap, the generated assembly is the model's record: the cells of the main blocks, then the
     blocks of the used subroutines in order *)
  Theorem function_object_gen_eq fmn entry fmb used heap :
    NoDup used -> resolvable t used -> (forall n, In n fmb -> get_blk (fh_blocks heap) n <> None) ->
    function_object_gen t fmn entry fmb (map TealSub used) heap =
    Some (mkFunc (fh_prog heap)
                 (flat_map (fun n => match get_blk (fh_blocks heap) n with Some b => [b] | None => [] end) fmb
                    ++ lookup_blocks t (flat_map s_blocks (subs_of used)))
                 entry fmb (subs_of used) (t_subs t) (t_intcs t)).
  Proof.
    intros Hnd Hres Hcells. rewrite function_object_gen_unfold. unfold ret at 1.
    rewrite (fsubs_fold fmn used []) by exact Hnd. cbn [app bind].
    set (cells := fun s => match s with
                           | FunctionMain => flat_map (fun n => match get_blk (fh_blocks heap) n with Some b => [b] | None => [] end) fmb
                           | TealSub n => match find_sub t n with Some sb => lookup_blocks t (s_blocks sb) | None => [] end
                           end).
    unfold ret at 1. rewrite (fblocks_fold t heap fmb cells).
    - assert (Eb : flat_map cells (map TealSub used) = lookup_blocks t (flat_map s_blocks (subs_of used))).
      { unfold subs_of, lookup_blocks. rewrite !flat_map_flat_map.
        rewrite (flat_map_concat_map cells (map TealSub used)), map_map, <- flat_map_concat_map.
        apply flat_map_ext. intros n. unfold cells. destruct (find_sub t n) as [sb|]; [|reflexivity].
        cbn [flat_map]. rewrite app_nil_r. reflexivity. }
      change ([FunctionMain] ++ map TealSub used) with (FunctionMain :: map TealSub used). cbn [flat_map app]. rewrite Eb. cbn [bind].
      unfold mk_Function. cbn [sub_attr_blocks bind ret].
      assert (Es : map_opt (fun kv : string * subref => sub_record t (snd kv)) (map (fun n => (n, TealSub n)) used) = Some (subs_of used)).
      { rewrite map_opt_total.
        - f_equal. unfold subs_of. rewrite flat_map_concat_map, map_map, <- flat_map_concat_map. reflexivity.
        - intros kv Hkv. apply in_map_iff in Hkv. destruct Hkv as (n & <- & Hn). cbn [snd sub_record].
          destruct (Hres n Hn) as (sb & ->). discriminate. }
      rewrite Es. reflexivity.
    - intros s Hs. destruct Hs as [<-|Hs].
      + unfold sub_block_cells. cbn [sub_attr_blocks sub_store bind ret fst]. apply map_opt_total. exact Hcells.
      + apply in_map_iff in Hs. destruct Hs as (n & <- & Hn). destruct (Hres n Hn) as (sb & Hsb).
        unfold sub_block_cells. cbn [sub_attr_blocks sub_store fst cells]. rewrite Hsb. cbn [option_map bind].
        change (get_blk (t_blocks t)) with (tblock t). rewrite map_opt_total; [reflexivity|].
        intros b Hb. destruct (find_sub_some t n sb Hsb) as [Hin _]. destruct (cg_sub_tblock p t Hparse sb b Hin Hb) as (bb & ->). discriminate.
  Qed.

  (* ---- the state after the cutting loop *)
  Section Composed.
    Variable path : list nat.
    Hypothesis Hw : walk_path t path [0] [] = Ok path.
    Hypothesis Hhead : exists rest, path = 0 :: rest.
    Let st := cf_st t path.
    Let bl := fs_blocks st.
    Let ids := cf_main_ids t path.
    Let heap2 := map_cells (prune_cells ids) (heap_of t st).

    Lemma path_main x : In x path -> In x (s_blocks (t_main t)).
    Proof.
      destruct (dispatch_path_spec t path path Hw) as (_ & _ & Hch & _).
      apply (chain_main p t Hparse path [0] Hch). intros y [<-|[]]. apply (zero_main p t Hparse).
    Qed.

    Lemma st_binv : binv t st [].
    Proof.
      destruct (dispatch_path_spec t path path Hw) as (_ & Hnd & _ & _).
      assert (Hd : forall i x, nth_error path i = Some x -> nth_error path (0 + i) = Some x) by (intros i x Hx; exact Hx).
      exact (proj2 (cut_path_gen_fold p t Hparse path path 0 (fn_state0 t) Hd Hnd (binv_state0 p t Hparse path path_main))).
    Qed.

    Lemma st_closed : fs_closed st /\ In 0 (map b_idx bl).
    Proof.
      destruct (cut_path_closed path (fn_state0 t) (fn_state0_wf p t Hparse) (fn_state0_closed p t Hparse)) as [H1 H2].
      split; [exact H1|]. apply H2. rewrite (fn_state0_ids p t Hparse). apply (zero_main p t Hparse).
    Qed.

    Lemma ids_in_bl x : In x ids -> exists c, get_blk bl x = Some c.
    Proof.
      intros Hx. destruct st_closed as [Hc H0].
      destruct (dfs_list_reach bl 0 (bv_nodup _ _ _ st_binv) H0 Hc) as [Hr _]. apply Hr in Hx.
      assert (Hin : In x (map b_idx bl)).
      { clear -Hx H0 Hc. induction Hx; [exact H0|]. unfold lnext in H. destruct (get_blk bl x) as [b|] eqn:Eb; [|destruct H].
        destruct (get_blk_some _ _ _ Eb) as [Hb _]. eapply Hc; eauto. }
      destruct (get_blk bl x) as [c|] eqn:E; [eauto|]. apply get_blk_none in E. contradiction.
    Qed.

    Lemma heap2_cell x c : In x ids -> get_blk bl x = Some c -> get_blk (fh_blocks heap2) x = Some (prune_by ids c).
    Proof.
      intros Hx Hc. unfold heap2, map_cells. cbn [fh_blocks heap_of heap_of_state]. fold bl.
      rewrite get_blk_map by (intros y; unfold prune_cells; destruct (nat_mem (b_idx y) ids); reflexivity).
      rewrite Hc. cbn [option_map]. unfold prune_cells. destruct (get_blk_some _ _ _ Hc) as [_ Hidx]. rewrite Hidx.
      apply nat_mem_In in Hx. rewrite Hx. reflexivity.
    Qed.

    Lemma heap2_store_good x : In x ids -> store_good t (sub_store t heap2 FunctionMain) x.
    Proof.
      intros Hx. destruct (ids_in_bl x Hx) as (c & Hc). cbn [sub_store]. unfold store_good. cbn [fst snd].
      rewrite (heap2_cell x c Hx Hc). change (fh_prog heap2) with (fs_prog st).
      destruct (Nat.lt_ge_cases x N0) as [Hlt|Hge].
      - destruct (bv_orig _ _ _ st_binv x c Hlt Hc) as (tb & Htb & Hi).
        destruct (teal_store_good p t Hparse x tb Htb) as (c' & i & Hc' & Hne & Hop & Hsub). cbn [fst snd] in *.
        change (get_blk (t_blocks t) x) with (tblock t x) in Hc'. rewrite Htb in Hc'. inversion Hc'; subst c'.
        exists (prune_by ids c), i. cbn [prune_by b_ins]. rewrite Hi. split; [reflexivity|]. split; [exact Hne|]. split; [|exact Hsub].
        rewrite (bv_prog _ _ _ st_binv). rewrite op_at_app_l; [exact Hop|]. eapply op_at_some_lt. exact Hop.
      - destruct (bv_new _ _ _ st_binv x c Hge Hc) as (pos & Hi & Hop).
        exists (prune_by ids c), ICustomErr. cbn [prune_by b_ins]. rewrite Hi. split; [reflexivity|]. split; [discriminate|].
        split; [exact Hop | intros l El; discriminate].
    Qed.

    Lemma heap2_callees : flat_map (store_callee (sub_store t heap2 FunctionMain)) ids = flat_map (exit_callee (fs_prog st)) (cf_main_blocks t path).
    Proof.
      unfold cf_main_blocks. fold st ids. rewrite flat_map_flat_map. apply flat_map_ext_in. intros x Hx.
      destruct (ids_in_bl x Hx) as (c & Hc). fold bl. rewrite Hc. cbn [flat_map]. rewrite app_nil_r.
      unfold store_callee. cbn [sub_store fst snd]. rewrite (heap2_cell x c Hx Hc). reflexivity.
    Qed.

    Lemma heap2_called : called_subroutines_gen t heap2 ids FunctionMain = Some (map TealSub (cf_called t path)).
    Proof.
      rewrite (called_subroutines_gen_spec t heap2 ids FunctionMain ids eq_refl heap2_store_good), heap2_callees. reflexivity.
    Qed.

    Lemma cf_called_names : incl (cf_called t path) (map s_name (t_subs t)).
    Proof.
      intros l Hl.
      assert (E : cf_called t path = dedup_s (flat_map (store_callee (sub_store t heap2 FunctionMain)) ids)) by (rewrite heap2_callees; reflexivity).
      rewrite E in Hl. apply (proj1 (dedup_s_In _ _)) in Hl. apply in_flat_map in Hl.
      destruct Hl as (x & Hx & Hl). destruct (heap2_store_good x Hx) as (c & i & Hc & Hne & Hop & Hsub).
      unfold store_callee in Hl. rewrite Hc in Hl. destruct (b_ins c) as [|k0 r] eqn:Ei; [contradiction|]. cbv beta iota in Hl. rewrite Hop in Hl.
      destruct i; try (destruct Hl; fail). destruct Hl as [<-|[]]. specialize (Hsub l0 eq_refl).
      destruct (find_sub t l0) as [sb|] eqn:Es; [|contradiction]. destruct (find_sub_some t l0 sb Es) as [Hin <-]. apply in_map. exact Hin.
    Qed.

    Lemma cf_used_facts : NoDup (cf_used t path) /\ resolvable t (cf_used t path).
    Proof.
      pose proof (dedup_s_NoDup (flat_map (exit_callee (fs_prog (cf_st t path))) (cf_main_blocks t path))) as Hnd. fold (cf_called t path) in Hnd.
      destruct (used_subs_spec t (map s_name (t_subs t)) (callees_names p t Hparse) (S (length (t_subs t))) (cf_called t path) (cf_called t path)
                  Hnd (incl_refl _) cf_called_names) as (H1 & _ & _).
      - intros u Hu Hnu. contradiction.
      - rewrite map_length. lia.
      - split; [exact H1|]. intros u Hu.
        assert (Hin : In u (map s_name (t_subs t))).
        { apply (used_subs_incl t (map s_name (t_subs t))) with (fuel := S (length (t_subs t))) (work := cf_called t path) (acc := cf_called t path);
            [|exact cf_called_names | exact cf_called_names | exact Hu].
          intros v _ x Hx. apply (callees_names p t Hparse v x Hx). }
        apply in_map_iff in Hin. destruct Hin as (sb & <- & Hsb). exists sb. apply (find_sub_self p t Hparse sb Hsb).
    Qed.

    (* THEOREM 5b: the composition on an accepted dispatch path, with the model's two budgets *)
    Theorem construct_function_gen_accepted fmn :
      construct_function_gen (S (length bl)) (S (S (length (t_subs t)))) t fmn path (function_blocks0 t) (heap0 t) =
      Some (Some (Ok (cf_func t path, heap2))).
    Proof.
      unfold construct_function_gen. rewrite (dispatch_walk_gen_eq p t Hparse path), Hw. cbn [bind].
      rewrite (cut_path_gen_eq p t Hparse path path Hw). cbn [bind]. fold (cf_st t path). fold st.
      destruct Hhead as (rest & Ep). destruct st_closed as [Hclosed H0].
      change (S (length bl)) with (S (length (fh_blocks (heap_of t st)))).
      rewrite (function_main_blocks_gen_eq path (heap_of t st) 0); [|rewrite Ep; reflexivity | exact (bv_nodup _ _ _ st_binv) | exact H0 | exact Hclosed].
      cbn [bind fst snd].
      match goal with |- context [used_subroutines_gen _ t ?a ?b] => change b with heap2; change a with ids end.
      destruct (used_subroutines_gen_eq p t Hparse heap2 ids (cf_called t path) heap2_called) as [_ Hu].
      { apply dedup_s_NoDup. }
      { exact cf_called_names. }
      rewrite Hu. cbn [bind].
      change (used_subs (S (length (t_subs t))) t (cf_called t path) (cf_called t path)) with (cf_used t path).
      destruct cf_used_facts as [Hnd Hres].
      rewrite (function_object_gen_eq fmn 0 ids (cf_used t path) heap2 Hnd Hres).
      - assert (Ef : flat_map (fun n => match get_blk (fh_blocks heap2) n with Some b => [b] | None => [] end) ids = cf_main_blocks t path).
        { unfold cf_main_blocks. apply flat_map_ext_in. intros x Hx. destruct (ids_in_bl x Hx) as (c & Hc).
          rewrite (heap2_cell x c Hx Hc). change (fs_blocks (cf_st t path)) with bl. rewrite Hc. reflexivity. }
        rewrite Ef. reflexivity.
      - intros x Hx. destruct (ids_in_bl x Hx) as (c & Hc). rewrite (heap2_cell x c Hx Hc). discriminate.
    Qed.
  End Composed.
End Whole.

(* ====================================================================== *)
(* 6. The whole construct_function: generated = Group.construct_function   *)
(* ====================================================================== *)
(* the budgets the model uses: S |blocks after the cut| for the DFS, S (S |t_subs t|) for the closure (one more than
   Detect.used_subs: the generated loop spends one iteration on the function's main routine) *)
Definition dfs_budget (t : teal) (path : list nat) : nat := S (length (fs_blocks (cut_path (fn_state0 t) path))).
Definition subs_budget (t : teal) : nat := S (S (length (t_subs t))).

(* THEOREM 5: for EVERY parsed contract t and EVERY dispatch path on which the model returns a function, the generated
   construct_function, run on the assumed result of copy_main_cfg with the model's budgets, raises no exception,
   exhausts no budget and returns exactly the model's function record; its final heap holds the model's instruction
   list and, for the err blocks / err instructions, the idx / line values of the implementation's formulas applied to
   the model's origin table *)
Theorem construct_function_gen_eq p t path fmn f errs :
  parse_teal p = Ok t -> construct_function t path = Ok (f, errs) ->
  exists h,
    construct_function_gen (dfs_budget t path) (subs_budget t) t fmn path (function_blocks0 t) (heap0 t) = Some (Some (Ok (f, h))) /\
    fh_prog h = fn_prog f /\ fh_next_id h = fs_next_id (cut_path (fn_state0 t) path) /\
    fh_idx h = map err_idx errs /\ fh_line h = map (err_line t) (enumerate errs).
Proof.
  intros Hparse Hcf. destruct (construct_function_shape _ _ _ _ Hcf) as (Hw & Hh & -> & ->).
  eexists. split; [exact (construct_function_gen_accepted p t Hparse path Hw Hh fmn)|]. cbn. auto.
Qed.

(* the TealerExceptions of the walk: same exception, whatever the budgets *)
Theorem construct_function_gen_rejected p t path fmn e f1 f2 :
  parse_teal p = Ok t -> construct_function t path = Err e -> path <> [] ->
  construct_function_gen f1 f2 t fmn path (function_blocks0 t) (heap0 t) = Some (Some (Err e)).
Proof.
  intros Hparse Hcf Hne. rewrite construct_function_unfold in Hcf. unfold construct_function_gen.
  rewrite (dispatch_walk_gen_eq p t Hparse path).
  destruct (walk_path t path [0] []) as [pb|e'] eqn:Ew.
  - destruct (dispatch_path_spec t path pb Ew) as (-> & _). destruct path as [|a r]; [contradiction | discriminate].
  - inversion Hcf. reflexivity.
Qed.

(* the empty dispatch path: Python raises IndexError (dispatch_path_blocks[0]); the model says Err "IndexError: .." *)
Theorem construct_function_gen_empty p t fmn f1 f2 :
  parse_teal p = Ok t ->
  construct_function_gen f1 f2 t fmn [] (function_blocks0 t) (heap0 t) = None /\
  construct_function t [] = Err "IndexError: empty dispatch path".
Proof.
  intros Hparse. split; [|reflexivity]. unfold construct_function_gen. rewrite (dispatch_walk_gen_eq p t Hparse []). reflexivity.
Qed.

(* conversely: whatever the generated function returns with the model's budgets is what the model returns *)
Corollary construct_function_gen_inv p t path fmn f h :
  parse_teal p = Ok t ->
  construct_function_gen (dfs_budget t path) (subs_budget t) t fmn path (function_blocks0 t) (heap0 t) = Some (Some (Ok (f, h))) ->
  exists errs, construct_function t path = Ok (f, errs) /\ fh_idx h = map err_idx errs.
Proof.
  intros Hparse Hg. destruct path as [|a r].
  - rewrite (proj1 (construct_function_gen_empty p t fmn _ _ Hparse)) in Hg. discriminate.
  - destruct (construct_function t (a :: r)) as [[f' errs]|e] eqn:Hcf.
    + destruct (construct_function_gen_eq p t (a :: r) fmn f' errs Hparse Hcf) as (h' & Hg' & _ & _ & Hi & _).
      rewrite Hg' in Hg. inversion Hg; subst. eauto.
    + rewrite (construct_function_gen_rejected p t (a :: r) fmn e _ _ Hparse Hcf) in Hg by discriminate. discriminate.
Qed.

(* TRANSPORTED (CutGraphOk.cutfun_graph_ok): the function the GENERATED construct_function returns for a structured
   contract satisfies ExecLemmas.graph_ok, the hypothesis of the soundness theorems of the analyses *)
Theorem construct_function_gen_graph_ok p t path fmn f h :
  parse_teal p = Ok t -> struct_ok t ->
  construct_function_gen (dfs_budget t path) (subs_budget t) t fmn path (function_blocks0 t) (heap0 t) = Some (Some (Ok (f, h))) ->
  ExecLemmas.graph_ok f.
Proof.
  intros Hparse Hok Hg. destruct (construct_function_gen_inv p t path fmn f h Hparse Hg) as (errs & Hcf & _).
  exact (cutfun_graph_ok p t path f errs Hparse Hok Hcf).
Qed.

(* TRANSPORTED (CutExec.cutfun_run_complete): every run of the whole contract that follows the dispatch path is a run
   of the function the generated construct_function returns *)
Theorem construct_function_gen_run_complete p t path fmn f h cfgs :
  parse_teal p = Ok t ->
  construct_function_gen (dfs_budget t path) (subs_budget t) t fmn path (function_blocks0 t) (heap0 t) = Some (Some (Ok (f, h))) ->
  Runs.Run (whole_function t) cfgs -> follows path cfgs -> Runs.Run f cfgs.
Proof.
  intros Hparse Hg. destruct (construct_function_gen_inv p t path fmn f h Hparse Hg) as (errs & Hcf & _).
  exact (cutfun_run_complete p t path f errs Hparse Hcf cfgs).
Qed.

(* ---- concrete instances (vm_compute): the statements are not vacuous.  CutExecEx.ex_reenter_t: blocks 0 -> 1 -> {2, 3},
   3 -> 1; path B0 B1 B3 cuts the successor 2 of block 1 (err block 4); path B0 B1 B0 is rejected; subroutines:
   ex_callpath_t *)
Definition run_gen (t : teal) (path : list nat) : py (option (res (func * fheap))) :=
  construct_function_gen (dfs_budget t path) (subs_budget t) t "__main__.f" path (function_blocks0 t) (heap0 t).
Definition gen_view (r : py (option (res (func * fheap)))) : option (res (func * (list nat * list nat))) :=
  match r with
  | Some (Some (Ok (f, h))) => Some (Ok (f, (map fst (fh_idx h), map fst (fh_line h))))
  | Some (Some (Err e)) => Some (Err e)
  | _ => None
  end.
Example run_gen_reenter : gen_view (run_gen ex_reenter_t [0; 1; 3]) = Some (Ok (ex_reenter_f, ([4], [8]))).
Proof. vm_compute. reflexivity. Qed.
Example run_gen_reenter_idx :
  match run_gen ex_reenter_t [0; 1; 3] with
  | Some (Some (Ok (_, h))) => match fh_idx h with [(e, v)] => (Nat.eqb e 4 && Nat.eqb v (Nat.shiftl 2 16 + 2))%bool | _ => false end
  | _ => false
  end = true.
Proof. vm_compute. reflexivity. Qed.
Example run_gen_reenter_invalid : gen_view (run_gen ex_reenter_t [0; 1; 0]) = Some (Err "TealerException: Invalid dispatch path").
Proof. vm_compute. reflexivity. Qed.
Example run_gen_reenter_loop : gen_view (run_gen ex_reenter_t [0; 1; 3; 1]) = Some (Err "TealerException: Dispatch path is a loop").
Proof. vm_compute. reflexivity. Qed.
Example run_gen_callpath : gen_view (run_gen ex_callpath_t [0; 1]) = Some (Ok (ex_callpath_f, ([], []))).
Proof. vm_compute. reflexivity. Qed.

Print Assumptions dispatch_walk_gen_eq.
Print Assumptions dispatch_walk_gen_spec.
Print Assumptions cut_path_gen_eq.
Print Assumptions cut_path_gen_spec.
Print Assumptions called_subroutines_gen_sub.
Print Assumptions used_subroutines_loop_gen_sound.
Print Assumptions used_subroutines_gen_eq.
Print Assumptions identify_floop_gen_sound.
Print Assumptions identify_subroutine_blocks_fgen_eq.
Print Assumptions function_main_blocks_gen_eq.
Print Assumptions function_object_gen_eq.
Print Assumptions construct_function_gen_eq.
Print Assumptions construct_function_gen_rejected.
Print Assumptions construct_function_gen_empty.
Print Assumptions construct_function_gen_inv.
Print Assumptions construct_function_gen_graph_ok.
Print Assumptions construct_function_gen_run_complete.
