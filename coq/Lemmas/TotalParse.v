(* Every instruction produced by the source parser (Model/Parse.v, parse_line / Cfg.parse_program) has a stack
   arity in the generated class table: the stack emulation (StackAst.emulate) is defined on parsed programs. *)
From Coq Require Import String List NArith ZArith Bool Ascii Arith Lia.
From Tealer Require Import Tables Syntax Parse Cfg.
Import ListNotations.
Open Scope string_scope.
Open Scope list_scope.

Definition arity_def (i : instr) : bool :=
  match stack_pop_size i, stack_push_size i with Some _, Some _ => true | _, _ => false end.

(* ------------------------------------------------------------------ of_generic is inverse to cls_of / params_of *)
Lemma of_generic_inv c ps : cls_of (of_generic c ps) = c /\ params_of (of_generic c ps) = ps.
Proof.
  unfold of_generic.
  destruct ps as [|p1 [|p2 [|p3 r]]]; try (split; reflexivity);
    try (destruct p1; try (split; reflexivity)); try (destruct p2; try (split; reflexivity));
    repeat match goal with
           | |- context [if ?x =? ?s then _ else _] =>
               destruct (String.eqb_spec x s); [subst; try (split; reflexivity)|]
           | |- context [match ?f with (_, _) => _ end] => destruct f as [? [?|]]
           end; try (split; reflexivity).
Qed.

(* ------------------------------------------------------------------ arity depends on the kinds of the parameters *)
Inductive pkind := KInt | KIntOrName | KStr | KInts | KStrs | KField | KNone | KSInt.
Definition kind_of (p : param) : pkind :=
  match p with
  | PInt _ => KInt | PIntOrName _ => KIntOrName | PStr _ => KStr | PInts _ => KInts | PStrs _ => KStrs
  | PField _ => KField | PNoneP => KNone | PSInt _ => KSInt
  end.

Definition aexpr_ok (e : aexpr) (ks : list pkind) : bool :=
  match e with
  | AConst _ => true
  | AImm k _ => match nth_error ks k with Some KInt => true | _ => false end
  | ALen k _ => match nth_error ks k with Some KInts | Some KStrs => true | _ => false end
  | AIfNone k _ _ => match nth_error ks k with Some _ => true | None => false end
  end.

Lemma aexpr_ok_sound e ps : aexpr_ok e (map kind_of ps) = true -> exists n, eval_aexpr e ps = Some n.
Proof.
  destruct e as [n|k plus|k plus|k a b]; simpl.
  - eauto.
  - rewrite nth_error_map. destruct (nth_error ps k) as [[]|]; simpl; try discriminate. eauto.
  - rewrite nth_error_map. destruct (nth_error ps k) as [[]|]; simpl; try discriminate; eauto.
  - rewrite nth_error_map. destruct (nth_error ps k) as [[]|]; simpl; try discriminate; eauto.
Qed.

Definition class_ok (cls : string) (ks : list pkind) : bool :=
  match lookup_class cls with
  | Some ci => aexpr_ok (c_pop ci) ks && aexpr_ok (c_push ci) ks
  | None => false
  end.

Lemma class_ok_sound cls ps : class_ok cls (map kind_of ps) = true -> arity_def (of_generic cls ps) = true.
Proof.
  unfold class_ok, arity_def, stack_pop_size, stack_push_size.
  destruct (of_generic_inv cls ps) as [-> ->].
  destruct (lookup_class cls) as [ci|]; [|discriminate].
  intros H. apply andb_true_iff in H. destruct H as [H1 H2].
  destruct (aexpr_ok_sound _ _ H1) as [n ->]. destruct (aexpr_ok_sound _ _ H2) as [m ->]. reflexivity.
Qed.

(* ------------------------------------------------------------------ the parameter kinds a shape can produce *)
Definition shape_kinds (sh : shape) : list (list pkind) :=
  match sh with
  | SNone => [[]]
  | SInt => [[KInt]]
  | SIntOrName => [[KIntOrName]]
  | SStr => [[KStr]]
  | STxField | STxFieldStack | SGlobalField | SAssetHoldingField | SAssetParamsField | SAppParamsField
  | SAcctParamsField => [[KField]]
  | SIntsSplit | SIntsWs => [[KInts]]
  | SInt2 => [[KInt; KInt]]
  | SLabels => [[KStrs]]
  | SOptInt => [[KNone]; [KInt]]
  | SGtxn | SGtxnStack => [[KInt; KField]]
  end.

Ltac res_inv :=
  repeat match goal with
         | H : match ?x with Ok _ => _ | Err _ => _ end = Ok _ |- _ => destruct x eqn:?; [|discriminate]
         | H : (if ?x then _ else _) = Ok _ |- _ => destruct x eqn:?
         | H : match ?x with [] => _ | _ :: _ => _ end = Ok _ |- _ => destruct x eqn:?; try discriminate
         | H : match ?x with Some _ => _ | None => _ end = Ok _ |- _ => destruct x eqn:?; try discriminate
         | H : (let '(_, _) := ?x in _) = Ok _ |- _ => destruct x eqn:?
         | H : Ok _ = Ok _ |- _ => inversion H; clear H; subst
         | H : Err _ = Ok _ |- _ => discriminate H
         end.

Lemma parse_shape_kinds sh x ps : parse_shape sh x = Ok ps -> In (map kind_of ps) (shape_kinds sh).
Proof.
  destruct sh; cbn [parse_shape shape_kinds]; unfold bind; intros H; res_inv; simpl; auto.
Qed.

(* the kinds of a rule (class, shape): the SInt immediate of a signed class (frame_dig / frame_bury) is a PSInt *)
Definition rule_kinds (cls : string) (sh : shape) : list (list pkind) :=
  match sh with
  | SInt => if signed_imm_class cls then [[KSInt]] else shape_kinds sh
  | _ => shape_kinds sh
  end.
Lemma parse_imm_kinds cls sh x ps : parse_imm cls sh x = Ok ps -> In (map kind_of ps) (rule_kinds cls sh).
Proof.
  destruct sh; cbn [parse_imm rule_kinds]; try apply parse_shape_kinds.
  destruct (signed_imm_class cls); [|apply parse_shape_kinds].
  unfold bind. intros H. destruct (parse_sint x) as [z|e]; [|discriminate]. inversion H; subst. simpl. auto.
Qed.

Lemma fix_params_kinds c ps : map kind_of (fix_params c ps) = map kind_of ps.
Proof.
  unfold fix_params. destruct (label_strip c); [|reflexivity].
  rewrite map_map. apply map_ext. intros [] ; reflexivity.
Qed.

Lemma first_rule_In line rules key cls sh : first_rule line rules = Some (key, cls, sh) -> In (key, (cls, sh)) rules.
Proof.
  induction rules as [|[k [c s]] rules IH]; simpl; [discriminate|].
  destruct (starts_with k line); intros H; [inversion H; subst; left; reflexivity|right; auto].
Qed.

(* the table check: every parser rule names a class whose arities are defined on the kinds its shape produces *)
Definition rule_ok (r : string * (string * shape)) : bool :=
  forallb (class_ok (fst (snd r))) (rule_kinds (fst (snd r)) (snd (snd r))).

Lemma parser_rules_ok : forallb rule_ok parser_rules = true.
Proof. vm_compute. reflexivity. Qed.

(* ------------------------------------------------------------------ parse_line, parse_program *)
Theorem parse_line_arity line i : parse_line line = Ok (Some i) -> arity_def i = true.
Proof.
  unfold parse_line. destruct (strip line =? ""); [discriminate|].
  unfold bind. destruct (tokenize line) as [fields0|e]; [|discriminate].
  set (fields := if starts_with "//" (last fields0 "") && negb (in_b64 (last (but_last fields0) "") "")
                 then but_last fields0 else fields0). clearbody fields.
  destruct fields as [|f0 rest]; [discriminate|].
  destruct (match last_char f0 with Some c => Ascii.eqb c ":"%char | None => false end).
  { destruct rest; [|discriminate]. intros H. inversion H; subst. vm_compute. reflexivity. }
  destruct ((f0 =? "byte") || (f0 =? "pushbytes") || (f0 =? "method")).
  { destruct (parse_byte_args (S (length rest)) rest) as [imm|e]; [|discriminate].
    destruct imm as [|b [|b2 r]]; try discriminate. intros H. inversion H; subst.
    destruct (f0 =? "byte"); [vm_compute; reflexivity|]. destruct (f0 =? "pushbytes"); vm_compute; reflexivity. }
  destruct (f0 =? "bytecblock").
  { destruct (parse_byte_args (S (length rest)) rest) as [imm|e]; [|discriminate].
    intros H. inversion H; subst. vm_compute. reflexivity. }
  destruct (f0 =? "pushbytess").
  { destruct (parse_byte_args (S (length rest)) rest) as [imm|e]; [|discriminate].
    intros H. inversion H; subst. vm_compute. reflexivity. }
  cbv zeta.
  destruct (first_rule (join " " (f0 :: rest)) parser_rules) as [[[key cls] sh]|] eqn:Er.
  - destruct (parse_imm cls sh _) as [ps|e] eqn:Es; [|discriminate].
    intros H. inversion H; subst. apply class_ok_sound. rewrite fix_params_kinds.
    apply first_rule_In in Er. pose proof parser_rules_ok as Hr. rewrite forallb_forall in Hr.
    specialize (Hr _ Er). unfold rule_ok in Hr. simpl in Hr. rewrite forallb_forall in Hr.
    apply Hr. eapply parse_imm_kinds; eauto.
  - intros H. inversion H; subst. vm_compute. reflexivity.
Qed.

Lemma parse_lines_arity : forall ls n p, parse_lines ls n = Ok p -> forall i, In i p -> arity_def (i_op i) = true.
Proof.
  induction ls as [|l ls IH]; intros n p H i Hi; simpl in H.
  - inversion H; subst. destruct Hi.
  - destruct (starts_with "//" (strip l)); [eapply IH; eauto|].
    unfold bind in H. destruct (parse_line l) as [oi|e] eqn:El; [|discriminate].
    destruct (parse_lines ls (S n)) as [r|e] eqn:Er; [|discriminate].
    destruct oi as [op|]; inversion H; subst.
    + destruct Hi as [<-|Hi]; [simpl; eapply parse_line_arity; eauto|eapply IH; eauto].
    + eapply IH; eauto.
Qed.

Theorem parse_program_arity src p : parse_program src = Ok p -> forall i, In i p -> arity_def (i_op i) = true.
Proof. unfold parse_program. apply parse_lines_arity. Qed.

Print Assumptions parse_line_arity.
Print Assumptions parse_program_arity.
