(* The witness of the edge_constraint repair (Lemmas/EdgeRepair.v): a contract whose LAST line is a guard
   `bnz after_guard`.  The edge bottom_guard -> after_guard exists only by jumping, so it carries the jump-side
   constraint RekeyTo = {NO_ADDRESS} -- in the whole function and in every function Group.construct_function
   builds for a dispatch path through the guard, whether or not err instructions were appended to its program.

   1. the contract as reported (every block has one successor: nothing is cut, the program is not extended);
   2. the same guard behind a dispatch branch: the cut function's program has an err instruction appended, the
      guard is no longer the last instruction of fn_prog; the former definition (EdgeRepair.edge_constraint_old)
      put no constraint on the edge there, the repaired one does. *)
From Coq Require Import String List NArith ZArith Bool Arith Ascii.
From Tealer Require Import Tables LeafPrelude Leaves Syntax Parse Cfg StackAst Keys Analysis Domains Detect Group.
From Tealer Require Import EdgeRepair.
Import ListNotations.
Open Scope string_scope.
Open Scope list_scope.

Definition ex_nl : string := String "010"%char EmptyString.
Definition ex_dummy_teal : teal := mkTeal 0 MAny [] [] [] (mkSub "" 0 [] []) [] None.
Definition ex_dummy_func : func := mkFunc [] [] 0 [] [] [] None.
Definition ex_dummy_block : block := mkBlock 0 [] [] [].

Definition parse_src (s : string) : res teal :=
  match parse_program s with Ok p => parse_teal p | Err e => Err e end.

(* the address domain, key RekeyTo of the analysed transaction itself (Domains.v: addr_single intcs fam fld) *)
Definition rekey_edge (f : func) (pred : block) (succ : nat) : option sset :=
  edge_constraint sset addr_universal_set addr_null_set addr_union addr_intersection
    (addr_single (fn_intcs f) KSelf "RekeyTo") f pred succ.
Definition rekey_edge_old (f : func) (pred : block) (succ : nat) : option sset :=
  edge_constraint_old sset addr_universal_set addr_null_set addr_union addr_intersection
    (addr_single (fn_intcs f) KSelf "RekeyTo") f pred succ.

Definition blk_of (f : func) (n : nat) : block := match fblock f n with Some b => b | None => ex_dummy_block end.

(* ================================================================== 1. the reported contract *)
Definition bottom_src : string := String.concat ex_nl
  [ "#pragma version 4"; "b bottom_guard";
    "after_guard:"; "int 1"; "return";
    "bottom_guard:"; "txn RekeyTo"; "global ZeroAddress"; "=="; "bnz after_guard" ].
(* blocks: 0 = [#pragma; b bottom_guard] -> {2}, 1 = [after_guard: int 1; return], 2 = [bottom_guard: ...; bnz after_guard] -> {1} *)
Definition bottom_t : teal := Eval vm_compute in match parse_src bottom_src with Ok t => t | Err _ => ex_dummy_teal end.
Definition bottom_W : func := Eval vm_compute in whole_function bottom_t.
Definition bottom_cut : func :=
  Eval vm_compute in match construct_function bottom_t [0; 2; 1] with Ok (f, _) => f | Err _ => ex_dummy_func end.

Example bottom_parse : parse_src bottom_src = Ok bottom_t.
Proof. vm_compute. reflexivity. Qed.
Example bottom_W_eq : whole_function bottom_t = bottom_W.
Proof. vm_compute. reflexivity. Qed.
Example bottom_cut_eq : construct_function bottom_t [0; 2; 1] = Ok (bottom_cut, []).
Proof. vm_compute. reflexivity. Qed.
Example bottom_guard_block : b_ins (blk_of bottom_W 2) = [5; 6; 7; 8; 9] /\ b_next (blk_of bottom_W 2) = [1] /\
                             fexit_op bottom_W (blk_of bottom_W 2) = Some (IBNZ "after_guard").
Proof. vm_compute. auto. Qed.

(* the edge bottom_guard -> after_guard carries RekeyTo = {NO_ADDRESS}: whole function and cut function *)
Example bottom_edge_whole : rekey_edge (whole_function bottom_t) (blk_of (whole_function bottom_t) 2) 1 = Some [NO_ADDRESS].
Proof. vm_compute. reflexivity. Qed.
Example bottom_edge_cut : rekey_edge bottom_cut (blk_of bottom_cut 2) 1 = Some [NO_ADDRESS].
Proof. vm_compute. reflexivity. Qed.
Example bottom_edge_null : Some [NO_ADDRESS] = Some addr_null_set.
Proof. vm_compute. reflexivity. Qed.

(* ================================================================== 2. the guard behind a dispatch branch *)
Definition guarded_src : string := String.concat ex_nl
  [ "#pragma version 4"; "txn ApplicationID"; "bz other"; "b bottom_guard";
    "after_guard:"; "int 1"; "return";
    "other:"; "err";
    "bottom_guard:"; "txn RekeyTo"; "global ZeroAddress"; "=="; "bnz after_guard" ].
(* blocks: 0 = [#pragma; txn ApplicationID; bz other] -> {1, 3}, 1 = [b bottom_guard] -> {4}, 2 = [after_guard: ...],
   3 = [other: err], 4 = [bottom_guard: ...; bnz after_guard] -> {2}.
   Dispatch path [0; 1; 4; 2]: the successor 3 of block 0 becomes the err block 5, whose err instruction is
   appended to the program at position 14; the guard (position 13) is no longer the last instruction. *)
Definition guarded_t : teal := Eval vm_compute in match parse_src guarded_src with Ok t => t | Err _ => ex_dummy_teal end.
Definition guarded_cut : func :=
  Eval vm_compute in match construct_function guarded_t [0; 1; 4; 2] with Ok (f, _) => f | Err _ => ex_dummy_func end.

Example guarded_parse : parse_src guarded_src = Ok guarded_t.
Proof. vm_compute. reflexivity. Qed.
Example guarded_cut_eq : construct_function guarded_t [0; 1; 4; 2] = Ok (guarded_cut, [(5, (3, 0))]).
Proof. vm_compute. reflexivity. Qed.
Example guarded_cut_prog : fn_prog guarded_cut = t_prog guarded_t ++ [mkIns 0 ICustomErr] /\
                           length (t_prog guarded_t) = 14 /\
                           b_ins (blk_of guarded_cut 4) = [9; 10; 11; 12; 13] /\ b_next (blk_of guarded_cut 4) = [2].
Proof. vm_compute. auto. Qed.

Example guarded_edge_whole :
  rekey_edge (whole_function guarded_t) (blk_of (whole_function guarded_t) 4) 2 = Some [NO_ADDRESS].
Proof. vm_compute. reflexivity. Qed.
Example guarded_edge_cut : rekey_edge guarded_cut (blk_of guarded_cut 4) 2 = Some [NO_ADDRESS].
Proof. vm_compute. reflexivity. Qed.

(* the defect: the former definition agreed on the whole function but lost the constraint on the cut function *)
Example guarded_edge_whole_old :
  rekey_edge_old (whole_function guarded_t) (blk_of (whole_function guarded_t) 4) 2 = Some [NO_ADDRESS].
Proof. vm_compute. reflexivity. Qed.
Example guarded_edge_cut_old_defect : rekey_edge_old guarded_cut (blk_of guarded_cut 4) 2 = Some addr_universal_set.
Proof. vm_compute. reflexivity. Qed.

(* a branch to the next line still carries no constraint (jump and fall-through coincide) *)
Definition next_line_src : string := String.concat ex_nl
  [ "#pragma version 4"; "txn RekeyTo"; "global ZeroAddress"; "=="; "bnz nxt"; "nxt:"; "int 1"; "return" ].
Definition next_line_t : teal := Eval vm_compute in match parse_src next_line_src with Ok t => t | Err _ => ex_dummy_teal end.
Example next_line_edge :
  b_next (blk_of (whole_function next_line_t) 0) = [1] /\
  rekey_edge (whole_function next_line_t) (blk_of (whole_function next_line_t) 0) 1 = Some addr_universal_set.
Proof. vm_compute. auto. Qed.

Print Assumptions bottom_edge_whole.
Print Assumptions bottom_edge_cut.
Print Assumptions guarded_edge_whole.
Print Assumptions guarded_edge_cut.
Print Assumptions guarded_edge_cut_old_defect.
Print Assumptions next_line_edge.
