(* The order of the used subroutines of a function (Detect.whole_function / Group.construct_function).

   Subroutine.called_subroutines returns list(dict.fromkeys(bi.called_subroutine for bi in self._blocks if
   bi.is_callsub_block)): the callees in the order of the call sites along the routine's blocks, each listed at
   its FIRST occurrence.  construct_function closes this with a worklist (used_subroutines.append(sub) iff sub is
   not yet in used_subroutines) and function.subroutines keeps that order, which run_analysis uses to concatenate
   the per-routine post-orders.  The model mirrors it with Detect.dedup_first and Detect.used_subs.

   1. the contract of the report: main calls sub2, sub0; sub2 calls sub3; sub0 calls sub2  ->  [sub2; sub0; sub3];
   2. a routine that calls a, then b, then a again  ->  [a; b] (first occurrence; keeping the last occurrence,
      as the former fold_right definition did, gives [b; a]);
   3. the same inside a subroutine reached through the worklist, and in a dispatch-path function. *)
From Coq Require Import String List NArith ZArith Bool Arith Ascii.
From Tealer Require Import Tables LeafPrelude Leaves Syntax Parse Cfg StackAst Keys Analysis Domains Detect Group.
Import ListNotations.
Open Scope string_scope.
Open Scope list_scope.

Definition so_nl : string := String "010"%char EmptyString.
Definition so_dummy_teal : teal := mkTeal 0 MAny [] [] [] (mkSub "" 0 [] []) [] None.

Definition so_parse (s : string) : res teal :=
  match parse_program s with Ok p => parse_teal p | Err e => Err e end.

(* the former (last-occurrence) dedup, for comparison only *)
Definition dedup_last (l : list string) : list string :=
  fold_right (fun c l => if smem c l then l else c :: l) [] l.

(* ================================================================== dedup_first itself *)
Example dedup_first_aba : dedup_first ["a"; "b"; "a"] = ["a"; "b"].
Proof. vm_compute. reflexivity. Qed.
Example dedup_last_aba : dedup_last ["a"; "b"; "a"] = ["b"; "a"].
Proof. vm_compute. reflexivity. Qed.
Example dedup_first_long : dedup_first ["c"; "a"; "c"; "b"; "a"; "d"; "b"] = ["c"; "a"; "b"; "d"].
Proof. vm_compute. reflexivity. Qed.

(* ================================================================== 1. the reported contract *)
Definition so1_src : string := String.concat so_nl
  [ "#pragma version 6"; "callsub sub2"; "callsub sub0"; "return";
    "sub2:"; "bnz else2"; "b end3"; "else2:"; "callsub sub3"; "end3:"; "retsub";
    "sub0:"; "callsub sub2"; "retsub";
    "sub3:"; "retsub" ].
Definition so1_t : teal := Eval vm_compute in match so_parse so1_src with Ok t => t | Err _ => so_dummy_teal end.

Example so1_parse : so_parse so1_src = Ok so1_t.
Proof. vm_compute. reflexivity. Qed.
Example so1_declared : map s_name (t_subs so1_t) = ["sub2"; "sub0"; "sub3"].
Proof. vm_compute. reflexivity. Qed.
Example so1_order : map s_name (fn_subs (whole_function so1_t)) = ["sub2"; "sub0"; "sub3"].
Proof. vm_compute. reflexivity. Qed.

(* ================================================================== 2. a, then b, then a again *)
Definition so2_src : string := String.concat so_nl
  [ "#pragma version 6"; "callsub a"; "callsub b"; "callsub a"; "int 1"; "return";
    "b:"; "retsub";
    "a:"; "retsub" ].
Definition so2_t : teal := Eval vm_compute in match so_parse so2_src with Ok t => t | Err _ => so_dummy_teal end.

Example so2_parse : so_parse so2_src = Ok so2_t.
Proof. vm_compute. reflexivity. Qed.
Example so2_calls : called_from so2_t (s_blocks (t_main so2_t)) = ["a"; "b"; "a"].
Proof. vm_compute. reflexivity. Qed.
Example so2_order : map s_name (fn_subs (whole_function so2_t)) = ["a"; "b"].
Proof. vm_compute. reflexivity. Qed.
Example so2_order_old : dedup_last (called_from so2_t (s_blocks (t_main so2_t))) = ["b"; "a"].
Proof. vm_compute. reflexivity. Qed.

(* ================================================================== 3. the same through the worklist and a dispatch path *)
(* main calls r; r calls a, b, a: used = [r; a; b] *)
Definition so3_src : string := String.concat so_nl
  [ "#pragma version 6"; "callsub r"; "int 1"; "return";
    "b:"; "retsub";
    "a:"; "retsub";
    "r:"; "callsub a"; "callsub b"; "callsub a"; "retsub" ].
Definition so3_t : teal := Eval vm_compute in match so_parse so3_src with Ok t => t | Err _ => so_dummy_teal end.

Example so3_parse : so_parse so3_src = Ok so3_t.
Proof. vm_compute. reflexivity. Qed.
Example so3_order : map s_name (fn_subs (whole_function so3_t)) = ["r"; "a"; "b"].
Proof. vm_compute. reflexivity. Qed.

(* the function of the dispatch path [B0] of contract 2: same order as the whole function *)
Example so2_cut_order :
  match construct_function so2_t [0] with
  | Ok (f, _) => map s_name (fn_subs f)
  | Err _ => []
  end = ["a"; "b"].
Proof. vm_compute. reflexivity. Qed.
Example so1_cut_order :
  match construct_function so1_t [0] with
  | Ok (f, _) => map s_name (fn_subs f)
  | Err _ => []
  end = ["sub2"; "sub0"; "sub3"].
Proof. vm_compute. reflexivity. Qed.

(* ================================================================== the Python loops, literally *)
(* dict.fromkeys(l): keys in insertion order, a repeated key keeps its first position *)
Definition py_fromkeys (l : list string) : list string :=
  fold_left (fun d c => if smem c d then d else d ++ [c]) l [].
(* for sub in cs: if sub not in used: used.append(sub) *)
Definition py_append_new (used cs : list string) : list string :=
  fold_left (fun u c => if smem c u then u else u ++ [c]) cs used.

Lemma so_smem_app x a b : smem x (a ++ b) = (smem x a || smem x b)%bool.
Proof. unfold smem. apply existsb_app. Qed.

Lemma filter_filter_comm {A} (p q : A -> bool) l : filter p (filter q l) = filter q (filter p l).
Proof.
  induction l as [|a l IH]; [reflexivity|]. cbn [filter].
  destruct (q a) eqn:Eq, (p a) eqn:Ep; cbn [filter]; rewrite ?Eq, ?Ep, IH; reflexivity.
Qed.

Lemma filter_idem {A} (p : A -> bool) l : filter p (filter p l) = filter p l.
Proof.
  induction l as [|a l IH]; [reflexivity|]. cbn [filter].
  destruct (p a) eqn:Ep; cbn [filter]; rewrite ?Ep, IH; reflexivity.
Qed.

(* removing [a] changes nothing in a list filtered by a predicate that rejects [a] *)
Lemma filter_neq_rejected p a m :
  p a = false -> filter (fun y => negb (a =? y)) (filter p m) = filter p m.
Proof.
  intros Hpa. induction m as [|b m IHm]; [reflexivity|]. cbn [filter]. destruct (p b) eqn:Eb; [|assumption].
  cbn [filter]. destruct (a =? b) eqn:Eab.
  - apply String.eqb_eq in Eab. subst b. congruence.
  - cbn [negb]. rewrite IHm. reflexivity.
Qed.

Lemma dedup_first_filter p l : dedup_first (filter p l) = filter p (dedup_first l).
Proof.
  induction l as [|a l IH]; [reflexivity|]. cbn [filter dedup_first].
  destruct (p a) eqn:Ep; cbn [dedup_first filter]; rewrite ?Ep, IH.
  - f_equal. apply filter_filter_comm.
  - rewrite filter_filter_comm. symmetry. apply filter_neq_rejected. assumption.
Qed.

Lemma dedup_first_idem m : dedup_first (dedup_first m) = dedup_first m.
Proof.
  induction m as [|a m IHm]; [reflexivity|]. cbn [dedup_first]. f_equal.
  rewrite dedup_first_filter, IHm. apply filter_idem.
Qed.

Lemma filter_notin_snoc used c cs :
  filter (fun x => negb (smem x (used ++ [c]))) cs =
  filter (fun y => negb (c =? y)) (filter (fun x => negb (smem x used)) cs).
Proof.
  induction cs as [|b cs IH]; [reflexivity|]. cbn [filter].
  rewrite so_smem_app.
  replace (smem b [c]) with (b =? c) by (unfold smem; cbn [existsb]; rewrite orb_false_r; reflexivity).
  destruct (smem b used) eqn:Eb; cbn [orb negb]; [assumption|].
  cbn [filter]. rewrite (String.eqb_sym c b).
  destruct (b =? c) eqn:Ebc; cbn [negb]; [|f_equal]; assumption.
Qed.

(* the loop of construct_function appends exactly the new callees, each at its first occurrence *)
Lemma py_append_new_eq cs : forall used,
  py_append_new used cs = used ++ dedup_first (filter (fun c => negb (smem c used)) cs).
Proof.
  unfold py_append_new. induction cs as [|c cs IH]; intros used.
  - cbn. rewrite app_nil_r. reflexivity.
  - cbn [fold_left filter]. destruct (smem c used) eqn:Ec; cbn [negb].
    + apply IH.
    + rewrite IH, <- app_assoc. cbn [app dedup_first]. do 2 f_equal.
      rewrite <- dedup_first_filter. f_equal. apply filter_notin_snoc.
Qed.

Lemma py_fromkeys_eq l : py_fromkeys l = dedup_first l.
Proof.
  unfold py_fromkeys. change (py_append_new [] l = dedup_first l). rewrite py_append_new_eq.
  cbn [app]. f_equal. induction l as [|a l IH]; [reflexivity|]. cbn. f_equal. assumption.
Qed.

(* one step of the worklist of Detect.used_subs, stated with the Python loops: the called_subroutines of the
   head of the worklist (dict.fromkeys of its call sites) are appended to used_subroutines iff not yet in it,
   and the same new entries are appended to the worklist *)
Theorem used_subs_step_py fu t s w acc :
  let callees := match find_sub t s with Some sb => called_from t (s_blocks sb) | None => [] end in
  let used' := py_append_new acc (py_fromkeys callees) in
  exists new, used' = acc ++ new /\ used_subs (S fu) t (s :: w) acc = used_subs fu t (w ++ new) used'.
Proof.
  intros callees used'. subst used'. rewrite py_append_new_eq, py_fromkeys_eq.
  exists (dedup_first (filter (fun c => negb (smem c acc)) (dedup_first callees))). split; [reflexivity|].
  cbn [used_subs]. fold callees.
  rewrite (dedup_first_filter _ (dedup_first callees)), dedup_first_idem, <- dedup_first_filter.
  reflexivity.
Qed.

(* the direct callees of whole_function are dict.fromkeys of the call sites of the main routine *)
Theorem whole_function_subs_py t :
  let direct := py_fromkeys (called_from t (s_blocks (t_main t))) in
  fn_subs (whole_function t) =
  flat_map (fun n => match find_sub t n with Some s => [s] | None => [] end)
           (used_subs (S (length (t_subs t))) t direct direct).
Proof. cbv zeta. rewrite py_fromkeys_eq. reflexivity. Qed.

Print Assumptions so1_order.
Print Assumptions so2_order.
Print Assumptions so2_order_old.
Print Assumptions so3_order.
Print Assumptions so1_cut_order.
Print Assumptions so2_cut_order.
Print Assumptions py_append_new_eq.
Print Assumptions py_fromkeys_eq.
Print Assumptions used_subs_step_py.
Print Assumptions whole_function_subs_py.
