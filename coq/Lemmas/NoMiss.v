(* C01 end to end ("detectors never miss"), per detector:
     concrete accepting execution carrying the dangerous value
       ==> (soundness of the tool's contexts, ExecLemmas) every block of the run is unvalidated
       ==> (Compose / PathCut / SearchLemmas) the detector's DFS reports at least one path.

   - C01_fee_no_miss                       missing-fee-check
   - C01_rekey_no_miss_partial             rekey-to
   - C01_closeto_no_miss_conditional       can-close-account  (conditional on the transaction-kind domain, D16)
   - C01_assetcloseto_no_miss_conditional  can-close-asset    (idem)
   `_partial`: inherits the exclusions of addr_leaves_ok (D19, creator literal) and int_leaves_ok (D2). *)
From Coq Require Import String List NArith ZArith Bool Arith Lia.
From Tealer Require Import Tables LeafPrelude Leaves Syntax Parse Cfg StackAst Keys Analysis Domains Detect.
From Tealer Require Import Runs Paths Eval Exec LeafLemmas SingleLemmas SearchLemmas PathCut Compose ExecLemmas.
Import ListNotations.
Open Scope string_scope.
Open Scope list_scope.

(* ====================================================================== *)
(* A. plumbing: ctx_of reads the entries of run_all                        *)
(* ====================================================================== *)
Lemma keyfam_eqb_eq a b : keyfam_eqb a b = true -> a = b.
Proof.
  destruct a, b; cbn [keyfam_eqb]; intros H; try discriminate; try reflexivity.
  - apply N.eqb_eq in H. congruence.
  - apply N.eqb_eq in H. congruence.
  - apply Z.eqb_eq in H. congruence.
Qed.

(* what the fee entry read by ctx_of is: a listed entry, or the universal value *)
Lemma res_fee_cases r fam b :
  res_fee r fam b = fee_universal_set \/
  exists l, In (fam, l) (r_fees r) /\ lookup feeval l b = Some (res_fee r fam b).
Proof.
  unfold res_fee.
  destruct (find (fun '(fm, _) => keyfam_eqb fm fam) (r_fees r)) as [[fm l]|] eqn:E; [|left; reflexivity].
  destruct (find_some _ _ E) as [Hin Hk]. apply keyfam_eqb_eq in Hk. subst fm.
  destruct (lookup feeval l b) as [v|] eqn:El; [|left; reflexivity].
  right. exists l. split; [exact Hin | exact El].
Qed.

Lemma res_addr_cases r fld fam b :
  res_addr r fld fam b = addr_universal_set \/
  exists l, In (fld, fam, l) (r_addrs r) /\ lookup sset l b = Some (res_addr r fld fam b).
Proof.
  unfold res_addr.
  destruct (find (fun '(fl, fm, _) => (fl =? fld) && keyfam_eqb fm fam) (r_addrs r)) as [[[fl fm] l]|] eqn:E;
    [|left; reflexivity].
  destruct (find_some _ _ E) as [Hin Hk]. apply andb_true_iff in Hk. destruct Hk as [Hf Hk].
  apply String.eqb_eq in Hf. apply keyfam_eqb_eq in Hk. subst fl fm.
  destruct (lookup sset l b) as [v|] eqn:El; [|left; reflexivity].
  right. exists l. split; [exact Hin | exact El].
Qed.

(* a pointwise-sound family of entries makes the value read by ctx_of sound *)
Lemma res_fee_gamma r fam b fee :
  (fee <= MAX_UINT64z)%Z ->
  (forall l, In (fam, l) (r_fees r) -> exists v, lookup feeval l b = Some v /\ fee_gamma v fee) ->
  fee_gamma (res_fee r fam b) fee.
Proof.
  intros Hmax H. destruct (res_fee_cases r fam b) as [E | (l & Hin & El)].
  - rewrite E. apply fee_universal_gamma. exact Hmax.
  - destruct (H l Hin) as (v & Ev & Hv). rewrite El in Ev. inversion Ev; subst v. exact Hv.
Qed.

Lemma res_addr_gamma r fld fam b n :
  is_marker n = false ->
  (forall l, In (fld, fam, l) (r_addrs r) -> exists v, lookup sset l b = Some v /\ addr_gamma v n) ->
  addr_gamma (res_addr r fld fam b) n.
Proof.
  intros Hm H. destruct (res_addr_cases r fld fam b) as [E | (l & Hin & El)].
  - rewrite E. apply addr_universal_gamma. exact Hm.
  - destruct (H l Hin) as (v & Ev & Hv). rewrite El in Ev. inversion Ev; subst v. exact Hv.
Qed.

(* ====================================================================== *)
(* B. the dangerous value defeats the detector's check on a sound context  *)
(* ====================================================================== *)
Lemma fee_check_false r b fam fee :
  (MAX_TRANSACTION_COSTz < fee)%Z -> fee_gamma (res_fee r fam b) fee ->
  checks_missing_fee_check (ctx_of r b fam) = false.
Proof.
  intros Hgt Hg. unfold checks_missing_fee_check, ctx_of. cbn [ctx_max_fee_unknown ctx_max_fee].
  unfold fee_gamma in Hg. destruct (fee_unknown (res_fee r fam b)); [lia|].
  cbn [orb]. apply Z.leb_gt. lia.
Qed.

(* the address [n] is listed in no set recorded for field fld *)
Definition fresh_in (res : fn_result) (fld : string) (n : string) : Prop :=
  forall fam l b s, In (fld, fam, l) (r_addrs res) -> lookup sset l b = Some s -> smem n s = false.
(* ... for any field: "the tool's output never names the address" *)
Definition fresh_for (res : fn_result) (n : string) : Prop := forall fld, fresh_in res fld n.

Lemma addr_any_true r fld fam b n :
  fresh_in r fld n -> addr_gamma (res_addr r fld fam b) n ->
  av_any (addrval_of (res_addr r fld fam b)) = true.
Proof.
  intros Hfr [_ Hg]. unfold addrval_of. cbn [av_any].
  destruct Hg as [Hg|Hg]; [exact Hg|].
  destruct (res_addr_cases r fld fam b) as [E | (l & Hin & El)].
  - rewrite E. reflexivity.
  - rewrite (Hfr fam l b _ Hin El) in Hg. discriminate.
Qed.

(* ====================================================================== *)
(* C. generic composition                                                  *)
(* ====================================================================== *)
Lemma own_index_listed e sem f fuel res cfgs :
  sem_ok e sem -> env_ok e -> fn_intcs f = e_intcs e -> graph_ok f ->
  int_leaves_ok f true -> int_leaves_ok f false ->
  run_all f fuel = Done res -> Accepts e sem f cfgs ->
  forall b st, In (b, st) cfgs -> In (Z.of_N (e_own e)) (ctx_group_indices (ctx_of res b KSelf)).
Proof.
  intros Hsem Hok Hi Hg Ht Hf Hrun Hacc b st Hin.
  destruct (run_all_inv f fuel res Hrun) as (sizes & idx0 & Es & Ex & _ & Eidx & _).
  destruct (indices_sound e sem f fuel sizes idx0 cfgs Hsem Hok Hi Hg Ht Hf Es Ex Hacc b st Hin) as (gi & Egi & Hgi).
  unfold ctx_of. cbn [ctx_group_indices]. rewrite Eidx, Egi. exact Hgi.
Qed.

(* a block whose own context and at-own-index context fail the check is not validated *)
Lemma validated_false r checks b i :
  checks (ctx_of r b KSelf) = false ->
  In (Z.of_N i) (ctx_group_indices (ctx_of r b KSelf)) ->
  checks (ctx_of r b (KAtIndex i)) = false ->
  validated_in_block r checks None b = false.
Proof.
  intros Hs Hin Hat. unfold validated_in_block. rewrite Hs.
  destruct (forallb (fun i0 => checks (ctx_of r b (KAtIndex (Z.to_N i0)))) (ctx_group_indices (ctx_of r b KSelf))) eqn:E;
    [|reflexivity].
  rewrite forallb_forall in E. specialize (E _ Hin). rewrite N2Z.id in E. congruence.
Qed.

Theorem no_miss_generic e sem f fuel fuel' res cfgs name checks ps :
  sem_ok e sem -> env_ok e -> fn_intcs f = e_intcs e -> graph_ok f ->
  int_leaves_ok f true -> int_leaves_ok f false ->
  run_all f fuel = Done res -> Accepts e sem f cfgs -> nonrecursive f cfgs ->
  (name =? "group-size-check") = false ->
  (forall b st, In (b, st) cfgs -> checks (ctx_of res b KSelf) = false) ->
  (forall b st, In (b, st) cfgs -> checks (ctx_of res b (KAtIndex (e_own e))) = false) ->
  run_detector f res fuel' name checks = Done ps -> ps <> [].
Proof.
  intros Hsem Hok Hi Hg Ht Hf Hrun Hacc Hnr Hname Hself Hat Hdet.
  unfold run_detector in Hdet. rewrite Hname in Hdet.
  pose proof Hacc as (_ & Har & Hret & _).
  refine (unvalidated_run_reported_nonempty f _ _ fuel' cfgs ps Har Hret _ Hnr (fun _ => eq_refl) Hdet).
  intros [b st] Hin. cbn [fst].
  apply (validated_false res checks b (e_own e)).
  - exact (Hself b st Hin).
  - exact (own_index_listed e sem f fuel res cfgs Hsem Hok Hi Hg Ht Hf Hrun Hacc b st Hin).
  - exact (Hat b st Hin).
Qed.

Lemma key_txn_own e : key_txn e (KAtIndex (e_own e)) = Some (e_own e).
Proof. cbn [key_txn]. rewrite N.eqb_refl. reflexivity. Qed.

(* ====================================================================== *)
(* GOAL 1. missing-fee-check                                               *)
(* ====================================================================== *)
Lemma MAX_TC_nonneg : (0 <= MAX_TRANSACTION_COSTz)%Z.
Proof. unfold MAX_TRANSACTION_COSTz. apply N2Z.is_nonneg. Qed.

Theorem C01_fee_no_miss e sem f fuel fuel' res cfgs ps fee :
  sem_ok e sem -> env_ok e -> fn_intcs f = e_intcs e -> graph_ok f ->
  fee_leaves_ok f KSelf -> fee_leaves_ok f (KAtIndex (e_own e)) ->
  int_leaves_ok f true -> int_leaves_ok f false ->
  run_all f fuel = Done res -> Accepts e sem f cfgs -> nonrecursive f cfgs ->
  e_field e (e_own e) "Fee" = VInt fee -> (MAX_TRANSACTION_COSTz < fee <= MAX_UINT64z)%Z ->
  run_detector f res fuel' "missing-fee-check" checks_missing_fee_check = Done ps -> ps <> [].
Proof.
  intros Hsem Hok Hi Hg Hls Hla Ht Hf Hrun Hacc Hnr Hfee Hr Hdet.
  pose proof MAX_TC_nonneg as H0.
  assert (Hr' : (0 <= fee <= MAX_UINT64z)%Z) by lia.
  refine (no_miss_generic e sem f fuel fuel' res cfgs "missing-fee-check" checks_missing_fee_check ps Hsem Hok Hi Hg Ht Hf Hrun Hacc Hnr eq_refl _ _ Hdet).
  - intros b st Hin. apply (fee_check_false res b KSelf fee (proj1 Hr)).
    apply res_fee_gamma; [exact (proj2 Hr)|]. intros l Hl.
    exact (run_all_fee_sound e sem f fuel res KSelf l (e_own e) fee cfgs Hsem Hok Hi Hg Hrun Hl eq_refl Hfee Hr'
             Hls I Hacc b st Hin).
  - intros b st Hin. apply (fee_check_false res b (KAtIndex (e_own e)) fee (proj1 Hr)).
    apply res_fee_gamma; [exact (proj2 Hr)|]. intros l Hl.
    exact (run_all_fee_sound e sem f fuel res (KAtIndex (e_own e)) l (e_own e) fee cfgs Hsem Hok Hi Hg Hrun Hl
             (key_txn_own e) Hfee Hr' Hla (conj Hls (conj Ht Hf)) Hacc b st Hin).
Qed.

(* ====================================================================== *)
(* GOAL 2 / 3. the address detectors                                       *)
(* ====================================================================== *)
(* the (abstract name of the) non-zero address carried by the own transaction in field fld is in the set the
   detectors read, for the own context and for the at-own-index context of every block of the run *)
Lemma own_addr_in_ctx e sem f fuel res cfgs fld a :
  sem_ok e sem -> env_ok e -> fn_intcs f = e_intcs e -> graph_ok f ->
  addr_leaves_ok e f KSelf fld -> addr_leaves_ok e f (KAtIndex (e_own e)) fld ->
  int_leaves_ok f true -> int_leaves_ok f false ->
  run_all f fuel = Done res -> Accepts e sem f cfgs ->
  e_field e (e_own e) fld = VAddr a -> a <> "ZERO" -> is_marker a = false ->
  forall b st, In (b, st) cfgs ->
    addr_gamma (res_addr res fld KSelf b) (abs_name e a) /\
    addr_gamma (res_addr res fld (KAtIndex (e_own e)) b) (abs_name e a).
Proof.
  intros Hsem Hok Hi Hg Hls Hla Ht Hf Hrun Hacc Hfld Hz Hm b st Hin.
  pose proof (abs_name_not_marker e a Hm) as Hnm.
  split; apply res_addr_gamma; try exact Hnm; intros l Hl.
  - exact (run_all_addr_sound_partial e sem f fuel res fld KSelf l (e_own e) a cfgs Hsem Hok Hi Hg Hrun Hl eq_refl
             Hfld Hz Hm Hls I Hacc b st Hin).
  - exact (run_all_addr_sound_partial e sem f fuel res fld (KAtIndex (e_own e)) l (e_own e) a cfgs Hsem Hok Hi Hg
             Hrun Hl (key_txn_own e) Hfld Hz Hm Hla (conj Hls (conj Ht Hf)) Hacc b st Hin).
Qed.

Theorem C01_rekey_no_miss_partial e sem f fuel fuel' res cfgs ps a :
  sem_ok e sem -> env_ok e -> fn_intcs f = e_intcs e -> graph_ok f ->
  addr_leaves_ok e f KSelf "RekeyTo" -> addr_leaves_ok e f (KAtIndex (e_own e)) "RekeyTo" ->
  int_leaves_ok f true -> int_leaves_ok f false ->
  run_all f fuel = Done res -> Accepts e sem f cfgs -> nonrecursive f cfgs ->
  e_field e (e_own e) "RekeyTo" = VAddr a -> a <> "ZERO" -> is_marker a = false ->
  fresh_in res "RekeyTo" (abs_name e a) ->
  run_detector f res fuel' "rekey-to" checks_rekey_to = Done ps -> ps <> [].
Proof.
  intros Hsem Hok Hi Hg Hls Hla Ht Hf Hrun Hacc Hnr Hfld Hz Hm Hfr Hdet.
  pose proof (own_addr_in_ctx e sem f fuel res cfgs "RekeyTo" a Hsem Hok Hi Hg Hls Hla Ht Hf Hrun Hacc Hfld Hz Hm)
    as Hin.
  refine (no_miss_generic e sem f fuel fuel' res cfgs "rekey-to" checks_rekey_to ps Hsem Hok Hi Hg Ht Hf Hrun Hacc Hnr eq_refl _ _ Hdet);
    intros b st Hb; destruct (Hin b st Hb) as [H1 H2];
    unfold checks_rekey_to, ctx_of; cbn [ctx_rekeyto];
    [rewrite (addr_any_true res "RekeyTo" KSelf b _ Hfr H1)
    |rewrite (addr_any_true res "RekeyTo" (KAtIndex (e_own e)) b _ Hfr H2)]; reflexivity.
Qed.

(* the version with the freshness hypothesis of the task statement (the address is named nowhere in the output) *)
Corollary C01_rekey_no_miss_partial' e sem f fuel fuel' res cfgs ps a :
  sem_ok e sem -> env_ok e -> fn_intcs f = e_intcs e -> graph_ok f ->
  addr_leaves_ok e f KSelf "RekeyTo" -> addr_leaves_ok e f (KAtIndex (e_own e)) "RekeyTo" ->
  int_leaves_ok f true -> int_leaves_ok f false ->
  run_all f fuel = Done res -> Accepts e sem f cfgs -> nonrecursive f cfgs ->
  e_field e (e_own e) "RekeyTo" = VAddr a -> a <> "ZERO" -> is_marker a = false ->
  fresh_for res (abs_name e a) ->
  run_detector f res fuel' "rekey-to" checks_rekey_to = Done ps -> ps <> [].
Proof.
  intros Hsem Hok Hi Hg Hls Hla Ht Hf Hrun Hacc Hnr Hfld Hz Hm Hfr.
  exact (C01_rekey_no_miss_partial e sem f fuel fuel' res cfgs ps a Hsem Hok Hi Hg Hls Hla Ht Hf Hrun Hacc Hnr
           Hfld Hz Hm (Hfr "RekeyTo")).
Qed.

(* the transaction-kind domain has no soundness theorem (finding D16): its contribution is a hypothesis *)
Definition kind_possible (res : fn_result) (i : N) (cfgs : list rconfig) (k : string) : Prop :=
  forall b st, In (b, st) cfgs ->
    In k (ctx_transaction_types (ctx_of res b KSelf)) /\
    In k (ctx_transaction_types (ctx_of res b (KAtIndex i))).

Theorem C01_closeto_no_miss_conditional e sem f fuel fuel' res cfgs ps a :
  sem_ok e sem -> env_ok e -> fn_intcs f = e_intcs e -> graph_ok f ->
  addr_leaves_ok e f KSelf "CloseRemainderTo" -> addr_leaves_ok e f (KAtIndex (e_own e)) "CloseRemainderTo" ->
  int_leaves_ok f true -> int_leaves_ok f false ->
  run_all f fuel = Done res -> Accepts e sem f cfgs -> nonrecursive f cfgs ->
  e_field e (e_own e) "CloseRemainderTo" = VAddr a -> a <> "ZERO" -> is_marker a = false ->
  fresh_in res "CloseRemainderTo" (abs_name e a) ->
  kind_possible res (e_own e) cfgs "Pay" ->
  run_detector f res fuel' "can-close-account" checks_can_close_account = Done ps -> ps <> [].
Proof.
  intros Hsem Hok Hi Hg Hls Hla Ht Hf Hrun Hacc Hnr Hfld Hz Hm Hfr Hkind Hdet.
  pose proof (own_addr_in_ctx e sem f fuel res cfgs "CloseRemainderTo" a Hsem Hok Hi Hg Hls Hla Ht Hf Hrun Hacc
                Hfld Hz Hm) as Hin.
  refine (no_miss_generic e sem f fuel fuel' res cfgs "can-close-account" checks_can_close_account ps Hsem Hok Hi Hg Ht Hf Hrun Hacc Hnr eq_refl _ _ Hdet);
    intros b st Hb; destruct (Hin b st Hb) as [H1 H2]; destruct (Hkind b st Hb) as [K1 K2];
    unfold checks_can_close_account; change (@mem_any string Mem_string) with smem.
  - rewrite (proj2 (smem_In _ _) K1). unfold ctx_of. cbn [ctx_closeto].
    rewrite (addr_any_true res "CloseRemainderTo" KSelf b _ Hfr H1). reflexivity.
  - rewrite (proj2 (smem_In _ _) K2). unfold ctx_of. cbn [ctx_closeto].
    rewrite (addr_any_true res "CloseRemainderTo" (KAtIndex (e_own e)) b _ Hfr H2). reflexivity.
Qed.

Theorem C01_assetcloseto_no_miss_conditional e sem f fuel fuel' res cfgs ps a :
  sem_ok e sem -> env_ok e -> fn_intcs f = e_intcs e -> graph_ok f ->
  addr_leaves_ok e f KSelf "AssetCloseTo" -> addr_leaves_ok e f (KAtIndex (e_own e)) "AssetCloseTo" ->
  int_leaves_ok f true -> int_leaves_ok f false ->
  run_all f fuel = Done res -> Accepts e sem f cfgs -> nonrecursive f cfgs ->
  e_field e (e_own e) "AssetCloseTo" = VAddr a -> a <> "ZERO" -> is_marker a = false ->
  fresh_in res "AssetCloseTo" (abs_name e a) ->
  kind_possible res (e_own e) cfgs "Axfer" ->
  run_detector f res fuel' "can-close-asset" checks_can_close_asset = Done ps -> ps <> [].
Proof.
  intros Hsem Hok Hi Hg Hls Hla Ht Hf Hrun Hacc Hnr Hfld Hz Hm Hfr Hkind Hdet.
  pose proof (own_addr_in_ctx e sem f fuel res cfgs "AssetCloseTo" a Hsem Hok Hi Hg Hls Hla Ht Hf Hrun Hacc
                Hfld Hz Hm) as Hin.
  refine (no_miss_generic e sem f fuel fuel' res cfgs "can-close-asset" checks_can_close_asset ps Hsem Hok Hi Hg Ht Hf Hrun Hacc Hnr eq_refl _ _ Hdet);
    intros b st Hb; destruct (Hin b st Hb) as [H1 H2]; destruct (Hkind b st Hb) as [K1 K2];
    unfold checks_can_close_asset; change (@mem_any string Mem_string) with smem.
  - rewrite (proj2 (smem_In _ _) K1). unfold ctx_of. cbn [ctx_assetcloseto].
    rewrite (addr_any_true res "AssetCloseTo" KSelf b _ Hfr H1). reflexivity.
  - rewrite (proj2 (smem_In _ _) K2). unfold ctx_of. cbn [ctx_assetcloseto].
    rewrite (addr_any_true res "AssetCloseTo" (KAtIndex (e_own e)) b _ Hfr H2). reflexivity.
Qed.

Print Assumptions C01_fee_no_miss.
Print Assumptions C01_rekey_no_miss_partial.
Print Assumptions C01_rekey_no_miss_partial'.
Print Assumptions C01_closeto_no_miss_conditional.
Print Assumptions C01_assetcloseto_no_miss_conditional.

(* ====================================================================== *)
(* Non-vacuity: one program / one group satisfying ALL hypotheses of         *)
(* C01_fee_no_miss and C01_rekey_no_miss_partial simultaneously             *)
(*    txn Fee; int 1000000; <=; bz fail; int 1; return; fail: err           *)
(* run by a single transaction paying 500000 and rekeying to "X".           *)
(* ====================================================================== *)
Module NoMissWitness.
  Definition p1 : prog :=
    [mkIns 1 (ITxn ("Fee", None)); mkIns 2 (IInt (IANum 1000000)); mkIns 3 ILessE; mkIns 4 (IBZ "fail");
     mkIns 5 (IInt (IANum 1)); mkIns 6 IReturn; mkIns 7 (ILabel "fail"); mkIns 8 IErr].
  Definition B0 := mkBlock 0 [0; 1; 2; 3] [1; 2] [].
  Definition B1 := mkBlock 1 [4; 5] [] [0].
  Definition B2 := mkBlock 2 [6; 7] [] [0].
  Example blocks_of_p1 : build_blocks p1 = Some [B0; B1; B2].
  Proof. vm_compute. reflexivity. Qed.

  Definition f1 : func := mkFunc p1 [B0; B1; B2] 0 [0; 1; 2] [] [] None.
  Definition e1 : env :=
    mkEnv 1 0 (fun _ fld => if fld =? "Fee" then VInt 500000 else if fld =? "RekeyTo" then VAddr "X" else VOther) "C" None.
  Definition run1 : list rconfig := [(0, []); (1, [])].
  Definition sem1 := sem_ref e1.

  Lemma f1_blocks b blk : fblock f1 b = Some blk -> (b = 0 /\ blk = B0) \/ (b = 1 /\ blk = B1) \/ (b = 2 /\ blk = B2).
  Proof. destruct b as [|[|[|b]]]; simpl; intros H; try discriminate; inversion H; auto 6. Qed.
  Ltac blk H := apply f1_blocks in H; destruct H as [[? ?]|[[? ?]|[? ?]]]; subst.
  Ltac one Hin := simpl in Hin; first [contradiction | destruct Hin as [Hin|Hin]; [subst|contradiction]].
  Ltac nd := repeat (apply NoDup_cons; [simpl; intuition discriminate|]); apply NoDup_nil.

  Lemma w_graph_ok : graph_ok f1.
  Proof.
    constructor.
    - intros b x xb ps Hx Hp Hin. blk Hx; cbv in Hp; inversion Hp; subst ps; one Hin;
        eexists; eexists; (split; [reflexivity|split; [reflexivity|cbv; auto]]).
    - intros x xb c Hx Hr Hc. blk Hx; cbv in Hr; discriminate.
    - intros b x xb nx Hx Hl Hn Hin. blk Hx; cbv in Hl, Hn; try discriminate.
      inversion Hn; subst nx. destruct Hin as [<-|[<-|[]]];
        eexists; eexists; (split; [reflexivity|split; [reflexivity|cbv; auto]]).
    - intros x xb l r s Hx Hop. blk Hx; cbv in Hop; discriminate.
    - exists B0. split; reflexivity.
    - intros b blk0 nx b' xb' Hb Hr Hn Hin Hb'. blk Hb'; reflexivity.
    - intros l s H. discriminate H.
    - intros l s b blk0 b' H. discriminate H.
    - intros r rblk cs cb l s rp nx _ _ _ _ H. discriminate H.
    - cbv. tauto.
    - intros b xb Hb Hl. blk Hb; cbv in Hl; try discriminate; cbv; auto.
    - intros b blk0 Hb. blk Hb; simpl; nd.
    - intros b blk0 Hb. blk Hb; simpl; nd.
    - intros b blk0 l Hb Hl. blk Hb; cbv in Hl; destruct Hl as [Hl|Hl]; inversion Hl; subst. cbv. discriminate.
  Qed.

  Definition L1 : instr * nat * list sval :=
    (ILessE, 2, [SKnown (ITxn ("Fee", None)) 0 [] 0; SKnown (IInt (IANum 1000000)) 1 [] 0]).
  Definition L2 : instr * nat * list sval := (IInt (IANum 1), 4, []).

  (* the leaves of the checked conditions: Fee <= 1000000 (bz) and the constant 1 (return) *)
  Lemma f1_leaves op pos args : prog_leaf f1 op pos args -> (op, pos, args) = L1 \/ (op, pos, args) = L2.
  Proof.
    intros (b & blk0 & Hb & ast & k & o & a & rest & Hast & Hin & Hck & Hcl).
    blk Hb; vm_compute in Hast; inversion Hast; subst ast; clear Hast; simpl in Hin;
      repeat (destruct Hin as [Hin|Hin]; [inversion Hin; subst; clear Hin; try discriminate Hck|]); try contradiction.
    - simpl in Hcl. destruct Hcl as (<- & <- & <-). left. reflexivity.
    - simpl in Hcl. destruct Hcl as (<- & <- & <-). right. reflexivity.
  Qed.
  Ltac leaf H := apply f1_leaves in H; destruct H as [H|H]; inversion H; subst; clear H.
  Ltac cc := intros x y E; inversion E; subst; clear E;
             split; intros H; first [reflexivity | vm_compute in H; discriminate H].

  Lemma w_fee_leaves fam : fam = KSelf \/ fam = KAtIndex 0 -> fee_leaves_ok f1 fam.
  Proof.
    intros Hfam op pos args Hp. leaf Hp; (split; [|reflexivity]); destruct Hfam; subst fam; cc.
  Qed.

  Lemma w_int_leaves sz : int_leaves_ok f1 sz.
  Proof. intros op pos args Hp. leaf Hp; destruct sz; split; reflexivity. Qed.

  Lemma w_addr_leaves fam : fam = KSelf \/ fam = KAtIndex 0 -> addr_leaves_ok e1 f1 fam "RekeyTo".
  Proof.
    intros Hfam op pos args Hp.
    leaf Hp; (split; [destruct Hfam; subst fam; cc | split; [|split; [|reflexivity]]]);
      intros v lit Hin Hlit; simpl in Hin; intuition (subst; discriminate Hlit).
  Qed.

  Lemma w_no_fail tr poss : (forall pos args outs, In (pos, args, outs) tr -> In (pos, args, outs) poss) ->
    Forall (fun '(pos, args, _) => forall op, op_at p1 pos = Some op -> fails e1 op args = false) poss ->
    no_fail e1 p1 tr.
  Proof.
    intros Hi HF pos args outs op Hin Hop. rewrite Forall_forall in HF.
    exact (HF _ (Hi _ _ _ Hin) op Hop).
  Qed.

  Lemma w_run : Run f1 run1.
  Proof. eapply RF_step; [apply (RS_edge f1 0 [] B0 1); [reflexivity|reflexivity|reflexivity|simpl; auto]|]. apply RF_one. Qed.

  Lemma w_accepts : Accepts e1 sem1 f1 run1.
  Proof.
    split; [|split; [|split]].
    - unfold Exec, run1.
      apply (EF_step e1 sem1 f1 (0, []) (1, []) [(1, [])] [] B0
               [(0, [], [CInt 500000]); (1, [], [CInt 1000000]); (2, [CInt 500000; CInt 1000000], [CInt 1]); (3, [CInt 1], [])] []).
      + reflexivity.
      + split; [vm_compute; reflexivity|].
        eapply w_no_fail; [intros pos args outs H; exact H|].
        repeat constructor; intros op Hop; vm_compute in Hop; inversion Hop; subst; reflexivity.
      + apply (RS_edge f1 0 [] B0 1); [reflexivity|reflexivity|reflexivity|simpl; auto].
      + reflexivity.
      + apply (EF_last e1 sem1 f1 (1, []) [] B1 [(4, [], [CInt 1]); (5, [CInt 1], [])] []).
        * reflexivity.
        * split; [vm_compute; reflexivity|].
          eapply w_no_fail; [intros pos args outs H; exact H|].
          repeat constructor; intros op Hop; vm_compute in Hop; inversion Hop; subst; reflexivity.
    - split; [exact w_run|]. exists B1. split; reflexivity.
    - reflexivity.
    - exists B1. split; reflexivity.
  Qed.

  Lemma w_nonrec : nonrecursive f1 run1.
  Proof.
    apply (nonrecursive_intra f1 _ _ w_run). intros c0 Hin. simpl in Hin. intuition (subst; reflexivity).
  Qed.

  Lemma w_env_ok : env_ok e1.
  Proof. split; vm_compute; split; congruence. Qed.

  (* the tool's output *)
  Definition res1 : fn_result :=
    Eval vm_compute in match run_all f1 100 with Done r => r | _ => mkRes [] [] [] [] [] end.
  Lemma w_run_all : run_all f1 100 = Done res1.
  Proof. vm_compute. reflexivity. Qed.

  Lemma lookup_In {T} : forall (l : list (nat * T)) b v, lookup T l b = Some v -> In (b, v) l.
  Proof.
    induction l as [|[k w] l IH]; intros b v H; [discriminate|]. cbn [lookup] in H.
    destruct (Nat.eqb_spec k b) as [->|Hne]; [inversion H; left; reflexivity | right; apply IH; exact H].
  Qed.

  (* "X" is named nowhere in the output *)
  Lemma w_fresh : fresh_for res1 (abs_name e1 "X").
  Proof.
    assert (Hall : forallb (fun '(_, _, l) => forallb (fun '(_, s) => negb (smem "X" s)) l) (r_addrs res1) = true)
      by (vm_compute; reflexivity).
    intros fld fam l b s Hin Hl. change (abs_name e1 "X") with "X".
    rewrite forallb_forall in Hall. specialize (Hall _ Hin). cbn beta iota in Hall.
    rewrite forallb_forall in Hall. specialize (Hall _ (lookup_In l b s Hl)). cbn beta iota in Hall.
    apply negb_true_iff in Hall. exact Hall.
  Qed.

  Theorem w_fee_no_miss fuel' ps :
    run_detector f1 res1 fuel' "missing-fee-check" checks_missing_fee_check = Done ps -> ps <> [].
  Proof.
    apply (C01_fee_no_miss e1 sem1 f1 100 fuel' res1 run1 ps 500000 (sem_ref_ok e1) w_env_ok eq_refl w_graph_ok
             (w_fee_leaves _ (or_introl eq_refl)) (w_fee_leaves _ (or_intror eq_refl))
             (w_int_leaves true) (w_int_leaves false) w_run_all w_accepts w_nonrec eq_refl).
    vm_compute. split; [reflexivity | discriminate].
  Qed.

  Theorem w_rekey_no_miss fuel' ps :
    run_detector f1 res1 fuel' "rekey-to" checks_rekey_to = Done ps -> ps <> [].
  Proof.
    apply (C01_rekey_no_miss_partial' e1 sem1 f1 100 fuel' res1 run1 ps "X" (sem_ref_ok e1) w_env_ok eq_refl w_graph_ok
             (w_addr_leaves _ (or_introl eq_refl)) (w_addr_leaves _ (or_intror eq_refl))
             (w_int_leaves true) (w_int_leaves false) w_run_all w_accepts w_nonrec eq_refl).
    - discriminate.
    - reflexivity.
    - exact w_fresh.
  Qed.

  (* and the detectors do answer (with the path through the approving block) *)
  Example w_fee_paths : run_detector f1 res1 100 "missing-fee-check" checks_missing_fee_check = Done [[0; 1]].
  Proof. vm_compute. reflexivity. Qed.
  Example w_rekey_paths : run_detector f1 res1 100 "rekey-to" checks_rekey_to = Done [[0; 1]].
  Proof. vm_compute. reflexivity. Qed.
End NoMissWitness.

Print Assumptions NoMissWitness.w_fee_no_miss.
Print Assumptions NoMissWitness.w_rekey_no_miss.
