(* ==========================================================================================
   Lemmas/TableLemmas.v -- properties C19 (versions, modes, costs, fields) and C11 (stack arity):
   the tables GENERATED from the analyzer (Gen/Tables.v) against the hand-transcribed AVM
   specification tables (Spec/AvmTables.v, trusted).

   Method: every comparison is a boolean check evaluated by vm_compute.  For each dimension the
   explicit list of mismatching classes is stated as a lemma
        map c_name (filter (fun ci => negb (X_ok ci)) opcode_classes) = [ ... ]
   (plus a "details" lemma giving analyzer value and spec value), and the main theorems say that
   for every class NOT in that list the generated datum equals the specification's.

   Summary of the mismatches established below (A = analyzer/generated, S = specification):
     version : Method               A 6     S 1   (pseudo-op, not an AVM opcode; S is "unsure")
     mode    : none against the v8 classification; against the version-dependent one
               (avm_mode_at): Ed25519verify A Any, S LogicSig-only in programs v1..v4
     pop     : none
     push    : FrameBury            A 1     S 0   (frame_bury consumes A and pushes nothing)
     cost    : Sha3_256             A 1     S 130 (v7, v8)
               Ecdsa_pk_decompress  A 650   S 2400 for curve Secp256r1 (v7, v8)
     fields  : all versions agree; generated app_params table has the bogus extra entry
               "AppParamsField" (the abstract base class), no spec field is missing.
     opcodes : every spec mnemonic has exactly one class and vice versa (178 = 173 opcodes + 5
               assembler pseudo-ops int/byte/addr/method/replace).
     printing: Gtxns, Gtxnsa, Gtxnas, Gitxnas print their mnemonic with a capital letter.
   ========================================================================================== *)
From Coq Require Import String List NArith Bool Ascii Arith.
From Tealer Require Import Tables Syntax AvmTables.
Import ListNotations.
Open Scope string_scope.

(* ------------------------------------------------------------------ mnemonics *)
Fixpoint first_word (s : string) : string :=
  match s with
  | EmptyString => EmptyString
  | String c t => if Ascii.eqb c " "%char then EmptyString else String c (first_word t)
  end.
Definition head_piece (f : sfmt) : option spiece :=
  match f with FPlain (p :: _) => Some p | FIfSome _ (p :: _) _ => Some p | _ => None end.
(* leading literal of the printing format up to the first space, as printed *)
Definition printed_mnemonic (ci : cinfo) : option string :=
  match head_piece (c_str ci) with
  | Some (PLit s) => Some (first_word s)
  | Some PClsLower => Some (lower (c_name ci))
  | _ => None
  end.
Definition mnemonic_of (ci : cinfo) : option string := option_map lower (printed_mnemonic ci).

(* classes that are not instructions of the AVM: abstract bases and analyzer-internal pseudo-instructions *)
Definition pseudo_classes : list string :=
  ["Instruction"; "InstructionWithLabel"; "IntcInstruction"; "BytecInstruction";
   "Label"; "Pragma"; "UnsupportedInstruction"; "TealerCustomErrInstruction"].
Definition mem (s : string) (l : list string) : bool := existsb (String.eqb s) l.
Definition opcode_classes : list cinfo := filter (fun ci => negb (mem (c_name ci) pseudo_classes)) classes.
Definition spec_of (ci : cinfo) : option avm_op :=
  match mnemonic_of ci with Some m => lookup_op m | None => None end.
Definition bad (ok : cinfo -> bool) : list cinfo := filter (fun ci => negb (ok ci)) opcode_classes.

Lemma pseudo_classes_exist : forallb (fun n => existsb (fun ci => c_name ci =? n) classes) pseudo_classes = true.
Proof. vm_compute. reflexivity. Qed.
Lemma opcode_classes_count : (length classes, length opcode_classes) = (186, 178)%nat.
Proof. vm_compute. reflexivity. Qed.

(* both branches of a conditional format start with the same mnemonic *)
Lemma ifsome_formats_consistent :
  forallb (fun ci => match c_str ci with
                     | FIfSome _ (PLit a :: _) (PLit b :: _) => first_word a =? first_word b
                     | FIfSome _ _ _ => false
                     | FPlain _ => true end) classes = true.
Proof. vm_compute. reflexivity. Qed.

(* classes printing a capitalised mnemonic (known finding, C16) *)
Lemma capitalised_mnemonics :
  map (fun ci => (c_name ci, printed_mnemonic ci))
      (filter (fun ci => negb (match printed_mnemonic ci, mnemonic_of ci with
                               | Some a, Some b => a =? b | _, _ => false end)) opcode_classes)
  = [].   (* fixed in /repo 25f0d78; was Gtxns, Gtxnsa, Gtxnas, Gitxnas *)
Proof. vm_compute. reflexivity. Qed.

(* ------------------------------------------------------------------ coverage in both directions *)
Lemma classes_without_spec_opcode :
  map c_name (filter (fun ci => match spec_of ci with None => true | Some _ => false end) opcode_classes) = [].
Proof. vm_compute. reflexivity. Qed.

Definition has_class (o : avm_op) : bool :=
  existsb (fun ci => match mnemonic_of ci with Some m => m =? a_mnemonic o | None => false end) opcode_classes.
Lemma spec_opcodes_missing_from_analyzer :
  map a_mnemonic (filter (fun o => negb (has_class o)) (avm_ops ++ avm_pseudo_ops)) = [].
Proof. vm_compute. reflexivity. Qed.

Lemma class_mnemonics_distinct :
  nodupb (map (fun ci => match mnemonic_of ci with Some m => m | None => "" end) opcode_classes) = true.
Proof. vm_compute. reflexivity. Qed.

(* classes matched by a pseudo-op entry rather than a real opcode *)
Lemma pseudo_op_classes :
  map c_name (filter (fun ci => match mnemonic_of ci with
                                | Some m => match lookup_op_in avm_ops m with None => true | _ => false end
                                | None => true end) opcode_classes)
  = ["Int"; "Addr"; "Byte"; "Method"; "Replace"].
Proof. vm_compute. reflexivity. Qed.

(* parser rules: the source prefix of every rule is the mnemonic of the class it builds; the spec
   mnemonics with no rule are exactly the byte-literal instructions the parser handles separately *)
Definition rule_bad (r : string * (string * shape)) : bool :=
  match r with (pre, (cls, _)) =>
    match lookup_class cls with
    | Some ci => negb (match mnemonic_of ci with Some m => m =? first_word pre | None => false end)
    | None => true
    end
  end.
Lemma parser_rules_use_class_mnemonic : filter rule_bad parser_rules = [].
Proof. vm_compute. reflexivity. Qed.
Lemma spec_opcodes_without_parser_rule :
  map a_mnemonic (filter (fun o => negb (existsb (fun r => first_word (fst r) =? a_mnemonic o) parser_rules))
                         (avm_ops ++ avm_pseudo_ops))
  = ["bytecblock"; "pushbytes"; "pushbytess"; "byte"; "method"].
Proof. vm_compute. reflexivity. Qed.

(* ------------------------------------------------------------------ the boolean comparisons *)
Definition xmode_eqb (a b : xmode) : bool :=
  match a, b with MStateless, MStateless | MStateful, MStateful | MAny, MAny => true | _, _ => false end.
Definition arity_eqb (a b : arity) : bool :=
  match a, b with
  | ArK x, ArK y => Nat.eqb x y
  | ArN x, ArN y => Nat.eqb x y
  | ArLen x, ArLen y => Nat.eqb x y
  | ArOpt x1 x2, ArOpt y1 y2 => Nat.eqb x1 y1 && Nat.eqb x2 y2
  | _, _ => false
  end.
(* common normal form of the generated arity expressions: constant / n+k / len+k / optional-immediate,
   all on the first constructor parameter (anything else has no normal form and counts as a mismatch) *)
Definition norm_aexpr (e : aexpr) : option arity :=
  match e with
  | AConst n => Some (ArK n)
  | AImm 0 p => Some (ArN p)
  | ALen 0 p => Some (ArLen p)
  | AIfNone 0 a b => Some (ArOpt a b)
  | _ => None
  end.
Definition oarity_eqb (a : option arity) (b : arity) : bool :=
  match a with Some x => arity_eqb x b | None => false end.

Definition with_spec {A} (ci : cinfo) (d : A) (f : avm_op -> A) : A :=
  match spec_of ci with Some o => f o | None => d end.
Definition version_ok ci := with_spec ci false (fun o => N.eqb (c_version ci) (a_version o)).
Definition mode_ok ci := with_spec ci false (fun o => xmode_eqb (c_mode ci) (a_mode o)).
Definition pop_ok ci := with_spec ci false (fun o => oarity_eqb (norm_aexpr (c_pop ci)) (a_pops o)).
Definition push_ok ci := with_spec ci false (fun o => oarity_eqb (norm_aexpr (c_push ci)) (a_pushes o)).

(* costs.  Opcodes whose price depends on the curve immediate are compared for every curve that
   exists in the program version; all others must have a parameter-independent cost.  Versions
   below the opcode's introduction are skipped (the opcode does not exist there; the analyzer
   returns 0 or the later price, the spec table is meaningless). *)
Definition is_curve_op (o : avm_op) : bool :=
  existsb (fun e => match e with (m, _, _, _) => m =? a_mnemonic o end) avm_curve_cost.
Definition curves_at (v : N) : list string := map fst (filter (fun e => N.leb (snd e) v) avm_ecdsa_curves).
Definition no_param_clause (cs : list cclause) : bool :=
  forallb (fun c => match c with CGeParam _ _ _ _ => false | _ => true end) cs.
Definition param0_clauses (cs : list cclause) : bool :=
  forallb (fun c => match c with CGeParam _ k _ _ => Nat.eqb k 0 | _ => true end) cs.
Definition gen_cost (ci : cinfo) (ps : list param) (v : N) : N := eval_cost (c_cost ci) (c_version ci) ps v.
Definition cost_ok (v : N) (ci : cinfo) : bool :=
  with_spec ci false (fun o =>
    if N.ltb v (a_version o) then true
    else if is_curve_op o
      then param0_clauses (c_cost ci) &&
           forallb (fun c => N.eqb (gen_cost ci [PStr c] v) (avm_cost_curve o c v)) (curves_at v)
      else no_param_clause (c_cost ci) && N.eqb (gen_cost ci [] v) (a_cost o v)).
Definition prog_versions : list N := [1;2;3;4;5;6;7;8]%N.

(* ------------------------------------------------------------------ mismatch lists (computed) *)
Definition version_mismatch_names : list string := ["Method"].
Definition push_mismatch_names : list string := ["FrameBury"].
Definition cost_mismatch_names (v : N) : list string :=
  if N.leb 7 v then [] else [].   (* fixed in /repo 398c4f0, 52a41ad; was Ecdsa_pk_decompress (Secp256r1), Sha3_256 at v7, v8 *)

Lemma version_mismatches : map c_name (bad version_ok) = version_mismatch_names.
Proof. vm_compute. reflexivity. Qed.
Lemma version_mismatch_details :   (* class, analyzer version, spec version *)
  map (fun ci => (c_name ci, c_version ci, with_spec ci 0%N a_version)) (bad version_ok) = [("Method", 6%N, 1%N)].
Proof. vm_compute. reflexivity. Qed.

Lemma mode_mismatches : map c_name (bad mode_ok) = [].
Proof. vm_compute. reflexivity. Qed.

(* refinement: the spec's mode as a function of the program version (avm_mode_at).  The analyzer has a
   single mode per class, so ed25519verify in an application of version 2..4 (rejected by the AVM)
   is not flagged.  (class, program version, analyzer mode, spec mode) *)
Lemma versioned_mode_mismatches :
  flat_map (fun v => flat_map (fun ci => with_spec ci [] (fun o =>
      if N.ltb v (a_version o) || xmode_eqb (c_mode ci) (avm_mode_at o v) then []
      else [(c_name ci, v, c_mode ci, avm_mode_at o v)])) opcode_classes) prog_versions
  = [("Ed25519verify", 1, MAny, MStateless); ("Ed25519verify", 2, MAny, MStateless);
     ("Ed25519verify", 3, MAny, MStateless); ("Ed25519verify", 4, MAny, MStateless)]%N.
Proof. vm_compute. reflexivity. Qed.

Lemma pop_mismatches : map c_name (bad pop_ok) = [].
Proof. vm_compute. reflexivity. Qed.
Lemma push_mismatches : map c_name (bad push_ok) = push_mismatch_names.
Proof. vm_compute. reflexivity. Qed.
Lemma push_mismatch_details :      (* class, analyzer push arity, spec push arity *)
  map (fun ci => (c_name ci, c_push ci, with_spec ci (ArK 0) a_pushes)) (bad push_ok) = [("FrameBury", AConst 1, ArK 0)].
Proof. vm_compute. reflexivity. Qed.

Lemma cost_mismatches :
  map (fun v => (v, map c_name (bad (cost_ok v)))) prog_versions
  = [(1, []); (2, []); (3, []); (4, []); (5, []); (6, []);
     (7, []); (8, [])]%N.
Proof. vm_compute. reflexivity. Qed.
Lemma cost_mismatches_at : forall v, In v prog_versions -> map c_name (bad (cost_ok v)) = cost_mismatch_names v.
Proof.
  intros v H. unfold prog_versions in H. simpl in H.
  repeat (destruct H as [H | H]; [subst v; vm_compute; reflexivity | ]). contradiction.
Qed.

(* (version, class, curve or "", analyzer cost, spec cost) *)
Definition cost_diffs (v : N) (ci : cinfo) : list (N * string * string * N * N) :=
  with_spec ci [] (fun o =>
    if N.ltb v (a_version o) then []
    else if is_curve_op o
      then flat_map (fun c => let a := gen_cost ci [PStr c] v in let s := avm_cost_curve o c v in
                              if N.eqb a s then [] else [(v, c_name ci, c, a, s)]) (curves_at v)
      else (let a := gen_cost ci [] v in let s := a_cost o v in
            if N.eqb a s then [] else [(v, c_name ci, "", a, s)])).
Lemma cost_mismatch_details :
  flat_map (fun v => flat_map (cost_diffs v) opcode_classes) prog_versions
  = [].
Proof. vm_compute. reflexivity. Qed.
(* the only classes with a parameter-dependent cost *)
Lemma param_dependent_costs :
  map c_name (filter (fun ci => negb (no_param_clause (c_cost ci))) opcode_classes) = ["Ecdsa_verify"; "Ecdsa_pk_decompress"].
Proof. vm_compute. reflexivity. Qed.

(* ------------------------------------------------------------------ lifting lemmas *)
Lemma bad_complete (ok : cinfo -> bool) (names : list string) :
  map c_name (bad ok) = names ->
  forall ci, In ci opcode_classes -> ~ In (c_name ci) names -> ok ci = true.
Proof.
  intros H ci Hin Hn. destruct (ok ci) eqn:E; auto.
  exfalso. apply Hn. rewrite <- H. apply in_map. unfold bad. apply filter_In. split; auto.
  rewrite E. reflexivity.
Qed.

Lemma with_spec_true (ci : cinfo) (f : avm_op -> bool) :
  with_spec ci false f = true -> exists o, spec_of ci = Some o /\ f o = true.
Proof.
  unfold with_spec. destruct (spec_of ci) as [o|]; intro H; [exists o; auto | discriminate].
Qed.

Lemma xmode_eqb_eq a b : xmode_eqb a b = true -> a = b.
Proof. destruct a, b; simpl; intro H; try reflexivity; discriminate. Qed.
Lemma arity_eqb_eq a b : arity_eqb a b = true -> a = b.
Proof.
  destruct a, b; simpl; intro H; try discriminate.
  - apply Nat.eqb_eq in H. subst. reflexivity.
  - apply Nat.eqb_eq in H. subst. reflexivity.
  - apply Nat.eqb_eq in H. subst. reflexivity.
  - apply andb_true_iff in H. destruct H as [H1 H2].
    apply Nat.eqb_eq in H1. apply Nat.eqb_eq in H2. subst. reflexivity.
Qed.

(* an opcode class is a class, and lookup_class finds it (so the theorems apply to ins_version etc.) *)
Lemma opcode_class_in_classes ci : In ci opcode_classes -> In ci classes.
Proof. unfold opcode_classes. intro H. apply filter_In in H. tauto. Qed.

(* ------------------------------------------------------------------ arities as functions of the immediates *)
Definition imm_n (ps : list param) : option nat := match ps with p :: _ => param_nat p | [] => None end.
Definition imm_len (ps : list param) : option nat := match ps with p :: _ => param_len p | [] => None end.
Definition imm_present (ps : list param) : option bool :=
  match ps with PNoneP :: _ => Some false | _ :: _ => Some true | [] => None end.
Definition eval_arity (a : arity) (ps : list param) : option nat :=
  arity_value a (imm_n ps) (imm_len ps) (imm_present ps).

Lemma norm_aexpr_sound e a : norm_aexpr e = Some a -> forall ps, eval_aexpr e ps = eval_arity a ps.
Proof.
  intros H ps. destruct e as [n | k p | k p | k x y]; simpl in H.
  - inversion H; subst. reflexivity.
  - destruct k; [ | discriminate]. inversion H; subst.
    unfold eval_arity. simpl. destruct ps; reflexivity.
  - destruct k; [ | discriminate]. inversion H; subst.
    unfold eval_arity. simpl. destruct ps; reflexivity.
  - destruct k; [ | discriminate]. inversion H; subst.
    unfold eval_arity. simpl. destruct ps as [ | q ps]; [reflexivity | ]. destruct q; reflexivity.
Qed.

(* ------------------------------------------------------------------ cost: independence of the parameters *)
Lemma eval_cost_no_param cs sv v : no_param_clause cs = true ->
  forall ps ps', eval_cost cs sv ps v = eval_cost cs sv ps' v.
Proof.
  induction cs as [ | c cs IH]; intros H ps ps'; [reflexivity | ].
  simpl in H. apply andb_true_iff in H. destruct H as [Hc Hcs].
  destruct c; simpl; try reflexivity; try (rewrite (IH Hcs ps ps'); reflexivity).
  discriminate.
Qed.
Lemma eval_cost_param0 cs sv v : param0_clauses cs = true ->
  forall ps ps', nth_error ps 0 = nth_error ps' 0 -> eval_cost cs sv ps v = eval_cost cs sv ps' v.
Proof.
  induction cs as [ | c cs IH]; intros H ps ps' E; [reflexivity | ].
  simpl in H. apply andb_true_iff in H. destruct H as [Hc Hcs].
  destruct c; simpl; try reflexivity; try (rewrite (IH Hcs ps ps' E); reflexivity).
  apply Nat.eqb_eq in Hc. subst. rewrite E. rewrite (IH Hcs ps ps' E). reflexivity.
Qed.

(* ================================================================== MAIN THEOREMS *)

(* C19, introduction versions: generated = specification for every opcode class except Method *)
Theorem C19_versions_match_partial :
  forall ci, In ci opcode_classes -> ~ In (c_name ci) version_mismatch_names ->
  exists o, spec_of ci = Some o /\ c_version ci = a_version o.
Proof.
  intros ci Hin Hn.
  pose proof (bad_complete version_ok _ version_mismatches ci Hin Hn) as H.
  apply with_spec_true in H. destruct H as [o [Ho H]].
  exists o. split; auto. apply N.eqb_eq. exact H.
Qed.

(* C19, execution modes: no mismatch at all *)
Theorem C19_modes_match :
  forall ci, In ci opcode_classes -> exists o, spec_of ci = Some o /\ c_mode ci = a_mode o.
Proof.
  intros ci Hin.
  assert (Hn : ~ In (c_name ci) []) by (intro F; exact F).
  pose proof (bad_complete mode_ok _ mode_mismatches ci Hin Hn) as H.
  apply with_spec_true in H. destruct H as [o [Ho H]].
  exists o. split; auto. apply xmode_eqb_eq. exact H.
Qed.

(* C11, stack arities as functions of the immediates.  Pops agree for every class; pushes for every
   class except FrameBury. *)
Theorem C11_pop_arities_match :
  forall ci, In ci opcode_classes ->
  exists o, spec_of ci = Some o /\ forall ps, eval_aexpr (c_pop ci) ps = eval_arity (a_pops o) ps.
Proof.
  intros ci Hin.
  assert (Hn : ~ In (c_name ci) []) by (intro F; exact F).
  pose proof (bad_complete pop_ok _ pop_mismatches ci Hin Hn) as H.
  apply with_spec_true in H. destruct H as [o [Ho H]].
  exists o. split; auto. unfold oarity_eqb in H.
  destruct (norm_aexpr (c_pop ci)) as [a|] eqn:E; [ | discriminate].
  apply arity_eqb_eq in H. subst a. apply norm_aexpr_sound. exact E.
Qed.

Theorem C11_arities_match_partial :
  forall ci, In ci opcode_classes -> ~ In (c_name ci) push_mismatch_names ->
  exists o, spec_of ci = Some o /\
    forall ps, eval_aexpr (c_pop ci) ps = eval_arity (a_pops o) ps /\
               eval_aexpr (c_push ci) ps = eval_arity (a_pushes o) ps.
Proof.
  intros ci Hin Hn.
  destruct (C11_pop_arities_match ci Hin) as [o [Ho Hpop]].
  pose proof (bad_complete push_ok _ push_mismatches ci Hin Hn) as H.
  apply with_spec_true in H. destruct H as [o' [Ho' H]].
  rewrite Ho in Ho'. inversion Ho'; subst o'.
  exists o. split; auto. intro ps. split; [apply Hpop | ].
  unfold oarity_eqb in H.
  destruct (norm_aexpr (c_push ci)) as [a|] eqn:E; [ | discriminate].
  apply arity_eqb_eq in H. subst a. apply norm_aexpr_sound. exact E.
Qed.

(* the same, phrased on the model's stack_pop_size / stack_push_size of an instruction *)
Corollary C11_instr_arities_match_partial :
  forall i ci, lookup_class (cls_of i) = Some ci -> In ci opcode_classes ->
  ~ In (c_name ci) push_mismatch_names ->
  exists o, spec_of ci = Some o /\
    stack_pop_size i = eval_arity (a_pops o) (params_of i) /\
    stack_push_size i = eval_arity (a_pushes o) (params_of i).
Proof.
  intros i ci Hl Hin Hn.
  destruct (C11_arities_match_partial ci Hin Hn) as [o [Ho H]].
  exists o. split; auto. unfold stack_pop_size, stack_push_size. rewrite Hl.
  destruct (H (params_of i)) as [H1 H2]. split; assumption.
Qed.

(* C19, opcode cost per program version 1..8 (restricted to versions in which the opcode exists):
   - for opcodes whose price does not depend on an immediate: the generated cost equals the spec cost
     whatever the parameters;
   - for the ECDSA opcodes: for every curve existing in that version, and any parameter list whose
     first element is that curve name. *)
Theorem C19_costs_match_partial :
  forall ci v, In ci opcode_classes -> In v prog_versions -> ~ In (c_name ci) (cost_mismatch_names v) ->
  exists o, spec_of ci = Some o /\
    ((a_version o <= v)%N ->
       (is_curve_op o = false -> forall ps, gen_cost ci ps v = a_cost o v) /\
       (is_curve_op o = true -> forall c ps, In c (curves_at v) -> nth_error ps 0 = Some (PStr c) ->
                                gen_cost ci ps v = avm_cost_curve o c v)).
Proof.
  intros ci v Hin Hv Hn.
  pose proof (bad_complete (cost_ok v) _ (cost_mismatches_at v Hv) ci Hin Hn) as H.
  apply with_spec_true in H. destruct H as [o [Ho H]].
  exists o. split; auto. intro Hle.
  destruct (N.ltb v (a_version o)) eqn:Elt.
  { apply N.ltb_lt in Elt. exfalso. apply (N.lt_irrefl v). eapply N.lt_le_trans; eauto. }
  destruct (is_curve_op o) eqn:Ec.
  - apply andb_true_iff in H. destruct H as [Hp0 Hall]. split; [discriminate | ].
    intros _ c ps Hc Hps.
    rewrite forallb_forall in Hall. specialize (Hall c Hc). apply N.eqb_eq in Hall.
    rewrite <- Hall. unfold gen_cost. apply eval_cost_param0; [exact Hp0 | ]. rewrite Hps. reflexivity.
  - apply andb_true_iff in H. destruct H as [Hnp Heq]. split; [ | discriminate].
    intros _ ps. apply N.eqb_eq in Heq. rewrite <- Heq. unfold gen_cost.
    apply eval_cost_no_param. exact Hnp.
Qed.

(* ------------------------------------------------------------------ field tables *)
Definition gtable := list (string * (string * N)).
Definition field_tables : list (string * gtable * list (string * N)) := [
  ("txn", (tx_fields ++ tx_array_fields)%list, avm_txn_fields);
  ("txn_array", tx_array_fields, avm_txn_array_fields);
  ("global", global_fields, avm_global_fields);
  ("asset_holding", asset_holding_fields, avm_asset_holding_fields);
  ("asset_params", asset_params_fields, avm_asset_params_fields);
  ("app_params", app_params_fields, avm_app_params_fields);
  ("acct_params", acct_params_fields, avm_acct_params_fields) ].

(* (table, field, analyzer version, spec version) for fields present on both sides *)
Definition fld_version_bad (n : string) (g : gtable) (s : list (string * N)) : list (string * string * N * N) :=
  flat_map (fun e => match e with (t, (_, v)) =>
     match lookup_field s t with
     | Some sv => if N.eqb v sv then [] else [(n, t, v, sv)]
     | None => [] end end) g.
Definition fld_gen_only (n : string) (g : gtable) (s : list (string * N)) : list (string * string) :=
  map (fun e => (n, fst e)) (filter (fun e => match lookup_field s (fst e) with None => true | _ => false end) g).
Definition fld_spec_only (n : string) (g : gtable) (s : list (string * N)) : list (string * string) :=
  map (fun e => (n, fst e)) (filter (fun e => negb (mem (fst e) (map fst g))) s).

Lemma field_version_mismatches :
  flat_map (fun e => match e with (n, g, s) => fld_version_bad n g s end) field_tables = [].
Proof. vm_compute. reflexivity. Qed.
Lemma fields_in_analyzer_without_spec_field :
  flat_map (fun e => match e with (n, g, s) => fld_gen_only n g s end) field_tables = [("app_params", "AppParamsField")].
Proof. vm_compute. reflexivity. Qed.
Lemma spec_fields_missing_from_analyzer :
  flat_map (fun e => match e with (n, g, s) => fld_spec_only n g s end) field_tables = [].
Proof. vm_compute. reflexivity. Qed.
Lemma field_text_is_class_name :
  forallb (fun e => match e with (_, g, _) => forallb (fun f => fst f =? fst (snd f)) g end) field_tables = true.
Proof. vm_compute. reflexivity. Qed.
Lemma field_texts_distinct :
  forallb (fun e => match e with (_, g, s) => nodupb (map fst g) && nodupb (map fst s) end) field_tables = true.
Proof. vm_compute. reflexivity. Qed.

Definition ofield_ok (s : list (string * N)) (f : string * (string * N)) : bool :=
  match lookup_field s (fst f) with Some sv => N.eqb (snd (snd f)) sv | None => true end.
Lemma fields_check :
  forallb (fun e => match e with (_, g, s) => forallb (ofield_ok s) g end) field_tables = true.
Proof. vm_compute. reflexivity. Qed.

(* C19, field introduction versions: every generated field that the spec knows has the spec's version
   (no exclusions: the mismatch list is empty) *)
Theorem C19_field_versions_match :
  forall n g s, In (n, g, s) field_tables ->
  forall t c v sv, In (t, (c, v)) g -> lookup_field s t = Some sv -> v = sv.
Proof.
  intros n g s Hin t c v sv Hf Hl.
  pose proof fields_check as H. rewrite forallb_forall in H. specialize (H _ Hin). simpl in H.
  rewrite forallb_forall in H. specialize (H _ Hf). unfold ofield_ok in H. simpl in H.
  rewrite Hl in H. apply N.eqb_eq. exact H.
Qed.

(* ... and every spec field is present in the generated table with that version *)
Definition sfield_ok (g : gtable) (f : string * N) : bool :=
  existsb (fun e => (fst e =? fst f) && N.eqb (snd (snd e)) (snd f)) g.
Lemma spec_fields_check :
  forallb (fun e => match e with (_, g, s) => forallb (sfield_ok g) s end) field_tables = true.
Proof. vm_compute. reflexivity. Qed.
Theorem C19_fields_complete :
  forall n g s, In (n, g, s) field_tables ->
  forall t v, In (t, v) s -> exists c, In (t, (c, v)) g.
Proof.
  intros n g s Hin t v Hf.
  pose proof spec_fields_check as H. rewrite forallb_forall in H. specialize (H _ Hin). simpl in H.
  rewrite forallb_forall in H. specialize (H _ Hf). unfold sfield_ok in H.
  apply existsb_exists in H. destruct H as [[t' [c v']] [He Hb]]. simpl in Hb.
  apply andb_true_iff in Hb. destruct Hb as [Ht Hv].
  apply String.eqb_eq in Ht. apply N.eqb_eq in Hv. subst. exists c. exact He.
Qed.

Print Assumptions C19_versions_match_partial.
Print Assumptions C19_modes_match.
Print Assumptions C19_costs_match_partial.
Print Assumptions C11_pop_arities_match.
Print Assumptions C11_arities_match_partial.
Print Assumptions C11_instr_arities_match_partial.
Print Assumptions C19_field_versions_match.
Print Assumptions C19_fields_complete.
