(* The nine detectors' detect() methods REGENERATED from tealer's Python source (Gen/DetectorsGen.v, translated statement
   by statement from detectors/{rekeyto,can_close_account,can_close_asset,fee_check,is_updatable,is_deletable,
   anyone_can_update,anyone_can_delete,groupsize}.py by tools/translate_detectors.py) against the model:
   Model/Detect.v (the table [detectors], [accessed_using_absolute_index], the dispatch on the name in [run_detector]),
   Model/Driver.v ([group_checks]) and Gen/Leaves.v (the older, untyped translation of the same closures by
   tools/translate_leaves.py: checks_<name>, [detector_table]).

   Results.
   1. PREDICATES.  For every detector X and EVERY context c:  X_checks_field_genE c = Some (checks_X c)  (no exception,
      same boolean); X_NAME is the model's name; the generated table equals Detect.detectors entry by entry
      (detectors_gen_eq: same names, predicates equal on every context; stated pointwise, no functional extensionality).  The ORDER of the model's table is neither the import order of all_detectors.py nor the
      registration order `dir(all_detectors)` (sorted by class name): the three are permutations of each other
      (registration_is_permutation, model_order_is_not_registration_order).
   2. detect().  For the eight field detectors: detect() = if self.tealer.output_group then the group driver
      (detector, checks_field, vulnerable transaction types) else the path driver with the default report condition,
      each (contract, paths) wrapped in ExecutionPaths(contract, self, paths) (X_detect_gen_spec).  group-size-check has
      NO output_group branch and passes its own report condition.  The arguments agree with Gen/Leaves.v's
      detector_table and with Driver.group_checks (detect_gen_group_mode_table: one computed equality over a probe).
   3. groupsize.  _accessed_using_absolute_index: generated = model on every block whose stack emulation succeeds and
      whose instruction list has no repetition (accessed_using_absolute_index_gen_eq); the report condition is
      existsb of it over the path (satisfies_report_condition_gen_eq).  Without the emulation hypothesis they DIFFER:
      accessed_gen_refuted (Python answers True on a `gtxn` before it ever builds the stack; the model emulates first).
   4. LINK.  detect() run on ONE function through the regenerated search of Gen/SearchGen.v IS the model's run_detector
      (detect_gen_single_function), which justifies run_detector's `name =? "group-size-check"` dispatch.
   5. TRANSPORT.  NoMiss.no_miss_generic and C01_fee_no_miss restated for the generated table / the generated detect(). *)
From Coq Require Import String List NArith ZArith Bool Arith Lia.
From Tealer Require Import Tables LeafPrelude Leaves Syntax Parse Cfg StackAst Keys KeysGen StackGen Analysis Domains Detect Driver.
From Tealer Require Import DetectorsGen SearchGen.
From Tealer Require Import StackLemmas StackGenLemmas SolverLemmas SearchGenLemmas TotalSolver.
From Tealer Require Import Runs Paths Eval Exec LeafLemmas SingleLemmas SearchLemmas PathCut Compose ExecLemmas NoMiss.
Import ListNotations.
Open Scope string_scope.
Open Scope list_scope.

(* ====================================================================== *)
(* 1. The predicates                                                        *)
(* ====================================================================== *)
(* The proofs do not compare texts: both sides are unfolded to the record projections and decided by cases on the
   boolean atoms, so a semantically neutral edit of the Python (operands of `or` swapped, ..) keeps them valid. *)
Ltac checks_eq :=
  intros c;
  cbv [rekey_to_checks_field_genE can_close_account_checks_field_genE can_close_asset_checks_field_genE
       missing_fee_check_checks_field_genE is_updatable_checks_field_genE is_deletable_checks_field_genE
       unprotected_updatable_checks_field_genE unprotected_deletable_checks_field_genE group_size_check_checks_field_genE
       checks_rekey_to checks_can_close_account checks_can_close_asset checks_missing_fee_check checks_is_updatable
       checks_is_deletable checks_unprotected_updatable checks_unprotected_deletable checks_group_size_check
       attr_rekeyto attr_closeto attr_assetcloseto attr_sender attr_transaction_types attr_max_fee attr_max_fee_unknown
       attr_group_sizes attr_group_indices attr_is_gtxn_context attr_any_addr attr_no_addr attr_possible_addr
       in_types in_ints const_MAX_GROUP_SIZE const_MAX_TRANSACTION_COST const_MAX_UINT64 const_MIN_ALGORAND_FEE
       MAX_TRANSACTION_COSTz MAX_UINT64z mem_any Mem_string Mem_Z smem ret];
  repeat match goal with
         | |- context [av_any ?x] => destruct (av_any x)
         | |- context [av_no ?x] => destruct (av_no x)
         | |- context [existsb ?g ?l] => destruct (existsb g l)
         | |- context [Z.leb ?x ?y] => destruct (Z.leb x y)
         | |- context [Z.ltb ?x ?y] => destruct (Z.ltb x y)
         | |- context [Z.geb ?x ?y] => destruct (Z.geb x y)
         | |- context [Z.gtb ?x ?y] => destruct (Z.gtb x y)
         | |- context [Z.eqb ?x ?y] => destruct (Z.eqb x y)
         | |- context [ctx_max_fee_unknown ?x] => destruct (ctx_max_fee_unknown x)
         | |- context [ctx_is_gtxn_context ?x] => destruct (ctx_is_gtxn_context x)
         end;
  reflexivity.

Theorem rekey_to_checks_field_genE_eq : forall c, rekey_to_checks_field_genE c = Some (checks_rekey_to c).
Proof. checks_eq. Qed.
Theorem can_close_account_checks_field_genE_eq : forall c, can_close_account_checks_field_genE c = Some (checks_can_close_account c).
Proof. checks_eq. Qed.
Theorem can_close_asset_checks_field_genE_eq : forall c, can_close_asset_checks_field_genE c = Some (checks_can_close_asset c).
Proof. checks_eq. Qed.
Theorem missing_fee_check_checks_field_genE_eq : forall c, missing_fee_check_checks_field_genE c = Some (checks_missing_fee_check c).
Proof. checks_eq. Qed.
Theorem is_updatable_checks_field_genE_eq : forall c, is_updatable_checks_field_genE c = Some (checks_is_updatable c).
Proof. checks_eq. Qed.
Theorem is_deletable_checks_field_genE_eq : forall c, is_deletable_checks_field_genE c = Some (checks_is_deletable c).
Proof. checks_eq. Qed.
Theorem unprotected_updatable_checks_field_genE_eq : forall c, unprotected_updatable_checks_field_genE c = Some (checks_unprotected_updatable c).
Proof. checks_eq. Qed.
Theorem unprotected_deletable_checks_field_genE_eq : forall c, unprotected_deletable_checks_field_genE c = Some (checks_unprotected_deletable c).
Proof. checks_eq. Qed.
Theorem group_size_check_checks_field_genE_eq : forall c, group_size_check_checks_field_genE c = Some (checks_group_size_check c).
Proof. checks_eq. Qed.

(* the names *)
Theorem detector_names_gen_eq :
  [rekey_to_NAME; can_close_account_NAME; can_close_asset_NAME; missing_fee_check_NAME; is_updatable_NAME; is_deletable_NAME;
   unprotected_updatable_NAME; unprotected_deletable_NAME; group_size_check_NAME] = map fst Detect.detectors.
Proof. reflexivity. Qed.

(* the table, entry by entry, in the order of Model/Detect.v: the monadic closures never raise and return the model's value *)
Theorem detectors_genE_eq :
  Forall2 (fun g m => fst g = fst m /\ forall c, snd g c = Some (snd m c)) detectors_genE Detect.detectors.
Proof.
  unfold detectors_genE, Detect.detectors.
  repeat (constructor; [split; [reflexivity|] |]); cbn [snd];
    [ exact rekey_to_checks_field_genE_eq | exact can_close_account_checks_field_genE_eq | exact can_close_asset_checks_field_genE_eq
    | exact missing_fee_check_checks_field_genE_eq | exact is_updatable_checks_field_genE_eq | exact is_deletable_checks_field_genE_eq
    | exact unprotected_updatable_checks_field_genE_eq | exact unprotected_deletable_checks_field_genE_eq
    | exact group_size_check_checks_field_genE_eq | constructor ].
Qed.

Lemma total_checks_of (g : bctx -> py bool) (m : bctx -> bool) : (forall c, g c = Some (m c)) -> forall c, total_checks g c = m c.
Proof. intros H c. unfold total_checks. rewrite H. reflexivity. Qed.

Theorem detectors_gen_eq :
  Forall2 (fun g m => fst g = fst m /\ forall c, snd g c = snd m c) detectors_gen Detect.detectors.
Proof.
  unfold detectors_gen, Detect.detectors.
  repeat (constructor; [split; [reflexivity|] |]); cbn [snd];
    [ exact (total_checks_of _ _ rekey_to_checks_field_genE_eq) | exact (total_checks_of _ _ can_close_account_checks_field_genE_eq)
    | exact (total_checks_of _ _ can_close_asset_checks_field_genE_eq) | exact (total_checks_of _ _ missing_fee_check_checks_field_genE_eq)
    | exact (total_checks_of _ _ is_updatable_checks_field_genE_eq) | exact (total_checks_of _ _ is_deletable_checks_field_genE_eq)
    | exact (total_checks_of _ _ unprotected_updatable_checks_field_genE_eq) | exact (total_checks_of _ _ unprotected_deletable_checks_field_genE_eq)
    | exact (total_checks_of _ _ group_size_check_checks_field_genE_eq) | constructor ].
Qed.

(* usable form: a generated entry and the model entry of the same name agree on every context *)
Theorem detectors_gen_pointwise : forall n g m,
  In (n, g) detectors_gen -> In (n, m) Detect.detectors -> forall c, g c = m c.
Proof.
  intros n g m Hg Hm c. unfold detectors_gen in Hg. unfold Detect.detectors in Hm. cbn [In] in Hg, Hm.
  repeat (destruct Hg as [Hg|Hg]; [injection Hg as <- <- |]); try contradiction;
    (repeat (destruct Hm as [Hm|Hm]; [first [discriminate Hm | injection Hm as <-] |]); try contradiction);
    first [ exact (total_checks_of _ _ rekey_to_checks_field_genE_eq c) | exact (total_checks_of _ _ can_close_account_checks_field_genE_eq c)
          | exact (total_checks_of _ _ can_close_asset_checks_field_genE_eq c) | exact (total_checks_of _ _ missing_fee_check_checks_field_genE_eq c)
          | exact (total_checks_of _ _ is_updatable_checks_field_genE_eq c) | exact (total_checks_of _ _ is_deletable_checks_field_genE_eq c)
          | exact (total_checks_of _ _ unprotected_updatable_checks_field_genE_eq c) | exact (total_checks_of _ _ unprotected_deletable_checks_field_genE_eq c)
          | exact (total_checks_of _ _ group_size_check_checks_field_genE_eq c) ].
Qed.

(* the closures never raise *)
Theorem checks_field_genE_total : forall n g, In (n, g) detectors_genE -> forall c, g c <> None.
Proof.
  intros n g Hg c. unfold detectors_genE in Hg. cbn [In] in Hg.
  repeat (destruct Hg as [Hg|Hg]; [injection Hg as <- <- |]); try contradiction; try discriminate.
  rewrite group_size_check_checks_field_genE_eq. discriminate.
Qed.

(* registration: all_detectors.py imports, get_detectors_and_printers iterates dir(all_detectors) *)
Definition same_elements (l1 l2 : list string) : bool :=
  forallb (fun n => smem n l2) l1 && forallb (fun n => smem n l1) l2 && Nat.eqb (length l1) (length l2).
Theorem registration_is_permutation :
  same_elements (map fst Detect.detectors) all_detectors_import_order_gen = true /\
  same_elements (map fst Detect.detectors) all_detectors_dir_order_gen = true /\
  NoDup (map fst Detect.detectors).
Proof.
  split; [vm_compute; reflexivity|]. split; [vm_compute; reflexivity|].
  cbn [map fst Detect.detectors].
  repeat (constructor; [cbn [In]; intros H; repeat (destruct H as [H|H]; [discriminate H|]); exact H |]). constructor.
Qed.
Theorem model_order_is_not_registration_order :
  map fst Detect.detectors <> all_detectors_dir_order_gen /\ map fst Detect.detectors <> all_detectors_import_order_gen.
Proof. split; discriminate. Qed.

(* ====================================================================== *)
(* 2. detect()                                                              *)
(* ====================================================================== *)
Section DetectSpec.
  Context {Contract GOut : Type}.
  Variable t : tealer_obj Contract GOut.

  (* the branch `if self.tealer.output_group: return list(..group_complete(self.tealer, self, checks_field[, types]))` *)
  Definition group_mode (name ty : string) (checks : bctx -> py bool) (vt : option (list string)) : py (list (Output Contract GOut)) :=
    bind (call_detect_missing_tx_field_validations_group_complete t name ty checks vt) (fun g => ret (as_outputs g)).
  (* the rest: every (contract, paths) of ..group(self.tealer, checks_field[, report]) wrapped in ExecutionPaths *)
  Definition paths_mode (name : string) (checks : bctx -> py bool) (report : func -> list nat -> py bool) : py (list (Output Contract GOut)) :=
    bind (call_detect_missing_tx_field_validations_group t checks report)
         (fun out => ret (map (fun cp => ExecutionPaths (fst cp) name (snd cp)) out)).

  Lemma wrap_loop (name : string) (out : list (Contract * list (list nat))) : forall acc : list (Output Contract GOut),
    fold_left (fun acc tmp => bind acc (fun st =>
                 let detector_output := st in
                 let contract := fst tmp in
                 let vulnerable_paths := snd tmp in
                 let detector_output := detector_output ++ [ExecutionPaths contract name vulnerable_paths] in
                 ret detector_output)) out (ret acc)
    = ret (acc ++ map (fun cp => ExecutionPaths (fst cp) name (snd cp)) out).
  Proof.
    induction out as [|x r IH]; intros acc; cbn [fold_left map].
    - rewrite app_nil_r. reflexivity.
    - cbn [bind ret]. change (Some (acc ++ [ExecutionPaths (fst x) name (snd x)])) with (ret (acc ++ [@ExecutionPaths Contract GOut (fst x) name (snd x)])).
      rewrite IH. rewrite <- app_assoc. reflexivity.
  Qed.

  Lemma paths_branch_shape (name : string) (m : py (list (Contract * list (list nat)))) :
    bind m (fun output =>
      let detector_output := [] in
      bind (fold_left (fun acc tmp => bind acc (fun st =>
                 let detector_output := st in
                 let contract := fst tmp in
                 let vulnerable_paths := snd tmp in
                 let detector_output := detector_output ++ [ExecutionPaths contract name vulnerable_paths] in
                 ret detector_output)) output (ret detector_output))
           (fun tmp => let detector_output := tmp in ret detector_output))
    = bind m (fun out => ret (map (fun cp => @ExecutionPaths Contract GOut (fst cp) name (snd cp)) out)).
  Proof.
    destruct m as [out|]; [|reflexivity]. cbn [bind]. cbv zeta. rewrite wrap_loop. reflexivity.
  Qed.

  Theorem rekey_to_detect_gen_spec :
    rekey_to_detect_gen t =
    if tealer_output_group t then group_mode "rekey-to" "STATELESS" rekey_to_checks_field_genE None
    else paths_mode "rekey-to" rekey_to_checks_field_genE default_satisfies_report_condition.
  Proof. unfold rekey_to_detect_gen. destruct (tealer_output_group t); [reflexivity | apply paths_branch_shape]. Qed.
  Theorem can_close_account_detect_gen_spec :
    can_close_account_detect_gen t =
    if tealer_output_group t then group_mode "can-close-account" "STATELESS" can_close_account_checks_field_genE (Some ["Any"; "Unknown"; "Pay"])
    else paths_mode "can-close-account" can_close_account_checks_field_genE default_satisfies_report_condition.
  Proof. unfold can_close_account_detect_gen. destruct (tealer_output_group t); [reflexivity | apply paths_branch_shape]. Qed.
  Theorem can_close_asset_detect_gen_spec :
    can_close_asset_detect_gen t =
    if tealer_output_group t then group_mode "can-close-asset" "STATELESS" can_close_asset_checks_field_genE (Some ["Any"; "Unknown"; "Axfer"])
    else paths_mode "can-close-asset" can_close_asset_checks_field_genE default_satisfies_report_condition.
  Proof. unfold can_close_asset_detect_gen. destruct (tealer_output_group t); [reflexivity | apply paths_branch_shape]. Qed.
  Theorem missing_fee_check_detect_gen_spec :
    missing_fee_check_detect_gen t =
    if tealer_output_group t then group_mode "missing-fee-check" "STATELESS" missing_fee_check_checks_field_genE None
    else paths_mode "missing-fee-check" missing_fee_check_checks_field_genE default_satisfies_report_condition.
  Proof. unfold missing_fee_check_detect_gen. destruct (tealer_output_group t); [reflexivity | apply paths_branch_shape]. Qed.
  Theorem is_updatable_detect_gen_spec :
    is_updatable_detect_gen t =
    if tealer_output_group t then group_mode "is-updatable" "STATEFULL" is_updatable_checks_field_genE None
    else paths_mode "is-updatable" is_updatable_checks_field_genE default_satisfies_report_condition.
  Proof. unfold is_updatable_detect_gen. destruct (tealer_output_group t); [reflexivity | apply paths_branch_shape]. Qed.
  Theorem is_deletable_detect_gen_spec :
    is_deletable_detect_gen t =
    if tealer_output_group t then group_mode "is-deletable" "STATEFULL" is_deletable_checks_field_genE None
    else paths_mode "is-deletable" is_deletable_checks_field_genE default_satisfies_report_condition.
  Proof. unfold is_deletable_detect_gen. destruct (tealer_output_group t); [reflexivity | apply paths_branch_shape]. Qed.
  Theorem unprotected_updatable_detect_gen_spec :
    unprotected_updatable_detect_gen t =
    if tealer_output_group t then group_mode "unprotected-updatable" "STATEFULL" unprotected_updatable_checks_field_genE None
    else paths_mode "unprotected-updatable" unprotected_updatable_checks_field_genE default_satisfies_report_condition.
  Proof. unfold unprotected_updatable_detect_gen. destruct (tealer_output_group t); [reflexivity | apply paths_branch_shape]. Qed.
  Theorem unprotected_deletable_detect_gen_spec :
    unprotected_deletable_detect_gen t =
    if tealer_output_group t then group_mode "unprotected-deletable" "STATEFULL" unprotected_deletable_checks_field_genE None
    else paths_mode "unprotected-deletable" unprotected_deletable_checks_field_genE default_satisfies_report_condition.
  Proof. unfold unprotected_deletable_detect_gen. destruct (tealer_output_group t); [reflexivity | apply paths_branch_shape]. Qed.
  (* groupsize.py has no output_group branch: with --group-config it still reports execution paths *)
  Theorem group_size_check_detect_gen_spec :
    group_size_check_detect_gen t =
    paths_mode "group-size-check" group_size_check_checks_field_genE group_size_check_satisfies_report_condition_gen.
  Proof. unfold group_size_check_detect_gen. apply paths_branch_shape. Qed.

  (* the report condition a detector passes: the model's dispatch on the name (Detect.run_detector) *)
  Definition report_of (name : string) : func -> list nat -> py bool :=
    if name =? "group-size-check" then group_size_check_satisfies_report_condition_gen else default_satisfies_report_condition.

  (* table form: whenever output_group is off (or the detector has no group branch), detect() is the path driver with
     the closure of the same name in detectors_genE and the report condition selected by the model's dispatch *)
  Theorem detect_gen_paths_mode : forall n d,
    In (n, d) detector_calls_gen -> tealer_output_group t = false \/ n = "group-size-check" ->
    exists checks, In (n, checks) detectors_genE /\ d t = paths_mode n checks (report_of n).
  Proof.
    intros n d Hd Hog. unfold detector_calls_gen in Hd. cbn [In] in Hd.
    repeat (destruct Hd as [Hd|Hd]; [injection Hd as <- <- |]); try contradiction.
    1: exists rekey_to_checks_field_genE; rewrite rekey_to_detect_gen_spec.
    2: exists can_close_account_checks_field_genE; rewrite can_close_account_detect_gen_spec.
    3: exists can_close_asset_checks_field_genE; rewrite can_close_asset_detect_gen_spec.
    4: exists missing_fee_check_checks_field_genE; rewrite missing_fee_check_detect_gen_spec.
    5: exists is_updatable_checks_field_genE; rewrite is_updatable_detect_gen_spec.
    6: exists is_deletable_checks_field_genE; rewrite is_deletable_detect_gen_spec.
    7: exists unprotected_updatable_checks_field_genE; rewrite unprotected_updatable_detect_gen_spec.
    8: exists unprotected_deletable_checks_field_genE; rewrite unprotected_deletable_detect_gen_spec.
    9: exists group_size_check_checks_field_genE; rewrite group_size_check_detect_gen_spec.
    all: (split; [unfold detectors_genE; cbn [In]; tauto |]).
    all: try (destruct Hog as [Hog|Hog]; [rewrite Hog; reflexivity | discriminate Hog]).
    reflexivity.
  Qed.
End DetectSpec.

(* the group branch against Gen/Leaves.v's detector_table (TYPE, vulnerable types) and Driver.group_checks (which
   detectors have a group verdict): a tealer object that records what it is called with *)
Definition probe (og : bool) : tealer_obj unit (string * string * option (list string)) :=
  mkTealer unit (string * string * option (list string)) og (fun _ _ => Some []) (fun n ty _ vt => Some [(n, ty, vt)]).
Theorem detect_gen_group_mode_table :
  map (fun nd => (fst nd, snd nd (probe true))) detector_calls_gen =
  map (fun '(n, (ty, vt)) =>
         (n, Some (if existsb (String.eqb n) (map fst group_checks) then [GroupTransactionOutput (n, ty, vt)] else [])))
      detector_table.
Proof. vm_compute. reflexivity. Qed.
Theorem detector_types_gen_eq : detector_types_gen = map (fun x => (fst x, fst (snd x))) detector_table.
Proof. reflexivity. Qed.

(* ====================================================================== *)
(* 3. groupsize: _accessed_using_absolute_index and the report condition    *)
(* ====================================================================== *)
Definition entry : Type := nat * instr * list sval.
Definition e_op (e : entry) : instr := snd (fst e).
Definition e_args (e : entry) : list sval := snd e.
(* the two isinstance tuples of the method *)
Definition g1 (i : instr) : bool := orb (isa_Gtxn i) (orb (isa_Gtxna i) (isa_Gtxnas i)).
Definition g2 (i : instr) : bool := orb (isa_Gtxns i) (orb (isa_Gtxnsa i) (isa_Gtxnsas i)).
Definition idx_is_int (intcs : option (list N)) (args : list sval) : bool :=
  match args with SKnown o _ _ _ :: _ => res_is_int (is_int_push_ins intcs o) | _ => false end.

(* the model's test of one entry (the body of existsb in Detect.accessed_using_absolute_index) *)
Definition model_test (intcs : option (list N)) (e : entry) : bool :=
  let '(_, op, args) := e in
  match op with
  | IGtxn _ _ => true
  | IOther c _ =>
      if (c =? "Gtxna") || (c =? "Gtxnas") then true
      else if (c =? "Gtxnsa") || (c =? "Gtxnsas") then
        match args with
        | SKnown o _ _ _ :: _ => res_is_int (is_int_push_ins intcs o)
        | _ => false end
      else false
  | IGtxns _ =>
      match args with
      | SKnown o _ _ _ :: _ => res_is_int (is_int_push_ins intcs o)
      | _ => false end
  | _ => false
  end.

(* the class tuples of the Python text are the model's case analysis *)
Lemma model_test_split intcs e :
  model_test intcs e = g1 (e_op e) || (g2 (e_op e) && idx_is_int intcs (e_args e)).
Proof. destruct e as [[k op] args]. destruct op; reflexivity. Qed.

Lemma existsb_split {A} (p q : A -> bool) (l : list A) :
  existsb (fun e => p e || q e) l = existsb p l || existsb q l.
Proof.
  induction l as [|x t IH]; cbn [existsb]; [reflexivity|]. rewrite IH.
  destruct (p x), (q x), (existsb p t), (existsb q t); reflexivity.
Qed.
Lemma existsb_filter {A} (p q : A -> bool) (l : list A) :
  existsb (fun e => p e && q e) l = existsb q (filter p l).
Proof.
  induction l as [|x t IH]; cbn [existsb filter]; [reflexivity|]. rewrite IH.
  destruct (p x); cbn [existsb andb]; reflexivity.
Qed.
Lemma existsb_ext' {A} (p q : A -> bool) (l : list A) : (forall x, p x = q x) -> existsb p l = existsb q l.
Proof. intros H. induction l as [|x t IH]; cbn [existsb]; [reflexivity|]. rewrite H, IH. reflexivity. Qed.

Section Accessed.
  Variable f : func.
  Let p := fn_prog f.
  Let intcs := fn_intcs f.

  (* ---- phase 1: the scan of bb.instructions (the body of the first generated fold) *)
  Definition step1 (acc : py (option bool * list nat)) (ins : nat) : py (option bool * list nat) :=
    bind acc (fun st =>
      let stack_gtxns_ins := snd st in
      match fst st with
      | Some _ => ret st
      | None =>
          ifE (ins_isinstance f ins (fun i => orb (isa_Gtxn i) (orb (isa_Gtxna i) (isa_Gtxnas i))))
              (ret (Some true, stack_gtxns_ins))
          (ifE (ins_isinstance f ins (fun i => orb (isa_Gtxns i) (orb (isa_Gtxnsa i) (isa_Gtxnsas i))))
               (let stack_gtxns_ins := stack_gtxns_ins ++ [ins] in ret (@None bool, stack_gtxns_ins))
               (ret (@None bool, stack_gtxns_ins)))
      end).

  Lemma step1_stuck l : forall v acc, fold_left step1 l (Some (Some v, acc)) = Some (Some v, acc).
  Proof. induction l as [|k t IH]; intros v acc; cbn [fold_left]; [reflexivity|]. exact (IH v acc). Qed.

  Lemma phase1 : forall (ast : list entry) acc,
    (forall e, In e ast -> op_at p (pos_of e) = Some (e_op e)) ->
    exists l, fold_left step1 (map pos_of ast) (Some (None, acc)) =
              Some ((if existsb (fun e => g1 (e_op e)) ast then Some true else None), l) /\
              (existsb (fun e => g1 (e_op e)) ast = false -> l = acc ++ map pos_of (filter (fun e => g2 (e_op e)) ast)).
  Proof.
    induction ast as [|e t IH]; intros acc Hops; cbn [map fold_left existsb filter].
    - exists acc. split; [reflexivity|]. intros _. rewrite app_nil_r. reflexivity.
    - assert (Hop : op_at p (pos_of e) = Some (e_op e)) by (apply Hops; left; reflexivity).
      assert (Ht : forall e', In e' t -> op_at p (pos_of e') = Some (e_op e')) by (intros e' H; apply Hops; right; exact H).
      unfold step1 at 2. cbn [bind fst snd]. unfold ins_isinstance. fold p. rewrite Hop. cbn [bind ret ifE].
      fold (g1 (e_op e)). fold (g2 (e_op e)).
      destruct (g1 (e_op e)) eqn:E1; cbn [orb].
      + rewrite step1_stuck. exists acc. split; [reflexivity | discriminate].
      + destruct (g2 (e_op e)) eqn:E2.
        * destruct (IH (acc ++ [pos_of e]) Ht) as [l [Hl Hl2]]. exists l. split; [exact Hl|].
          intros Hex. rewrite (Hl2 Hex). cbn [map]. rewrite <- app_assoc. reflexivity.
        * destruct (IH acc Ht) as [l [Hl Hl2]]. exists l. split; [exact Hl | exact Hl2].
  Qed.

  (* ---- phase 2: the stack-indexed instructions (the body of the second generated fold) *)
  Definition step2 (ast_values : ast_dict) (acc : py (option bool)) (ins : nat) : py (option bool) :=
    bind acc (fun st =>
      match st with
      | Some _ => ret st
      | None =>
          bind (bind (bind (ast_dict_get ast_values ins) (fun tmp3 => attr_args tmp3)) (fun tmp4 => subscript tmp4 0)) (fun index_value =>
            if isinstance_UnknownStackValue index_value then ret (@None bool)
            else bind (bind (bind (attr_instruction index_value) (fun tmp5 => ret (call_is_int_push_ins f tmp5))) (fun tmp6 => ret (intres_pushes tmp6))) (fun is_int =>
                   if is_int then ret (Some true) else ret (@None bool)))
      end).

  Lemma step2_stuck d l : forall v, fold_left (step2 d) l (Some (Some v)) = Some (Some v).
  Proof. induction l as [|k t IH]; intros v; cbn [fold_left]; [reflexivity|]. exact (IH v). Qed.

  Lemma dict_lookup : forall (ast : list entry) e,
    NoDup (map pos_of ast) -> In e ast ->
    ast_dict_get (map entry_of ast) (pos_of e) = Some (SKnown (e_op e) (pos_of e) (e_args e) 0).
  Proof.
    induction ast as [|x t IH]; intros e Hnd Hin; [destruct Hin|].
    cbn [map] in Hnd. inversion Hnd as [|? ? Hx Ht]; subst.
    destruct x as [[k op] args]. cbn [map entry_of ast_dict_get].
    destruct Hin as [<-|Hin].
    - cbn [pos_of]. rewrite Nat.eqb_refl. reflexivity.
    - destruct (Nat.eqb k (pos_of e)) eqn:E.
      + apply Nat.eqb_eq in E. exfalso. apply Hx. cbn [pos_of] in *. rewrite E. apply in_map. exact Hin.
      + apply IH; assumption.
  Qed.

  Lemma phase2 (ast : list entry) : NoDup (map pos_of ast) -> forall es,
    (forall e, In e es -> In e ast /\ e_args e <> []) ->
    fold_left (step2 (map entry_of ast)) (map pos_of es) (Some None) =
    Some (if existsb (fun e => idx_is_int intcs (e_args e)) es then Some true else None).
  Proof.
    intros Hnd. induction es as [|e t IH]; intros Hes; cbn [map fold_left existsb]; [reflexivity|].
    destruct (Hes e (or_introl eq_refl)) as [Hin Hargs].
    unfold step2 at 2. cbn [bind]. rewrite (dict_lookup ast e Hnd Hin). cbn [bind attr_args].
    destruct (e_args e) as [|a0 rest] eqn:Ea; [contradiction|].
    cbn [subscript nth_error bind idx_is_int].
    destruct a0 as [|o ps a j]; cbn [isinstance_UnknownStackValue attr_instruction bind ret orb].
    - apply IH. intros e' H. apply Hes. right. exact H.
    - unfold call_is_int_push_ins. fold intcs.
      change (intres_pushes (is_int_push_ins intcs o)) with (res_is_int (is_int_push_ins intcs o)).
      destruct (res_is_int (is_int_push_ins intcs o)); cbn [orb].
      + apply step2_stuck.
      + apply IH. intros e' H. apply Hes. right. exact H.
  Qed.

  (* `.args[0]` never raises: the three stack-indexed classes pop at least one value *)
  Lemma g2_args_nonempty (ast : list entry) poss :
    emulate p poss [] = Some ast -> forall e, In e ast -> g2 (e_op e) = true -> e_args e <> [].
  Proof.
    intros Hem [[k op] args] Hin Hg. cbn [e_op e_args fst snd] in *.
    pose proof (emulate_args_length p poss ast Hem k op args Hin) as Hlen.
    intros ->. cbn [length] in Hlen. unfold g2 in Hg.
    destruct op; try discriminate Hg.
    - vm_compute in Hlen. discriminate.
    - cbn [isa_Gtxns isa_Gtxnsa isa_Gtxnsas orb] in Hg.
      destruct (cls =? "Gtxnsa") eqn:E1.
      { apply String.eqb_eq in E1. subst cls. vm_compute in Hlen. discriminate. }
      destruct (cls =? "Gtxnsas") eqn:E2; [|discriminate].
      apply String.eqb_eq in E2. subst cls. vm_compute in Hlen. discriminate.
  Qed.

  (* ---- the whole method *)
  Theorem accessed_using_absolute_index_gen_eq n b ast :
    fblock f n = Some b -> construct_stack_ast p b = Some ast -> NoDup (b_ins b) ->
    group_size_check_accessed_using_absolute_index_gen f n = Some (accessed_using_absolute_index f n).
  Proof.
    intros Hb Hast Hnd. unfold construct_stack_ast in Hast.
    pose proof (emulate_positions p _ _ _ Hast) as Hpos.
    assert (Hops : forall e, In e ast -> op_at p (pos_of e) = Some (e_op e)).
    { intros [[k op] args] Hin. exact (emulate_ops p _ _ _ Hast k op args Hin). }
    assert (Hmodel : accessed_using_absolute_index f n =
                     existsb (fun e => g1 (e_op e)) ast || existsb (fun e => idx_is_int intcs (e_args e)) (filter (fun e => g2 (e_op e)) ast)).
    { unfold accessed_using_absolute_index. rewrite Hb. fold p. rewrite Hast. fold intcs.
      change (existsb (model_test intcs) ast = existsb (fun e => g1 (e_op e)) ast || existsb (fun e => idx_is_int intcs (e_args e)) (filter (fun e => g2 (e_op e)) ast)).
      rewrite <- existsb_filter, <- existsb_split. apply existsb_ext'. intros e. apply model_test_split. }
    rewrite Hmodel.
    unfold group_size_check_accessed_using_absolute_index_gen, bb_instructions. rewrite Hb. cbn [bind ret].
    match goal with |- context [fold_left ?F (b_ins b) _] => change F with step1 end.
    rewrite <- Hpos. destruct (phase1 ast [] Hops) as [l [Hl Hl2]].
    change (fold_left step1 (map pos_of ast) (ret (None, []))) with (fold_left step1 (map pos_of ast) (Some (None, []))).
    rewrite Hl. cbn [bind fst snd].
    destruct (existsb (fun e => g1 (e_op e)) ast) eqn:E1; [reflexivity|].
    rewrite (Hl2 eq_refl). cbn [app orb].
    destruct (filter (fun e => g2 (e_op e)) ast) as [|e0 es0] eqn:Ef; [reflexivity|].
    cbn [map list_is_empty]. unfold call_construct_stack_ast. rewrite Hb. cbn [bind].
    rewrite (construct_stack_ast_gen_nodup (fn_prog f) b Hnd). unfold construct_stack_ast. fold p. rewrite Hast. cbn [option_map bind].
    match goal with |- context [fold_left ?F _ (ret None)] => change F with (step2 (map entry_of ast)) end.
    change (pos_of e0 :: map pos_of es0) with (map pos_of (e0 :: es0)).
    rewrite phase2.
    - destruct (existsb _ (e0 :: es0)); reflexivity.
    - rewrite Hpos. exact Hnd.
    - intros e He. rewrite <- Ef in He. apply filter_In in He. destruct He as [Hin Hg].
      split; [exact Hin | exact (g2_args_nonempty ast _ Hast e Hin Hg)].
  Qed.

  (* the block exists, its stack emulation succeeds (part of TotalSolver.defined_okb) and it lists each instruction once *)
  Definition block_emulable (n : nat) : Prop :=
    exists b ast, fblock f n = Some b /\ construct_stack_ast p b = Some ast /\ NoDup (b_ins b).

  Corollary accessed_gen_emulable n :
    block_emulable n -> group_size_check_accessed_using_absolute_index_gen f n = Some (accessed_using_absolute_index f n).
  Proof. intros (b & ast & Hb & Hast & Hnd). exact (accessed_using_absolute_index_gen_eq n b ast Hb Hast Hnd). Qed.

  (* satisfies_report_condition *)
  Definition step3 (acc : py (option bool)) (block : nat) : py (option bool) :=
    bind acc (fun st =>
      match st with
      | Some _ => ret st
      | None => ifE (group_size_check_accessed_using_absolute_index_gen f block) (ret (Some true)) (ret (@None bool))
      end).
  Lemma step3_stuck l : forall v, fold_left step3 l (Some (Some v)) = Some (Some v).
  Proof. induction l as [|k t IH]; intros v; cbn [fold_left]; [reflexivity|]. exact (IH v). Qed.

  Theorem satisfies_report_condition_gen_eq path :
    Forall block_emulable path ->
    group_size_check_satisfies_report_condition_gen f path = Some (existsb (accessed_using_absolute_index f) path).
  Proof.
    intros Hp. unfold group_size_check_satisfies_report_condition_gen.
    match goal with |- context [fold_left ?F path _] => change F with step3 end.
    assert (H : fold_left step3 path (Some None) = Some (if existsb (accessed_using_absolute_index f) path then Some true else None)).
    { induction Hp as [|n t Hn Ht IH]; cbn [fold_left existsb]; [reflexivity|].
      unfold step3 at 2. cbn [bind]. rewrite (accessed_gen_emulable n Hn). cbn [ifE ret].
      destruct (accessed_using_absolute_index f n); cbn [orb]; [apply step3_stuck | exact IH]. }
    change (ret (@None bool)) with (Some (@None bool)). rewrite H. cbn [bind].
    destruct (existsb (accessed_using_absolute_index f) path); reflexivity.
  Qed.
End Accessed.

(* Without the emulation hypothesis the two readings differ: the block lists a `gtxn` and then a dangling position.
   Python returns True from the first loop; the model's emulate fails on the dangling position and answers false.
   (Not reachable from a parsed program: every listed position exists.) *)
Definition f_dangling : func :=
  mkFunc [mkIns 1 (IGtxn 0 ("Fee", None))] [mkBlock 0 [0; 5] [] []] 0 [0] [] [] None.
Theorem accessed_gen_refuted :
  group_size_check_accessed_using_absolute_index_gen f_dangling 0 = Some true /\
  accessed_using_absolute_index f_dangling 0 = false.
Proof. split; vm_compute; reflexivity. Qed.

(* ====================================================================== *)
(* 4. detect() on one function = Detect.run_detector                        *)
(* ====================================================================== *)
Lemma fold_left_ext2 {A B} (F1 F2 : A -> B -> A) : (forall a x, F1 a x = F2 a x) -> forall l a, fold_left F1 l a = fold_left F2 l a.
Proof. intros H l. induction l as [|x t IH]; intros a; cbn [fold_left]; [reflexivity|]. rewrite H. apply IH. Qed.

(* the search only applies its two parameters: `validated` to blocks, `report` to paths of existing blocks *)
Lemma search_ext f v1 v2 r1 r2 :
  (forall b, v1 b = v2 b) ->
  (forall p, Forall (fun n => fblock f n <> None) p -> r1 p = r2 p) ->
  forall fuel bb path st ex, Forall (fun n => fblock f n <> None) path ->
  search f v1 r1 fuel bb path st ex = search f v2 r2 fuel bb path st ex.
Proof.
  intros Hv Hr. induction fuel as [|fu IH]; intros bb path st ex Hpath; [reflexivity|].
  cbn [search]. rewrite Hv.
  destruct (nat_mem bb (last ex [])); [reflexivity|].
  destruct (v2 bb); [reflexivity|].
  destruct (fblock f bb) as [b|] eqn:Hb; [|reflexivity].
  assert (Hpath' : Forall (fun n => fblock f n <> None) (path ++ [bb])).
  { apply Forall_app. split; [exact Hpath|]. constructor; [rewrite Hb; discriminate | constructor]. }
  rewrite (Hr _ Hpath').
  destruct (leaf_global f b); [reflexivity|].
  assert (Hfold : forall nx, fold_left (fun acc nb => match acc with
            | Done ps => match search f v1 r1 fu nb (path ++ [bb]) st (but_last_l ex ++ [last ex [] ++ [bb]]) with
                         | Done qs => Done (ps ++ qs) | Exn e => Exn e | OutOfFuel => OutOfFuel end
            | x => x end) nx (Done []) =
          fold_left (fun acc nb => match acc with
            | Done ps => match search f v2 r2 fu nb (path ++ [bb]) st (but_last_l ex ++ [last ex [] ++ [bb]]) with
                         | Done qs => Done (ps ++ qs) | Exn e => Exn e | OutOfFuel => OutOfFuel end
            | x => x end) nx (Done [])).
  { intros nx. apply fold_left_ext2. intros a x. destruct a; [rewrite (IH _ _ _ _ Hpath'); reflexivity | reflexivity | reflexivity]. }
  destruct (fexit_op f b) as [i|]; [destruct i|]; try (destruct (next_global f b); [apply Hfold | reflexivity]).
  - destruct (existsb _ st); [reflexivity|]. destruct (f_find_sub f l); [apply IH; exact Hpath' | reflexivity].
  - destruct (last st (None, "")) as [[cs|] nm]; [|reflexivity].
    destruct (fblock f cs) as [cb|]; [|reflexivity].
    destruct (sub_return_point cb); [apply IH; exact Hpath' | reflexivity].
Qed.

Lemma detect_paths_ext f v1 v2 r1 r2 fuel :
  (forall b, v1 b = v2 b) -> (forall p, Forall (fun n => fblock f n <> None) p -> r1 p = r2 p) ->
  detect_paths f v1 r1 fuel = detect_paths f v2 r2 fuel.
Proof. intros Hv Hr. unfold detect_paths. apply search_ext; [exact Hv | exact Hr | constructor]. Qed.

Lemma forallb_ext' {A} (g h : A -> bool) (l : list A) : (forall x, g x = h x) -> forallb g l = forallb h l.
Proof. intros H. induction l as [|x t IH]; cbn [forallb]; [reflexivity|]. rewrite H, IH. reflexivity. Qed.

Lemma validated_in_block_ext r c1 c2 ai b : (forall x, c1 x = c2 x) -> validated_in_block r c1 ai b = validated_in_block r c2 ai b.
Proof.
  intros H. unfold validated_in_block. rewrite H. destruct (c2 (ctx_of r b KSelf)); [reflexivity|].
  destruct ai as [i|]; [apply H|]. apply forallb_ext'. intros i. apply H.
Qed.

(* run_detector depends on the predicate only through its values *)
Theorem run_detector_ext f r fuel name c1 c2 :
  (forall x, c1 x = c2 x) -> run_detector f r fuel name c1 = run_detector f r fuel name c2.
Proof.
  intros H. unfold run_detector. apply detect_paths_ext; [|reflexivity].
  intros b. apply validated_in_block_ext. exact H.
Qed.

(* every generated table entry can replace the model's entry of the same name in run_detector *)
Theorem run_detector_generated_predicate f r fuel n g m :
  In (n, g) detectors_gen -> In (n, m) Detect.detectors -> run_detector f r fuel n g = run_detector f r fuel n m.
Proof. intros Hg Hm. apply run_detector_ext. exact (detectors_gen_pointwise n g m Hg Hm). Qed.

(* `self.tealer` for ONE function f analysed as r: the path driver is the regenerated single-function search of
   Gen/SearchGen.v (budget fuel) cut by the model's validated_in_block; the one contract is tt; no group mode.
   (The closures are used through their total versions: they never raise -- checks_field_genE_total,
   satisfies_report_condition_gen_eq.) *)
Definition total_report (rep : func -> list nat -> py bool) (f : func) (p : list nat) : bool :=
  match rep f p with Some b => b | None => false end.
Definition single_function_tealer (f : func) (r : fn_result) (fuel : nat) : tealer_obj unit unit :=
  mkTealer unit unit false
    (fun checks report =>
       bind (detect_missing_tx_field_validations_gen f (validated_in_block r (total_checks checks) None) (total_report report f) fuel)
            (fun ps => ret [(tt, ps)]))
    (fun _ _ _ _ => None).

Definition blocks_emulable (f : func) : Prop := forall n, fblock f n <> None -> block_emulable f n.

(* defined_okb already contains the emulation of every block *)
Lemma blocks_emulable_of_defined f :
  defined_okb f = true -> (forall b, In b (fn_blocks f) -> NoDup (b_ins b)) -> blocks_emulable f.
Proof.
  intros Hdef Hnd n Hn. destruct (fblock f n) as [b|] eqn:Hb; [|contradiction].
  pose proof (fblock_In f n b Hb) as Hin. destruct (def_emulate f Hdef b Hin) as [ast Hast].
  exists b, ast. split; [exact Hb|]. split; [exact Hast | exact (Hnd b Hin)].
Qed.

Lemma single_paths_mode f r fuel n (g : bctx -> py bool) (m : bctx -> bool) :
  defined_okb f = true ->
  (forall c, g c = Some (m c)) ->
  (n = "group-size-check" -> blocks_emulable f) ->
  paths_mode (single_function_tealer f r fuel) n g (report_of n) =
  option_map (fun ps => [@ExecutionPaths unit unit tt n ps]) (lift [] (run_detector f r fuel n m)).
Proof.
  intros Hdef Hg Hem. unfold paths_mode, single_function_tealer.
  cbn [call_detect_missing_tx_field_validations_group].
  rewrite (detect_gen_eq_defined f _ _ fuel Hdef).
  assert (E : detect_paths f (validated_in_block r (total_checks g) None) (total_report (report_of n) f) fuel = run_detector f r fuel n m).
  { unfold run_detector. apply detect_paths_ext.
    - intros b. apply validated_in_block_ext. exact (total_checks_of g m Hg).
    - intros p Hp. unfold total_report, report_of. destruct (n =? "group-size-check") eqn:En.
      + apply String.eqb_eq in En. rewrite satisfies_report_condition_gen_eq; [reflexivity|].
        apply Forall_forall. intros k Hk. apply (Hem En). exact (proj1 (Forall_forall _ p) Hp k Hk).
      + reflexivity. }
  rewrite E. destruct (run_detector f r fuel n m); reflexivity.
Qed.

Theorem detect_gen_single_function f r fuel n d m :
  defined_okb f = true -> (n = "group-size-check" -> blocks_emulable f) ->
  In (n, d) detector_calls_gen -> In (n, m) Detect.detectors ->
  d (single_function_tealer f r fuel) = option_map (fun ps => [ExecutionPaths tt n ps]) (lift [] (run_detector f r fuel n m)).
Proof.
  intros Hdef Hem Hd Hm.
  destruct (detect_gen_paths_mode (single_function_tealer f r fuel) n d Hd (or_introl eq_refl)) as [g [Hg ->]].
  apply single_paths_mode; [exact Hdef | | exact Hem].
  (* the closure of that name in detectors_genE is the model's predicate of that name *)
  unfold detectors_genE in Hg. unfold Detect.detectors in Hm. cbn [In] in Hg, Hm.
  repeat (destruct Hg as [Hg|Hg]; [injection Hg as <- <- |]); try contradiction;
    (repeat (destruct Hm as [Hm|Hm]; [first [discriminate Hm | injection Hm as <-] |]); try contradiction);
    first [ exact rekey_to_checks_field_genE_eq | exact can_close_account_checks_field_genE_eq | exact can_close_asset_checks_field_genE_eq
          | exact missing_fee_check_checks_field_genE_eq | exact is_updatable_checks_field_genE_eq | exact is_deletable_checks_field_genE_eq
          | exact unprotected_updatable_checks_field_genE_eq | exact unprotected_deletable_checks_field_genE_eq
          | exact group_size_check_checks_field_genE_eq ].
Qed.

(* the same with the hypotheses of the tool's well-formedness check only *)
Corollary detect_gen_single_function_defined f r fuel n d m :
  defined_okb f = true -> (forall b, In b (fn_blocks f) -> NoDup (b_ins b)) ->
  In (n, d) detector_calls_gen -> In (n, m) Detect.detectors ->
  d (single_function_tealer f r fuel) = option_map (fun ps => [ExecutionPaths tt n ps]) (lift [] (run_detector f r fuel n m)).
Proof.
  intros Hdef Hnd. apply detect_gen_single_function; [exact Hdef|]. intros _. exact (blocks_emulable_of_defined f Hdef Hnd).
Qed.

(* ====================================================================== *)
(* 5. Transported theorems                                                  *)
(* ====================================================================== *)
(* NoMiss.no_miss_generic for an entry g of the GENERATED table: a concrete approving execution on which the model's
   predicate m of the same name is false in the own and in the at-own-index context of every block of the run is
   reported by the detector run with the generated predicate *)
Theorem no_miss_generic_generated e sem f fuel fuel' res cfgs name g m ps :
  In (name, g) detectors_gen -> In (name, m) Detect.detectors -> name <> "group-size-check" ->
  sem_ok e sem -> env_ok e -> fn_intcs f = e_intcs e -> graph_ok f ->
  int_leaves_ok f true -> int_leaves_ok f false ->
  run_all f fuel = Done res -> Accepts e sem f cfgs -> nonrecursive f cfgs ->
  (forall b st, In (b, st) cfgs -> m (ctx_of res b KSelf) = false) ->
  (forall b st, In (b, st) cfgs -> m (ctx_of res b (KAtIndex (e_own e))) = false) ->
  run_detector f res fuel' name g = Done ps -> ps <> [].
Proof.
  intros Hgen Hmod Hname Hsem Hok Hi Hg Ht Hf Hrun Hacc Hnr Hself Hat Hdet.
  rewrite (run_detector_generated_predicate f res fuel' name g m Hgen Hmod) in Hdet.
  refine (no_miss_generic e sem f fuel fuel' res cfgs name m ps Hsem Hok Hi Hg Ht Hf Hrun Hacc Hnr _ Hself Hat Hdet).
  destruct (name =? "group-size-check") eqn:E; [|reflexivity]. apply String.eqb_eq in E. contradiction.
Qed.

(* C01, missing-fee-check, END TO END with the generated name and predicate: Fee > MAX_TRANSACTION_COST is reported *)
Theorem C01_fee_no_miss_generated e sem f fuel fuel' res cfgs ps fee :
  sem_ok e sem -> env_ok e -> fn_intcs f = e_intcs e -> graph_ok f ->
  fee_leaves_ok f KSelf -> fee_leaves_ok f (KAtIndex (e_own e)) ->
  int_leaves_ok f true -> int_leaves_ok f false ->
  run_all f fuel = Done res -> Accepts e sem f cfgs -> nonrecursive f cfgs ->
  e_field e (e_own e) "Fee" = VInt fee -> (MAX_TRANSACTION_COSTz < fee <= MAX_UINT64z)%Z ->
  run_detector f res fuel' missing_fee_check_NAME missing_fee_check_checks_field_gen = Done ps -> ps <> [].
Proof.
  intros Hsem Hok Hi Hg Hls Hla Ht Hf Hrun Hacc Hnr Hfee Hr Hdet.
  rewrite (run_detector_ext f res fuel' missing_fee_check_NAME missing_fee_check_checks_field_gen checks_missing_fee_check
             (total_checks_of _ _ missing_fee_check_checks_field_genE_eq)) in Hdet.
  exact (C01_fee_no_miss e sem f fuel fuel' res cfgs ps fee Hsem Hok Hi Hg Hls Hla Ht Hf Hrun Hacc Hnr Hfee Hr Hdet).
Qed.

(* ... and through the generated detect(): whatever MissingFeeCheck.detect() returns on that function is one
   ExecutionPaths object of the detector with at least one path *)
Theorem C01_fee_no_miss_detect_gen e sem f fuel fuel' res cfgs out fee :
  defined_okb f = true ->
  sem_ok e sem -> env_ok e -> fn_intcs f = e_intcs e -> graph_ok f ->
  fee_leaves_ok f KSelf -> fee_leaves_ok f (KAtIndex (e_own e)) ->
  int_leaves_ok f true -> int_leaves_ok f false ->
  run_all f fuel = Done res -> Accepts e sem f cfgs -> nonrecursive f cfgs ->
  e_field e (e_own e) "Fee" = VInt fee -> (MAX_TRANSACTION_COSTz < fee <= MAX_UINT64z)%Z ->
  missing_fee_check_detect_gen (single_function_tealer f res fuel') = Some out ->
  exists ps, out = [ExecutionPaths tt "missing-fee-check" ps] /\ ps <> [].
Proof.
  intros Hdef Hsem Hok Hi Hg Hls Hla Ht Hf Hrun Hacc Hnr Hfee Hr Hout.
  rewrite (detect_gen_single_function f res fuel' "missing-fee-check" missing_fee_check_detect_gen checks_missing_fee_check Hdef) in Hout.
  - destruct (run_detector f res fuel' "missing-fee-check" checks_missing_fee_check) as [ps| |] eqn:E; try discriminate Hout.
    cbn [lift option_map app] in Hout. injection Hout as <-. exists ps. split; [reflexivity|].
    exact (C01_fee_no_miss e sem f fuel fuel' res cfgs ps fee Hsem Hok Hi Hg Hls Hla Ht Hf Hrun Hacc Hnr Hfee Hr E).
  - discriminate.
  - unfold detector_calls_gen. cbn [In]. tauto.
  - unfold Detect.detectors. cbn [In]. tauto.
Qed.

Print Assumptions detectors_genE_eq.
Print Assumptions detectors_gen_eq.
Print Assumptions detectors_gen_pointwise.
Print Assumptions checks_field_genE_total.
Print Assumptions registration_is_permutation.
Print Assumptions model_order_is_not_registration_order.
Print Assumptions group_size_check_detect_gen_spec.
Print Assumptions detect_gen_paths_mode.
Print Assumptions detect_gen_group_mode_table.
Print Assumptions accessed_using_absolute_index_gen_eq.
Print Assumptions satisfies_report_condition_gen_eq.
Print Assumptions accessed_gen_refuted.
Print Assumptions run_detector_ext.
Print Assumptions run_detector_generated_predicate.
Print Assumptions detect_gen_single_function.
Print Assumptions detect_gen_single_function_defined.
Print Assumptions no_miss_generic_generated.
Print Assumptions C01_fee_no_miss_generated.
Print Assumptions C01_fee_no_miss_detect_gen.
