(* C05: subroutine, call-site and return-point structure computed by parse_teal is faithful.
   - dfs_reach: identify_subroutine_blocks = b_next-reachability, without duplicates
   - facts about the teal record produced by parse_teal (subroutines, retained blocks, callers, return points) *)
From Coq Require Import String List NArith ZArith Bool Ascii Arith Lia Sorted.
From Tealer Require Import Tables Syntax Parse Cfg CfgLemmas.
Import ListNotations.
Close Scope string_scope.
Open Scope nat_scope.
Open Scope list_scope.

(* ================================================================== reachability over b_next *)
Inductive Reach (bs : list block) (e : nat) : nat -> Prop :=
| Reach_refl : Reach bs e e
| Reach_step x y : Reach bs e x -> In y (next_of bs x) -> Reach bs e y.

Lemma Reach_trans bs a b c : Reach bs a b -> Reach bs b c -> Reach bs a c.
Proof. intros H1 H2. induction H2; [assumption | econstructor; eauto]. Qed.

Lemma Reach_one bs a b : In b (next_of bs a) -> Reach bs a b.
Proof. intros H. econstructor; [constructor | exact H]. Qed.

Lemma Reach_lt bs N e x :
  (forall a b, In b (next_of bs a) -> b < N) -> e < N -> Reach bs e x -> x < N.
Proof. intros Hr He H. induction H; eauto. Qed.

(* ================================================================== list helpers *)
Lemma last_In {A} (l : list A) d : l <> [] -> In (last l d) l.
Proof.
  intros H. destruct (exists_last H) as (l' & a & ->). rewrite last_last.
  apply in_or_app. right. left. reflexivity.
Qed.

Lemma NoDup_snoc {A} (l : list A) x : NoDup l -> ~ In x l -> NoDup (l ++ [x]).
Proof.
  intros H Hn. rewrite <- (rev_involutive (l ++ [x])). apply NoDup_rev.
  rewrite rev_app_distr. simpl. constructor; [rewrite <- in_rev; assumption | apply NoDup_rev; assumption].
Qed.

Lemma NoDup_snoc_inv {A} (l : list A) x : NoDup (l ++ [x]) -> NoDup l /\ ~ In x l.
Proof.
  intros H. apply NoDup_rev in H. rewrite rev_app_distr in H. simpl in H.
  apply NoDup_cons_iff in H. destruct H as [H1 H2]. split.
  - rewrite <- (rev_involutive l). apply NoDup_rev. assumption.
  - rewrite in_rev. assumption.
Qed.

Lemma NoDup_bounded_length (l : list nat) N : NoDup l -> (forall x, In x l -> x < N) -> length l <= N.
Proof.
  intros Hnd Hb. rewrite <- (seq_length N 0). apply NoDup_incl_length; [assumption|].
  intros x Hx. apply in_seq. specialize (Hb x Hx). lia.
Qed.

(* ================================================================== 1. the LIFO DFS *)
Definition push_new (v : list nat) (stk : list nat) (nb : nat) : list nat :=
  if (nat_mem nb v || nat_mem nb stk)%bool then stk else stk ++ [nb].

Lemma push_fold_In v : forall l stk x,
  In x (fold_left (push_new v) l stk) <-> In x stk \/ (In x l /\ ~ In x v).
Proof.
  induction l as [|a l IH]; intros stk x; simpl.
  - tauto.
  - rewrite IH. unfold push_new.
    destruct (nat_mem a v) eqn:Ev; simpl.
    + apply nat_mem_In in Ev. split; [tauto|]. intros [H|[[<-|H] Hn]]; tauto.
    + assert (Hv : ~ In a v) by (intro H; apply nat_mem_In in H; congruence).
      destruct (nat_mem a stk) eqn:Es.
      * apply nat_mem_In in Es. split; [tauto|]. intros [H|[[<-|H] Hn]]; tauto.
      * rewrite in_app_iff. simpl. split.
        -- intros [[H|[<-|[]]]|H]; tauto.
        -- intros [H|[[<-|H] Hn]]; tauto.
Qed.

Lemma push_fold_NoDup v : forall l stk, NoDup stk -> NoDup (fold_left (push_new v) l stk).
Proof.
  induction l as [|a l IH]; intros stk H; simpl; [assumption|].
  apply IH. unfold push_new. destruct (nat_mem a v); simpl; [assumption|].
  destruct (nat_mem a stk) eqn:Es; [assumption|].
  apply NoDup_snoc; [assumption|]. intro Hin. apply nat_mem_In in Hin. congruence.
Qed.

Lemma dfs_step f bs s1 bb visited :
  dfs_blocks (S f) bs (s1 ++ [bb]) visited =
  dfs_blocks f bs (fold_left (push_new (visited ++ [bb])) (next_of bs bb) s1) (visited ++ [bb]).
Proof.
  cbn [dfs_blocks]. destruct (s1 ++ [bb]) eqn:E; [destruct s1; discriminate|].
  rewrite <- E. rewrite last_last, removelast_last. reflexivity.
Qed.

Lemma dfs_nil f bs visited : dfs_blocks f bs [] visited = visited.
Proof. destruct f; reflexivity. Qed.

Record dinv (bs : list block) (e : nat) (stack visited : list nat) : Prop := {
  d_ndv : NoDup visited;
  d_nds : NoDup stack;
  d_disj : forall x, In x stack -> ~ In x visited;
  d_reach : forall x, In x visited \/ In x stack -> Reach bs e x;
  d_closed : forall x y, In x visited -> In y (next_of bs x) -> In y visited \/ In y stack;
  d_entry : In e visited \/ In e stack }.

Lemma dinv_step bs e s1 bb visited :
  dinv bs e (s1 ++ [bb]) visited ->
  dinv bs e (fold_left (push_new (visited ++ [bb])) (next_of bs bb) s1) (visited ++ [bb]).
Proof.
  intros [Hv Hs Hd Hr Hc He].
  apply NoDup_snoc_inv in Hs. destruct Hs as [Hs1 Hbb].
  assert (Hbv : ~ In bb visited) by (apply Hd; apply in_or_app; right; left; reflexivity).
  constructor.
  - apply NoDup_snoc; assumption.
  - apply push_fold_NoDup; assumption.
  - intros x Hx. apply push_fold_In in Hx. destruct Hx as [Hx|[_ Hx]]; [|assumption].
    rewrite in_app_iff. simpl. intros [H|[<-|[]]]; [|contradiction].
    apply (Hd x); [apply in_or_app; left; assumption | assumption].
  - intros x Hx. rewrite push_fold_In, in_app_iff in Hx. simpl in Hx.
    destruct Hx as [[Hx|[<-|[]]]|[Hx|[Hx _]]].
    + apply Hr; left; assumption.
    + apply Hr; right; apply in_or_app; right; left; reflexivity.
    + apply Hr; right; apply in_or_app; left; assumption.
    + econstructor; [|exact Hx]. apply Hr; right; apply in_or_app; right; left; reflexivity.
  - intros x y Hx Hy. rewrite push_fold_In. rewrite in_app_iff in Hx. simpl in Hx.
    destruct Hx as [Hx|[<-|[]]].
    + destruct (Hc x y Hx Hy) as [H|H].
      * left. apply in_or_app. left; assumption.
      * apply in_app_iff in H. simpl in H. destruct H as [H|[<-|[]]].
        -- right. left. assumption.
        -- left. apply in_or_app. right. left. reflexivity.
    + destruct (in_dec Nat.eq_dec y (visited ++ [bb])) as [Hi|Hi]; [left; assumption|].
      right. right. split; assumption.
  - rewrite in_app_iff in He. simpl in He. rewrite in_app_iff. simpl.
    destruct He as [He|[He|[<-|[]]]]; [tauto| |tauto].
    right. apply push_fold_In. left. assumption.
Qed.

Lemma dfs_inv bs e :
  (forall a b, In b (next_of bs a) -> b < length bs) -> e < length bs ->
  forall fuel stack visited,
    dinv bs e stack visited -> length bs < fuel + length visited ->
    dinv bs e [] (dfs_blocks fuel bs stack visited).
Proof.
  intros Hrange He. induction fuel as [|f IH]; intros stack visited Hinv Hfuel.
  - exfalso. simpl in Hfuel.
    assert (length visited <= length bs); [|lia].
    apply NoDup_bounded_length; [apply (d_ndv _ _ _ _ Hinv)|].
    intros x Hx. eapply Reach_lt; eauto. apply (d_reach _ _ _ _ Hinv). left; assumption.
  - destruct stack as [|s0 stack'] eqn:Es.
    + exact Hinv.
    + assert (Hne : s0 :: stack' <> []) by discriminate.
      destruct (exists_last Hne) as (s1 & bb & E). rewrite E in *.
      rewrite dfs_step. apply IH.
      * apply dinv_step. assumption.
      * rewrite app_length. simpl. lia.
Qed.

(* reachability closure from a closed set containing the entry *)
Lemma closed_reach bs e (R : list nat) :
  In e R -> (forall x y, In x R -> In y (next_of bs x) -> In y R) ->
  forall x, Reach bs e x -> In x R.
Proof. intros He Hc x H. induction H; eauto. Qed.

(* generic form: only needs successors to stay inside the block list *)
Theorem dfs_reach_gen bs e :
  (forall a b, In b (next_of bs a) -> b < length bs) -> e < length bs ->
  (forall x, In x (identify_subroutine_blocks bs e) <-> Reach bs e x) /\
  NoDup (identify_subroutine_blocks bs e).
Proof.
  intros Hrange He. unfold identify_subroutine_blocks.
  assert (Hinv : dinv bs e [] (dfs_blocks (S (length bs)) bs [e] [])).
  { apply dfs_inv; try assumption; [|simpl; lia].
    constructor; simpl; try tauto.
    - constructor.
    - constructor; [intros [] | constructor].
    - intros x [[]|[<-|[]]]. constructor. }
  destruct Hinv as [Hv _ _ Hr Hc Hen]. split; [|assumption].
  intros x. split.
  - intros Hx. apply Hr. left; assumption.
  - apply closed_reach.
    + destruct Hen as [H|[]]; assumption.
    + intros a b Ha Hb. destruct (Hc a b Ha Hb) as [H|[]]; assumption.
Qed.

Lemma next_of_range p bs a b : build_blocks p = Some bs -> In b (next_of bs a) -> b < length bs.
Proof.
  intros H Hb. unfold next_of, get_block in Hb.
  destruct (nth_error bs a) as [blk|] eqn:E; [|destruct Hb].
  eapply next_in_range; eauto. eapply nth_error_In; eauto.
Qed.

Theorem dfs_reach p bs e :
  build_blocks p = Some bs -> e < length bs ->
  (forall x, In x (identify_subroutine_blocks bs e) <-> Reach bs e x) /\
  NoDup (identify_subroutine_blocks bs e).
Proof.
  intros H He. apply dfs_reach_gen; [|assumption].
  intros a b. apply (next_of_range p bs a b H).
Qed.

Print Assumptions dfs_reach.

(* ================================================================== 2. callsub_table *)
Definition ct_step (acc : list (string * list nat)) (l : string) (k : nat) : list (string * list nat) :=
  if existsb (fun '(n, _) => String.eqb n l) acc
  then map (fun '(n, ks) => if String.eqb n l then (n, ks ++ [k]) else (n, ks)) acc
  else acc ++ [(l, [k])].

Lemma callsub_table_cons i t k acc :
  callsub_table (i :: t) k acc =
  match i_op i with
  | ICallsub l => callsub_table t (S k) (ct_step acc l k)
  | _ => callsub_table t (S k) acc
  end.
Proof. reflexivity. Qed.

Lemma op_at_snoc pre i pos x :
  op_at (pre ++ [i]) pos = Some x <-> op_at pre pos = Some x \/ (pos = length pre /\ i_op i = x).
Proof.
  unfold op_at. destruct (Nat.lt_ge_cases pos (length pre)) as [Hlt|Hge].
  - rewrite nth_error_app1 by assumption. split; [tauto|]. intros [H|[H _]]; [assumption | lia].
  - rewrite nth_error_app2 by assumption.
    assert (Hn : nth_error pre pos = None) by (apply nth_error_None; assumption).
    rewrite Hn. simpl. destruct (pos - length pre) as [|d] eqn:Ed.
    + simpl. split.
      * intros H. inversion H. right. split; [lia | reflexivity].
      * intros [H|[_ H]]; [discriminate | congruence].
    + simpl. destruct d; simpl; split; try discriminate; intros [H|[H _]]; try discriminate; lia.
Qed.

(* invariant of the table after scanning the prefix pre *)
Record ctab_ok (pre : prog) (acc : list (string * list nat)) : Prop := {
  ct_nodup : NoDup (map fst acc);
  ct_names : forall n, In n (map fst acc) <-> exists j, op_at pre j = Some (ICallsub n);
  ct_pos : forall n ks pos, In (n, ks) acc -> (In pos ks <-> op_at pre pos = Some (ICallsub n)) }.

Lemma existsb_name_In (acc : list (string * list nat)) l :
  existsb (fun '(n, _) => String.eqb n l) acc = true <-> In l (map fst acc).
Proof.
  rewrite existsb_exists. split.
  - intros ([n ks] & Hin & He). apply String.eqb_eq in He. subst. apply in_map_iff. exists (l, ks). auto.
  - intros H. apply in_map_iff in H. destruct H as ([n ks] & E & Hin). simpl in E. subst.
    exists (l, ks). split; [assumption | apply String.eqb_refl].
Qed.

Lemma ctab_ok_other pre acc i :
  ctab_ok pre acc -> (forall l, i_op i <> ICallsub l) -> ctab_ok (pre ++ [i]) acc.
Proof.
  intros [Hnd Hn Hp] Hi. constructor.
  - assumption.
  - intros n. rewrite Hn. split.
    + intros (j & Hj). exists j. apply op_at_snoc. left; assumption.
    + intros (j & Hj). apply op_at_snoc in Hj. destruct Hj as [Hj|[_ Hj]]; [eauto|]. exfalso. eapply Hi; eauto.
  - intros n ks pos Hin. rewrite (Hp n ks pos Hin), op_at_snoc. split; [tauto|].
    intros [H|[_ H]]; [assumption|]. exfalso. eapply Hi; eauto.
Qed.

Lemma ctab_ok_callsub pre acc i l :
  ctab_ok pre acc -> i_op i = ICallsub l -> ctab_ok (pre ++ [i]) (ct_step acc l (length pre)).
Proof.
  intros [Hnd Hn Hp] Hi. unfold ct_step.
  destruct (existsb (fun '(n, _) => String.eqb n l) acc) eqn:Ex.
  - apply existsb_name_In in Ex.
    assert (Hfst : map fst (map (fun '(n, ks) => if String.eqb n l then (n, ks ++ [length pre]) else (n, ks)) acc)
                   = map fst acc).
    { rewrite map_map. apply map_ext. intros [n ks]. destruct (String.eqb n l); reflexivity. }
    constructor.
    + rewrite Hfst. assumption.
    + intros n. rewrite Hfst, Hn. split.
      * intros (j & Hj). exists j. apply op_at_snoc. left; assumption.
      * intros (j & Hj). apply op_at_snoc in Hj. destruct Hj as [Hj|[_ Hj]]; [eauto|].
        rewrite Hi in Hj. inversion Hj; subst n. apply Hn. assumption.
    + intros n ks pos Hin. apply in_map_iff in Hin. destruct Hin as ([n0 ks0] & E & Hin0).
      rewrite op_at_snoc, Hi. destruct (String.eqb n0 l) eqn:En.
      * apply String.eqb_eq in En. subst n0. inversion E; subst n ks.
        rewrite in_app_iff, (Hp l ks0 pos Hin0). simpl. split.
        -- intros [H|[H|[]]]; [tauto|]. right. split; [auto | reflexivity].
        -- intros [H|[H _]]; [tauto|]. right. left. auto.
      * apply String.eqb_neq in En. inversion E; subst n ks.
        rewrite (Hp n0 ks0 pos Hin0). split; [tauto|].
        intros [H|[_ H]]; [assumption|]. inversion H. congruence.
  - assert (Hl : ~ In l (map fst acc)).
    { intro H. apply existsb_name_In in H. congruence. }
    constructor.
    + rewrite map_app. simpl. apply NoDup_snoc; assumption.
    + intros n. rewrite map_app, in_app_iff, Hn. simpl. split.
      * intros [(j & Hj)|[<-|[]]].
        -- exists j. apply op_at_snoc. left; assumption.
        -- exists (length pre). apply op_at_snoc. right. split; [reflexivity | assumption].
      * intros (j & Hj). apply op_at_snoc in Hj. destruct Hj as [Hj|[_ Hj]]; [left; eauto|].
        rewrite Hi in Hj. inversion Hj. right. left. reflexivity.
    + intros n ks pos Hin. apply in_app_iff in Hin. rewrite op_at_snoc, Hi. destruct Hin as [Hin|[E|[]]].
      * rewrite (Hp n ks pos Hin). split; [tauto|].
        intros [H|[_ H]]; [assumption|]. inversion H; subst n. exfalso. apply Hl.
        apply in_map_iff. exists (l, ks). auto.
      * inversion E; subst n ks. simpl. split.
        -- intros [<-|[]]. right. auto.
        -- intros [H|[H _]]; [|left; auto]. exfalso. apply Hl. apply Hn. eauto.
Qed.

Lemma callsub_table_ok : forall rest pre acc,
  ctab_ok pre acc -> ctab_ok (pre ++ rest) (callsub_table rest (length pre) acc).
Proof.
  induction rest as [|i rest IH]; intros pre acc H.
  - simpl. rewrite app_nil_r. assumption.
  - rewrite callsub_table_cons.
    assert (El : S (length pre) = length (pre ++ [i])) by (rewrite app_length; simpl; lia).
    assert (Ea : pre ++ i :: rest = (pre ++ [i]) ++ rest) by (rewrite <- app_assoc; reflexivity).
    rewrite El, Ea.
    destruct (i_op i) eqn:Ei;
      try (apply IH; apply ctab_ok_other; [assumption | intros l0; rewrite Ei; discriminate]).
    apply IH. apply ctab_ok_callsub; assumption.
Qed.

Theorem callsub_table_spec p : ctab_ok p (callsub_table p 0 []).
Proof.
  apply (callsub_table_ok p [] []). constructor.
  - constructor.
  - intros n. simpl. split; [tauto|]. intros (j & Hj). destruct j; discriminate.
  - intros n ks pos [].
Qed.

(* ================================================================== 3. the shape of parse_teal's result *)
Definition sub_row : Type := (string * list nat * nat * list nat)%type.

Definition row_fn (p : prog) (bs : list block) : string * list nat -> option sub_row :=
  fun '(name, ks) =>
    match find_label p name with
    | None => None
    | Some lp => match bb_of_pos bs lp with
                 | None => None
                 | Some e => Some (name, ks, e, identify_subroutine_blocks bs e)
                 end
    end.

Definition reachable_of (bs : list block) (subs0 : list sub_row) : list nat :=
  flat_map (fun '(_, _, _, blks) => blks) subs0 ++ identify_subroutine_blocks bs 0.

Definition callers_of (bs : list block) (reachable ks : list nat) : list nat :=
  filter (fun b => nat_mem b reachable)
         (flat_map (fun k => match bb_of_pos bs k with Some b => [b] | None => [] end) ks).

Definition mk_sub (bs : list block) (reachable : list nat) : sub_row -> subroutine :=
  fun '(name, ks, e, blks) => mkSub name e blks (callers_of bs reachable ks).

Definition prune_block (retained : list nat) (b : block) : block :=
  mkBlock (b_idx b) (b_ins b) (b_next b) (filter (fun m => nat_mem m retained) (b_prev b)).

Definition prune (bs : list block) (retained : list nat) : list block :=
  map (prune_block retained) (filter (fun b => nat_mem (b_idx b) retained) bs).

Definition retained_of (bs : list block) (subs0 : list sub_row) : list nat :=
  dedup_sorted (reachable_of bs subs0) (length bs).

Lemma parse_teal_inv p t :
  parse_teal p = Ok t ->
  exists bs subs0,
    p <> [] /\ build_blocks p = Some bs /\
    map_opt (row_fn p bs) (callsub_table p 0 []) = Some subs0 /\
    t_prog t = p /\
    t_blocks t = prune bs (retained_of bs subs0) /\
    t_subs t = map (mk_sub bs (reachable_of bs subs0)) subs0 /\
    t_main t = mkSub "__main__"%string 0 (identify_subroutine_blocks bs 0) [].
Proof.
  unfold parse_teal. intros H. destruct p as [|i0 p']; [discriminate|].
  destruct (build_blocks (i0 :: p')) as [bs|] eqn:Eb; [|discriminate].
  match type of H with (match ?m with Some _ => _ | None => _ end) = _ => destruct m as [subs0|] eqn:Em end; [|discriminate].
  inversion H; subst t; clear H. exists bs, subs0.
  split; [discriminate|]. split; [reflexivity|]. split; [exact Em|].
  repeat split; reflexivity.
Qed.

(* ------------------------------------------------------------------ more list helpers *)
Lemma map_idx_seq {A} (f : A -> nat) : forall (l : list A) a,
  (forall n b, nth_error l n = Some b -> f b = a + n) -> map f l = seq a (length l).
Proof.
  induction l as [|x l IH]; intros a H; [reflexivity|]. simpl. f_equal.
  - rewrite (H 0 x eq_refl). lia.
  - apply IH. intros n b Hn. rewrite (H (S n) b Hn). lia.
Qed.

Lemma filter_map_comm {A B} (f : A -> B) (P : B -> bool) (l : list A) :
  map f (filter (fun x => P (f x)) l) = filter P (map f l).
Proof. induction l as [|x l IH]; simpl; [reflexivity|]. destruct (P (f x)); simpl; congruence. Qed.

Lemma map_opt_map {A B C} (f : A -> option B) (g : B -> C) (h : A -> C) : forall l r,
  map_opt f l = Some r -> (forall a b, f a = Some b -> g b = h a) -> map g r = map h l.
Proof.
  induction l as [|x l IH]; intros r H Hg; simpl in H.
  - inversion H. reflexivity.
  - destruct (f x) eqn:Hf; [|discriminate]. destruct (map_opt f l) eqn:Hm; [|discriminate].
    inversion H; subst. simpl. f_equal; [apply Hg; assumption | apply IH; auto].
Qed.

Lemma StronglySorted_seq a n : StronglySorted lt (seq a n).
Proof.
  revert a; induction n as [|n IH]; intros a; simpl; constructor; [apply IH|].
  apply Forall_forall. intros x Hx. apply in_seq in Hx. lia.
Qed.

Lemma StronglySorted_filter {A} (R : A -> A -> Prop) (P : A -> bool) l :
  StronglySorted R l -> StronglySorted R (filter P l).
Proof.
  induction 1 as [|a l Hs IH Hf]; simpl; [constructor|].
  destruct (P a); [|assumption]. constructor; [assumption|].
  rewrite Forall_forall in *. intros x Hx. apply filter_In in Hx. apply Hf, Hx.
Qed.

Lemma find_unique {A} (f : A -> nat) : forall (l : list A) x,
  NoDup (map f l) -> In x l -> find (fun y => Nat.eqb (f y) (f x)) l = Some x.
Proof.
  induction l as [|a l IH]; intros x Hnd Hin; [destruct Hin|].
  simpl in *. apply NoDup_cons_iff in Hnd. destruct Hnd as [Hni Hnd].
  destruct Hin as [->|Hin].
  - rewrite Nat.eqb_refl. reflexivity.
  - destruct (Nat.eqb (f a) (f x)) eqn:E.
    + apply Nat.eqb_eq in E. exfalso. apply Hni. rewrite E. apply in_map. assumption.
    + apply IH; assumption.
Qed.

Lemma dedup_sorted_In l n x : In x (dedup_sorted l n) <-> x < n /\ In x l.
Proof.
  unfold dedup_sorted. rewrite filter_In, in_seq, nat_mem_In. split; intros [H1 H2]; split; auto; lia.
Qed.

(* ================================================================== 4. structure of the parsed record *)
Section Parsed.
  Variables (p : prog) (t : teal) (bs : list block) (subs0 : list sub_row).
  Hypothesis Hp : p <> [].
  Hypothesis Hb : build_blocks p = Some bs.
  Hypothesis Hm : map_opt (row_fn p bs) (callsub_table p 0 []) = Some subs0.
  Hypothesis Hprog : t_prog t = p.
  Hypothesis Hblocks : t_blocks t = prune bs (retained_of bs subs0).
  Hypothesis Hsubs : t_subs t = map (mk_sub bs (reachable_of bs subs0)) subs0.
  Hypothesis Hmain : t_main t = mkSub "__main__"%string 0 (identify_subroutine_blocks bs 0) [].

  Let reachable := reachable_of bs subs0.
  Let retained := retained_of bs subs0.

  Lemma idx_seq : map b_idx bs = seq 0 (length bs).
  Proof. apply map_idx_seq. intros n b Hn. simpl. eapply idx_is_position; eauto. Qed.

  Lemma bs_nonempty : 0 < length bs.
  Proof.
    destruct (build_blocks_spec p bs Hb) as (rbs & nexts & Hc & _ & _ & Hl & _).
    destruct (create_bb_spec p rbs Hc Hp) as (_ & _ & done & lastb & E & _).
    rewrite Hl, E, app_length. simpl. lia.
  Qed.

  Lemma bb_of_pos_Some k c :
    bb_of_pos bs k = Some c <-> exists b, nth_error bs c = Some b /\ In k (b_ins b).
  Proof.
    destruct (build_blocks_spec p bs Hb) as (rbs & nexts & Hc & _ & _ & Hl & Hn).
    split.
    - unfold bb_of_pos. intros H. destruct (find _ bs) as [b|] eqn:E; [|discriminate].
      simpl in H. inversion H; subst c. apply find_some in E. destruct E as [Hin Hmem].
      apply In_nth_error in Hin. destruct Hin as (m & Hm').
      rewrite (idx_is_position p bs m b Hb Hm'). exists b. split; [assumption|].
      apply nat_mem_In. assumption.
    - intros (b & Hnb & Hk). destruct (Hn c b Hnb) as (rb & nx & Hrb & _ & _ & E).
      rewrite (bb_of_pos_block_of_pos p bs rbs k Hb Hc).
      apply (block_lookup p rbs c rb k Hc Hp Hrb). subst b. exact Hk.
  Qed.

  Lemma bb_of_pos_lt k c : bb_of_pos bs k = Some c -> c < length bs.
  Proof. intros H. apply bb_of_pos_Some in H. destruct H as (b & Hn & _). apply nth_error_Some. congruence. Qed.

  (* rows of the intermediate table *)
  Lemma row_in r : In r subs0 ->
    exists name ks lp e,
      r = (name, ks, e, identify_subroutine_blocks bs e) /\
      In (name, ks) (callsub_table p 0 []) /\ find_label p name = Some lp /\ bb_of_pos bs lp = Some e.
  Proof.
    intros H. apply (map_opt_In _ _ _ Hm) in H. destruct H as ([name ks] & Hin & Hf).
    unfold row_fn in Hf. destruct (find_label p name) as [lp|] eqn:El; [|discriminate].
    destruct (bb_of_pos bs lp) as [e|] eqn:Ee; [|discriminate].
    inversion Hf. exists name, ks, lp, e. auto.
  Qed.

  Lemma sub_in s : In s (t_subs t) <->
    exists name ks lp e,
      s = mkSub name e (identify_subroutine_blocks bs e) (callers_of bs reachable ks) /\
      In (name, ks, e, identify_subroutine_blocks bs e) subs0 /\
      In (name, ks) (callsub_table p 0 []) /\ find_label p name = Some lp /\ bb_of_pos bs lp = Some e.
  Proof.
    rewrite Hsubs, in_map_iff. split.
    - intros (r & Es & Hr). destruct (row_in r Hr) as (name & ks & lp & e & Er & H1 & H2 & H3).
      subst r. exists name, ks, lp, e. simpl in Es. auto 6.
    - intros (name & ks & lp & e & Es & Hr & _). eexists. split; [|exact Hr]. subst s. reflexivity.
  Qed.

  Lemma sub_names : map s_name (t_subs t) = map fst (callsub_table p 0 []).
  Proof.
    rewrite Hsubs, map_map. apply (map_opt_map (row_fn p bs)); [exact Hm|].
    intros [name ks] b Hf. unfold row_fn in Hf.
    destruct (find_label p name); [|discriminate]. destruct (bb_of_pos bs n); [|discriminate].
    inversion Hf. reflexivity.
  Qed.

  Lemma reachable_In x :
    In x reachable <-> Reach bs 0 x \/ exists s, In s (t_subs t) /\ Reach bs (s_entry s) x.
  Proof.
    unfold reachable, reachable_of. rewrite in_app_iff, in_flat_map.
    rewrite (proj1 (dfs_reach p bs 0 Hb bs_nonempty) x). split.
    - intros [(r & Hr & Hx)|H]; [|left; assumption]. right.
      destruct (row_in r Hr) as (name & ks & lp & e & Er & H1 & H2 & H3). subst r.
      apply (proj1 (dfs_reach p bs e Hb (bb_of_pos_lt _ _ H3))) in Hx.
      eexists. split; [apply sub_in; exists name, ks, lp, e; auto 6|]. exact Hx.
    - intros [H|(s & Hs & Hx)]; [right; assumption|]. left.
      apply sub_in in Hs. destruct Hs as (name & ks & lp & e & Es & Hr & _ & _ & H3). subst s. simpl in Hx.
      eexists. split; [exact Hr|]. simpl.
      apply (proj1 (dfs_reach p bs e Hb (bb_of_pos_lt _ _ H3))). exact Hx.
  Qed.

  Lemma sub_entry_lt s : In s (t_subs t) -> s_entry s < length bs.
  Proof.
    intros Hs. apply sub_in in Hs. destruct Hs as (name & ks & lp & e & Es & _ & _ & _ & H3). subst s.
    simpl. eapply bb_of_pos_lt; eauto.
  Qed.

  Lemma reachable_lt x : In x reachable -> x < length bs.
  Proof.
    intros H. apply reachable_In in H. destruct H as [H|(s & Hs & H)].
    - eapply Reach_lt; [intros a b; apply (next_of_range p bs a b Hb) | apply bs_nonempty | exact H].
    - eapply Reach_lt; [intros a b; apply (next_of_range p bs a b Hb) | apply (sub_entry_lt s Hs) | exact H].
  Qed.

  Lemma retained_In x : In x retained <-> In x reachable.
  Proof.
    unfold retained, retained_of. rewrite dedup_sorted_In. fold reachable. split; [tauto|].
    intros H. split; [apply reachable_lt|]; assumption.
  Qed.

  Lemma retained_closed x y : In x retained -> In y (next_of bs x) -> In y retained.
  Proof.
    rewrite !retained_In, !reachable_In. intros [H|(s & Hs & H)] Hy.
    - left. econstructor; eauto.
    - right. exists s. split; [assumption|]. econstructor; eauto.
  Qed.

  Lemma t_blocks_idx : map b_idx (t_blocks t) = retained.
  Proof.
    rewrite Hblocks. unfold prune. rewrite map_map.
    rewrite (map_ext (fun b => b_idx (prune_block (retained_of bs subs0) b)) b_idx) by reflexivity.
    rewrite (filter_map_comm b_idx (fun k => nat_mem k (retained_of bs subs0))), idx_seq.
    fold retained. unfold retained at 2, retained_of, dedup_sorted. fold reachable.
    apply filter_ext_in. intros a Ha. apply Bool.eq_iff_eq_true.
    rewrite !nat_mem_In. apply retained_In.
  Qed.

  Lemma retained_sorted : StronglySorted lt retained.
  Proof. unfold retained, retained_of, dedup_sorted. apply StronglySorted_filter, StronglySorted_seq. Qed.

  Lemma retained_nodup : NoDup retained.
  Proof. unfold retained, retained_of, dedup_sorted. apply NoDup_filter, seq_NoDup. Qed.

  (* lookup of a retained block *)
  Lemma tblock_spec n b' :
    tblock t n = Some b' <->
    In n retained /\ exists b, nth_error bs n = Some b /\ b' = prune_block retained b.
  Proof.
    split.
    - unfold tblock. intros H. apply find_some in H. destruct H as [Hin He].
      apply Nat.eqb_eq in He. rewrite Hblocks in Hin. unfold prune in Hin.
      apply in_map_iff in Hin. destruct Hin as (b & Eb & Hin). apply filter_In in Hin.
      destruct Hin as [Hin Hmem]. apply nat_mem_In in Hmem.
      apply In_nth_error in Hin. destruct Hin as (m & Hm').
      pose proof (idx_is_position p bs m b Hb Hm') as Ei.
      assert (Hmn : m = n) by (subst b'; simpl in He; congruence).
      rewrite Hmn in Hm', Ei. rewrite Ei in Hmem.
      split; [exact Hmem|]. exists b. split; [assumption | symmetry; exact Eb].
    - intros (Hr & b & Hn & ->). unfold tblock.
      pose proof (idx_is_position p bs n b Hb Hn) as Ei.
      assert (Hf : find (fun y => Nat.eqb (b_idx y) (b_idx (prune_block retained b))) (t_blocks t)
                   = Some (prune_block retained b)).
      { apply (find_unique b_idx).
        + rewrite t_blocks_idx. apply retained_nodup.
        + rewrite Hblocks. unfold prune. apply in_map. apply filter_In. split; [eapply nth_error_In; eauto|].
          apply nat_mem_In. rewrite Ei. exact Hr. }
      simpl in Hf. rewrite Ei in Hf. exact Hf.
  Qed.

  Lemma tblock_retained n : In n retained <-> exists b', tblock t n = Some b'.
  Proof.
    split.
    - intros H. assert (Hlt : n < length bs) by (apply reachable_lt, retained_In, H).
      destruct (nth_error bs n) as [b|] eqn:E; [|apply nth_error_None in E; lia].
      exists (prune_block retained b). apply tblock_spec. eauto.
    - intros (b' & H). apply tblock_spec in H. tauto.
  Qed.

  (* ---------------------------------------------------------------- exit instructions *)
  Lemma exit_op_nonempty b : b_ins b <> [] -> exit_op t b = op_at p (last (b_ins b) 0).
  Proof. unfold exit_op. rewrite Hprog. destruct (b_ins b); [congruence | reflexivity]. Qed.

  Lemma exit_op_some_nonempty b i : exit_op t b = Some i -> b_ins b <> [].
  Proof. unfold exit_op. destruct (b_ins b); [discriminate | discriminate]. Qed.

  Lemma callsub_is_last rbs rb k l :
    create_bb p = Some rbs -> In rb rbs -> In k (rb_ins rb) -> op_at p k = Some (ICallsub l) ->
    k = last (rb_ins rb) 0.
  Proof.
    intros Hc Hrb Hk Hop. destruct (Nat.eq_dec k (last (rb_ins rb) 0)) as [E|E]; [assumption|]. exfalso.
    destruct (block_interior p rbs Hc rb k Hrb Hk) as [Hnl _].
    destruct (Hnl E) as (i & nx & Hi & _ & _ & Hcase). rewrite Hop in Hi. inversion Hi; subst i. exact Hcase.
  Qed.

  (* ---------------------------------------------------------------- callers *)
  Lemma callers_exact_sec s : In s (t_subs t) ->
    forall c, In c (s_callers s) <->
              exists b, tblock t c = Some b /\ exit_op t b = Some (ICallsub (s_name s)).
  Proof.
    intros Hs c. apply sub_in in Hs. destruct Hs as (name & ks & lp & e & Es & _ & Hct & _ & _).
    subst s. simpl.
    destruct (build_blocks_spec p bs Hb) as (rbs & nexts & Hc & _ & _ & Hl & Hn).
    pose proof (ct_pos _ _ (callsub_table_spec p) name ks) as Hpos.
    unfold callers_of. rewrite filter_In, in_flat_map, nat_mem_In. split.
    - intros ((k & Hk & Hck) & Hreach).
      destruct (bb_of_pos bs k) as [c'|] eqn:Ebb; [|destruct Hck]. destruct Hck as [->|[]].
      apply (Hpos k Hct) in Hk.
      apply bb_of_pos_Some in Ebb. destruct Ebb as (b & Hnb & Hkb).
      destruct (Hn c b Hnb) as (rb & nx & Hrb & _ & _ & Eb).
      assert (Hins : b_ins b = rb_ins rb) by (subst b; reflexivity).
      assert (Hlast : k = last (b_ins b) 0).
      { rewrite Hins. eapply callsub_is_last; eauto. eapply nth_error_In; eauto. rewrite <- Hins; assumption. }
      exists (prune_block retained b). split.
      + apply tblock_spec. split; [apply retained_In; exact Hreach|]. eauto.
      + rewrite exit_op_nonempty; simpl.
        * rewrite <- Hlast. exact Hk.
        * intro E. rewrite E in Hkb. destruct Hkb.
    - intros (b' & Htb & Hex). apply tblock_spec in Htb. destruct Htb as (Hret & b & Hnb & ->).
      pose proof (exit_op_some_nonempty _ _ Hex) as Hne. rewrite (exit_op_nonempty _ Hne) in Hex.
      simpl in Hex, Hne. split; [|apply retained_In; exact Hret].
      exists (last (b_ins b) 0). split; [apply (Hpos _ Hct); exact Hex|].
      assert (Ebb : bb_of_pos bs (last (b_ins b) 0) = Some c).
      { apply bb_of_pos_Some. exists b. split; [assumption | apply last_In; assumption]. }
      rewrite Ebb. left; reflexivity.
  Qed.

  (* ---------------------------------------------------------------- return points *)
  Lemma return_point_sec c b l :
    tblock t c = Some b -> exit_op t b = Some (ICallsub l) ->
    (b_next b = [] /\ S (last (b_ins b) 0) = length p) \/
    (b_next b = [S c] /\ exists rb, tblock t (S c) = Some rb /\ hd_error (b_ins rb) = Some (S (last (b_ins b) 0))).
  Proof.
    intros Htb Hex. apply tblock_spec in Htb. destruct Htb as (Hret & b0 & Hnb & ->).
    pose proof (exit_op_some_nonempty _ _ Hex) as Hne. rewrite (exit_op_nonempty _ Hne) in Hex.
    simpl in Hex, Hne. simpl b_next. simpl b_ins.
    destruct (build_blocks_spec p bs Hb) as (rbs & nexts & Hc & _ & _ & Hl & Hn).
    destruct (Hn c b0 Hnb) as (rb & nx & Hrb & _ & Hr & Eb).
    assert (Hins : b_ins b0 = rb_ins rb) by (subst b0; reflexivity).
    assert (Hnx : b_next b0 = nx) by (subst b0; reflexivity).
    rewrite Hins in *. rewrite Hnx. clear Eb.
    destruct (raw_next_spec _ _ _ _ _ Hr) as (_ & inx & tb & Hinx & Hmap & Enx).
    set (ex := last (rb_ins rb) 0) in *.
    destruct (create_bb_spec p rbs Hc Hp) as (Hpart & Hok & _).
    assert (Hexlt : ex < length p).
    { assert (Hin : In ex (seq 0 (length p))).
      { rewrite <- Hpart. apply in_concat. exists (rb_ins rb). split.
        - apply in_map. eapply nth_error_In; eauto.
        - apply last_In. assumption. }
      apply in_seq in Hin. lia. }
    unfold ins_next in Hinx. rewrite Hex in Hinx. simpl in Hinx.
    destruct (Nat.ltb (S ex) (length p)) eqn:Elt.
    - right. apply Nat.ltb_lt in Elt. inversion Hinx; subst inx; clear Hinx.
      destruct (following_block p rbs c rb Hc Hp Hrb Elt) as (rb' & Hrb' & Hin').
      destruct (consecutive_spec p rbs c rb rb' Hc Hrb Hrb') as (Hhd & _ & i & Hop & Hd).
      fold ex in Hin', Hhd, Hop. rewrite Hex in Hop. inversion Hop; subst i. simpl in Hd.
      simpl in Hmap. rewrite (block_lookup p rbs (S c) rb' (S ex) Hc Hp Hrb' Hin') in Hmap.
      inversion Hmap; subst tb. rewrite Hd in Enx. simpl in Enx.
      unfold nat_mem in Enx. simpl in Enx. rewrite Nat.eqb_refl in Enx. simpl in Enx.
      split; [assumption|].
      assert (Hlt' : S c < length bs).
      { rewrite Hl. apply nth_error_Some. congruence. }
      destruct (nth_error bs (S c)) as [b1|] eqn:Eb1; [|apply nth_error_None in Eb1; lia].
      exists (prune_block retained b1). split.
      + apply tblock_spec. split; [|eauto].
        apply (retained_closed c (S c) Hret). unfold next_of, get_block. rewrite Hnb, Hnx, Enx. left; reflexivity.
      + destruct (Hn (S c) b1 Eb1) as (rb1 & nx1 & Hrb1 & _ & _ & Eb1'). rewrite Hrb' in Hrb1.
        inversion Hrb1; subst rb1. subst b1. simpl. exact Hhd.
    - left. apply Nat.ltb_ge in Elt. inversion Hinx; subst inx; clear Hinx.
      simpl in Hmap. inversion Hmap; subst tb. simpl in Enx.
      assert (Hd : rb_dflt rb = false).
      { destruct (nth_error rbs (S c)) as [rb'|] eqn:Erb'.
        - destruct (consecutive_spec p rbs c rb rb' Hc Hrb Erb') as (_ & Hlt & _). fold ex in Hlt. lia.
        - apply nth_error_None in Erb'.
          assert (c < length rbs) by (apply nth_error_Some; congruence).
          apply (last_block_no_dflt p rbs c rb Hc Hrb). lia. }
      rewrite Hd in Enx. split; [assumption | lia].
  Qed.
End Parsed.

(* ================================================================== 5. find_label *)
Lemma find_label_from_spec l : forall p k acc r,
  find_label_from l p k acc = Some r ->
  acc = Some r \/ exists j, r = k + j /\ op_at p j = Some (ILabel l).
Proof.
  induction p as [|i p IH]; intros k acc r H; simpl in H; [left; assumption|].
  apply IH in H. destruct H as [H|(j & -> & Hj)].
  - destruct (i_op i) eqn:Ei; try (left; assumption).
    destruct (String.eqb l0 l) eqn:El; [|left; assumption].
    apply String.eqb_eq in El. subst l0. inversion H; subst r.
    right. exists 0. split; [lia|]. unfold op_at. simpl. rewrite Ei. reflexivity.
  - right. exists (S j). split; [lia | exact Hj].
Qed.

Lemma find_label_spec p l k : find_label p l = Some k -> op_at p k = Some (ILabel l).
Proof.
  unfold find_label. intros H. apply find_label_from_spec in H.
  destruct H as [H|(j & -> & Hj)]; [discriminate | exact Hj].
Qed.

(* ================================================================== 6. the C05 theorems *)
Lemma parse_teal_blocks p t : parse_teal p = Ok t -> exists bs, build_blocks p = Some bs.
Proof. intros H. destruct (parse_teal_inv p t H) as (bs & _ & _ & Hb & _). eauto. Qed.

(* the retained block list, seen through tblock *)
Definition retained_ids (t : teal) : list nat := map b_idx (t_blocks t).

Ltac parsed H Hbs :=
  let bs0 := fresh "bs0" in let subs0 := fresh "subs0" in
  let Hp := fresh "Hp" in let Hb := fresh "Hb" in let Hm := fresh "Hm" in
  let Hprog := fresh "Hprog" in let Hblocks := fresh "Hblocks" in let Hsubs := fresh "Hsubs" in
  let Hmain := fresh "Hmain" in
  destruct (parse_teal_inv _ _ H) as (bs0 & subs0 & Hp & Hb & Hm & Hprog & Hblocks & Hsubs & Hmain);
  rewrite Hbs in Hb; inversion Hb; subst bs0; clear Hb.

(* 2a. subroutine names = callsub targets (whether or not the callsub instruction is retained) *)
Theorem subs_are_callsub_targets p t :
  parse_teal p = Ok t ->
  (forall name, (exists s, In s (t_subs t) /\ s_name s = name) <->
                (exists k, op_at p k = Some (ICallsub name))) /\
  NoDup (map s_name (t_subs t)).
Proof.
  intros H. destruct (parse_teal_blocks p t H) as (bs & Hbs). parsed H Hbs.
  pose proof (sub_names p t bs subs0 Hm Hsubs) as Hn.
  pose proof (callsub_table_spec p) as [Hnd Hnames _]. split.
  - intros name. rewrite <- Hnames, <- Hn, in_map_iff. split; intros (s & H1 & H2); exists s; tauto.
  - rewrite Hn. assumption.
Qed.

(* 2b. blocks of a subroutine = local reachability from its entry; the entry is the block of the label *)
Theorem sub_blocks_are_local_reach p t bs s :
  parse_teal p = Ok t -> build_blocks p = Some bs -> In s (t_subs t) ->
  (forall x, In x (s_blocks s) <-> Reach bs (s_entry s) x) /\
  NoDup (s_blocks s) /\
  exists lp b, find_label p (s_name s) = Some lp /\ op_at p lp = Some (ILabel (s_name s)) /\
               bb_of_pos bs lp = Some (s_entry s) /\
               nth_error bs (s_entry s) = Some b /\ In lp (b_ins b).
Proof.
  intros H Hbs Hs. parsed H Hbs.
  apply (sub_in p t bs subs0 Hm Hsubs) in Hs.
  destruct Hs as (name & ks & lp & e & Es & _ & _ & Hfl & Hbb). subst s. simpl.
  pose proof (bb_of_pos_lt p bs Hp Hbs lp e Hbb) as Hlt.
  destruct (dfs_reach p bs e Hbs Hlt) as [Hr Hnd]. split; [exact Hr|]. split; [exact Hnd|].
  pose proof Hbb as Hbb'. apply (bb_of_pos_Some p bs Hp Hbs) in Hbb'. destruct Hbb' as (b & Hnb & Hin).
  exists lp, b. split; [assumption|]. split; [apply find_label_spec; assumption|]. auto.
Qed.

Theorem main_blocks_are_local_reach p t bs :
  parse_teal p = Ok t -> build_blocks p = Some bs ->
  s_entry (t_main t) = 0 /\
  (forall x, In x (s_blocks (t_main t)) <-> Reach bs 0 x) /\ NoDup (s_blocks (t_main t)).
Proof.
  intros H Hbs. parsed H Hbs. rewrite Hmain. simpl. split; [reflexivity|].
  apply (dfs_reach p bs 0 Hbs). eapply bs_nonempty; eauto.
Qed.

(* membership in the retained list = successful lookup *)
Lemma in_t_blocks p t b : parse_teal p = Ok t -> (In b (t_blocks t) <-> tblock t (b_idx b) = Some b).
Proof.
  intros H. destruct (parse_teal_blocks p t H) as (bs & Hbs). parsed H Hbs. split.
  - intros Hin. unfold tblock. apply (find_unique b_idx); [|assumption].
    rewrite (t_blocks_idx p t bs subs0 Hp Hbs Hm Hblocks Hsubs). apply retained_nodup.
  - intros Hf. unfold tblock in Hf. apply find_some in Hf. tauto.
Qed.

(* 2c. the retained blocks *)
Theorem retained_char p t bs :
  parse_teal p = Ok t -> build_blocks p = Some bs ->
  (forall n, In n (retained_ids t) <->
             Reach bs 0 n \/ exists s, In s (t_subs t) /\ Reach bs (s_entry s) n) /\
  StronglySorted lt (retained_ids t) /\ NoDup (retained_ids t) /\
  (forall n b', tblock t n = Some b' ->
     exists b, nth_error bs n = Some b /\ b_idx b' = n /\ b_ins b' = b_ins b /\ b_next b' = b_next b /\
               forall m, In m (b_prev b') <-> In m (b_prev b) /\ In m (retained_ids t)) /\
  (forall b m, In b (t_blocks t) -> In m (b_prev b) -> In m (retained_ids t)) /\
  (forall b m, In b (t_blocks t) -> In m (b_next b) -> In m (retained_ids t)).
Proof.
  intros H Hbs. pose proof H as H0. parsed H Hbs.
  pose proof (t_blocks_idx p t bs subs0 Hp Hbs Hm Hblocks Hsubs) as Hidx.
  unfold retained_ids. rewrite Hidx.
  assert (Htb : forall n b', tblock t n = Some b' ->
     exists b, nth_error bs n = Some b /\ b_idx b' = n /\ b_ins b' = b_ins b /\ b_next b' = b_next b /\
               forall m, In m (b_prev b') <-> In m (b_prev b) /\ In m (retained_of bs subs0)).
  { intros n b' Hb'. apply (tblock_spec p t bs subs0 Hp Hbs Hm Hblocks Hsubs) in Hb'.
    destruct Hb' as (Hr & b & Hnb & ->). exists b. split; [assumption|]. simpl.
    split; [eapply idx_is_position; eauto|]. split; [reflexivity|]. split; [reflexivity|].
    intros m. rewrite filter_In, nat_mem_In. tauto. }
  split; [|split; [|split; [|split; [|split]]]].
  - intros n. rewrite (retained_In p t bs subs0 Hp Hbs Hm Hsubs).
    apply (reachable_In p t bs subs0 Hp Hbs Hm Hsubs).
  - apply retained_sorted.
  - apply retained_nodup.
  - exact Htb.
  - intros b m Hin Hm'. apply (in_t_blocks p t b H0) in Hin.
    destruct (Htb _ _ Hin) as (b0 & _ & _ & _ & _ & Hprev). apply Hprev in Hm'. tauto.
  - intros b m Hin Hm'. apply (in_t_blocks p t b H0) in Hin.
    pose proof Hin as Hin'. apply (tblock_spec p t bs subs0 Hp Hbs Hm Hblocks Hsubs) in Hin'.
    destruct Hin' as (Hr & b0 & Hnb & Eb).
    apply (retained_closed p t bs subs0 Hp Hbs Hm Hsubs (b_idx b) m Hr).
    unfold next_of, get_block. rewrite Hnb. subst b. exact Hm'.
Qed.

(* 2d. caller blocks *)
Theorem callers_exact p t s :
  parse_teal p = Ok t -> In s (t_subs t) ->
  forall c, In c (s_callers s) <->
            exists b, tblock t c = Some b /\ exit_op t b = Some (ICallsub (s_name s)).
Proof.
  intros H Hs. destruct (parse_teal_blocks p t H) as (bs & Hbs). parsed H Hbs.
  eapply callers_exact_sec; eauto.
Qed.

(* 2e. return points *)
Theorem return_point p t c b :
  parse_teal p = Ok t -> tblock t c = Some b -> is_callsub_block t b = true ->
  (b_next b = [] /\ S (last (b_ins b) 0) = length (t_prog t)) \/
  (b_next b = [S c] /\
   exists rb, tblock t (S c) = Some rb /\ hd_error (b_ins rb) = Some (S (last (b_ins b) 0))).
Proof.
  intros H Htb Hcs. destruct (parse_teal_blocks p t H) as (bs & Hbs). parsed H Hbs.
  unfold is_callsub_block in Hcs. destruct (exit_op t b) as [[]|] eqn:Hex; try discriminate.
  rewrite Hprog. eapply return_point_sec; eauto.
Qed.

(* the callee of a retained callsub block is a discovered subroutine of that name *)
Theorem called_subroutine_spec p t c b l :
  parse_teal p = Ok t -> tblock t c = Some b -> exit_op t b = Some (ICallsub l) ->
  exists s, called_subroutine t b = Some s /\ In s (t_subs t) /\ s_name s = l.
Proof.
  intros H Htb Hex. unfold called_subroutine, find_sub. rewrite Hex.
  destruct (subs_are_callsub_targets p t H) as [Hnames _].
  assert (Hk : exists k, op_at p k = Some (ICallsub l)).
  { destruct (parse_teal_inv p t H) as (bs & subs0 & Hp & Hb & Hm & Hprog & _).
    exists (last (b_ins b) 0). unfold exit_op in Hex. rewrite Hprog in Hex.
    destruct (b_ins b); [discriminate | exact Hex]. }
  apply Hnames in Hk. destruct Hk as (s & Hs & Hn).
  destruct (find (fun s0 => String.eqb (s_name s0) l) (t_subs t)) as [s'|] eqn:Ef.
  - apply find_some in Ef. destruct Ef as [Hin He]. apply String.eqb_eq in He. eauto.
  - exfalso. apply (find_none _ _ Ef) in Hs. rewrite Hn, String.eqb_refl in Hs. discriminate.
Qed.

(* a block id is retained iff its lookup succeeds *)
Theorem tblock_retained_ids p t n :
  parse_teal p = Ok t -> (In n (retained_ids t) <-> exists b, tblock t n = Some b).
Proof.
  intros H. destruct (parse_teal_blocks p t H) as (bs & Hbs). parsed H Hbs.
  unfold retained_ids. rewrite (t_blocks_idx p t bs subs0 Hp Hbs Hm Hblocks Hsubs).
  eapply tblock_retained; eauto.
Qed.

(* edges of retained blocks are the edges of the full graph; mirrored among retained blocks *)
Theorem tblock_next p t bs n b :
  parse_teal p = Ok t -> build_blocks p = Some bs -> tblock t n = Some b -> b_next b = next_of bs n.
Proof.
  intros H Hbs Hb. destruct (retained_char p t bs H Hbs) as (_ & _ & _ & Htb & _).
  destruct (Htb n b Hb) as (b0 & Hn & _ & _ & Hnx & _). unfold next_of, get_block. rewrite Hn. exact Hnx.
Qed.

Theorem tblock_mirror p t m n bm bn :
  parse_teal p = Ok t -> tblock t m = Some bm -> tblock t n = Some bn ->
  (In n (b_next bm) <-> In m (b_prev bn)).
Proof.
  intros H Hm' Hn'. destruct (parse_teal_blocks p t H) as (bs & Hbs).
  destruct (retained_char p t bs H Hbs) as (_ & _ & _ & Htb & _).
  destruct (Htb m bm Hm') as (b1 & Hn1 & _ & _ & Hnx1 & _).
  destruct (Htb n bn Hn') as (b2 & Hn2 & _ & _ & _ & Hpv2).
  rewrite Hnx1, Hpv2.
  pose proof (idx_is_position p bs m b1 Hbs Hn1) as E1.
  pose proof (idx_is_position p bs n b2 Hbs Hn2) as E2.
  pose proof (next_prev_mirror p bs b1 b2 Hbs (nth_error_In _ _ Hn1) (nth_error_In _ _ Hn2)) as Hmir.
  rewrite E1, E2 in Hmir. rewrite Hmir. split; [|tauto]. intros Hin. split; [assumption|].
  apply (tblock_retained_ids p t m H). eauto.
Qed.

(* retsub blocks have no local successors *)
Theorem retsub_no_next p t n b :
  parse_teal p = Ok t -> tblock t n = Some b -> is_retsub_block t b = true -> b_next b = [].
Proof.
  intros H Hb Hr. destruct (parse_teal_blocks p t H) as (bs & Hbs).
  destruct (retained_char p t bs H Hbs) as (_ & _ & _ & Htb & _).
  destruct (Htb n b Hb) as (b0 & Hn & _ & Hins & Hnx & _).
  destruct (parse_teal_inv p t H) as (_ & _ & _ & _ & _ & Hprog & _).
  unfold is_retsub_block, exit_op in Hr. rewrite Hprog, Hins in Hr.
  destruct (b_next b) as [|m l] eqn:E; [reflexivity|]. exfalso.
  assert (Hm : In m (b_next b0)) by (rewrite <- Hnx; left; reflexivity).
  apply (next_meaning_blocks p bs b0 m Hbs (nth_error_In _ _ Hn)) in Hm.
  destruct Hm as (nx & k & Hnx' & Hk & _). unfold ins_next in Hnx'.
  destruct (b_ins b0) as [|a l0] eqn:Ei; [discriminate|].
  destruct (op_at p (last (a :: l0) 0)) as [i|]; [|discriminate].
  destruct i; try discriminate. simpl in Hnx'. inversion Hnx'; subst nx. destruct Hk.
Qed.

Print Assumptions subs_are_callsub_targets.
Print Assumptions tblock_mirror.
Print Assumptions retsub_no_next.
Print Assumptions sub_blocks_are_local_reach.
Print Assumptions main_blocks_are_local_reach.
Print Assumptions retained_char.
Print Assumptions callers_exact.
Print Assumptions return_point.
Print Assumptions called_subroutine_spec.

(* ================================================================== 7. reachability inside the retained graph *)
Definition tnext (t : teal) (n : nat) : list nat :=
  match tblock t n with Some b => b_next b | None => [] end.

Inductive TReach (t : teal) (e : nat) : nat -> Prop :=
| TReach_refl : TReach t e e
| TReach_step x y : TReach t e x -> In y (tnext t x) -> TReach t e y.

Theorem Reach_retained p t bs e x :
  parse_teal p = Ok t -> build_blocks p = Some bs -> In e (retained_ids t) ->
  (Reach bs e x <-> TReach t e x).
Proof.
  intros H Hbs He.
  destruct (retained_char p t bs H Hbs) as (_ & _ & _ & _ & _ & Hnext).
  assert (Htn : forall n, In n (retained_ids t) -> tnext t n = next_of bs n /\
                          forall y, In y (next_of bs n) -> In y (retained_ids t)).
  { intros n Hn. apply (tblock_retained_ids p t n H) in Hn. destruct Hn as (b & Hb).
    pose proof (tblock_next p t bs n b H Hbs Hb) as E. unfold tnext. rewrite Hb. split; [assumption|].
    intros y Hy. apply (Hnext b y); [|rewrite E; assumption].
    apply (in_t_blocks p t b H). unfold tblock in Hb. pose proof Hb as Hb'. apply find_some in Hb'.
    destruct Hb' as [_ Hi]. apply Nat.eqb_eq in Hi. rewrite Hi. exact Hb. }
  split.
  - intros Hr. assert (Hs : TReach t e x /\ In x (retained_ids t)); [|apply Hs].
    induction Hr as [|x y Hx [IH1 IH2] Hy]; [split; [constructor | assumption]|].
    destruct (Htn x IH2) as [E Hcl]. split; [|apply Hcl; assumption].
    econstructor; [exact IH1|]. rewrite E. assumption.
  - intros Hr. induction Hr as [|x y Hx IH Hy]; [constructor|].
    econstructor; [exact IH|]. unfold tnext in Hy. destruct (tblock t x) as [b|] eqn:Eb; [|destruct Hy].
    rewrite <- (tblock_next p t bs x b H Hbs Eb). assumption.
Qed.

(* s_blocks s = blocks reachable from s_entry s in the retained graph *)
Corollary sub_blocks_retained_reach p t s :
  parse_teal p = Ok t -> In s (t_subs t) ->
  forall x, In x (s_blocks s) <-> TReach t (s_entry s) x.
Proof.
  intros H Hs x. destruct (parse_teal_blocks p t H) as (bs & Hbs).
  destruct (sub_blocks_are_local_reach p t bs s H Hbs Hs) as (Hr & _).
  rewrite Hr. apply (Reach_retained p t bs _ x H Hbs).
  apply (retained_char p t bs H Hbs). right. exists s. split; [assumption | constructor].
Qed.

Print Assumptions Reach_retained.
Print Assumptions sub_blocks_retained_reach.

(* ================================================================== 8. non-vacuity check *)
(* main calls f; "dead" is unreachable code calling g: g is still a subroutine (its callsub is not
   retained), its block is retained, and it has no caller block *)
Example sub_example : prog :=
  [ mkIns 1 (ICallsub "f"%string); mkIns 2 (IInt (IANum 1)); mkIns 3 IReturn;
    mkIns 4 (ILabel "f"%string); mkIns 5 IRetsub;
    mkIns 6 (ILabel "dead"%string); mkIns 7 (ICallsub "g"%string);
    mkIns 8 (ILabel "g"%string); mkIns 9 IRetsub ].

Example sub_example_parse :
  match parse_teal sub_example with
  | Ok t => Some (map b_idx (t_blocks t), t_subs t, s_blocks (t_main t))
  | Err _ => None
  end =
  Some ([0; 1; 2; 4],
        [mkSub "f"%string 2 [2] [0]; mkSub "g"%string 4 [4] []],
        [0; 1]).
Proof. vm_compute. reflexivity. Qed.
