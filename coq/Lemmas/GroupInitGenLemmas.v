(* The READING OF A GROUP CONFIGURATION regenerated from tealer's Python source (Gen/GroupInitGen.v, written by
   tools/translate_groupinit.py from utils/command_line/common.py init_tealer_from_config / _get_function_from_config /
   init_tealer_from_single_contract, utils/command_line/group_config.py and execution_context/transactions.py) against
   the hand-written Model/Group.v (record gtxn, rel_dict, relative_accessors, Section Verdict).

   Inputs: contracts : list (string * tcontract) (name -> (name, ContractType member, function name -> index in the
   table funcs)), a GroupConfigGroup (operation, list of GroupConfigTransaction entries).  Everything below is for ALL
   contracts tables and ALL entry lists (no well-formedness assumed; relative_indexes is any association list).

   1. init_group_gen_unfold (conversion): the generated function IS the two loops body1 / body2 the proofs reason about.
      init_group_gen_spec: init_group_gen = init_group_spec, a heap-free functional program
         phase1 (per entry: type table, application, logic-sig, duplicate id)  ;
         phase2 (per entry: relative indexes, absolute index)  ;  fill_group_relative_indexes.
   2. (Lemmas/GroupCfgOk.v) init_group_returns_iff: the construction returns iff the flat BOOLEAN group_cfg_ok holds
         = every txn_type is a key of USER_CONFIG_TRANSACTION_TYPES, every application / logic_sig names a listed
           contract and one of its functions, of the right kind, the ids are pairwise distinct, every relative index
           names an id of the group, the absolute indexes are pairwise distinct;
      init_raises_*: when it raises, WHICH exception, each with its condition (KeyError = unknown txn_type, which
      GroupConfigTransaction.from_yaml excludes; the seven TealerException templates); fill_cannot_raise.
   3. init_group_ok_view: when it returns (heap, g), the observable attributes are exactly the model's records:
         view_group heap g = map (cfg_gtxn contracts) entries  (listing order; type through the table; has_logic_sig
         forced when a logic_sig is given; functions by index; relative_indexes = rel_dict of the configured pairs:
         a later pair with the same offset wins, in the place of the first),
         g.transactions = all objects in order, g.absolute_indexes = {abs_i : i}, every object points to g, and
         g.group_relative_indexes is what Gen/GroupGen.v's verdict reads (attr_group_relative_indexes).
   4. init_then_verdict_eq: regenerated init followed by the regenerated verdict (GroupGen.group_verdict_gen) =
      Group.group_verdict of the model group map cfg_gtxn entries (under GroupGenLemmas.group_ok of that group);
      cfg_verdict_raw_eq: .. = group_verdict of the RAW model records (g_rel = the configured pairs as listed).
   5. init_single_gen_spec / init_single_logic_sig: the group of init_tealer_from_single_contract is one transaction,
      running the contract's only function as logic-sig iff the contract type is LogicSig (else as application), no
      absolute index, no relative index: the hypotheses of GroupLemmas.single_logic_sig (C13_single_logic_sig).
   6. from_yaml: GroupConfigTransaction_from_yaml_gen on a typed entry (yaml_of_entry) returns the entry with
      relative_indexes keyed by other_txn_id (a later offset for the same id wins); consequence for the model, whose
      request format lists (offset, id) pairs: yaml_rel_model_refuted / yaml_rel_model_partial. *)
From Coq Require Import String List NArith ZArith Bool Arith Lia.
From Tealer Require Import Tables LeafPrelude Syntax Parse Cfg StackAst Keys KeysGen Analysis Domains Detect SearchGen Group GroupGen GroupInitGen.
From Tealer Require Import SearchGenLemmas GroupLemmas GroupGenLemmas.
Import ListNotations.
Open Scope string_scope.
Open Scope list_scope.

(* ====================================================================== *)
(* 0. Prelude facts: monad, heap, dictionaries                              *)
(* ====================================================================== *)
Lemma rbind_ok_inv {A B} (m : rs A) (k : A -> rs B) b : rbind m k = Ok b -> exists a, m = Ok a /\ k a = Ok b.
Proof. destruct m as [a|e]; cbn [rbind]; intros H; [exists a; split; [reflexivity | exact H] | discriminate]. Qed.

Lemma rbind_raise_inv {A B} (m : rs A) (k : A -> rs B) x :
  rbind m k = Raise x -> m = Raise x \/ exists a, m = Ok a /\ k a = Raise x.
Proof. destruct m as [a|e]; cbn [rbind]; intros H; [right; exists a; split; [reflexivity | exact H] | left; inversion H; reflexivity]. Qed.

Lemma hset_here pre o post r f : length pre = r -> hset (pre ++ o :: post) r f = pre ++ f o :: post.
Proof.
  revert r. induction pre as [|p pre IH]; intros r E; cbn [length] in E; subst r; [reflexivity|].
  cbn [app hset length]. rewrite (IH (length pre) eq_refl). reflexivity.
Qed.

Lemma hread_here pre o post r : length pre = r -> hread (pre ++ o :: post) r = o.
Proof.
  intros <-. unfold hread. rewrite app_nth2 by lia. rewrite Nat.sub_diag. reflexivity.
Qed.

Lemma hset_last h o f : hset (h ++ [o]) (length h) f = h ++ [f o].
Proof. exact (hset_here h o [] (length h) f eq_refl). Qed.

Lemma existsb_find {A} (p : A -> bool) l : existsb p l = match find p l with Some _ => true | None => false end.
Proof. induction l as [|a l IH]; [reflexivity|]. cbn [existsb find]. destruct (p a); [reflexivity | exact IH]. Qed.

Lemma sdict_mem_find {V} k (d : list (string * V)) :
  sdict_mem k d = match find (fun kv => String.eqb (fst kv) k) d with Some _ => true | None => false end.
Proof. exact (existsb_find _ d). Qed.

Lemma sdict_get_find {V} k (d : list (string * V)) :
  sdict_get k d = match find (fun kv => String.eqb (fst kv) k) d with Some kv => Ok (snd kv) | None => Raise EKeyError end.
Proof. reflexivity. Qed.

Lemma sdict_set_new {V} k (v : V) d : sdict_mem k d = false -> sdict_set k v d = d ++ [(k, v)].
Proof.
  intros H. unfold sdict_set. apply dict_set_new. intros kv Hkv.
  unfold sdict_mem in H. destruct (String.eqb (fst kv) k) eqn:E; [|reflexivity].
  assert (X : existsb (fun kv0 : string * V => String.eqb (fst kv0) k) d = true) by (apply existsb_exists; exists kv; split; assumption).
  rewrite X in H. discriminate.
Qed.

Definition smem (k : string) (l : list string) : bool := existsb (fun k' => String.eqb k' k) l.

Lemma sdict_mem_keys {V} k (d : list (string * V)) : sdict_mem k d = smem k (map fst d).
Proof. unfold sdict_mem, smem. induction d as [|kv d IH]; [reflexivity|]. cbn [existsb map]. rewrite IH. reflexivity. Qed.

Lemma smem_In k l : smem k l = true <-> In k l.
Proof.
  unfold smem. rewrite existsb_exists. split.
  - intros (x & Hx & E). apply String.eqb_eq in E. subst x. exact Hx.
  - intros H. exists k. split; [exact H | apply String.eqb_refl].
Qed.

Lemma smem_false k l : smem k l = false <-> ~ In k l.
Proof. rewrite <- smem_In. destruct (smem k l); split; intros H; [discriminate | exfalso; apply H; reflexivity | intros X; discriminate | reflexivity]. Qed.

Lemma find_map_fst {V W} (g : string * V -> W) k (d : list (string * V)) :
  find (fun kv : string * W => String.eqb (fst kv) k) (map (fun kv => (fst kv, g kv)) d) =
  option_map (fun kv => (fst kv, g kv)) (find (fun kv => String.eqb (fst kv) k) d).
Proof.
  induction d as [|kv d IH]; [reflexivity|]. cbn [map find fst]. destruct (String.eqb (fst kv) k); [reflexivity | exact IH].
Qed.

(* the id -> object dictionary after the first loop: ids paired with allocation indices *)
Lemma find_combine_seq pre id post s :
  ~ In id pre ->
  find (fun kv : string * nat => String.eqb (fst kv) id) (combine (pre ++ id :: post) (seq s (length (pre ++ id :: post)))) =
  Some (id, s + length pre).
Proof.
  revert s. induction pre as [|p pre IH]; intros s Hn.
  - cbn [app length seq combine find fst]. rewrite String.eqb_refl. f_equal. f_equal. lia.
  - cbn [app length seq combine find fst].
    destruct (String.eqb p id) eqn:E; [apply String.eqb_eq in E; exfalso; apply Hn; left; exact E|].
    change (length (pre ++ id :: post)) with (length (pre ++ id :: post)).
    rewrite (IH (S s)) by (intros X; apply Hn; right; exact X). f_equal. f_equal. cbn [length]. lia.
Qed.

Lemma map_fst_combine_seq (ids : list string) s : map fst (combine ids (seq s (length ids))) = ids.
Proof. revert s. induction ids as [|i ids IH]; intros s; [reflexivity|]. cbn [length seq combine map fst]. rewrite IH. reflexivity. Qed.

Lemma map_snd_combine_seq (ids : list string) s : map snd (combine ids (seq s (length ids))) = seq s (length ids).
Proof. revert s. induction ids as [|i ids IH]; intros s; [reflexivity|]. cbn [length seq combine map snd]. rewrite IH. reflexivity. Qed.

(* ====================================================================== *)
(* 1. The generated function is these loops (conversion)                    *)
(* ====================================================================== *)
Definition E_contract := ETealer "{} not found in listed contracts".
Definition E_function := ETealer "{} not found in {} functions.".
Definition E_app_is_lsig := ETealer "{} is a logic-sig but is given as an application.".
Definition E_lsig_is_app := ETealer "{} is an application but is given as a logic-sig.".
Definition E_repeated := ETealer "{} is repeated in the same group.".
Definition E_foreign := ETealer "other_txn_id: {} is not present in the same group".
Definition E_same_abs := ETealer "Two transactions have same absolute index {}, {}".

Definition body1 (contracts : list (string * tcontract)) (st : list tobj * list (string * nat)) (txn : GroupConfigTransaction)
  : rs (list tobj * list (string * nat)) :=
  let '(heap, txn_id_to_obj) := st in
  let txn_obj := length heap in
  let heap := heap ++ [Transaction_init] in
  let heap := hset heap txn_obj (set_o_transacton_id (ct_txn_id txn)) in
  rbind (sdict_get (ct_txn_type txn) USER_CONFIG_TRANSACTION_TYPES) (fun tmp1 =>
  let heap := hset heap txn_obj (set_o_type tmp1) in
  rbind (match ct_has_logic_sig txn with
         | Some tmp2 => let heap := hset heap txn_obj (set_o_has_logic_sig tmp2) in Ok heap
         | None => Ok heap
         end) (fun st : list tobj =>
  let heap := st in
  let heap := hset heap txn_obj (set_o_absoulte_index (ct_absolute_index txn)) in
  rbind (match ct_application txn with
         | Some tmp3 =>
             rbind (_get_function_from_config_gen tmp3 contracts) (fun tmp4 =>
             let app_function := tmp4 in
             if String.eqb (c_contract_type (fn_contract app_function)) "LogicSig"
             then Raise E_app_is_lsig
             else let heap := hset heap txn_obj (set_o_application (Some app_function)) in Ok heap)
         | None => Ok heap
         end) (fun st : list tobj =>
  let heap := st in
  rbind (match ct_logic_sig txn with
         | Some tmp5 =>
             rbind (_get_function_from_config_gen tmp5 contracts) (fun tmp6 =>
             let logic_sig_function := tmp6 in
             if negb (String.eqb (c_contract_type (fn_contract logic_sig_function)) "LogicSig")
             then Raise E_lsig_is_app
             else let heap := hset heap txn_obj (set_o_logic_sig (Some logic_sig_function)) in
                  let heap := hset heap txn_obj (set_o_has_logic_sig true) in Ok heap)
         | None => Ok heap
         end) (fun st : list tobj =>
  let heap := st in
  if sdict_mem (ct_txn_id txn) txn_id_to_obj
  then Raise E_repeated
  else let txn_id_to_obj := sdict_set (ct_txn_id txn) txn_obj txn_id_to_obj in Ok (heap, txn_id_to_obj))))).

Definition inner2 (txn_id_to_obj : list (string * nat)) (txn_obj : nat) (r : list (string * Z)) (st : list tobj) (other_txn_id : string)
  : rs (list tobj) :=
  let heap := st in
  if negb (sdict_mem other_txn_id txn_id_to_obj)
  then Raise E_foreign
  else rbind (sdict_get other_txn_id r) (fun tmp9 =>
       let offset := tmp9 in
       rbind (sdict_get other_txn_id txn_id_to_obj) (fun tmp10 =>
       let heap := hset heap txn_obj (fun o => set_o_relative_indexes (zdict_set offset tmp10 (o_relative_indexes o)) o) in
       Ok heap)).

Definition body2 (txn_id_to_obj : list (string * nat)) (st : list tobj * gobj) (txn : GroupConfigTransaction) : rs (list tobj * gobj) :=
  let '(heap, group_obj) := st in
  rbind (sdict_get (ct_txn_id txn) txn_id_to_obj) (fun tmp7 =>
  let txn_obj := tmp7 in
  let heap := hset heap txn_obj (set_o_group_transaction true) in
  rbind (match ct_relative_indexes txn with
         | Some tmp8 => rbind (foldE (inner2 txn_id_to_obj txn_obj tmp8) (dict_keys tmp8) heap) (fun st : list tobj => let heap := st in Ok heap)
         | None => Ok heap
         end) (fun st : list tobj =>
  let heap := st in
  rbind (match o_absoulte_index (hread heap txn_obj) with
         | Some tmp11 =>
             if zdict_mem tmp11 (gr_absolute_indexes group_obj)
             then Raise E_same_abs
             else let group_obj := set_gr_absolute_indexes (zdict_set tmp11 txn_obj (gr_absolute_indexes group_obj)) group_obj in Ok group_obj
         | None => Ok group_obj
         end) (fun st : gobj =>
  let group_obj := st in
  Ok (heap, group_obj)))).

Lemma init_group_gen_unfold contracts txn_config :
  init_group_gen contracts txn_config =
  rbind (foldE (body1 contracts) (cg_transactions txn_config) ([], [])) (fun st =>
  let '(heap, txn_id_to_obj) := st in
  let group_obj := set_gr_transactions (dict_values txn_id_to_obj) (set_gr_operation_name (cg_operation txn_config) GroupTransaction_init) in
  rbind (foldE (body2 txn_id_to_obj) (cg_transactions txn_config) (heap, group_obj)) (fun st =>
  let '(heap, group_obj) := st in
  rbind (call_fill_group_relative_indexes heap group_obj) (fun group_obj => Ok (heap, group_obj)))).
Proof. reflexivity. Qed.

(* ====================================================================== *)
(* 2. _get_function_from_config                                             *)
(* ====================================================================== *)
Definition lookup_fn (cs : list (string * tcontract)) (fc : GroupConfigFunctionCall) : rs fn_obj :=
  match find (fun kv => String.eqb (fst kv) (fc_contract fc)) cs with
  | None => Raise E_contract
  | Some (_, c) =>
      match find (fun kv => String.eqb (fst kv) (fc_function fc)) (c_functions c) with
      | None => Raise E_function
      | Some (_, k) => Ok (k, c)
      end
  end.

Theorem get_function_from_config_gen_eq fc cs : _get_function_from_config_gen fc cs = lookup_fn cs fc.
Proof.
  unfold _get_function_from_config_gen, lookup_fn. rewrite sdict_mem_find, sdict_get_find.
  destruct (find (fun kv : string * tcontract => String.eqb (fst kv) (fc_contract fc)) cs) as [[n c]|]; [|reflexivity].
  cbn [negb rbind snd]. rewrite sdict_mem_find, sdict_get_find. unfold c_functions_objs.
  rewrite (find_map_fst (fun kv : string * nat => (snd kv, c))).
  destruct (find (fun kv : string * nat => String.eqb (fst kv) (fc_function fc)) (c_functions c)) as [[fnm k]|]; reflexivity.
Qed.

(* ====================================================================== *)
(* 3. First loop = phase1                                                   *)
(* ====================================================================== *)
Definition resolve_app (cs : list (string * tcontract)) (o : option GroupConfigFunctionCall) : rs (option fn_obj) :=
  match o with
  | None => Ok None
  | Some fc => rbind (lookup_fn cs fc) (fun f => if String.eqb (c_contract_type (snd f)) "LogicSig" then Raise E_app_is_lsig else Ok (Some f))
  end.
Definition resolve_lsig (cs : list (string * tcontract)) (o : option GroupConfigFunctionCall) : rs (option fn_obj) :=
  match o with
  | None => Ok None
  | Some fc => rbind (lookup_fn cs fc) (fun f => if String.eqb (c_contract_type (snd f)) "LogicSig" then Ok (Some f) else Raise E_lsig_is_app)
  end.
Definition cfg_has_logic_sig (e : GroupConfigTransaction) : bool :=
  match ct_logic_sig e with
  | Some _ => true
  | None => match ct_has_logic_sig e with Some b => b | None => false end
  end.

(* the object of one entry after the first loop *)
Definition entry_obj (cs : list (string * tcontract)) (e : GroupConfigTransaction) : rs tobj :=
  rbind (sdict_get (ct_txn_type e) USER_CONFIG_TRANSACTION_TYPES) (fun ty =>
  rbind (resolve_app cs (ct_application e)) (fun app =>
  rbind (resolve_lsig cs (ct_logic_sig e)) (fun ls =>
  Ok (mkTobj ty (cfg_has_logic_sig e) ls app (ct_absolute_index e) [] false (ct_txn_id e))))).

Lemma body1_eq cs h d e :
  body1 cs (h, d) e =
  rbind (entry_obj cs e) (fun o =>
  if sdict_mem (ct_txn_id e) d then Raise E_repeated else Ok (h ++ [o], sdict_set (ct_txn_id e) (length h) d)).
Proof.
  unfold body1, entry_obj, cfg_has_logic_sig. rewrite hset_last.
  destruct (sdict_get (ct_txn_type e) USER_CONFIG_TRANSACTION_TYPES) as [ty|x]; [|reflexivity].
  cbn [rbind]. rewrite hset_last.
  destruct (ct_has_logic_sig e) as [b|]; cbn [rbind]; rewrite ?hset_last.
  - destruct (ct_application e) as [fa|]; cbn [rbind resolve_app].
    + rewrite get_function_from_config_gen_eq. destruct (lookup_fn cs fa) as [f|x]; [|reflexivity]. cbn [rbind]. unfold fn_contract.
      destruct (String.eqb (c_contract_type (snd f)) "LogicSig"); [reflexivity|]. cbn [rbind]. rewrite hset_last.
      destruct (ct_logic_sig e) as [fl|]; cbn [rbind resolve_lsig].
      * rewrite get_function_from_config_gen_eq. destruct (lookup_fn cs fl) as [g|x]; [|reflexivity]. cbn [rbind].
        destruct (String.eqb (c_contract_type (snd g)) "LogicSig"); cbn [negb]; [|reflexivity]. cbn [rbind]. rewrite !hset_last. reflexivity.
      * reflexivity.
    + destruct (ct_logic_sig e) as [fl|]; cbn [rbind resolve_lsig].
      * rewrite get_function_from_config_gen_eq. destruct (lookup_fn cs fl) as [g|x]; [|reflexivity]. cbn [rbind]. unfold fn_contract.
        destruct (String.eqb (c_contract_type (snd g)) "LogicSig"); cbn [negb]; [|reflexivity]. cbn [rbind]. rewrite !hset_last. reflexivity.
      * reflexivity.
  - destruct (ct_application e) as [fa|]; cbn [rbind resolve_app].
    + rewrite get_function_from_config_gen_eq. destruct (lookup_fn cs fa) as [f|x]; [|reflexivity]. cbn [rbind]. unfold fn_contract.
      destruct (String.eqb (c_contract_type (snd f)) "LogicSig"); [reflexivity|]. cbn [rbind]. rewrite hset_last.
      destruct (ct_logic_sig e) as [fl|]; cbn [rbind resolve_lsig].
      * rewrite get_function_from_config_gen_eq. destruct (lookup_fn cs fl) as [g|x]; [|reflexivity]. cbn [rbind].
        destruct (String.eqb (c_contract_type (snd g)) "LogicSig"); cbn [negb]; [|reflexivity]. cbn [rbind]. rewrite !hset_last. reflexivity.
      * reflexivity.
    + destruct (ct_logic_sig e) as [fl|]; cbn [rbind resolve_lsig].
      * rewrite get_function_from_config_gen_eq. destruct (lookup_fn cs fl) as [g|x]; [|reflexivity]. cbn [rbind]. unfold fn_contract.
        destruct (String.eqb (c_contract_type (snd g)) "LogicSig"); cbn [negb]; [|reflexivity]. cbn [rbind]. rewrite !hset_last. reflexivity.
      * reflexivity.
Qed.

Fixpoint phase1 (cs : list (string * tcontract)) (es : list GroupConfigTransaction) (seen : list string) : rs (list tobj) :=
  match es with
  | [] => Ok []
  | e :: t =>
      rbind (entry_obj cs e) (fun o =>
      if smem (ct_txn_id e) seen then Raise E_repeated
      else rbind (phase1 cs t (seen ++ [ct_txn_id e])) (fun os => Ok (o :: os)))
  end.

Lemma loop1_eq cs : forall es h d,
  foldE (body1 cs) es (h, d) =
  rbind (phase1 cs es (map fst d)) (fun os => Ok (h ++ os, d ++ combine (map ct_txn_id es) (seq (length h) (length es)))).
Proof.
  induction es as [|e es IH]; intros h d.
  - cbn [foldE phase1 rbind map length seq combine]. rewrite !app_nil_r. reflexivity.
  - cbn [foldE phase1]. rewrite body1_eq. destruct (entry_obj cs e) as [o|x]; [|reflexivity]. cbn [rbind].
    rewrite sdict_mem_keys. destruct (smem (ct_txn_id e) (map fst d)) eqn:Em; [reflexivity|]. cbn [rbind].
    rewrite sdict_set_new by (rewrite sdict_mem_keys; exact Em).
    rewrite IH. rewrite map_app. cbn [map fst].
    destruct (phase1 cs es (map fst d ++ [ct_txn_id e])) as [os|x]; [|reflexivity]. cbn [rbind].
    rewrite app_length. cbn [length map seq combine]. rewrite Nat.add_1_r, <- !app_assoc. reflexivity.
Qed.

(* ====================================================================== *)
(* 4. Second loop = phase2                                                  *)
(* ====================================================================== *)
(* txn.relative_indexes (id -> offset) is turned over into txn_obj.relative_indexes (offset -> object) *)
Definition rel_step (D : list (string * nat)) (r : list (string * Z)) (acc : list (Z * nat)) (oid : string) : rs (list (Z * nat)) :=
  if sdict_mem oid D
  then rbind (sdict_get oid r) (fun off => rbind (sdict_get oid D) (fun j => Ok (zdict_set off j acc)))
  else Raise E_foreign.
Definition rel_of (D : list (string * nat)) (r : option (list (string * Z))) (acc : list (Z * nat)) : rs (list (Z * nat)) :=
  match r with
  | None => Ok acc
  | Some r => foldE (rel_step D r) (dict_keys r) acc
  end.
Definition abs_step (i : nat) (a : option Z) (g : gobj) : rs gobj :=
  match a with
  | Some a => if zdict_mem a (gr_absolute_indexes g) then Raise E_same_abs
              else Ok (set_gr_absolute_indexes (zdict_set a i (gr_absolute_indexes g)) g)
  | None => Ok g
  end.

Lemma set_rel_same o : set_o_relative_indexes (o_relative_indexes o) o = o.
Proof. destruct o; reflexivity. Qed.

Lemma inner2_eq D i r pre post : length pre = i -> forall keys o,
  foldE (inner2 D i r) keys (pre ++ o :: post) =
  rbind (foldE (rel_step D r) keys (o_relative_indexes o)) (fun rel => Ok (pre ++ set_o_relative_indexes rel o :: post)).
Proof.
  intros Hi. induction keys as [|k keys IH]; intros o.
  - cbn [foldE rbind]. destruct o; reflexivity.
  - cbn [foldE]. unfold inner2 at 1, rel_step at 1.
    destruct (sdict_mem k D); cbn [negb]; [|reflexivity].
    destruct (sdict_get k r) as [off|x]; [|reflexivity]. cbn [rbind].
    destruct (sdict_get k D) as [j|x]; [|reflexivity]. cbn [rbind].
    rewrite (hset_here pre o post i _ Hi). rewrite IH. destruct o; reflexivity.
Qed.

Lemma body2_eq D i e pre o post g :
  length pre = i -> sdict_get (ct_txn_id e) D = Ok i ->
  body2 D (pre ++ o :: post, g) e =
  rbind (rel_of D (ct_relative_indexes e) (o_relative_indexes o)) (fun rel =>
  rbind (abs_step i (o_absoulte_index o) g) (fun g' =>
  Ok (pre ++ set_o_relative_indexes rel (set_o_group_transaction true o) :: post, g'))).
Proof.
  intros Hi Hg. unfold body2. rewrite Hg. cbn [rbind]. rewrite (hset_here pre o post i _ Hi). unfold rel_of.
  destruct (ct_relative_indexes e) as [r|].
  - rewrite (inner2_eq D i r pre post Hi). cbn [set_o_group_transaction o_relative_indexes].
    destruct (foldE (rel_step D r) (dict_keys r) (o_relative_indexes o)) as [rel|x]; [|reflexivity]. cbn [rbind].
    rewrite (hread_here pre _ post i Hi). cbn [set_o_relative_indexes set_o_group_transaction o_absoulte_index]. unfold abs_step.
    destruct (o_absoulte_index o) as [a|]; [destruct (zdict_mem a (gr_absolute_indexes g))|]; reflexivity.
  - cbn [rbind]. rewrite (hread_here pre _ post i Hi). unfold abs_step. destruct o as [ty hl ls ap ab rl gt id].
    cbn [set_o_group_transaction set_o_relative_indexes o_absoulte_index o_relative_indexes o_type o_has_logic_sig o_logic_sig o_application o_group_transaction o_transacton_id].
    destruct ab as [a|]; [destruct (zdict_mem a (gr_absolute_indexes g))|]; reflexivity.
Qed.

Fixpoint phase2 (D : list (string * nat)) (i : nat) (es : list GroupConfigTransaction) (todo : list tobj) (g : gobj) : rs (list tobj * gobj) :=
  match es, todo with
  | e :: es', o :: todo' =>
      rbind (rel_of D (ct_relative_indexes e) (o_relative_indexes o)) (fun rel =>
      rbind (abs_step i (o_absoulte_index o) g) (fun g' =>
      rbind (phase2 D (S i) es' todo' g') (fun r =>
      Ok (set_o_relative_indexes rel (set_o_group_transaction true o) :: fst r, snd r))))
  | _, _ => Ok ([], g)
  end.

Lemma loop2_eq D : forall es todo done g,
  length todo = length es ->
  (forall k e, nth_error es k = Some e -> sdict_get (ct_txn_id e) D = Ok (length done + k)) ->
  foldE (body2 D) es (done ++ todo, g) = rbind (phase2 D (length done) es todo g) (fun r => Ok (done ++ fst r, snd r)).
Proof.
  induction es as [|e es IH]; intros todo done g Hl Hk.
  - destruct todo; [|discriminate]. cbn [foldE phase2 rbind fst snd]. reflexivity.
  - destruct todo as [|o todo]; [discriminate|]. cbn [foldE phase2].
    rewrite (body2_eq D (length done) e done o todo g eq_refl).
    2:{ rewrite (Hk 0 e eq_refl). f_equal. lia. }
    destruct (rel_of D (ct_relative_indexes e) (o_relative_indexes o)) as [rel|x]; [|reflexivity]. cbn [rbind].
    destruct (abs_step (length done) (o_absoulte_index o) g) as [g'|x]; [|reflexivity]. cbn [rbind].
    change (done ++ set_o_relative_indexes rel (set_o_group_transaction true o) :: todo)
      with (done ++ [set_o_relative_indexes rel (set_o_group_transaction true o)] ++ todo).
    rewrite app_assoc. rewrite IH.
    + rewrite app_length. cbn [length]. rewrite Nat.add_1_r.
      destruct (phase2 D (S (length done)) es todo g') as [[os g'']|x]; [|reflexivity]. cbn [rbind fst snd].
      rewrite <- app_assoc. reflexivity.
    + cbn [length] in Hl. lia.
    + intros k e' Hn. rewrite (Hk (S k) e' Hn). rewrite app_length. cbn [length]. f_equal. lia.
Qed.

(* ====================================================================== *)
(* 5. init_group_gen = a heap-free functional program                       *)
(* ====================================================================== *)
Definition id_table (es : list GroupConfigTransaction) : list (string * nat) :=
  combine (map ct_txn_id es) (seq 0 (length es)).
Definition group0 (grp : GroupConfigGroup) : gobj :=
  mkGobj (seq 0 (length (cg_transactions grp))) [] [] (cg_operation grp).

Definition init_group_spec (cs : list (string * tcontract)) (grp : GroupConfigGroup) : rs (list tobj * gobj) :=
  let es := cg_transactions grp in
  rbind (phase1 cs es []) (fun os =>
  rbind (phase2 (id_table es) 0 es os (group0 grp)) (fun r =>
  rbind (call_fill_group_relative_indexes (fst r) (snd r)) (fun g => Ok (fst r, g)))).

Lemma phase1_length cs : forall es seen os, phase1 cs es seen = Ok os -> length os = length es.
Proof.
  induction es as [|e es IH]; intros seen os H; cbn [phase1] in H.
  - inversion H. reflexivity.
  - destruct (rbind_ok_inv _ _ _ H) as (o & _ & H1). destruct (smem (ct_txn_id e) seen); [discriminate|].
    destruct (rbind_ok_inv _ _ _ H1) as (os' & H2 & H3). inversion H3. cbn [length]. f_equal. exact (IH _ _ H2).
Qed.

Lemma phase1_nodup cs : forall es seen os, phase1 cs es seen = Ok os ->
  NoDup (map ct_txn_id es) /\ forall id, In id (map ct_txn_id es) -> ~ In id seen.
Proof.
  induction es as [|e es IH]; intros seen os H; cbn [phase1] in H.
  - split; [constructor | intros id []].
  - destruct (rbind_ok_inv _ _ _ H) as (o & _ & H1). destruct (smem (ct_txn_id e) seen) eqn:Em; [discriminate|].
    destruct (rbind_ok_inv _ _ _ H1) as (os' & H2 & _). destruct (IH _ _ H2) as [Hn Hd]. cbn [map]. split.
    + constructor; [|exact Hn]. intros Hin. apply (Hd _ Hin). apply in_or_app. right. left. reflexivity.
    + intros id [<-|Hin]; [apply smem_false; exact Em|]. intros Hs. apply (Hd _ Hin). apply in_or_app. left. exact Hs.
Qed.

Lemma id_table_get es : NoDup (map ct_txn_id es) ->
  forall k e, nth_error es k = Some e -> sdict_get (ct_txn_id e) (id_table es) = Ok k.
Proof.
  intros Hn k e Hk. destruct (nth_error_split es k Hk) as (pre & post & -> & Hl).
  unfold id_table. rewrite sdict_get_find. rewrite map_app in *. cbn [map] in *.
  replace (length (pre ++ e :: post)) with (length (map ct_txn_id pre ++ ct_txn_id e :: map ct_txn_id post))
    by (rewrite !app_length; cbn [length]; rewrite !map_length; reflexivity).
  rewrite find_combine_seq.
  - cbn [snd]. rewrite map_length, Hl. reflexivity.
  - apply NoDup_remove_2 in Hn. intros X. apply Hn. apply in_or_app. left. exact X.
Qed.

Lemma id_table_values es : map snd (id_table es) = seq 0 (length es).
Proof. unfold id_table. generalize 0. induction es as [|e es IH]; intros s; cbn [map length seq combine snd]; [reflexivity | rewrite IH; reflexivity]. Qed.

Theorem init_group_gen_spec cs grp : init_group_gen cs grp = init_group_spec cs grp.
Proof.
  rewrite init_group_gen_unfold. unfold init_group_spec. rewrite loop1_eq. cbn [map length app].
  destruct (phase1 cs (cg_transactions grp) []) as [os|x] eqn:E1; [|reflexivity]. cbn [rbind].
  change (combine (map ct_txn_id (cg_transactions grp)) (seq 0 (length (cg_transactions grp)))) with (id_table (cg_transactions grp)).
  unfold dict_values. rewrite id_table_values.
  change (set_gr_transactions (seq 0 (length (cg_transactions grp))) (set_gr_operation_name (cg_operation grp) GroupTransaction_init))
    with (group0 grp).
  change os with ([] ++ os) at 1. rewrite loop2_eq.
  - cbn [length app]. destruct (phase2 (id_table (cg_transactions grp)) 0 (cg_transactions grp) os (group0 grp)) as [[os' g]|x]; reflexivity.
  - exact (phase1_length _ _ _ _ E1).
  - intros k e Hk. cbn [length Nat.add]. apply id_table_get; [|exact Hk]. exact (proj1 (phase1_nodup _ _ _ _ E1)).
Qed.
Print Assumptions init_group_gen_spec.

(* ====================================================================== *)
(* 6. The objects ARE the model's records                                   *)
(* ====================================================================== *)
Definition cfg_type (e : GroupConfigTransaction) : string :=
  match sdict_get (ct_txn_type e) USER_CONFIG_TRANSACTION_TYPES with Ok s => s | Raise _ => "" end.
Definition cfg_fn (cs : list (string * tcontract)) (o : option GroupConfigFunctionCall) : option nat :=
  match o with
  | Some fc => match lookup_fn cs fc with Ok f => Some (fst f) | Raise _ => None end
  | None => None
  end.
Definition zlookup (oid : string) (r : list (string * Z)) : Z :=
  match find (fun kv => String.eqb (fst kv) oid) r with Some kv => snd kv | None => 0%Z end.
(* the configured pairs (offset, other id), in listing order *)
Definition cfg_rel_pairs (e : GroupConfigTransaction) : list (Z * string) :=
  match ct_relative_indexes e with
  | None => []
  | Some r => map (fun oid => (zlookup oid r, oid)) (dict_keys r)
  end.
(* the model record of a configuration entry, as the request format of the model gives it (g_rel = the pairs) .. *)
Definition raw_gtxn (cs : list (string * tcontract)) (e : GroupConfigTransaction) : gtxn :=
  mkTxn (ct_txn_id e) (cfg_type e) (cfg_has_logic_sig e) (cfg_fn cs (ct_logic_sig e)) (cfg_fn cs (ct_application e))
        (option_map abs_slot (ct_absolute_index e)) (cfg_rel_pairs e).
(* .. and with its relative indexes in the form the model itself reads them (Group.rel_dict: a later pair for the same
   offset replaces the earlier one in place) *)
Definition normalize (t : gtxn) : gtxn :=
  mkTxn (g_id t) (g_type t) (g_has_logic_sig t) (g_logic_sig t) (g_application t) (g_abs t) (rel_dict t).
Definition cfg_gtxn (cs : list (string * tcontract)) (e : GroupConfigTransaction) : gtxn := normalize (raw_gtxn cs e).

Definition phi (ids : list string) (kv : Z * nat) : Z * string := (fst kv, nth (snd kv) ids "").
Definition view_with (ids : list string) (o : tobj) : gtxn :=
  mkTxn (o_transacton_id o) (o_type o) (o_has_logic_sig o) (option_map fst (o_logic_sig o)) (option_map fst (o_application o))
        (option_map abs_slot (o_absoulte_index o)) (map (phi ids) (o_relative_indexes o)).

Lemma fold_left_map' {A B C} (f : A -> C -> A) (g : B -> C) l a : fold_left f (map g l) a = fold_left (fun a x => f a (g x)) l a.
Proof. revert a. induction l as [|x l IH]; intros a; [reflexivity|]. cbn [map fold_left]. apply IH. Qed.

Lemma map_phi_zdict_set ids k j d : map (phi ids) (zdict_set k j d) = Group.dict_set k (nth j ids "") (map (phi ids) d).
Proof.
  unfold zdict_set. induction d as [|[k' v'] d IH]; [reflexivity|].
  cbn [GroupGen.dict_set map Group.dict_set phi fst snd]. rewrite (Z.eqb_sym k k').
  destruct (Z.eqb k' k) eqn:E.
  - apply Z.eqb_eq in E. subst k'. reflexivity.
  - cbn [map phi fst snd]. f_equal. exact IH.
Qed.

Lemma id_table_nth_gen (ids : list string) k : forall s j,
  find (fun kv : string * nat => String.eqb (fst kv) k) (combine ids (seq s (length ids))) = Some j ->
  s <= snd j /\ nth (snd j - s) ids "" = k.
Proof.
  induction ids as [|i ids IH]; intros s j H; [discriminate|].
  cbn [length seq combine find fst] in H. destruct (String.eqb i k) eqn:E.
  - inversion H; subst j. cbn [snd]. rewrite Nat.sub_diag. apply String.eqb_eq in E. split; [lia | exact E].
  - destruct (IH (S s) j H) as [Hle Hn]. split; [lia|]. replace (snd j - s) with (S (snd j - S s)) by lia. exact Hn.
Qed.

Lemma id_table_nth es k j : sdict_get k (id_table es) = Ok j -> nth j (map ct_txn_id es) "" = k.
Proof.
  unfold id_table. rewrite sdict_get_find. rewrite <- (map_length ct_txn_id es).
  destruct (find _ _) as [kv|] eqn:E; [|discriminate]. intros H. inversion H; subst j.
  destruct (id_table_nth_gen _ _ _ _ E) as [_ Hn]. rewrite Nat.sub_0_r in Hn. exact Hn.
Qed.

Lemma rel_fold_view es r : forall keys acc rel,
  foldE (rel_step (id_table es) r) keys acc = Ok rel ->
  map (phi (map ct_txn_id es)) rel =
  fold_left (fun d oid => Group.dict_set (zlookup oid r) oid d) keys (map (phi (map ct_txn_id es)) acc).
Proof.
  induction keys as [|k keys IH]; intros acc rel H.
  - inversion H. reflexivity.
  - cbn [foldE] in H. destruct (rbind_ok_inv _ _ _ H) as (acc' & H1 & H2). cbn [fold_left].
    rewrite (IH _ _ H2). f_equal. unfold rel_step in H1.
    destruct (sdict_mem k (id_table es)); [|discriminate].
    destruct (rbind_ok_inv _ _ _ H1) as (off & Ho & H3). destruct (rbind_ok_inv _ _ _ H3) as (j & Hj & H4).
    inversion H4. rewrite map_phi_zdict_set. rewrite (id_table_nth _ _ _ Hj).
    unfold zlookup. rewrite sdict_get_find in Ho. destruct (find _ r) as [kv|]; [|discriminate]. inversion Ho. reflexivity.
Qed.

Lemma rel_of_view es e rel :
  rel_of (id_table es) (ct_relative_indexes e) [] = Ok rel ->
  map (phi (map ct_txn_id es)) rel = rel_dict (raw_gtxn (@nil (string * tcontract)) e).
Proof.
  unfold rel_of, rel_dict, raw_gtxn, cfg_rel_pairs. cbn [g_rel]. destruct (ct_relative_indexes e) as [r|].
  - intros H. rewrite (rel_fold_view es r _ _ _ H). rewrite fold_left_map'. reflexivity.
  - intros H. inversion H. reflexivity.
Qed.

Lemma rel_dict_raw cs cs' e : rel_dict (raw_gtxn cs e) = rel_dict (raw_gtxn cs' e).
Proof. reflexivity. Qed.

Lemma resolve_app_fn cs o app : resolve_app cs o = Ok app -> option_map fst app = cfg_fn cs o.
Proof.
  destruct o as [fc|]; cbn [resolve_app cfg_fn]; intros H; [|inversion H; reflexivity].
  destruct (lookup_fn cs fc) as [f|x]; [|discriminate]. cbn [rbind] in H.
  destruct (String.eqb (c_contract_type (snd f)) "LogicSig"); [discriminate|]. inversion H. reflexivity.
Qed.

Lemma resolve_lsig_fn cs o ls : resolve_lsig cs o = Ok ls -> option_map fst ls = cfg_fn cs o.
Proof.
  destruct o as [fc|]; cbn [resolve_lsig cfg_fn]; intros H; [|inversion H; reflexivity].
  destruct (lookup_fn cs fc) as [f|x]; [|discriminate]. cbn [rbind] in H.
  destruct (String.eqb (c_contract_type (snd f)) "LogicSig"); [|discriminate]. inversion H. reflexivity.
Qed.

Lemma entry_obj_view cs ids e o rel :
  entry_obj cs e = Ok o ->
  view_with ids (set_o_relative_indexes rel (set_o_group_transaction true o)) =
  mkTxn (ct_txn_id e) (cfg_type e) (cfg_has_logic_sig e) (cfg_fn cs (ct_logic_sig e)) (cfg_fn cs (ct_application e))
        (option_map abs_slot (ct_absolute_index e)) (map (phi ids) rel) /\
  o_relative_indexes o = [] /\ o_absoulte_index o = ct_absolute_index e /\ o_transacton_id o = ct_txn_id e.
Proof.
  unfold entry_obj, cfg_type. intros H.
  destruct (sdict_get (ct_txn_type e) USER_CONFIG_TRANSACTION_TYPES) as [ty|x]; [|discriminate]. cbn [rbind] in H.
  destruct (resolve_app cs (ct_application e)) as [app|x] eqn:Ea; [|discriminate]. cbn [rbind] in H.
  destruct (resolve_lsig cs (ct_logic_sig e)) as [ls|x] eqn:El; [|discriminate]. cbn [rbind] in H.
  inversion H. unfold view_with.
  cbn [set_o_relative_indexes set_o_group_transaction o_absoulte_index o_relative_indexes o_type o_has_logic_sig o_logic_sig o_application o_group_transaction o_transacton_id].
  rewrite (resolve_app_fn _ _ _ Ea), (resolve_lsig_fn _ _ _ El). repeat split; reflexivity.
Qed.

Lemma phase1_objs cs : forall es seen os, phase1 cs es seen = Ok os -> Forall2 (fun e o => entry_obj cs e = Ok o) es os.
Proof.
  induction es as [|e es IH]; intros seen os H; cbn [phase1] in H.
  - inversion H. constructor.
  - destruct (rbind_ok_inv _ _ _ H) as (o & Ho & H1). destruct (smem (ct_txn_id e) seen); [discriminate|].
    destruct (rbind_ok_inv _ _ _ H1) as (os' & H2 & H3). inversion H3. constructor; [exact Ho | exact (IH _ _ H2)].
Qed.

Definition abs_pairs (i : nat) (es : list GroupConfigTransaction) : list (Z * nat) :=
  flat_map (fun p => match ct_absolute_index (fst p) with Some a => [(a, snd p)] | None => [] end) (combine es (seq i (length es))).

Lemma zdict_set_new {V} k (v : V) d : zdict_mem k d = false -> zdict_set k v d = d ++ [(k, v)].
Proof.
  intros H. unfold zdict_set. apply dict_set_new. intros kv Hkv.
  unfold zdict_mem in H. destruct (Z.eqb (fst kv) k) eqn:E; [|reflexivity].
  assert (X : existsb (fun kv0 : Z * V => Z.eqb (fst kv0) k) d = true) by (apply existsb_exists; exists kv; split; assumption).
  rewrite X in H. discriminate.
Qed.

Lemma phase2_view cs all : forall es todo i g os' g',
  phase2 (id_table all) i es todo g = Ok (os', g') ->
  Forall2 (fun e o => entry_obj cs e = Ok o) es todo ->
  map (view_with (map ct_txn_id all)) os' = map (cfg_gtxn cs) es /\
  map o_transacton_id os' = map ct_txn_id es /\
  Forall (fun o => o_group_transaction o = true) os' /\
  gr_transactions g' = gr_transactions g /\ gr_operation_name g' = gr_operation_name g /\
  gr_group_relative_indexes g' = gr_group_relative_indexes g /\
  gr_absolute_indexes g' = gr_absolute_indexes g ++ abs_pairs i es.
Proof.
  induction es as [|e es IH]; intros todo i g os' g' H HF.
  - inversion HF; subst. cbn [phase2] in H. inversion H; subst. cbn [map abs_pairs length seq combine flat_map]. rewrite app_nil_r.
    repeat split; try reflexivity. constructor.
  - inversion HF as [|e0 o es0 todo' Ho HF']; subst. cbn [phase2] in H.
    destruct (entry_obj_view cs (map ct_txn_id all) e o [] Ho) as (_ & Hr & Ha & Hi).
    rewrite Hr, Ha in H.
    destruct (rbind_ok_inv _ _ _ H) as (rel & Hrel & H1). destruct (rbind_ok_inv _ _ _ H1) as (g1 & Hg1 & H2).
    destruct (rbind_ok_inv _ _ _ H2) as ([os1 g2] & H3 & H4). cbn [fst snd] in H4. inversion H4; subst os' g'.
    destruct (IH _ _ _ _ _ H3 HF') as (V & I & G & T & O & R & A).
    destruct (entry_obj_view cs (map ct_txn_id all) e o rel Ho) as (Hv & _).
    cbn [map]. rewrite Hv, V, I. unfold cfg_gtxn at 2, normalize. cbn [raw_gtxn g_id g_type g_has_logic_sig g_logic_sig g_application g_abs].
    rewrite (rel_of_view all e rel Hrel). rewrite (rel_dict_raw nil cs).
    assert (Hg : gr_transactions g1 = gr_transactions g /\ gr_operation_name g1 = gr_operation_name g /\
                 gr_group_relative_indexes g1 = gr_group_relative_indexes g /\
                 gr_absolute_indexes g1 = gr_absolute_indexes g ++ match ct_absolute_index e with Some a => [(a, i)] | None => [] end).
    { unfold abs_step in Hg1. destruct (ct_absolute_index e) as [a|].
      - destruct (zdict_mem a (gr_absolute_indexes g)) eqn:Em; [discriminate|]. inversion Hg1. cbn. rewrite (zdict_set_new _ _ _ Em). repeat split; reflexivity.
      - inversion Hg1. rewrite app_nil_r. repeat split; reflexivity. }
    destruct Hg as (T1 & O1 & R1 & A1).
    split; [reflexivity|]. split; [cbn; rewrite Hi; reflexivity|]. split; [constructor; [reflexivity | exact G]|].
    split. { rewrite T; exact T1. } split. { rewrite O; exact O1. } split. { rewrite R; exact R1. }
    rewrite A, A1, <- app_assoc. reflexivity.
Qed.

Lemma map_nth_seq {A B} (f : A -> B) (d : A) l : map (fun i => f (nth i l d)) (seq 0 (length l)) = map f l.
Proof.
  induction l as [|a l IH]; [reflexivity|]. cbn [length seq map nth]. f_equal.
  rewrite <- seq_shift, map_map. exact IH.
Qed.

Lemma view_txn_with heap i : view_txn heap i = view_with (map o_transacton_id heap) (nth i heap tobj_dangling).
Proof.
  unfold view_txn, view_with, hread. f_equal. apply map_ext. intros kv. unfold phi. f_equal.
  change "" with (o_transacton_id tobj_dangling). rewrite map_nth. reflexivity.
Qed.

(* ---- the main statement about a successful construction *)
Theorem init_group_ok_view cs grp heap g :
  init_group_gen cs grp = Ok (heap, g) ->
  let es := cg_transactions grp in
  view_group heap g = map (cfg_gtxn cs) es /\
  NoDup (map ct_txn_id es) /\
  gr_transactions g = seq 0 (length es) /\ length heap = length es /\
  gr_operation_name g = cg_operation grp /\
  gr_absolute_indexes g = abs_pairs 0 es /\
  Forall (fun o => o_group_transaction o = true) heap /\
  attr_group_relative_indexes (view_group heap g) = Some (gr_group_relative_indexes g).
Proof.
  rewrite init_group_gen_spec. unfold init_group_spec. intros H. cbv zeta. set (es := cg_transactions grp) in *.
  destruct (rbind_ok_inv _ _ _ H) as (os & H1 & H2). destruct (rbind_ok_inv _ _ _ H2) as ([os' g1] & H3 & H4).
  cbn [fst snd] in H4. destruct (rbind_ok_inv _ _ _ H4) as (g2 & H5 & H6). inversion H6; subst heap g.
  destruct (phase2_view cs es es os 0 (group0 grp) os' g1 H3 (phase1_objs _ _ _ _ H1)) as (V & I & G & T & O & R & A).
  cbn [group0 gr_transactions gr_operation_name gr_group_relative_indexes gr_absolute_indexes app] in T, O, R, A.
  unfold call_fill_group_relative_indexes in H5. rewrite R in H5.
  destruct (fill_group_relative_indexes_gen (view_group os' g1) []) as [d|] eqn:Ef; [|discriminate]. cbn [of_py rbind] in H5.
  inversion H5; subst g2.
  assert (Hl : length os' = length es) by (rewrite <- (map_length o_transacton_id os'), I, map_length; reflexivity).
  assert (Hv : view_group os' g1 = map (cfg_gtxn cs) es).
  { unfold view_group. rewrite T. fold es. rewrite <- Hl.
    rewrite (map_ext _ (fun i => view_with (map o_transacton_id os') (nth i os' tobj_dangling)) (view_txn_with os')).
    rewrite map_nth_seq, I. exact V. }
  assert (Hv2 : view_group os' (set_gr_group_relative_indexes d g1) = view_group os' g1) by reflexivity.
  rewrite Hv2, Hv. split; [reflexivity|]. split; [exact (proj1 (phase1_nodup _ _ _ _ H1))|].
  split; [exact T|]. split; [exact Hl|]. split; [exact O|]. split; [exact A|]. split; [exact G|].
  unfold attr_group_relative_indexes. rewrite <- Hv. rewrite Ef. reflexivity.
Qed.
Print Assumptions init_group_ok_view.

(* ====================================================================== *)
(* 7. Composition with the regenerated verdict (Gen/GroupGen.v)             *)
(* ====================================================================== *)
Theorem init_then_verdict_eq funcs checks dtype vtypes cs grp heap g :
  init_group_gen cs grp = Ok (heap, g) ->
  dtype = "STATELESS" \/ dtype = "STATEFULL" ->
  group_ok funcs (map (cfg_gtxn cs) (cg_transactions grp)) ->
  group_verdict_gen funcs checks dtype vtypes (view_group heap g) =
  Some (group_verdict funcs checks dtype vtypes (map (cfg_gtxn cs) (cg_transactions grp))).
Proof.
  intros H Hd Hok. destruct (init_group_ok_view cs grp heap g H) as (V & _). rewrite V.
  apply group_verdict_gen_eq; assumption.
Qed.

(* every transaction-level decision as well *)
Theorem init_then_txn_vulnerable_eq funcs checks dtype vtypes cs grp heap g t :
  init_group_gen cs grp = Ok (heap, g) ->
  group_ok funcs (map (cfg_gtxn cs) (cg_transactions grp)) ->
  In t (view_group heap g) ->
  txn_vulnerable_gen funcs checks dtype vtypes (view_group heap g) t =
  Some (txn_vulnerable funcs checks dtype vtypes (map (cfg_gtxn cs) (cg_transactions grp)) t).
Proof.
  intros H Hok Ht. destruct (init_group_ok_view cs grp heap g H) as (V & _). rewrite V in *.
  apply txn_vulnerable_gen_eq; assumption.
Qed.
Print Assumptions init_then_verdict_eq.

(* ====================================================================== *)
(* 8. init_tealer_from_single_contract                                      *)
(* ====================================================================== *)
(* glue of the slice: teal.functions = {contract_name: function k} *)
Definition single_contract (name ctype : string) (k : nat) : tcontract := mkContract name ctype [(name, k)].

Theorem init_single_gen_spec name ctype k :
  let teal := single_contract name ctype k in
  init_single_gen name teal =
  Ok ([if String.eqb ctype "LogicSig"
       then mkTobj "Any" true (Some (k, teal)) None None [] false name
       else mkTobj "Any" false None (Some (k, teal)) None [] false ""],
      mkGobj [0] [] [] name).
Proof.
  cbv zeta. unfold init_single_gen, single_contract, c_functions_objs, sdict_get. cbn [c_contract_type c_functions map find fst snd].
  rewrite String.eqb_refl. destruct (String.eqb ctype "LogicSig"); reflexivity.
Qed.

(* the one-member group, as the verdict reads it *)
Definition single_gtxn (name ctype : string) (k : nat) : gtxn :=
  if String.eqb ctype "LogicSig" then mkTxn name "Any" true (Some k) None None []
  else mkTxn "" "Any" false None (Some k) None [].

Theorem init_single_view name ctype k :
  exists heap g, init_single_gen name (single_contract name ctype k) = Ok (heap, g) /\
                 view_group heap g = [single_gtxn name ctype k] /\ gr_absolute_indexes g = [] /\ gr_operation_name g = name.
Proof.
  eexists. eexists. split; [apply init_single_gen_spec|]. unfold single_gtxn.
  destruct (String.eqb ctype "LogicSig"); repeat split; reflexivity.
Qed.

(* logic-sig iff the contract type is LogicSig; then the hypotheses of GroupLemmas.single_logic_sig hold, and the
   transaction is reported iff some terminating block of the contract's function is unvalidated *)
Theorem init_single_logic_sig funcs checks dtype vtypes name ctype k f r :
  nth_error funcs k = Some (f, r) ->
  let t := single_gtxn name ctype k in
  (g_logic_sig t = Some k <-> ctype = "LogicSig") /\
  (g_application t = Some k <-> ctype <> "LogicSig") /\
  (g_has_logic_sig t = true <-> ctype = "LogicSig") /\
  (ctype = "LogicSig" -> eligible dtype vtypes t ->
   (txn_vulnerable funcs checks dtype vtypes [t] t = true <->
    exists b, fn_leaf_block f b /\ validated_in_block r checks None b = false)).
Proof.
  intros Hf. cbv zeta. unfold single_gtxn. destruct (String.eqb ctype "LogicSig") eqn:E.
  - apply String.eqb_eq in E.
    split. { split; intros _; [exact E | reflexivity]. }
    split. { split; [intros X; discriminate | intros X; contradiction]. }
    split. { split; intros _; [exact E | reflexivity]. }
    intros _ He. apply (single_logic_sig funcs checks dtype vtypes _ k f r); try reflexivity; assumption.
  - apply String.eqb_neq in E.
    split. { split; [intros X; discriminate | intros X; contradiction]. }
    split. { split; intros _; [exact E | reflexivity]. }
    split. { split; [intros X; discriminate | intros X; contradiction]. }
    intros X; contradiction.
Qed.
Print Assumptions init_single_logic_sig.

(* ====================================================================== *)
(* 9. Non-vacuity: a three-transaction configuration                        *)
(* ====================================================================== *)
Definition ex_contracts : list (string * tcontract) :=
  [("ls", mkContract "ls" "LogicSig" [("f", 0)]); ("app", mkContract "app" "ApprovalProgram" [("g", 1)])].
Definition ex_a := mkGroupConfigTransaction "a" "pay" None None (Some (mkGroupConfigFunctionCall "ls" "f")) (Some 1%Z)
                     (Some [("b", 1%Z); ("c", 2%Z)]).
Definition ex_b := mkGroupConfigTransaction "b" "pay" None (Some true) None None (Some [("a", (-1)%Z); ("c", (-1)%Z)]).
Definition ex_c := mkGroupConfigTransaction "c" "appl" (Some (mkGroupConfigFunctionCall "app" "g")) None None (Some 3%Z) None.
Definition ex_group := mkGroupConfigGroup "op" [ex_a; ex_b; ex_c].

Example init_group_example :
  exists heap g,
    init_group_gen ex_contracts ex_group = Ok (heap, g) /\
    view_group heap g =
      [mkTxn "a" "Pay" true (Some 0) None (Some 1%N) [(1%Z, "b"); (2%Z, "c")];
       mkTxn "b" "Pay" true None None None [((-1)%Z, "c")];
       mkTxn "c" "Appl" false None (Some 1) (Some 3%N) []] /\
    gr_absolute_indexes g = [(1%Z, 0); (3%Z, 2)] /\
    group_verdict_gen ok_funcs never "STATELESS" None (view_group heap g) = Some ["b"].
Proof. eexists. eexists. split; [vm_compute; reflexivity|]. repeat split; vm_compute; reflexivity. Qed.

Example init_group_example_errors :
  init_group_gen ex_contracts (mkGroupConfigGroup "op" [ex_a; ex_a]) = Raise E_repeated /\
  init_group_gen ex_contracts (mkGroupConfigGroup "op" [ex_a; ex_b]) = Raise E_foreign /\
  init_group_gen ex_contracts (mkGroupConfigGroup "op" [ex_c; mkGroupConfigTransaction "d" "txn" None None None (Some 3%Z) None]) = Raise E_same_abs /\
  init_group_gen ex_contracts (mkGroupConfigGroup "op" [mkGroupConfigTransaction "d" "txn" (Some (mkGroupConfigFunctionCall "ls" "f")) None None None None]) = Raise E_app_is_lsig /\
  init_group_gen ex_contracts (mkGroupConfigGroup "op" [mkGroupConfigTransaction "d" "txn" None None (Some (mkGroupConfigFunctionCall "app" "g")) None None]) = Raise E_lsig_is_app /\
  init_group_gen ex_contracts (mkGroupConfigGroup "op" [mkGroupConfigTransaction "d" "txn" None None (Some (mkGroupConfigFunctionCall "zz" "g")) None None]) = Raise E_contract /\
  init_group_gen ex_contracts (mkGroupConfigGroup "op" [mkGroupConfigTransaction "d" "txn" None None (Some (mkGroupConfigFunctionCall "ls" "g")) None None]) = Raise E_function /\
  init_group_gen ex_contracts (mkGroupConfigGroup "op" [mkGroupConfigTransaction "d" "Pay" None None None None None]) = Raise EKeyError.
Proof. repeat split; vm_compute; reflexivity. Qed.

(* ====================================================================== *)
(* 10. The from_yaml readers (regenerated; pinned on concrete typed entries)*)
(* ====================================================================== *)
Definition yrel (oid : string) (off : Z) : yv := YMap [("other_txn_id", YStr oid); ("offset", YInt off)].
Definition ycall (c f : string) : yv := YMap [("contract", YStr c); ("function", YStr f)].
Definition ex_yaml_a : list (string * yv) :=
  [("txn_id", YStr "a"); ("txn_type", YStr "pay"); ("logic_sig", ycall "ls" "f"); ("absolute_index", YInt 1);
   ("relative_indexes", YList [yrel "b" 1; yrel "c" 2; yrel "b" 3])].
Definition ex_yaml_c : list (string * yv) :=
  [("txn_id", YStr "c"); ("txn_type", YStr "appl"); ("application", ycall "app" "g"); ("has_logic_sig", YBool false)].

(* relative_indexes is keyed by other_txn_id: the later offset for "b" replaces the earlier one in place *)
Example from_yaml_example :
  GroupConfigTransaction_from_yaml_gen ex_yaml_a =
    Ok (mkGroupConfigTransaction "a" "pay" None None (Some (mkGroupConfigFunctionCall "ls" "f")) (Some 1%Z) (Some [("b", 3%Z); ("c", 2%Z)])) /\
  GroupConfigTransaction_from_yaml_gen ex_yaml_c =
    Ok (mkGroupConfigTransaction "c" "appl" (Some (mkGroupConfigFunctionCall "app" "g")) (Some false) None None None) /\
  GroupConfigGroup_from_yaml_gen [("operation", YStr "op"); ("transactions", YList [YMap ex_yaml_a; YMap ex_yaml_c])] =
    Ok (mkGroupConfigGroup "op"
          [mkGroupConfigTransaction "a" "pay" None None (Some (mkGroupConfigFunctionCall "ls" "f")) (Some 1%Z) (Some [("b", 3%Z); ("c", 2%Z)]);
           mkGroupConfigTransaction "c" "appl" (Some (mkGroupConfigFunctionCall "app" "g")) (Some false) None None None]).
Proof. repeat split; vm_compute; reflexivity. Qed.

Example from_yaml_example_errors :
  GroupConfigTransaction_from_yaml_gen [("txn_id", YStr "a"); ("txn_type", YStr "Pay")] =
    Raise (EInvalid "Transaction: Unknown transaction type {} of transaction {}") /\
  GroupConfigTransaction_from_yaml_gen [("txn_type", YStr "pay")] =
    Raise (EInvalid "Transaction:\n\nFollowing Required fields are absent: {}") /\
  GroupConfigTransaction_from_yaml_gen [("txn_id", YStr "a"); ("txn_type", YStr "pay"); ("relative_indexes", YList [YMap [("other_txn_id", YStr "b")]])] =
    Raise (EInvalid "Transaction: {}\n\nFollowing Required fields are absent in relative_indexes: {}") /\
  GroupConfigTransaction_from_yaml_gen [("txn_id", YStr "a"); ("txn_type", YStr "pay"); ("application", YMap [("contract", YStr "c")])] =
    Raise (EInvalid "Function call:\n\nFollowing Required fields are absent: {}") /\
  GroupConfigTransaction_from_yaml_gen [("txn_id", YStr "a"); ("txn_type", YStr "pay"); ("absolute_index", YStr "1")] = Raise ETypeError /\
  GroupConfigGroup_from_yaml_gen [("operation", YStr "op")] = Raise (EInvalid "Group:\n\nFollowing Required fields are absent: {}").
Proof. repeat split; vm_compute; reflexivity. Qed.

(* DISCREPANCY between the configuration file format and the model's request format.  The model (Model/Group.v g_rel,
   ocaml/main.ml) lists (offset, id) pairs and keeps the LAST pair per OFFSET; the YAML reader first keeps the last
   offset per ID.  On a listing that names one id twice the two readings differ: here the model reads
   a -> {1: b, 2: b}, tealer reads a -> {2: c}. *)
Definition ex_yaml_dup : list (string * yv) :=
  [("txn_id", YStr "a"); ("txn_type", YStr "pay"); ("relative_indexes", YList [yrel "b" 1; yrel "c" 2; yrel "b" 2])].
Theorem yaml_rel_model_refuted :
  exists e, GroupConfigTransaction_from_yaml_gen ex_yaml_dup = Ok e /\
            g_rel (cfg_gtxn [] e) = [(2%Z, "c")] /\
            rel_dict (mkTxn "a" "Pay" false None None None [(1%Z, "b"); (2%Z, "c"); (2%Z, "b")]) = [(1%Z, "b"); (2%Z, "b")].
Proof. eexists. split; [vm_compute; reflexivity|]. split; vm_compute; reflexivity. Qed.

(* .. and agree when no id is listed twice (here: the listing of ex_yaml_a without its last pair) *)
Example yaml_rel_model_agree :
  exists e, GroupConfigTransaction_from_yaml_gen
              [("txn_id", YStr "a"); ("txn_type", YStr "pay"); ("relative_indexes", YList [yrel "b" 1; yrel "c" 2; yrel "d" 1])] = Ok e /\
            g_rel (cfg_gtxn [] e) = rel_dict (mkTxn "a" "Pay" false None None None [(1%Z, "b"); (2%Z, "c"); (1%Z, "d")]).
Proof. eexists. split; vm_compute; reflexivity. Qed.
Print Assumptions yaml_rel_model_refuted.
