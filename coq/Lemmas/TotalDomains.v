(* The four domains of Model/Domains.v have finite height in the sense of TotalSolver.TLaws, and
   run_int / run_family / run_all are total: no Exn outcome for any fuel, Done beyond an explicit bound. *)
From Coq Require Import String List NArith ZArith Bool Arith Lia.
From Tealer Require Import Tables LeafPrelude Leaves Syntax Parse Cfg StackAst Keys Analysis Domains.
From Tealer Require Import SolverLemmas LeafLemmas SingleLemmas TotalSolver.
Import ListNotations.
Open Scope list_scope.

(* ================================================================== counting *)
Lemma forallb_false_exists {A} (p : A -> bool) l : forallb p l = false -> exists x, In x l /\ p x = false.
Proof.
  induction l as [|a l IH]; simpl; [discriminate|].
  destruct (p a) eqn:E; simpl.
  - intros H. destruct (IH H) as [x [Hx Hp]]. exists x. auto.
  - intros _. exists a. auto.
Qed.

Lemma filter_length_le {A} (p : A -> bool) l : length (filter p l) <= length l.
Proof. induction l as [|a l IH]; simpl; [lia|]. destruct (p a); simpl; lia. Qed.

Lemma filter_length_mono {A} (p q : A -> bool) l :
  (forall x, In x l -> p x = true -> q x = true) -> length (filter p l) <= length (filter q l).
Proof.
  induction l as [|a l IH]; intros H; simpl; [lia|].
  assert (IH' : length (filter p l) <= length (filter q l)) by (apply IH; intros x Hx; apply H; right; exact Hx).
  destruct (p a) eqn:Ep.
  - rewrite (H a (or_introl eq_refl) Ep). simpl. lia.
  - destruct (q a); simpl; lia.
Qed.

Lemma filter_length_lt {A} (p q : A -> bool) l :
  (forall x, In x l -> p x = true -> q x = true) ->
  (exists x, In x l /\ p x = false /\ q x = true) ->
  length (filter p l) < length (filter q l).
Proof.
  induction l as [|a l IH]; intros H [x [Hx [Hp Hq]]]; [destruct Hx|].
  assert (Hm : length (filter p l) <= length (filter q l))
    by (apply filter_length_mono; intros y Hy; apply H; right; exact Hy).
  simpl. destruct Hx as [->|Hx].
  - rewrite Hp, Hq. simpl. lia.
  - assert (IH' : length (filter p l) < length (filter q l)).
    { apply IH; [intros y Hy; apply H; right; exact Hy|]. exists x. auto. }
    destruct (p a) eqn:Ep.
    + rewrite (H a (or_introl eq_refl) Ep). simpl. lia.
    + destruct (q a); simpl; lia.
Qed.

Lemma fold_left_inv {A B} (Q : A -> Prop) (g : A -> B -> A) l :
  (forall a x, Q a -> Q (g a x)) -> forall a, Q a -> Q (fold_left g l a).
Proof. intros Hg. induction l as [|x l IH]; intros a Ha; simpl; auto. Qed.

(* ================================================================== 1. list-sets over a finite universe *)
Section GSetLaws.
  Variable A : Type.
  Variable eqb : A -> A -> bool.
  Hypothesis eqb_eq : forall x y, eqb x y = true <-> x = y.
  Variable U : list A.

  Notation mem := (gmem A eqb).
  Definition gcount (v : list A) : nat := length (filter (fun x => mem x v) U).

  Lemma gcount_strict a b :
    incl a U -> incl b U -> incl a b -> gset_eqb A eqb b a = false -> gcount a < gcount b.
  Proof.
    intros Ha Hb Hab Hne. unfold gcount. apply filter_length_lt.
    - intros x _ Hx. apply (gmem_In A eqb eqb_eq). apply Hab. apply (gmem_In A eqb eqb_eq). exact Hx.
    - unfold gset_eqb in Hne. apply andb_false_iff in Hne. destruct Hne as [Hne|Hne].
      + unfold gsubset in Hne. apply forallb_false_exists in Hne. destruct Hne as [x [Hx Hm]].
        exists x. split; [apply Hb; exact Hx|]. split; [exact Hm|]. apply (gmem_In A eqb eqb_eq). exact Hx.
      + exfalso. assert (E : gsubset A eqb a b = true) by (apply (gsubset_spec A eqb eqb_eq); exact Hab).
        congruence.
  Qed.

  Definition gset_laws : TLaws (list A) (gset_eqb A eqb) U [] (gunion A eqb) (ginter A eqb).
  Proof.
    refine (mkTLaws (list A) (gset_eqb A eqb) U [] (gunion A eqb) (ginter A eqb)
              (fun v => incl v U) (fun _ => True) (fun a b => incl a b) gcount (length U)
              _ _ _ _ _ _ _ _ _ _ _ _).
    - intros; exact I.
    - apply incl_refl.
    - intros x [].
    - intros a b Ha Hb x Hx. apply (gunion_In A eqb eqb_eq) in Hx. destruct Hx; auto.
    - intros a c Ha _ x Hx. apply (ginter_In A eqb eqb_eq) in Hx. apply Ha. apply Hx.
    - intros a _. apply incl_refl.
    - intros a b c _ _ _ H1 H2. eapply incl_tran; eauto.
    - intros a a' b b' _ _ _ _ H1 H2 x Hx. apply (gunion_In A eqb eqb_eq) in Hx.
      apply (gunion_In A eqb eqb_eq). destruct Hx; auto.
    - intros a a' c c' _ _ _ _ H1 H2 x Hx. apply (ginter_In A eqb eqb_eq) in Hx.
      apply (ginter_In A eqb eqb_eq). destruct Hx; auto.
    - intros a _ x [].
    - intros a b Ha Hb Hab Hne. apply gcount_strict; assumption.
    - intros a _. apply filter_length_le.
  Defined.
End GSetLaws.

Definition int_laws (U : list Z) : TLaws (list Z) zset_eqb U [] zunion zinter := gset_laws Z Z.eqb Z.eqb_eq U.
Definition type_laws : TLaws (list string) lset_eqb ALL_TRANSACTION_TYPES [] lunion linter :=
  gset_laws string String.eqb String.eqb_eq ALL_TRANSACTION_TYPES.

Lemma int_laws_H U : tl_H _ _ _ _ _ _ (int_laws U) = length U.
Proof. reflexivity. Qed.
Lemma type_laws_H : tl_H _ _ _ _ _ _ type_laws = length ALL_TRANSACTION_TYPES.
Proof. reflexivity. Qed.
Lemma int_laws_okc U v : tl_okc _ _ _ _ _ _ (int_laws U) v.
Proof. exact I. Qed.
Lemma type_laws_okc v : tl_okc _ _ _ _ _ _ type_laws v.
Proof. exact I. Qed.

(* ================================================================== 2. predicates closed under the domain operations *)
Section Closed.
  Variable T : Type.
  Variable univ null : T.
  Variable union inter : T -> T -> T.
  Variable single : instr -> nat -> list sval -> T * T.
  Variable P : T -> Prop.
  Hypothesis P_univ : P univ.
  Hypothesis P_null : P null.
  Hypothesis P_union : forall a b, P a -> P b -> P (union a b).
  Hypothesis P_inter : forall a b, P a -> P b -> P (inter a b).
  Hypothesis P_single : forall op pos args, P (fst (single op pos args)) /\ P (snd (single op pos args)).

  Notation ass := (asserted T univ null union inter single).
  Notation aparts := (and_parts T univ null union inter single).
  Notation oparts := (or_parts T univ null union inter single).

  Definition P2 (r : T * T) : Prop := P (fst r) /\ P (snd r).
  Definition Pparts (l : list (option (T * T))) : Prop :=
    Forall (fun o => match o with Some r => P2 r | None => True end) l.

  Lemma fold_closed (g : T -> T -> T) (sel : T * T -> T) :
    (forall a b, P a -> P b -> P (g a b)) -> (forall r, P2 r -> P (sel r)) ->
    forall l acc, P acc -> Pparts l ->
      P (fold_left (fun acc o => match o with Some r => g acc (sel r) | None => acc end) l acc).
  Proof.
    intros Hg Hsel. induction l as [|o l IH]; intros acc Ha Hl; simpl; [assumption|].
    inversion Hl; subst. apply IH; [|assumption]. destruct o as [r|]; auto.
  Qed.

  Lemma finish_and_closed l : Pparts l -> P2 (finish_and T univ null union inter l).
  Proof.
    intros Hl. unfold finish_and. split; cbn [fst snd].
    - erewrite fold_left_ext_in; [apply (fold_closed inter fst); auto; intros r Hr; apply Hr|].
      intros a [[t ff]|] _; reflexivity.
    - destruct (existsb _ l); [assumption|].
      erewrite fold_left_ext_in; [apply (fold_closed union snd); auto; intros r Hr; apply Hr|].
      intros a [[t ff]|] _; reflexivity.
  Qed.

  Lemma finish_or_closed l : Pparts l -> P2 (finish_or T univ null union inter l).
  Proof.
    intros Hl. unfold finish_or. split; cbn [fst snd].
    - destruct (existsb _ l); [assumption|].
      erewrite fold_left_ext_in; [apply (fold_closed union fst); auto; intros r Hr; apply Hr|].
      intros a [[t ff]|] _; reflexivity.
    - erewrite fold_left_ext_in; [apply (fold_closed inter snd); auto; intros r Hr; apply Hr|].
      intros a [[t ff]|] _; reflexivity.
  Qed.

  Lemma Pparts_one r : P2 r -> Pparts [Some r].
  Proof. intros H. constructor; [exact H|constructor]. Qed.
  Lemma Pparts_none : Pparts [None].
  Proof. constructor; [exact I|constructor]. Qed.

  Lemma closed_all : forall c, P2 (ass c) /\ Pparts (aparts c) /\ Pparts (oparts c).
  Proof.
    induction c as [|a IHa b IHb|a IHa b IHb|a IHa|op pos args].
    - split; [split; exact P_univ|]. split; apply Pparts_none.
    - destruct IHa as (Xa & Aa & Oa). destruct IHb as (Xb & Ab & Ob).
      assert (A : Pparts (aparts (CAnd a b))) by (apply Forall_app; split; assumption).
      assert (X : P2 (ass (CAnd a b))) by (apply finish_and_closed; exact A).
      split; [exact X|]. split; [exact A|apply Pparts_one; exact X].
    - destruct IHa as (Xa & Aa & Oa). destruct IHb as (Xb & Ab & Ob).
      assert (O : Pparts (oparts (COr a b))) by (apply Forall_app; split; assumption).
      assert (X : P2 (ass (COr a b))) by (apply finish_or_closed; exact O).
      split; [exact X|]. split; [apply Pparts_one; exact X|exact O].
    - destruct IHa as (Xa & _ & _).
      assert (X : P2 (ass (CNot a))).
      { change (ass (CNot a)) with (neg_case T univ a (ass a)).
        destruct a; cbn [neg_case]; try (split; exact P_univ); destruct Xa; split; assumption. }
      split; [exact X|]. split; apply Pparts_one; exact X.
    - assert (X : P2 (ass (CLeaf op pos args))) by (apply P_single).
      split; [exact X|]. split; apply Pparts_one; exact X.
  Qed.

  Lemma asserted_closed c : P (fst (ass c)) /\ P (snd (ass c)).
  Proof. exact (proj1 (closed_all c)). Qed.

  Variable f : func.

  Lemma block_constraint_closed b v :
    block_constraint T univ null union inter single f b = Some v -> P v.
  Proof.
    unfold block_constraint. destruct (emulate (fn_prog f) (b_ins b) []) as [ast|]; [|discriminate].
    intros H. inversion H; subst v. clear H.
    apply fold_left_inv; [|exact P_univ].
    intros acc [[pos op] args] Ha.
    destruct op; try exact Ha; try exact P_null.
    - destruct args as [|[|aop apos aargs aout] r]; try exact Ha.
      apply P_inter; [exact Ha|]. apply asserted_closed.
    - destruct args as [|[|aop apos aargs aout] r]; try exact Ha.
      destruct (is_int_push_ins (fn_intcs f) aop) as [| |[|p]|]; try exact P_null;
        (apply P_inter; [exact Ha|apply asserted_closed]).
  Qed.

  Lemma edge_constraint_closed pb s ec :
    edge_constraint T univ null union inter single f pb s = Some ec -> P ec.
  Proof.
    unfold edge_constraint. intros H.
    repeat match goal with
           | H : match ?x with _ => _ end = Some _ |- _ => destruct x eqn:?; try discriminate
           | H : (if ?x then _ else _) = Some _ |- _ => destruct x eqn:?; try discriminate
           end;
      inversion H; subst; try exact P_univ;
      match goal with
      | E : asserted _ _ _ _ _ _ ?c = (_, _) |- _ =>
          let X := fresh in pose proof (asserted_closed c) as X; rewrite E in X; cbn [fst snd] in X; apply X
      end.
  Qed.

  Lemma init_constraints_spec bc :
    init_constraints T univ null union inter single f = Some bc ->
    map fst bc = ids f /\
    forall b v, In (b, v) bc -> exists xb, In xb (fn_blocks f) /\ b = b_idx xb /\
                                          block_constraint T univ null union inter single f xb = Some v.
  Proof.
    revert bc. unfold init_constraints. destruct (forallb _ (fn_blocks f)); [|intros ? H; discriminate].
    unfold all_some, ids. generalize (fn_blocks f) as l. induction l as [|xb l IH]; intros bc0 H; simpl in H.
    - inversion H; subst. split; [reflexivity|]. intros b v [].
    - destruct (block_constraint T univ null union inter single f xb) as [c|] eqn:E; [|discriminate]. simpl in H.
      destruct (map_opt _ _) as [r|] eqn:Er; [|discriminate]. inversion H; subst bc0.
      destruct (IH r eq_refl) as [IH1 IH2]. split; [simpl; rewrite IH1; reflexivity|].
      intros b v [Hin|Hin].
      + inversion Hin; subst. exists xb. split; [left; reflexivity|]. auto.
      + destruct (IH2 b v Hin) as [xb' [H1 H2]]. exists xb'. split; [right; exact H1|exact H2].
  Qed.

  Lemma init_constraints_closed bc b v :
    init_constraints T univ null union inter single f = Some bc -> Analysis.lookup T bc b = Some v -> P v.
  Proof.
    intros Hi Hl. destruct (init_constraints_spec bc Hi) as [_ H].
    assert (Hin : In (b, v) bc).
    { clear -Hl. induction bc as [|[k w] bc IH]; simpl in Hl; [discriminate|].
      destruct (Nat.eqb k b) eqn:E; [apply Nat.eqb_eq in E; inversion Hl; subst; left; reflexivity|right; auto]. }
    destruct (H b v Hin) as [xb [_ [_ Hb]]]. eapply block_constraint_closed; eauto.
  Qed.
End Closed.

(* ================================================================== 3. fee bounds: a chain *)
(* known k |-> 2k, unknown |-> 2 * MAX_TRANSACTION_COST + 1: union is max, intersection is min *)
Definition fee_rank (v : feeval) : Z :=
  if fee_unknown v then (2 * MAX_TRANSACTION_COSTz + 1)%Z else (2 * fee_value v)%Z.

Lemma fee_union_rank a b : fee_rank (fee_union a b) = Z.max (fee_rank a) (fee_rank b).
Proof.
  destruct a as [ua va], b as [ub vb]. unfold fee_union, fee_rank. cbn [fee_unknown fee_value].
  destruct ua, ub; cbn [andb];
    repeat match goal with |- context [Z.gtb ?a ?b] => destruct (Z.gtb_spec a b) end;
    cbn [fee_unknown fee_value]; lia.
Qed.

Lemma fee_inter_rank a b : fee_rank (fee_intersection a b) = Z.min (fee_rank a) (fee_rank b).
Proof.
  destruct a as [ua va], b as [ub vb]. unfold fee_intersection, fee_rank. cbn [fee_unknown fee_value].
  destruct ua, ub; cbn [andb];
    repeat match goal with
           | |- context [Z.gtb ?a ?b] => destruct (Z.gtb_spec a b)
           | |- context [Z.ltb ?a ?b] => destruct (Z.ltb_spec a b)
           end;
    cbn [fee_unknown fee_value]; lia.
Qed.

Lemma MTC_nonneg : (0 <= MAX_TRANSACTION_COSTz)%Z.
Proof. apply N2Z.is_nonneg. Qed.
Lemma MU64_nonneg : (0 <= MAX_UINT64z)%Z.
Proof. apply N2Z.is_nonneg. Qed.

(* representation invariant of the fee values the analysis builds *)
Definition fee_P (v : feeval) : Prop := fee_wf v /\ (0 <= fee_value v)%Z.

Lemma fee_rank_inj a b : fee_P a -> fee_P b -> fee_rank a = fee_rank b -> a = b.
Proof.
  destruct a as [ua va], b as [ub vb]. unfold fee_P, fee_wf, fee_rank. cbn [fee_unknown fee_value].
  intros [Wa Na] [Wb Nb]. destruct ua, ub; intros E.
  - rewrite Wa, Wb by reflexivity. reflexivity.
  - lia.
  - lia.
  - f_equal. lia.
Qed.

Lemma fee_P_univ : fee_P fee_universal_set.
Proof. split; [apply fee_universal_wf|apply MU64_nonneg]. Qed.
Lemma fee_P_null : fee_P fee_null_set.
Proof. split; [apply fee_null_wf|]. cbn. lia. Qed.
Lemma fee_P_union a b : fee_P a -> fee_P b -> fee_P (fee_union a b).
Proof. intros Ha Hb. destruct (fee_union_cases a b) as [-> | ->]; assumption. Qed.
Lemma fee_P_inter a b : fee_P a -> fee_P b -> fee_P (fee_intersection a b).
Proof. intros Ha Hb. destruct (fee_intersection_cases a b) as [-> | ->]; assumption. Qed.

Lemma fee_cmp_P c v : fee_P v ->
  fee_P (fst (fee_get_asserted_max_value c v)) /\ fee_P (snd (fee_get_asserted_max_value c v)).
Proof.
  intros [Hw Hn]. destruct (fee_cmp_wf c v Hw) as [W1 W2].
  split; (split; [assumption|]).
  - destruct v as [u k]. unfold fee_get_asserted_max_value.
    destruct c; cbn [is_Eq is_Neq is_Less is_LessE is_Greater is_GreaterE fee_unknown fee_value];
      try destruct u; cbn [fst snd fee_value] in *; try exact Hn; try apply MU64_nonneg; lia.
  - destruct v as [u k]. unfold fee_get_asserted_max_value.
    destruct c; cbn [is_Eq is_Neq is_Less is_LessE is_Greater is_GreaterE fee_unknown fee_value];
      try destruct u; cbn [fst snd fee_value] in *; try exact Hn; try apply MU64_nonneg; lia.
Qed.

Lemma fee_single_P intcs fam op pos args :
  fee_P (fst (fee_single intcs fam op pos args)) /\ fee_P (snd (fee_single intcs fam op pos args)).
Proof.
  assert (Hu : fee_P (fst (fee_universal_set, fee_universal_set)) /\ fee_P (snd (fee_universal_set, fee_universal_set)))
    by (split; apply fee_P_univ).
  assert (Hunk : fee_P (mkFee true MAX_UINT64z)) by (split; [apply fee_unknown_wf|apply MU64_nonneg]).
  assert (Hp : forall o, fee_P (match is_int_push_ins intcs o with IntNum n => mkFee false (Z.of_N n) | _ => mkFee true MAX_UINT64z end)).
  { intros o. destruct (is_int_push_ins intcs o); try exact Hunk. split; [apply fee_known_wf|apply N2Z.is_nonneg]. }
  unfold fee_single.
  destruct (cmp_of op); try exact Hu;
    (destruct args as [|a1 [|a2 [|a3 r]]]; try exact Hu;
     try (destruct a1; exact Hu);
     destruct a1 as [|o1 p1 g1 x1], a2 as [|o2 p2 g2 x2]; try exact Hu;
     repeat match goal with |- context [if ?x then _ else _] => destruct x end;
     try exact Hu; apply fee_cmp_P; try exact Hunk; apply Hp).
Qed.

Section FeeLaws.
  Variable V : list feeval.
  Hypothesis V_univ : In fee_universal_set V.
  Hypothesis V_null : In fee_null_set V.

  Definition fee_ok (v : feeval) : Prop := fee_P v /\ In v V.
  Definition fee_mu (v : feeval) : nat := length (filter (fun w => Z.leb (fee_rank w) (fee_rank v)) V).

  Lemma fee_mu_strict a b :
    fee_ok a -> fee_ok b -> (fee_rank a <= fee_rank b)%Z -> feeval_eqb b a = false -> fee_mu a < fee_mu b.
  Proof.
    intros [Pa Ia] [Pb Ib] Hle Hne.
    assert (Hlt : (fee_rank a < fee_rank b)%Z).
    { destruct (Z.eq_dec (fee_rank a) (fee_rank b)) as [E|E]; [|lia].
      rewrite (fee_rank_inj a b Pa Pb E), feeval_eqb_refl in Hne. discriminate. }
    unfold fee_mu. apply filter_length_lt.
    - intros w _ Hw. apply Z.leb_le in Hw. apply Z.leb_le. lia.
    - exists b. split; [exact Ib|]. split; [apply Z.leb_gt; lia|apply Z.leb_le; lia].
  Qed.

  Definition fee_laws : TLaws feeval feeval_eqb fee_universal_set fee_null_set fee_union fee_intersection.
  Proof.
    refine (mkTLaws feeval feeval_eqb fee_universal_set fee_null_set fee_union fee_intersection
              fee_ok fee_ok (fun a b => (fee_rank a <= fee_rank b)%Z) fee_mu (length V)
              _ _ _ _ _ _ _ _ _ _ _ _).
    - intros a H; exact H.
    - split; [apply fee_P_univ|exact V_univ].
    - split; [apply fee_P_null|exact V_null].
    - intros a b Ha Hb. destruct (fee_union_cases a b) as [-> | ->]; assumption.
    - intros a b Ha Hb. destruct (fee_intersection_cases a b) as [-> | ->]; assumption.
    - intros a _. lia.
    - intros a b c _ _ _ H1 H2. lia.
    - intros a a' b b' _ _ _ _ H1 H2. rewrite !fee_union_rank. lia.
    - intros a a' b b' _ _ _ _ H1 H2. rewrite !fee_inter_rank. lia.
    - intros a [[_ Hn] _]. unfold fee_rank at 1. cbn [fee_null_set fee_unknown fee_value].
      unfold fee_rank. pose proof MTC_nonneg. destruct (fee_unknown a); lia.
    - intros a b Ha Hb Hab Hne. apply fee_mu_strict; assumption.
    - intros a _. apply filter_length_le.
  Defined.
End FeeLaws.

(* ================================================================== 4. address sets: No < plain sets < Any *)
Definition addr_bot (v : sset) : bool := negb (smem NO_ADDRESS v).     (* v is not the null set *)
Definition addr_top (v : sset) : bool := smem ANY_ADDRESS v.
Definition addr_gammab (v : sset) (x : string) : bool :=
  negb (is_marker x) && (smem ANY_ADDRESS v || smem x v).

Lemma addr_gammab_spec v x : addr_gammab v x = true <-> addr_gamma v x.
Proof.
  unfold addr_gammab, addr_gamma. rewrite andb_true_iff, negb_true_iff, orb_true_iff. reflexivity.
Qed.

Lemma smem_set_union_false x a b : smem x a = false -> smem x b = false -> smem x (set_union a b) = false.
Proof. intros Ha Hb. apply smem_false. rewrite set_union_In. apply smem_false in Ha, Hb. tauto. Qed.

Lemma addr_union_top a b : addr_wf a -> addr_wf b -> addr_top (addr_union a b) = addr_top a || addr_top b.
Proof.
  intros Ha Hb. unfold addr_top, addr_union. change (@mem_any string Mem_string) with smem.
  destruct (smem ANY_ADDRESS a) eqn:Aa; [reflexivity|]. destruct (smem ANY_ADDRESS b) eqn:Ab; [reflexivity|].
  cbn [orb]. destruct (smem NO_ADDRESS a) eqn:Na; destruct (smem NO_ADDRESS b) eqn:Nb; cbn [andb]; auto.
  apply smem_set_union_false; assumption.
Qed.

Lemma addr_union_bot a b : addr_wf a -> addr_wf b -> addr_bot (addr_union a b) = addr_bot a || addr_bot b.
Proof.
  intros Ha Hb. unfold addr_bot, addr_union. change (@mem_any string Mem_string) with smem.
  destruct (smem ANY_ADDRESS a) eqn:Aa; [|destruct (smem ANY_ADDRESS b) eqn:Ab]; cbn [orb].
  - rewrite (addr_wf_ANY a Ha Aa). reflexivity.
  - rewrite (addr_wf_ANY b Hb Ab). change (negb (smem NO_ADDRESS addr_universal_set)) with true.
    rewrite orb_true_r. reflexivity.
  - destruct (smem NO_ADDRESS a) eqn:Na; destruct (smem NO_ADDRESS b) eqn:Nb; cbn [andb negb orb].
    + reflexivity.
    + rewrite Nb. reflexivity.
    + rewrite Na. reflexivity.
    + rewrite (smem_set_union_false _ a b Na Nb). reflexivity.
Qed.

Lemma addr_inter_top a b : addr_wf a -> addr_wf b -> addr_top (addr_intersection a b) = addr_top a && addr_top b.
Proof.
  intros Ha Hb. unfold addr_top, addr_intersection. change (@mem_any string Mem_string) with smem.
  destruct (smem NO_ADDRESS a) eqn:Na; [|destruct (smem NO_ADDRESS b) eqn:Nb]; cbn [orb].
  - rewrite (addr_wf_NO a Ha Na). reflexivity.
  - rewrite (addr_wf_NO b Hb Nb). change (smem ANY_ADDRESS addr_null_set) with false.
    rewrite andb_false_r. reflexivity.
  - destruct (smem ANY_ADDRESS a) eqn:Aa; destruct (smem ANY_ADDRESS b) eqn:Ab; cbn [andb].
    + reflexivity.
    + apply smem_false. rewrite set_of_list_In. apply smem_false in Ab. exact Ab.
    + apply smem_false. rewrite set_of_list_In. apply smem_false in Aa. exact Aa.
    + apply smem_false. rewrite set_inter_In. apply smem_false in Aa. tauto.
Qed.

Lemma addr_inter_bot a b : addr_wf a -> addr_wf b -> addr_bot (addr_intersection a b) = addr_bot a && addr_bot b.
Proof.
  intros Ha Hb. unfold addr_bot, addr_intersection. change (@mem_any string Mem_string) with smem.
  destruct (smem NO_ADDRESS a) eqn:Na; [reflexivity|]. destruct (smem NO_ADDRESS b) eqn:Nb; [reflexivity|].
  cbn [orb negb andb].
  destruct (smem ANY_ADDRESS a) eqn:Aa; destruct (smem ANY_ADDRESS b) eqn:Ab; cbn [andb].
  + reflexivity.
  + apply negb_true_iff, smem_false. rewrite set_of_list_In. apply smem_false in Nb. exact Nb.
  + apply negb_true_iff, smem_false. rewrite set_of_list_In. apply smem_false in Na. exact Na.
  + apply negb_true_iff, smem_false. rewrite set_inter_In. apply smem_false in Na. tauto.
Qed.

Lemma addr_union_elems a b x : In x (addr_union a b) -> In x a \/ In x b \/ is_marker x = true.
Proof.
  unfold addr_union. change (@mem_any string Mem_string) with smem.
  destruct (smem ANY_ADDRESS a || smem ANY_ADDRESS b).
  { intros H. apply addr_universal_In in H. subst. right; right. reflexivity. }
  destruct (smem NO_ADDRESS a && smem NO_ADDRESS b).
  { intros H. apply addr_null_In in H. subst. right; right. reflexivity. }
  destruct (smem NO_ADDRESS a); [auto|]. destruct (smem NO_ADDRESS b); [auto|].
  rewrite set_union_In. tauto.
Qed.

Lemma addr_inter_elems a b x : In x (addr_intersection a b) -> In x a \/ In x b \/ is_marker x = true.
Proof.
  unfold addr_intersection. change (@mem_any string Mem_string) with smem.
  destruct (smem NO_ADDRESS a || smem NO_ADDRESS b).
  { intros H. apply addr_null_In in H. subst. right; right. reflexivity. }
  destruct (smem ANY_ADDRESS a && smem ANY_ADDRESS b).
  { intros H. apply addr_universal_In in H. subst. right; right. reflexivity. }
  destruct (smem ANY_ADDRESS a); [rewrite set_of_list_In; auto|].
  destruct (smem ANY_ADDRESS b); [rewrite set_of_list_In; auto|].
  rewrite set_inter_In. tauto.
Qed.

Section AddrLaws.
  Variable Lt : list string.       (* the address literals that can appear *)

  Definition addr_ok (v : sset) : Prop := addr_wf v /\ forall x, In x v -> is_marker x = true \/ In x Lt.
  Definition addr_leq (a b : sset) : Prop :=
    (addr_bot a = true -> addr_bot b = true) /\ (addr_top a = true -> addr_top b = true) /\
    (forall x, addr_gamma a x -> addr_gamma b x).
  Definition addr_mu (v : sset) : nat :=
    (if addr_bot v then 1 else 0) + (if addr_top v then 1 else 0) + length (filter (addr_gammab v) Lt).

  Lemma addr_mu_strict a b :
    addr_ok a -> addr_ok b -> addr_leq a b -> sset_seteqb b a = false -> addr_mu a < addr_mu b.
  Proof.
    intros [Wa Ea] [Wb Eb] [Lb [Lt' Lg]] Hne. unfold addr_mu.
    assert (Hg : length (filter (addr_gammab a) Lt) <= length (filter (addr_gammab b) Lt)).
    { apply filter_length_mono. intros x _ Hx. apply addr_gammab_spec. apply Lg. apply addr_gammab_spec. exact Hx. }
    destruct (addr_bot a) eqn:Ba; destruct (addr_bot b) eqn:Bb;
      try (specialize (Lb eq_refl); discriminate);
      destruct (addr_top a) eqn:Ta; destruct (addr_top b) eqn:Tb;
      try (specialize (Lt' eq_refl); discriminate); try lia.
    - (* both Any *)
      exfalso. rewrite (addr_wf_ANY a Wa Ta), (addr_wf_ANY b Wb Tb) in Hne. discriminate.
    - (* both plain *)
      unfold addr_bot in Ba, Bb. apply negb_true_iff in Ba, Bb. unfold addr_top in Ta, Tb.
      assert (Hab : lsubset a b = true).
      { apply lsubset_spec. intros x Hx.
        assert (Hm : is_marker x = false) by (exact (no_markers_plain a Ta Ba x Hx)).
        assert (G : addr_gamma b x) by (apply Lg; apply (addr_gamma_noany a x Ta); auto).
        apply (addr_gamma_noany b x Tb) in G. apply G. }
      unfold sset_seteqb in Hne. rewrite Hab, andb_true_r in Hne.
      unfold lsubset in Hne. apply forallb_false_exists in Hne. destruct Hne as [x [Hx Hm]].
      assert (Hmk : is_marker x = false) by (exact (no_markers_plain b Tb Bb x Hx)).
      assert (Hlt : length (filter (addr_gammab a) Lt) < length (filter (addr_gammab b) Lt)).
      { apply filter_length_lt.
        - intros y _ Hy. apply addr_gammab_spec. apply Lg. apply addr_gammab_spec. exact Hy.
        - exists x. split.
          + destruct (Eb x Hx) as [E|E]; [congruence|exact E].
          + unfold addr_gammab. rewrite Hmk, Ta, Tb, Hm. cbn [negb orb andb].
            split; [reflexivity|]. apply smem_In. exact Hx. }
      lia.
    - exfalso. rewrite (addr_wf_ANY a Wa Ta), (addr_wf_ANY b Wb Tb) in Hne. discriminate.
    - exfalso. unfold addr_bot in Ba, Bb. apply negb_false_iff in Ba, Bb.
      rewrite (addr_wf_NO a Wa Ba), (addr_wf_NO b Wb Bb) in Hne. discriminate.
  Qed.

  Definition addr_laws : TLaws sset sset_seteqb addr_universal_set addr_null_set addr_union addr_intersection.
  Proof.
    refine (mkTLaws sset sset_seteqb addr_universal_set addr_null_set addr_union addr_intersection
              addr_ok addr_ok addr_leq addr_mu (length Lt + 2)
              _ _ _ _ _ _ _ _ _ _ _ _).
    - intros a H; exact H.
    - split; [apply addr_universal_wf|]. intros x Hx. apply addr_universal_In in Hx. subst. left. reflexivity.
    - split; [apply addr_null_wf|]. intros x Hx. apply addr_null_In in Hx. subst. left. reflexivity.
    - intros a b [Wa Ea] [Wb Eb]. split; [apply addr_union_wf; assumption|].
      intros x Hx. apply addr_union_elems in Hx. destruct Hx as [Hx|[Hx|Hx]]; auto.
    - intros a b [Wa Ea] [Wb Eb]. split; [apply addr_intersection_wf; assumption|].
      intros x Hx. apply addr_inter_elems in Hx. destruct Hx as [Hx|[Hx|Hx]]; auto.
    - intros a _. split; [auto|split; auto].
    - intros a b c _ _ _ [H1 [H2 H3]] [K1 [K2 K3]]. split; [auto|split; auto].
    - intros a a' b b' [Wa _] [Wa' _] [Wb _] [Wb' _] [H1 [H2 H3]] [K1 [K2 K3]]. split; [|split].
      + rewrite !addr_union_bot by assumption. rewrite !orb_true_iff. tauto.
      + rewrite !addr_union_top by assumption. rewrite !orb_true_iff. tauto.
      + intros x. rewrite !addr_union_exact by assumption. intros [G|G]; auto.
    - intros a a' b b' [Wa _] [Wa' _] [Wb _] [Wb' _] [H1 [H2 H3]] [K1 [K2 K3]]. split; [|split].
      + rewrite !addr_inter_bot by assumption. rewrite !andb_true_iff. tauto.
      + rewrite !addr_inter_top by assumption. rewrite !andb_true_iff. tauto.
      + intros x. rewrite !addr_intersection_exact by assumption. intros [G1 G2]; auto.
    - intros a _. split; [|split].
      + intros H. discriminate H.
      + intros H. discriminate H.
      + intros x G. exfalso. exact (addr_null_gamma x G).
    - intros a b Ha Hb Hab Hne. apply addr_mu_strict; assumption.
    - intros a _. unfold addr_mu. pose proof (filter_length_le (addr_gammab a) Lt).
      destruct (addr_bot a), (addr_top a); lia.
  Defined.
End AddrLaws.

(* ================================================================== 5. sequencing, init_constraints, refined block constraints *)
Lemma seq_outcomes_no_exn {A B} (l : list A) (g : A -> outcome B) :
  (forall a, In a l -> forall e, g a <> Exn e) -> forall e, seq_outcomes l g <> Exn e.
Proof.
  induction l as [|a l IH]; intros H e; [discriminate|].
  specialize (IH (fun x Hx => H x (or_intror Hx))).
  unfold seq_outcomes in *. cbn [fold_right].
  destruct (fold_right _ (Done []) l) as [r|e'|] eqn:E.
  - destruct (g a) as [b|e'|] eqn:Eg; try discriminate.
    exfalso. exact (H a (or_introl eq_refl) e' Eg).
  - exfalso. apply (IH e'). reflexivity.
  - discriminate.
Qed.

Lemma seq_outcomes_done {A B} (l : list A) (g : A -> outcome B) :
  (forall a, In a l -> exists b, g a = Done b) -> exists r, seq_outcomes l g = Done r.
Proof.
  induction l as [|a l IH]; intros H; [exists []; reflexivity|].
  destruct (IH (fun x Hx => H x (or_intror Hx))) as [r Hr]. destruct (H a (or_introl eq_refl)) as [b Hb].
  exists (b :: r). unfold seq_outcomes in *. cbn [fold_right]. rewrite Hr, Hb. reflexivity.
Qed.

Lemma seq_outcomes_mono {A B} (l : list A) (g g' : A -> outcome B) r :
  (forall a b, In a l -> g a = Done b -> g' a = Done b) -> seq_outcomes l g = Done r -> seq_outcomes l g' = Done r.
Proof.
  revert r. induction l as [|a l IH]; intros r H Hr; [exact Hr|].
  unfold seq_outcomes in *. cbn [fold_right] in *.
  destruct (fold_right _ (Done []) l) as [r0|e|] eqn:E; try discriminate.
  destruct (g a) as [b|e|] eqn:Eg; try discriminate.
  rewrite (IH r0 (fun x y Hx => H x y (or_intror Hx)) eq_refl).
  rewrite (H a b (or_introl eq_refl) Eg). exact Hr.
Qed.

Lemma lookup_In {T} (bc : list (nat * T)) b v : Analysis.lookup T bc b = Some v -> In v (map snd bc).
Proof.
  induction bc as [|[k w] bc IH]; simpl; [discriminate|].
  destruct (Nat.eqb k b); intros H; [inversion H; left; reflexivity|right; auto].
Qed.

Lemma lookup_map_keep {T} (h : nat * T -> nat * T) :
  (forall b c, fst (h (b, c)) = b) ->
  forall bc b, Analysis.lookup T (map h bc) b = option_map (fun c => snd (h (b, c))) (Analysis.lookup T bc b).
Proof.
  intros Hh. induction bc as [|[k c] bc IH]; intros b; [reflexivity|].
  simpl. pose proof (Hh k c) as Hk. destruct (h (k, c)) as [k' c'] eqn:Eh. simpl in Hk. subst k'.
  destruct (Nat.eqb k b) eqn:E.
  - apply Nat.eqb_eq in E. subst k. simpl. rewrite Eh. reflexivity.
  - apply IH.
Qed.

Section Family.
  Variable T : Type.
  Variable t_eqb : T -> T -> bool.
  Variable univ null : T.
  Variable union inter : T -> T -> T.
  Variable f : func.
  Hypothesis Hdef : defined_okb f = true.
  Hypothesis Hcp : cover_prev_P f.

  Lemma init_defined single : exists bc, init_constraints T univ null union inter single f = Some bc.
  Proof.
    unfold init_constraints.
    assert (E : forallb (fun b => match next_global f b with Some _ => true | None => false end) (fn_blocks f) = true).
    { apply forallb_forall. intros b Hb. destruct (def_next f Hdef b Hb) as [nx [-> _]]. reflexivity. }
    rewrite E. unfold all_some.
    assert (H : forall b, In b (fn_blocks f) -> In b (fn_blocks f)) by auto.
    revert H. generalize (fn_blocks f) at 1 3 as l. induction l as [|xb l IH]; intros H; [simpl; eauto|].
    simpl. destruct (def_emulate f Hdef xb (H xb (or_introl eq_refl))) as [ast Hast].
    unfold block_constraint at 1. rewrite Hast. simpl.
    destruct (IH (fun b Hb => H b (or_intror Hb))) as [r Hr]. rewrite Hr. eauto.
  Qed.

  Lemma init_covers single bc :
    init_constraints T univ null union inter single f = Some bc -> bc_covers T f bc.
  Proof.
    intros Hi b Hb. apply lookup_in_keys.
    rewrite (proj1 (init_constraints_spec T univ null union inter single f bc Hi)). exact Hb.
  Qed.

  (* the block constraints of an at-index key, refined with the base result and the possible indices *)
  Definition refine_bc (indices : list (nat * list Z)) (base : list (nat * T)) (fam : keyfam) (bc : list (nat * T))
    : list (nat * T) :=
    match fam with
    | KAtIndex i =>
        map (fun '(b, c) =>
               let gi := match Analysis.lookup _ indices b with Some l => l | None => [] end in
               if zmem (Z.of_N i) gi
               then (b, inter c (match Analysis.lookup _ base b with Some v => v | None => null end))
               else (b, null)) bc
    | _ => bc
    end.

  Lemma refine_bc_lookup indices base fam bc b v :
    Analysis.lookup T (refine_bc indices base fam bc) b = Some v ->
    Analysis.lookup T bc b = Some v \/
    exists c, Analysis.lookup T bc b = Some c /\
              (v = null \/ v = inter c (match Analysis.lookup _ base b with Some w => w | None => null end)).
  Proof.
    unfold refine_bc. destruct fam; auto.
    rewrite lookup_map_keep.
    - destruct (Analysis.lookup T bc b) as [c|]; [|discriminate]. simpl. intros H. right. exists c. split; [reflexivity|].
      destruct (zmem _ _); simpl in H; inversion H; auto.
    - intros k c. cbn. destruct (zmem _ _); reflexivity.
  Qed.

  Lemma refine_bc_covers indices base fam bc : bc_covers T f bc -> bc_covers T f (refine_bc indices base fam bc).
  Proof.
    intros Hc. unfold refine_bc. destruct fam; auto.
    intros b Hb. rewrite lookup_map_keep.
    - destruct (Hc b Hb) as [c ->]. simpl. eauto.
    - intros k c. cbn. destruct (zmem _ _); reflexivity.
  Qed.

  Variable single : keyfam -> instr -> nat -> list sval -> T * T.

  Lemma run_family_unfold fuel indices :
    run_family f fuel t_eqb univ null union inter single indices =
    match init_constraints T univ null union inter (single KSelf) f with
    | None => Exn "exception in block/path level constraints"
    | Some bc0 =>
        match solve T t_eqb univ null union inter (single KSelf) f fuel bc0 with
        | Done base =>
            match seq_outcomes all_gtx_fams (fun fam =>
                    match init_constraints T univ null union inter (single fam) f with
                    | None => Exn "exception in block/path level constraints"
                    | Some bc =>
                        match solve T t_eqb univ null union inter (single fam) f fuel (refine_bc indices base fam bc) with
                        | Done r => Done (fam, r) | Exn e => Exn e | OutOfFuel => OutOfFuel end
                    end) with
            | Done rest => Done ((KSelf, base) :: rest)
            | Exn e => Exn e | OutOfFuel => OutOfFuel
            end
        | Exn e => Exn e
        | OutOfFuel => OutOfFuel
        end
    end.
  Proof. reflexivity. Qed.

  Theorem run_family_no_exn fuel indices e :
    run_family f fuel t_eqb univ null union inter single indices <> Exn e.
  Proof.
    rewrite run_family_unfold.
    destruct (init_defined (single KSelf)) as [bc0 Hbc0]. rewrite Hbc0.
    destruct (solve T t_eqb univ null union inter (single KSelf) f fuel bc0) as [base|e'|] eqn:Es.
    - destruct (seq_outcomes all_gtx_fams _) as [rest|e'|] eqn:Eq; try discriminate.
      exfalso. revert Eq. apply seq_outcomes_no_exn. intros fam _ e0.
      destruct (init_defined (single fam)) as [bc Hbc]. rewrite Hbc.
      destruct (solve T t_eqb univ null union inter (single fam) f fuel _) as [r|e1|] eqn:Es'; try discriminate.
      exfalso. revert Es'. apply solve_no_exn; auto. apply refine_bc_covers. eapply init_covers; eauto.
    - exfalso. revert Es. apply solve_no_exn; auto. eapply init_covers; eauto.
    - discriminate.
  Qed.

  Theorem run_family_fuel_mono fuel fuel' indices r :
    run_family f fuel t_eqb univ null union inter single indices = Done r -> fuel <= fuel' ->
    run_family f fuel' t_eqb univ null union inter single indices = Done r.
  Proof.
    rewrite !run_family_unfold. intros H Hle.
    destruct (init_constraints T univ null union inter (single KSelf) f) as [bc0|]; [|discriminate].
    destruct (solve T t_eqb univ null union inter (single KSelf) f fuel bc0) as [base|e'|] eqn:Es; try discriminate.
    rewrite (solve_fuel_mono T t_eqb univ null union inter (single KSelf) f bc0 fuel fuel' base Es Hle).
    destruct (seq_outcomes all_gtx_fams _) as [rest|e'|] eqn:Eq; try discriminate.
    erewrite seq_outcomes_mono; [exact H| |exact Eq].
    intros fam b _. cbv beta.
    destruct (init_constraints T univ null union inter (single fam) f) as [bc|]; [|discriminate].
    destruct (solve T t_eqb univ null union inter (single fam) f fuel _) as [r0|e1|] eqn:Es'; try discriminate.
    rewrite (solve_fuel_mono T t_eqb univ null union inter (single fam) f _ fuel fuel' r0 Es' Hle). auto.
  Qed.

  (* termination under a finite-height structure that covers the constants of every key *)
  Variable L : TLaws T t_eqb univ null union inter.
  Hypothesis Hbc_ok : forall fam bc b v, In fam (KSelf :: all_gtx_fams) ->
    init_constraints T univ null union inter (single fam) f = Some bc -> Analysis.lookup T bc b = Some v ->
    tl_okc _ _ _ _ _ _ L v.
  Hypothesis Hec_ok : forall fam pb s ec, In fam (KSelf :: all_gtx_fams) -> In pb (fn_blocks f) ->
    edge_constraint T univ null union inter (single fam) f pb s = Some ec -> tl_okc _ _ _ _ _ _ L ec.
  Hypothesis Hrefine_ok : forall c v, tl_okc _ _ _ _ _ _ L c -> tl_ok _ _ _ _ _ _ L v -> tl_okc _ _ _ _ _ _ L (inter c v).

  Theorem run_family_terminates fuel indices :
    solve_bound f (tl_H _ _ _ _ _ _ L) <= fuel ->
    exists r, run_family f fuel t_eqb univ null union inter single indices = Done r.
  Proof.
    intros Hfuel. rewrite run_family_unfold.
    destruct (init_defined (single KSelf)) as [bc0 Hbc0]. rewrite Hbc0.
    destruct (solve_terminates T t_eqb univ null union inter (single KSelf) f Hdef Hcp L
                (fun pb s ec => Hec_ok KSelf pb s ec (or_introl eq_refl)) bc0 fuel
                (init_covers _ bc0 Hbc0) (fun b v => Hbc_ok KSelf bc0 b v (or_introl eq_refl) Hbc0) Hfuel)
      as [base [Hbase [Hcb Hob]]].
    rewrite Hbase.
    destruct (seq_outcomes_done all_gtx_fams (fun fam =>
                    match init_constraints T univ null union inter (single fam) f with
                    | None => Exn "exception in block/path level constraints"
                    | Some bc =>
                        match solve T t_eqb univ null union inter (single fam) f fuel (refine_bc indices base fam bc) with
                        | Done r => Done (fam, r) | Exn e => Exn e | OutOfFuel => OutOfFuel end
                    end)) as [rest Hrest].
    { intros fam Hfam. destruct (init_defined (single fam)) as [bc Hbc]. rewrite Hbc.
      destruct (solve_terminates T t_eqb univ null union inter (single fam) f Hdef Hcp L
                  (fun pb s ec => Hec_ok fam pb s ec (or_intror Hfam)) (refine_bc indices base fam bc) fuel)
        as [lo [Hlo _]].
      - apply refine_bc_covers. eapply init_covers; eauto.
      - intros b v Hv. apply refine_bc_lookup in Hv. destruct Hv as [Hv|[c [Hc [->| ->]]]].
        + eapply Hbc_ok; [right; exact Hfam|exact Hbc|exact Hv].
        + apply (tl_ok_c _ _ _ _ _ _ L). apply (tl_ok_null _ _ _ _ _ _ L).
        + apply Hrefine_ok; [eapply Hbc_ok; [right; exact Hfam|exact Hbc|exact Hc]|].
          destruct (Analysis.lookup T base b) as [w|] eqn:Ew; [eapply Hob; eauto|apply (tl_ok_null _ _ _ _ _ _ L)].
      - exact Hfuel.
      - rewrite Hlo. eauto. }
    rewrite Hrest. eauto.
  Qed.
End Family.

(* ================================================================== 6. the constants of a function *)
Section Consts.
  Variable T : Type.
  Variable univ null : T.
  Variable union inter : T -> T -> T.

  Definition ecs (single : instr -> nat -> list sval -> T * T) (f : func) : list T :=
    flat_map (fun pb => match next_global f pb with
                        | Some nx => flat_map (fun s => match edge_constraint T univ null union inter single f pb s with
                                                        | Some v => [v] | None => [] end) nx
                        | None => [] end) (fn_blocks f).

  Definition consts (single : instr -> nat -> list sval -> T * T) (f : func) : list T :=
    univ :: null ::
    (match init_constraints T univ null union inter single f with Some bc => map snd bc | None => [] end)
    ++ ecs single f.

  Definition all_consts (single : keyfam -> instr -> nat -> list sval -> T * T) (f : func) : list T :=
    flat_map (fun fam => consts (single fam) f) (KSelf :: all_gtx_fams).

  Lemma ecs_In single f pb s ec :
    In pb (fn_blocks f) -> edge_constraint T univ null union inter single f pb s = Some ec -> In ec (ecs single f).
  Proof.
    intros Hpb He. unfold ecs. apply in_flat_map. exists pb. split; [exact Hpb|].
    destruct (edge_some_inv T univ null union inter single f pb s ec He) as [nx [Hnx Hs]]. rewrite Hnx.
    apply in_flat_map. exists s. split; [exact Hs|]. rewrite He. left. reflexivity.
  Qed.

  Lemma all_consts_ec single f fam pb s ec :
    In fam (KSelf :: all_gtx_fams) -> In pb (fn_blocks f) ->
    edge_constraint T univ null union inter (single fam) f pb s = Some ec -> In ec (all_consts single f).
  Proof.
    intros Hfam Hpb He. unfold all_consts. apply in_flat_map. exists fam. split; [exact Hfam|].
    unfold consts. right. right. apply in_or_app. right. eapply ecs_In; eauto.
  Qed.

  Lemma all_consts_bc single f fam bc b v :
    In fam (KSelf :: all_gtx_fams) ->
    init_constraints T univ null union inter (single fam) f = Some bc -> Analysis.lookup T bc b = Some v ->
    In v (all_consts single f).
  Proof.
    intros Hfam Hi Hl. unfold all_consts. apply in_flat_map. exists fam. split; [exact Hfam|].
    unfold consts. right. right. apply in_or_app. left. rewrite Hi. eapply lookup_In; eauto.
  Qed.

  Lemma all_consts_univ single f : In univ (all_consts single f).
  Proof. unfold all_consts. simpl. left. reflexivity. Qed.
  Lemma all_consts_null single f : In null (all_consts single f).
  Proof. unfold all_consts. simpl. right. left. reflexivity. Qed.
End Consts.

(* ================================================================== 7. run_int, run_all *)
Lemma solve_bound_mono f H1 H2 : H1 <= H2 -> solve_bound f H1 <= solve_bound f H2.
Proof.
  intros H. unfold solve_bound.
  assert (Kdeg f * (length (fn_blocks f) * H1) <= Kdeg f * (length (fn_blocks f) * H2)).
  { apply Nat.mul_le_mono_l. apply Nat.mul_le_mono_l. exact H. }
  lia.
Qed.

Lemma fold_sum_ge {A} (g : A -> nat) l x : In x l -> g x <= fold_right (fun y acc => g y + acc) 0 l.
Proof. induction l as [|a l IH]; intros H; [destruct H|]. simpl. destruct H as [->|H]; [lia|]. specialize (IH H). lia. Qed.

(* the constants of the fee analysis / the address literals of one address field *)
Definition fee_consts (f : func) : list feeval :=
  all_consts feeval fee_universal_set fee_null_set fee_union fee_intersection (fun fam => fee_single (fn_intcs f) fam) f.
Definition addr_lits (f : func) (fld : string) : list string :=
  concat (all_consts sset addr_universal_set addr_null_set addr_union addr_intersection
            (fun fam => addr_single (fn_intcs f) fam fld) f).

(* the height used for the fuel bound of run_all: sum of the heights of all the analyses *)
Definition run_all_height (f : func) : nat :=
  length int_universal_groupsize + length int_universal_groupindex + length ALL_TRANSACTION_TYPES +
  length (fee_consts f) + fold_right (fun fld acc => (length (addr_lits f fld) + 2) + acc) 0 addr_fields_list.

Definition run_all_bound (f : func) : nat := solve_bound f (run_all_height f).

Section RunAllTotal.
  Variable f : func.
  Hypothesis Hdef : defined_okb f = true.
  Hypothesis Hcp : cover_prev_P f.

  Definition int_univ (size : bool) : list Z := if size then int_universal_groupsize else int_universal_groupindex.

  Lemma run_int_unfold fuel size :
    run_int f fuel size =
    match init_constraints _ (int_univ size) [] zunion zinter (int_single size (fn_intcs f)) f with
    | None => Exn "exception in block/path level constraints"
    | Some bc => solve _ zset_eqb (int_univ size) [] zunion zinter (int_single size (fn_intcs f)) f fuel bc
    end.
  Proof. reflexivity. Qed.

  Theorem run_int_no_exn fuel size e : run_int f fuel size <> Exn e.
  Proof.
    rewrite run_int_unfold.
    destruct (init_defined _ (int_univ size) [] zunion zinter f Hdef (int_single size (fn_intcs f))) as [bc Hbc].
    rewrite Hbc. apply solve_no_exn; auto. eapply init_covers; eauto.
  Qed.

  Theorem run_int_fuel_mono fuel fuel' size r :
    run_int f fuel size = Done r -> fuel <= fuel' -> run_int f fuel' size = Done r.
  Proof.
    rewrite !run_int_unfold. destruct (init_constraints _ _ _ _ _ _ f) as [bc|]; [|discriminate].
    apply solve_fuel_mono.
  Qed.

  Theorem run_int_terminates fuel size :
    solve_bound f (length (int_univ size)) <= fuel -> exists r, run_int f fuel size = Done r.
  Proof.
    intros Hfuel. rewrite run_int_unfold.
    destruct (init_defined _ (int_univ size) [] zunion zinter f Hdef (int_single size (fn_intcs f))) as [bc Hbc].
    rewrite Hbc.
    destruct (solve_terminates _ zset_eqb (int_univ size) [] zunion zinter (int_single size (fn_intcs f)) f Hdef Hcp
                (int_laws (int_univ size)) (fun _ _ _ _ _ => I) bc fuel
                (init_covers _ _ _ _ _ f _ bc Hbc) (fun _ _ _ => I) Hfuel) as [lo [Hlo _]].
    eauto.
  Qed.

  (* ---------------------------------------------------------------- the three families *)
  Definition addr_fam_single (fld : string) := fun fam => addr_single (fn_intcs f) fam fld.
  Definition fee_fam_single := fun fam => fee_single (fn_intcs f) fam.
  Definition type_fam_single := fun fam => type_single (fn_intcs f) fam.

  Lemma addr_family_terminates fld fuel indices :
    solve_bound f (length (addr_lits f fld) + 2) <= fuel ->
    exists r, run_family f fuel sset_seteqb addr_universal_set addr_null_set addr_union addr_intersection
                (addr_fam_single fld) indices = Done r.
  Proof.
    intros Hfuel.
    apply (run_family_terminates sset sset_seteqb addr_universal_set addr_null_set addr_union addr_intersection
             f Hdef Hcp (addr_fam_single fld) (addr_laws (addr_lits f fld))); [| | |exact Hfuel].
    - intros fam bc b v Hfam Hi Hl. split.
      + eapply (init_constraints_closed sset addr_universal_set addr_null_set addr_union addr_intersection
                  (addr_fam_single fld fam) addr_wf); eauto.
        * apply addr_universal_wf.
        * apply addr_null_wf.
        * apply addr_union_wf.
        * apply addr_intersection_wf.
        * intros. apply addr_single_wf.
      + intros x Hx. right. unfold addr_lits. apply in_concat. exists v. split; [|exact Hx].
        eapply all_consts_bc; eauto.
    - intros fam pb s ec Hfam Hpb He. split.
      + eapply (edge_constraint_closed sset addr_universal_set addr_null_set addr_union addr_intersection
                  (addr_fam_single fld fam) addr_wf); eauto.
        * apply addr_universal_wf.
        * apply addr_null_wf.
        * apply addr_union_wf.
        * apply addr_intersection_wf.
        * intros. apply addr_single_wf.
      + intros x Hx. right. unfold addr_lits. apply in_concat. exists ec. split; [|exact Hx].
        eapply all_consts_ec; eauto.
    - intros c v Hc Hv. exact (tl_ok_inter _ _ _ _ _ _ (addr_laws (addr_lits f fld)) c v Hc Hv).
  Qed.

  Lemma fee_family_terminates fuel indices :
    solve_bound f (length (fee_consts f)) <= fuel ->
    exists r, run_family f fuel feeval_eqb fee_universal_set fee_null_set fee_union fee_intersection
                fee_fam_single indices = Done r.
  Proof.
    intros Hfuel.
    apply (run_family_terminates feeval feeval_eqb fee_universal_set fee_null_set fee_union fee_intersection
             f Hdef Hcp fee_fam_single
             (fee_laws (fee_consts f) (all_consts_univ _ _ _ _ _ _ f) (all_consts_null _ _ _ _ _ _ f)));
      [| | |exact Hfuel].
    - intros fam bc b v Hfam Hi Hl. split.
      + eapply (init_constraints_closed feeval fee_universal_set fee_null_set fee_union fee_intersection
                  (fee_fam_single fam) fee_P); eauto.
        * apply fee_P_univ.
        * apply fee_P_null.
        * apply fee_P_union.
        * apply fee_P_inter.
        * intros. apply fee_single_P.
      + eapply all_consts_bc; eauto.
    - intros fam pb s ec Hfam Hpb He. split.
      + eapply (edge_constraint_closed feeval fee_universal_set fee_null_set fee_union fee_intersection
                  (fee_fam_single fam) fee_P); eauto.
        * apply fee_P_univ.
        * apply fee_P_null.
        * apply fee_P_union.
        * apply fee_P_inter.
        * intros. apply fee_single_P.
      + eapply all_consts_ec; eauto.
    - intros c v Hc Hv.
      exact (tl_ok_inter _ _ _ _ _ _ (fee_laws (fee_consts f) (all_consts_univ _ _ _ _ _ _ f) (all_consts_null _ _ _ _ _ _ f)) c v Hc Hv).
  Qed.

  Lemma type_family_terminates fuel indices :
    solve_bound f (length ALL_TRANSACTION_TYPES) <= fuel ->
    exists r, run_family f fuel lset_eqb ALL_TRANSACTION_TYPES [] lunion linter type_fam_single indices = Done r.
  Proof.
    intros Hfuel.
    apply (run_family_terminates (list string) lset_eqb ALL_TRANSACTION_TYPES [] lunion linter
             f Hdef Hcp type_fam_single type_laws); [| | |exact Hfuel]; intros; exact I.
  Qed.

  (* ---------------------------------------------------------------- run_all *)
  Theorem run_all_no_exn fuel e : run_all f fuel <> Exn e.
  Proof.
    unfold run_all.
    destruct (run_int f fuel true) as [sizes|e1|] eqn:E1; destruct (run_int f fuel false) as [idx0|e2|] eqn:E2;
      try discriminate;
      try (exfalso; exact (run_int_no_exn fuel true _ E1));
      try (exfalso; exact (run_int_no_exn fuel false _ E2)).
    cbv zeta.
    match goal with |- context [seq_outcomes ?l ?g] => destruct (seq_outcomes l g) as [addrs|e3|] eqn:E3 end;
      [| |discriminate].
    - match goal with |- context [run_family f fuel feeval_eqb ?u ?n ?un ?it ?sg ?ix] =>
        destruct (run_family f fuel feeval_eqb u n un it sg ix) as [fees|e4|] eqn:E4 end; [| |discriminate].
      + match goal with |- context [run_family f fuel lset_eqb ?u ?n ?un ?it ?sg ?ix] =>
          destruct (run_family f fuel lset_eqb u n un it sg ix) as [types|e5|] eqn:E5 end; try discriminate.
        exfalso. revert E5. apply run_family_no_exn; assumption.
      + exfalso. revert E4. apply run_family_no_exn; assumption.
    - exfalso. revert E3. apply seq_outcomes_no_exn. intros fld _ e0.
      match goal with |- context [run_family f fuel sset_seteqb ?u ?n ?un ?it ?sg ?ix] =>
        destruct (run_family f fuel sset_seteqb u n un it sg ix) as [r|e6|] eqn:E6 end; try discriminate.
      exfalso. revert E6. apply run_family_no_exn; assumption.
  Qed.

  Theorem run_all_fuel_mono fuel fuel' r : run_all f fuel = Done r -> fuel <= fuel' -> run_all f fuel' = Done r.
  Proof.
    unfold run_all. intros H Hle.
    destruct (run_int f fuel true) as [sizes|e1|] eqn:E1; destruct (run_int f fuel false) as [idx0|e2|] eqn:E2;
      try discriminate.
    rewrite (run_int_fuel_mono fuel fuel' true sizes E1 Hle), (run_int_fuel_mono fuel fuel' false idx0 E2 Hle).
    cbv zeta in *.
    match type of H with context [seq_outcomes ?l ?g] => destruct (seq_outcomes l g) as [addrs|e3|] eqn:E3 end;
      try discriminate.
    erewrite seq_outcomes_mono; [| |exact E3].
    2:{ intros fld b _. cbv beta.
        match goal with |- context [run_family f fuel sset_seteqb ?u ?n ?un ?it ?sg ?ix] =>
          destruct (run_family f fuel sset_seteqb u n un it sg ix) as [r0|e6|] eqn:E6 end; try discriminate.
        rewrite (run_family_fuel_mono _ _ _ _ _ _ f _ fuel fuel' _ r0 E6 Hle). auto. }
    match type of H with context [run_family f fuel feeval_eqb ?u ?n ?un ?it ?sg ?ix] =>
      destruct (run_family f fuel feeval_eqb u n un it sg ix) as [fees|e4|] eqn:E4 end; try discriminate.
    rewrite (run_family_fuel_mono _ _ _ _ _ _ f _ fuel fuel' _ fees E4 Hle).
    match type of H with context [run_family f fuel lset_eqb ?u ?n ?un ?it ?sg ?ix] =>
      destruct (run_family f fuel lset_eqb u n un it sg ix) as [types|e5|] eqn:E5 end; try discriminate.
    rewrite (run_family_fuel_mono _ _ _ _ _ _ f _ fuel fuel' _ types E5 Hle). exact H.
  Qed.

  Theorem run_all_terminates fuel : run_all_bound f <= fuel -> exists r, run_all f fuel = Done r.
  Proof.
    intros Hfuel. unfold run_all_bound in Hfuel.
    assert (Hb : forall h, h <= run_all_height f -> solve_bound f h <= fuel).
    { intros h Hh. eapply Nat.le_trans; [apply solve_bound_mono; exact Hh|exact Hfuel]. }
    unfold run_all.
    destruct (run_int_terminates fuel true) as [sizes Hs]. { apply Hb. unfold run_all_height, int_univ. lia. }
    destruct (run_int_terminates fuel false) as [idx0 Hi]. { apply Hb. unfold run_all_height, int_univ. lia. }
    rewrite Hs, Hi. cbv zeta.
    match goal with |- context [seq_outcomes ?l ?g] => destruct (seq_outcomes_done l g) as [addrs Ha] end.
    { intros fld Hfld. cbv beta.
      destruct (addr_family_terminates fld fuel
                  (map (fun '(b, gi) => (b, filter (fun i => Z.ltb i (zmax_default match Analysis.lookup _ sizes b with Some l => l | None => [] end)) gi)) idx0))
        as [r Hr].
      { apply Hb. unfold run_all_height.
        pose proof (fold_sum_ge (fun fld => length (addr_lits f fld) + 2) addr_fields_list fld Hfld) as Hsum.
        cbv beta in Hsum. lia. }
      unfold addr_fam_single in Hr. rewrite Hr. eauto. }
    rewrite Ha.
    match goal with |- context [run_family f fuel feeval_eqb ?u ?n ?un ?it ?sg ?ix] =>
      destruct (fee_family_terminates fuel ix) as [fees Hf] end.
    { apply Hb. unfold run_all_height. lia. }
    unfold fee_fam_single in Hf. rewrite Hf.
    match goal with |- context [run_family f fuel lset_eqb ?u ?n ?un ?it ?sg ?ix] =>
      destruct (type_family_terminates fuel ix) as [types Ht] end.
    { apply Hb. unfold run_all_height. lia. }
    unfold type_fam_single in Ht. rewrite Ht. eauto.
  Qed.
End RunAllTotal.

Print Assumptions run_int_no_exn.
Print Assumptions run_family_no_exn.
Print Assumptions run_all_no_exn.
Print Assumptions run_all_fuel_mono.
Print Assumptions run_all_terminates.
