(* C13, semantic side, continued (instances of GroupSem.core_vulnerable) and order independence.

   A. ingredients shared by the instances: the own index ([base_index]), the transaction-kind domain
      ([group_kind_ok], [kind_in_ctx]), the address domain ([addr_side], [addr_in_ctx])
   B. can-close-account / can-close-asset            [group_closeto_no_miss_partial], [group_assetcloseto_no_miss_partial]
   C. is-updatable / is-deletable                    [group_updatable_no_miss_partial], [group_deletable_no_miss_partial]
   D. unprotected-updatable / unprotected-deletable  [group_unprotected_updatable_no_miss_partial], [..._deletable_...]
   E. the driver's instances                         [driver_instances]
   F. order independence of the verdict              [txn_vulnerable_perm], [group_verdict_perm]
   `_partial`: the theorems inherit the exclusions of type_leaves_ok (D16 + fragment of Spec/Eval.v),
   addr_leaves_ok (D19, creator literal), int_leaves_ok (D2), and the freshness of the address. *)
From Coq Require Import String List NArith ZArith Bool Arith Lia Permutation.
From Tealer Require Import Tables LeafPrelude Leaves Syntax Parse Cfg StackAst Keys Analysis Domains Detect Group Driver.
From Tealer Require Import Runs Eval Exec LeafLemmas StackLemmas SingleLemmas SolverLemmas ExecLemmas TypeLemmas GraphOk NoMiss TypeExec NoMiss2.
From Tealer Require Import GroupLemmas GroupSem.
Import ListNotations.
Open Scope string_scope.
Open Scope list_scope.

(* ====================================================================== *)
(* A. shared ingredients                                                   *)
(* ====================================================================== *)
(* member p of the concrete group has TypeEnum ty, OnCompletion oc, ApplicationID ap *)
Definition cg_kind (G : cgroup) (p : N) (ty oc ap : N) : Prop :=
  cg_field G p "TypeEnum" = VInt (Z.of_N ty) /\ cg_field G p "OnCompletion" = VInt (Z.of_N oc) /\
  cg_field G p "ApplicationID" = VInt (Z.of_N ap).

Lemma cg_kind_fields G own e p ty oc ap :
  views G own e -> (p < cg_size G)%N -> cg_kind G p ty oc ap -> kind_fields e p ty oc ap.
Proof.
  intros (_ & _ & Hf) Hp (H1 & H2 & H3). unfold kind_fields. rewrite !(Hf _ _ Hp). auto.
Qed.

(* the leaves of every function run by a member are in the fragment of the kind analysis (TypeExec.type_leaves_ok:
   D16 patterns, named constants) for label L and the governed transaction (ty, oc, ap), for the key families
   the member uses *)
Definition group_kind_ok (funcs : list (func * fn_result)) (group : list gtxn) (posn : string -> N)
           (L : string) (ty oc ap : N) : Prop :=
  forall o k f r fam, In o group -> runs o k -> nth_error funcs k = Some (f, r) ->
    fam_used group posn o fam -> type_leaves_ok f fam L ty oc ap.

(* the address hypotheses, for the env of an approving execution of function k by member o (GroupSem.rekey_side
   for an arbitrary address field) *)
Definition addr_side (funcs : list (func * fn_result)) (group : list gtxn) (posn : string -> N) (fld a : string)
           (o : gtxn) (k : nat) (e : env) : Prop :=
  forall f r, nth_error funcs k = Some (f, r) ->
    (forall fam, fam_used group posn o fam -> addr_leaves_ok e f fam fld) /\
    fresh_in r fld (abs_name e a).

Lemma rekey_side_addr_side funcs group posn a o k e :
  rekey_side funcs group posn a o k e <-> addr_side funcs group posn "RekeyTo" a o k e.
Proof. reflexivity. Qed.

Section Ingredients.
  Variable funcs : list (func * fn_result).
  Variable group : list gtxn.
  Variable G : cgroup.
  Variable posn : string -> N.
  Variable Q : gtxn -> nat -> env -> Prop.
  Hypothesis Hcons : consistent_with Q funcs group G posn.
  Hypothesis Hok : group_base_ok funcs group.
  Variable t : gtxn.
  Hypothesis Ht : In t group.

  Lemma base_index k f r e sem cfgs :
    runs t k -> nth_error funcs k = Some (f, r) ->
    views G (posn (g_id t)) e -> env_ok e -> sem_ok e sem -> fn_intcs f = e_intcs e -> Accepts e sem f cfgs ->
    Q t k e ->
    forall b st, In (b, st) cfgs -> In (Z.of_N (e_own e)) (ctx_group_indices (ctx_of r b KSelf)).
  Proof.
    intros Hk E Hv Heok Hsem Hi Hacc _.
    destruct (gb_run _ _ Hok t k f r Ht Hk E) as [fuel Hrun].
    exact (own_index_listed e sem f fuel r cfgs Hsem Heok Hi (gb_graph _ _ Hok t k f r Ht Hk E)
             (gb_sizes _ _ Hok t k f r Ht Hk E) (gb_index _ _ Hok t k f r Ht Hk E) Hrun Hacc).
  Qed.

  (* the label of t's kind is in the kinds the detectors read, in the context of the family through which the
     running member reads t, on every block of the approving run *)
  Lemma kind_in_ctx L ty oc ap o k f r e sem cfgs fam :
    group_kind_ok funcs group posn L ty oc ap ->
    cg_kind G (posn (g_id t)) ty oc ap -> in_range ty oc ap -> In L c07_labels -> carries ty oc ap L = true ->
    In o group -> runs o k -> nth_error funcs k = Some (f, r) ->
    views G (posn (g_id o)) e -> env_ok e -> sem_ok e sem -> fn_intcs f = e_intcs e -> Accepts e sem f cfgs ->
    fam_used group posn o fam -> key_txn e fam = Some (posn (g_id t)) ->
    forall b st, In (b, st) cfgs -> In L (ctx_transaction_types (ctx_of r b fam)).
  Proof.
    intros Hkind Hkf Hr HL Hc Ho Hk E Hv Heok Hsem Hi Hacc Hfam Hkey b st Hin.
    destruct (gb_run _ _ Hok o k f r Ho Hk E) as [fuel Hrun].
    pose proof (gb_graph _ _ Hok o k f r Ho Hk E) as Hg.
    pose proof (cg_kind_fields G _ e _ ty oc ap Hv (c_pos _ _ _ _ _ Hcons t Ht) Hkf) as Hkf'.
    unfold ctx_of. cbn [ctx_transaction_types]. apply res_types_In; [exact HL|]. intros l Hl.
    refine (run_all_type_sound_partial e sem f fuel r fam l (posn (g_id t)) L ty oc ap cfgs Hsem Heok Hi Hg Hrun Hl
              Hkey Hkf' Hr HL Hc (Hkind o k f r fam Ho Hk E Hfam) _ Hacc b st Hin).
    destruct fam as [|i|i|off]; try exact I.
    split; [exact (Hkind o k f r KSelf Ho Hk E (or_introl eq_refl))|].
    split; [exact (gb_sizes _ _ Hok o k f r Ho Hk E) | exact (gb_index _ _ Hok o k f r Ho Hk E)].
  Qed.

  (* the address of t's field fld is possible (ANY) in the set the detectors read *)
  Lemma addr_in_ctx fld a o k f r e sem cfgs fam :
    cg_field G (posn (g_id t)) fld = VAddr a -> a <> "ZERO" -> is_marker a = false ->
    In o group -> runs o k -> nth_error funcs k = Some (f, r) ->
    views G (posn (g_id o)) e -> env_ok e -> sem_ok e sem -> fn_intcs f = e_intcs e -> Accepts e sem f cfgs ->
    addr_side funcs group posn fld a o k e ->
    fam_used group posn o fam -> key_txn e fam = Some (posn (g_id t)) ->
    forall b st, In (b, st) cfgs -> av_any (addrval_of (res_addr r fld fam b)) = true.
  Proof.
    intros Hfld Hz Hm Ho Hk E Hv Heok Hsem Hi Hacc HQ Hfam Hkey b st Hin.
    destruct (HQ f r E) as [Hl Hfr].
    destruct (gb_run _ _ Hok o k f r Ho Hk E) as [fuel Hrun].
    pose proof (gb_graph _ _ Hok o k f r Ho Hk E) as Hg.
    assert (Hfe : e_field e (posn (g_id t)) fld = VAddr a).
    { destruct Hv as (_ & _ & Hf). rewrite (Hf _ _ (c_pos _ _ _ _ _ Hcons t Ht)). exact Hfld. }
    apply (addr_any_true r fld fam b _ Hfr).
    apply res_addr_gamma; [exact (abs_name_not_marker e a Hm)|]. intros l Hl'.
    refine (run_all_addr_sound_partial e sem f fuel r fld fam l (posn (g_id t)) a cfgs Hsem Heok Hi Hg Hrun
              Hl' Hkey Hfe Hz Hm (Hl fam Hfam) _ Hacc b st Hin).
    destruct fam as [|i|i|off]; try exact I.
    split; [exact (Hl KSelf (or_introl eq_refl))|].
    split; [exact (gb_sizes _ _ Hok o k f r Ho Hk E) | exact (gb_index _ _ Hok o k f r Ho Hk E)].
  Qed.
End Ingredients.

Lemma smem_true_of_In x l : In x l -> @mem_any string Mem_string x l = true.
Proof. intros H. change (@mem_any string Mem_string) with smem. apply smem_In. exact H. Qed.

(* eligibility, per row of Leaves.detector_table *)
Lemma eligible_stateless_types t l :
  g_has_logic_sig t = true -> In (g_type t) l -> eligible "STATELESS" (Some l) t.
Proof.
  intros H Hin. split; [|split].
  - intros [_ E]. congruence.
  - intros [E _]. discriminate.
  - intros l' E. inversion E; subst. exact Hin.
Qed.

Lemma eligible_statefull t k : g_application t = Some k -> eligible "STATEFULL" None t.
Proof.
  intros H. split; [|split].
  - intros [E _]. discriminate.
  - intros [_ E]. congruence.
  - intros l E. discriminate.
Qed.

(* ====================================================================== *)
(* B. can-close-account / can-close-asset                                  *)
(* ====================================================================== *)
Section Close.
  Variable funcs : list (func * fn_result).
  Variable group : list gtxn.
  Variable G : cgroup.
  Variable posn : string -> N.
  Variable a : string.
  Variable t : gtxn.
  Hypothesis Hok : group_base_ok funcs group.
  Hypothesis Ht : In t group.
  Hypothesis Hz : a <> "ZERO".
  Hypothesis Hm : is_marker a = false.
  Hypothesis Hls : g_has_logic_sig t = true.

  (* can-close-account: in some approved consistent concrete group, t is a payment (TypeEnum = 1) whose
     CloseRemainderTo is a non-zero address the tool's output never names *)
  Theorem group_closeto_no_miss_partial :
    consistent_with (addr_side funcs group posn "CloseRemainderTo" a) funcs group G posn ->
    group_kind_ok funcs group posn "Pay" 1 0 0 ->
    In (g_type t) ["Any"; "Unknown"; "Pay"] ->
    cg_kind G (posn (g_id t)) 1 0 0 ->
    cg_field G (posn (g_id t)) "CloseRemainderTo" = VAddr a ->
    txn_vulnerable funcs checks_can_close_account "STATELESS" (Some ["Any"; "Unknown"; "Pay"]) group t = true.
  Proof.
    intros Hcons Hkind Hty Hkf Hfld.
    refine (core_vulnerable funcs _ _ _ group G posn _ Hcons t Ht _ (base_index funcs group G posn _ Hok t Ht)
              (eligible_stateless_types t _ Hls Hty)).
    intros o k f r e sem cfgs fam Ho Hk E Hv Heok Hsem Hi Hacc HQ Hfam Hkey b st Hin.
    pose proof (kind_in_ctx funcs group G posn _ Hcons Hok t Ht "Pay" 1 0 0 o k f r e sem cfgs fam Hkind Hkf
                  in_range_pay (proj2 (label_in _) (or_introl eq_refl)) eq_refl Ho Hk E Hv Heok Hsem Hi Hacc Hfam Hkey
                  b st Hin) as K.
    pose proof (addr_in_ctx funcs group G posn _ Hcons Hok t Ht "CloseRemainderTo" a o k f r e sem cfgs fam Hfld Hz Hm
                  Ho Hk E Hv Heok Hsem Hi Hacc HQ Hfam Hkey b st Hin) as A.
    unfold checks_can_close_account. rewrite (smem_true_of_In _ _ K).
    unfold ctx_of. cbn [ctx_closeto]. rewrite A. reflexivity.
  Qed.

  (* can-close-asset: t is an asset transfer (TypeEnum = 4) with a non-zero AssetCloseTo *)
  Theorem group_assetcloseto_no_miss_partial :
    consistent_with (addr_side funcs group posn "AssetCloseTo" a) funcs group G posn ->
    group_kind_ok funcs group posn "Axfer" 4 0 0 ->
    In (g_type t) ["Any"; "Unknown"; "Axfer"] ->
    cg_kind G (posn (g_id t)) 4 0 0 ->
    cg_field G (posn (g_id t)) "AssetCloseTo" = VAddr a ->
    txn_vulnerable funcs checks_can_close_asset "STATELESS" (Some ["Any"; "Unknown"; "Axfer"]) group t = true.
  Proof.
    intros Hcons Hkind Hty Hkf Hfld.
    refine (core_vulnerable funcs _ _ _ group G posn _ Hcons t Ht _ (base_index funcs group G posn _ Hok t Ht)
              (eligible_stateless_types t _ Hls Hty)).
    intros o k f r e sem cfgs fam Ho Hk E Hv Heok Hsem Hi Hacc HQ Hfam Hkey b st Hin.
    pose proof (kind_in_ctx funcs group G posn _ Hcons Hok t Ht "Axfer" 4 0 0 o k f r e sem cfgs fam Hkind Hkf
                  in_range_axfer (proj2 (label_in _) (or_intror (or_introl eq_refl))) eq_refl Ho Hk E Hv Heok Hsem Hi
                  Hacc Hfam Hkey b st Hin) as K.
    pose proof (addr_in_ctx funcs group G posn _ Hcons Hok t Ht "AssetCloseTo" a o k f r e sem cfgs fam Hfld Hz Hm
                  Ho Hk E Hv Heok Hsem Hi Hacc HQ Hfam Hkey b st Hin) as A.
    unfold checks_can_close_asset. rewrite (smem_true_of_In _ _ K).
    unfold ctx_of. cbn [ctx_assetcloseto]. rewrite A. reflexivity.
  Qed.
End Close.

(* ====================================================================== *)
(* C. is-updatable / is-deletable                                          *)
(* ====================================================================== *)
Section KindOnly.
  Variable funcs : list (func * fn_result).
  Variable group : list gtxn.
  Variable G : cgroup.
  Variable posn : string -> N.
  Variable t : gtxn.
  Variable kapp : nat.
  Variable ap : N.
  Hypothesis Hcons : consistent funcs group G posn.
  Hypothesis Hok : group_base_ok funcs group.
  Hypothesis Ht : In t group.
  Hypothesis Happ : g_application t = Some kapp.

  (* a detector whose check is "the label is not possible", for an application call with OnCompletion oc *)
  Lemma group_kind_only chk L oc :
    (forall c, chk c = negb (mem_any L (ctx_transaction_types c))) ->
    (oc <= 5)%N -> In L c07_labels -> carries 6 oc ap L = true ->
    group_kind_ok funcs group posn L 6 oc ap ->
    cg_kind G (posn (g_id t)) 6 oc ap ->
    txn_vulnerable funcs chk "STATEFULL" None group t = true.
  Proof.
    intros Hchk Hoc HL Hc Hkind Hkf.
    refine (core_vulnerable funcs _ _ _ group G posn _ Hcons t Ht _ (base_index funcs group G posn _ Hok t Ht)
              (eligible_statefull t kapp Happ)).
    intros o k f r e sem cfgs fam Ho Hk E Hv Heok Hsem Hi Hacc _ Hfam Hkey b st Hin.
    apply (kind_check_false L chk Hchk).
    exact (kind_in_ctx funcs group G posn _ Hcons Hok t Ht L 6 oc ap o k f r e sem cfgs fam Hkind Hkf
             (in_range_appl oc ap Hoc) HL Hc Ho Hk E Hv Heok Hsem Hi Hacc Hfam Hkey b st Hin).
  Qed.

  (* is-updatable: t runs an application and, in some approved consistent concrete group, is an application call
     (TypeEnum = 6) with OnCompletion = UpdateApplication (4) *)
  Theorem group_updatable_no_miss_partial :
    group_kind_ok funcs group posn "ApplUpdateApplication" 6 4 ap ->
    cg_kind G (posn (g_id t)) 6 4 ap ->
    txn_vulnerable funcs checks_is_updatable "STATEFULL" None group t = true.
  Proof.
    apply (group_kind_only checks_is_updatable "ApplUpdateApplication" 4 (fun _ => eq_refl)).
    - lia.
    - apply label_in. auto.
    - reflexivity.
  Qed.

  (* is-deletable: OnCompletion = DeleteApplication (5) *)
  Theorem group_deletable_no_miss_partial :
    group_kind_ok funcs group posn "ApplDeleteApplication" 6 5 ap ->
    cg_kind G (posn (g_id t)) 6 5 ap ->
    txn_vulnerable funcs checks_is_deletable "STATEFULL" None group t = true.
  Proof.
    apply (group_kind_only checks_is_deletable "ApplDeleteApplication" 5 (fun _ => eq_refl)).
    - lia.
    - apply label_in. auto.
    - reflexivity.
  Qed.
End KindOnly.

(* ====================================================================== *)
(* D. unprotected-updatable / unprotected-deletable: kind + Sender          *)
(* ====================================================================== *)
Section KindSender.
  Variable funcs : list (func * fn_result).
  Variable group : list gtxn.
  Variable G : cgroup.
  Variable posn : string -> N.
  Variable a : string.
  Variable t : gtxn.
  Variable kapp : nat.
  Variable ap : N.
  Hypothesis Hcons : consistent_with (addr_side funcs group posn "Sender" a) funcs group G posn.
  Hypothesis Hok : group_base_ok funcs group.
  Hypothesis Ht : In t group.
  Hypothesis Happ : g_application t = Some kapp.
  Hypothesis Hfld : cg_field G (posn (g_id t)) "Sender" = VAddr a.
  Hypothesis Hz : a <> "ZERO".
  Hypothesis Hm : is_marker a = false.

  Lemma group_kind_sender chk L oc :
    (forall c, chk c = negb (mem_any L (ctx_transaction_types c) && av_any (ctx_sender c))) ->
    (oc <= 5)%N -> In L c07_labels -> carries 6 oc ap L = true ->
    group_kind_ok funcs group posn L 6 oc ap ->
    cg_kind G (posn (g_id t)) 6 oc ap ->
    txn_vulnerable funcs chk "STATEFULL" None group t = true.
  Proof.
    intros Hchk Hoc HL Hc Hkind Hkf.
    refine (core_vulnerable funcs _ _ _ group G posn _ Hcons t Ht _ (base_index funcs group G posn _ Hok t Ht)
              (eligible_statefull t kapp Happ)).
    intros o k f r e sem cfgs fam Ho Hk E Hv Heok Hsem Hi Hacc HQ Hfam Hkey b st Hin.
    pose proof (kind_in_ctx funcs group G posn _ Hcons Hok t Ht L 6 oc ap o k f r e sem cfgs fam Hkind Hkf
                  (in_range_appl oc ap Hoc) HL Hc Ho Hk E Hv Heok Hsem Hi Hacc Hfam Hkey b st Hin) as K.
    pose proof (addr_in_ctx funcs group G posn _ Hcons Hok t Ht "Sender" a o k f r e sem cfgs fam Hfld Hz Hm
                  Ho Hk E Hv Heok Hsem Hi Hacc HQ Hfam Hkey b st Hin) as A.
    rewrite Hchk, (smem_true_of_In _ _ K). unfold ctx_of. cbn [ctx_sender]. rewrite A. reflexivity.
  Qed.

  (* unprotected-updatable: an UpdateApplication call sent by a non-zero address the tool's output never names *)
  Theorem group_unprotected_updatable_no_miss_partial :
    group_kind_ok funcs group posn "ApplUpdateApplication" 6 4 ap ->
    cg_kind G (posn (g_id t)) 6 4 ap ->
    txn_vulnerable funcs checks_unprotected_updatable "STATEFULL" None group t = true.
  Proof.
    apply (group_kind_sender checks_unprotected_updatable "ApplUpdateApplication" 4 (fun _ => eq_refl)).
    - lia.
    - apply label_in. auto.
    - reflexivity.
  Qed.

  Theorem group_unprotected_deletable_no_miss_partial :
    group_kind_ok funcs group posn "ApplDeleteApplication" 6 5 ap ->
    cg_kind G (posn (g_id t)) 6 5 ap ->
    txn_vulnerable funcs checks_unprotected_deletable "STATEFULL" None group t = true.
  Proof.
    apply (group_kind_sender checks_unprotected_deletable "ApplDeleteApplication" 5 (fun _ => eq_refl)).
    - lia.
    - apply label_in. auto.
    - reflexivity.
  Qed.
End KindSender.

(* ====================================================================== *)
(* E. these are the instances computed by Driver.handle_group               *)
(* ====================================================================== *)
Lemma driver_instances :
  (In ("can-close-account", checks_can_close_account) group_checks /\
   Parse.assoc "can-close-account" detector_table = Some ("STATELESS", Some ["Any"; "Unknown"; "Pay"])) /\
  (In ("can-close-asset", checks_can_close_asset) group_checks /\
   Parse.assoc "can-close-asset" detector_table = Some ("STATELESS", Some ["Any"; "Unknown"; "Axfer"])) /\
  (In ("is-updatable", checks_is_updatable) group_checks /\
   Parse.assoc "is-updatable" detector_table = Some ("STATEFULL", None)) /\
  (In ("is-deletable", checks_is_deletable) group_checks /\
   Parse.assoc "is-deletable" detector_table = Some ("STATEFULL", None)) /\
  (In ("unprotected-updatable", checks_unprotected_updatable) group_checks /\
   Parse.assoc "unprotected-updatable" detector_table = Some ("STATEFULL", None)) /\
  (In ("unprotected-deletable", checks_unprotected_deletable) group_checks /\
   Parse.assoc "unprotected-deletable" detector_table = Some ("STATEFULL", None)).
Proof.
  unfold group_checks, detectors. simpl. repeat split; auto 12.
Qed.

(* ====================================================================== *)
(* F. the verdict does not depend on the order of the transaction list      *)
(* ====================================================================== *)
Lemma find_id_iff group oid other :
  NoDup (map g_id group) ->
  (find (fun o => String.eqb (g_id o) oid) group = Some other <-> In other group /\ g_id other = oid).
Proof.
  intros Hnd. split.
  - intros H. apply find_some in H. destruct H as [Hin E]. apply String.eqb_eq in E. auto.
  - intros [Hin <-]. apply find_by_id; assumption.
Qed.

Lemma filter_perm {A} (p : A -> bool) l l' : Permutation l l' -> Permutation (filter p l) (filter p l').
Proof.
  induction 1 as [|x l l' Hp IH|x y l|l l' l'' Hp1 IH1 Hp2 IH2].
  - constructor.
  - cbn [filter]. destruct (p x); [constructor|]; exact IH.
  - cbn [filter]. destruct (p x), (p y); try apply Permutation_refl. apply perm_swap.
  - exact (Permutation_trans IH1 IH2).
Qed.

Section Perm.
  Variable funcs : list (func * fn_result).
  Variable checks : bctx -> bool.
  Variable dtype : string.
  Variable vtypes : option (list string).
  Variable group group' : list gtxn.
  Hypothesis Hperm : Permutation group group'.
  Hypothesis Hnd : NoDup (map g_id group).

  Lemma perm_nodup : NoDup (map g_id group').
  Proof. exact (Permutation_NoDup (Permutation_map g_id Hperm) Hnd). Qed.

  Lemma perm_in x : In x group <-> In x group'.
  Proof. split; [apply Permutation_in; exact Hperm | apply Permutation_in; apply Permutation_sym; exact Hperm]. Qed.

  Lemma abs_cleared_perm t : abs_cleared funcs checks group t <-> abs_cleared funcs checks group' t.
  Proof.
    unfold abs_cleared. split; intros (i & other & Ei & Ho & H); exists i, other; (split; [exact Ei|]);
      (split; [apply perm_in; exact Ho | exact H]).
  Qed.

  Lemma relative_accessors_perm t oid off :
    In (oid, off) (relative_accessors group t) <-> In (oid, off) (relative_accessors group' t).
  Proof.
    rewrite (relative_accessors_spec group t oid off Hnd), (relative_accessors_spec group' t oid off perm_nodup).
    split; intros (other & Ho & H); exists other; (split; [apply perm_in; exact Ho | exact H]).
  Qed.

  Lemma rel_cleared_perm t : rel_cleared funcs checks group t <-> rel_cleared funcs checks group' t.
  Proof.
    unfold rel_cleared. split; intros (oid & off & other & Hin & Hf & H); exists oid, off, other.
    - split; [apply relative_accessors_perm; exact Hin|]. split; [|exact H].
      apply (find_id_iff group' oid other perm_nodup). apply (find_id_iff group oid other Hnd) in Hf.
      destruct Hf as [Ho E]. split; [apply perm_in; exact Ho | exact E].
    - split; [apply relative_accessors_perm; exact Hin|]. split; [|exact H].
      apply (find_id_iff group oid other Hnd). apply (find_id_iff group' oid other perm_nodup) in Hf.
      destruct Hf as [Ho E]. split; [apply perm_in; exact Ho | exact E].
  Qed.

  (* the verdict on one transaction is the same *)
  Theorem txn_vulnerable_perm t :
    txn_vulnerable funcs checks dtype vtypes group t = txn_vulnerable funcs checks dtype vtypes group' t.
  Proof.
    assert (H : txn_vulnerable funcs checks dtype vtypes group t = true <->
                txn_vulnerable funcs checks dtype vtypes group' t = true).
    { rewrite !vulnerable_iff, abs_cleared_perm, rel_cleared_perm. reflexivity. }
    destruct (txn_vulnerable funcs checks dtype vtypes group t), (txn_vulnerable funcs checks dtype vtypes group' t);
      try reflexivity; [pose proof (proj1 H eq_refl) as E | pose proof (proj2 H eq_refl) as E]; discriminate E.
  Qed.

  (* the same set of ids is reported *)
  Theorem group_verdict_perm id :
    In id (group_verdict funcs checks dtype vtypes group) <-> In id (group_verdict funcs checks dtype vtypes group').
  Proof.
    rewrite !group_verdict_spec. split; intros (t & Ht & E & Hv); exists t.
    - split; [apply perm_in; exact Ht|]. split; [exact E|]. rewrite <- txn_vulnerable_perm. exact Hv.
    - split; [apply perm_in; exact Ht|]. split; [exact E|]. rewrite txn_vulnerable_perm. exact Hv.
  Qed.

  (* and the reported lists are permutations of each other *)
  Theorem group_verdict_Permutation :
    Permutation (group_verdict funcs checks dtype vtypes group) (group_verdict funcs checks dtype vtypes group').
  Proof.
    unfold group_verdict. apply Permutation_map.
    rewrite (filter_ext_in _ (txn_vulnerable funcs checks dtype vtypes group') group (fun x _ => txn_vulnerable_perm x)).
    apply filter_perm. exact Hperm.
  Qed.
End Perm.

(* without distinct ids the order matters: `find` picks the first transaction with the id *)
Example group_verdict_perm_dup_refuted :
  exists funcs checks group group',
    Permutation group group' /\
    ~ (forall id, In id (group_verdict funcs checks "STATELESS_AND_STATEFULL" None group) <->
                  In id (group_verdict funcs checks "STATELESS_AND_STATEFULL" None group')).
Proof.
  exists ex_dup_funcs, (fun _ => false), [ex_dup_t; ex_dup_a1; ex_dup_a2], [ex_dup_t; ex_dup_a2; ex_dup_a1].
  split; [apply perm_skip; apply perm_swap|].
  intros H. destruct (H "t") as [H1 _]. vm_compute in H1.
  destruct (H1 (or_introl eq_refl)) as [E|[]]. discriminate E.
Qed.

(* ====================================================================== *)
(* G. non-vacuity                                                          *)
(* ====================================================================== *)
(* G1. can-close-account / can-close-asset.  The logic-sig of NoMiss2.CloseWitness
         txn TypeEnum; int 2; !=; assert; int 1; return
   signs T1 (configured at absolute index 0) and T2 (whose relative index -1 is T1); in the concrete group both
   members have TypeEnum ty (1: payment, 4: asset transfer) and close to "X". *)
Module CloseGroupWitness.
  Import CloseWitness.

  Definition T1 : gtxn := mkTxn "T1" "Pay" true (Some 0) None (Some 0%N) [].
  Definition T2 : gtxn := mkTxn "T2" "Any" true (Some 0) None None [((-1)%Z, "T1")].
  Definition grp : list gtxn := [T1; T2].
  Definition funcsP : list (func * fn_result) := [(fP, resP)].
  Definition GC (ty : Z) : cgroup := mkCG 2 (e_field (eC ty)).
  Definition posn2 : string -> N := fun id => if id =? "T2" then 1%N else 0%N.
  Definition eC2 (ty : Z) (own : N) : env := mkEnv 2 own (e_field (eC ty)) "C" None.

  Lemma in_grp t : In t grp -> t = T1 \/ t = T2.
  Proof. intros [<-|[<-|[]]]; auto. Qed.

  Lemma runs_grp t k f r : In t grp -> runs t k -> nth_error funcsP k = Some (f, r) -> k = 0 /\ f = fP /\ r = resP.
  Proof.
    intros Ht Hk E. apply in_grp in Ht.
    assert (k = 0) as -> by (destruct Ht; subst t; destruct Hk as [Hk|Hk]; cbn in Hk; congruence).
    cbn in E. inversion E. auto.
  Qed.

  (* the key families used by the members of this group *)
  Lemma fam_used_grp o fam : In o grp -> fam_used grp posn2 o fam ->
    In fam [KSelf; KAtIndex 0; KAtIndex 1; KAbs 0; KRel (-1)].
  Proof.
    intros Ho [->|[->|[(t' & i & Hin & Ea & ->)|(t' & off & Hin & Hr & ->)]]].
    - simpl. auto.
    - apply in_grp in Ho. destruct Ho; subst o; simpl; auto.
    - apply in_grp in Hin. destruct Hin; subst t'; cbn in Ea; [inversion Ea; simpl; auto | discriminate].
    - apply in_grp in Ho. destruct Ho; subst o; cbn in Hr; [contradiction|].
      destruct Hr as [E|[]]. inversion E. simpl. auto 6.
  Qed.

  Definition outP2 (ty : Z) (own : N) : trace cval * list cval :=
    match crun_tr cval (sem_ref (eC2 ty own)) pP (b_ins BP) [] with Some r => r | None => ([], []) end.

  Lemma w_accepts2 ty own : (ty = 1%Z \/ ty = 4%Z) -> (own = 0%N \/ own = 1%N) ->
    Accepts (eC2 ty own) (sem_ref (eC2 ty own)) fP runP.
  Proof.
    intros Hty Hown. split; [|split; [|split]].
    - unfold Exec, runP.
      apply (EF_last (eC2 ty own) (sem_ref (eC2 ty own)) fP (0, []) [] BP (fst (outP2 ty own)) (snd (outP2 ty own))).
      + reflexivity.
      + destruct Hty as [-> | ->]; destruct Hown as [-> | ->];
          (split; [vm_compute; reflexivity | apply no_fail_b_sound; vm_compute; reflexivity]).
    - split; [exact w_run|]. exists BP. split; reflexivity.
    - reflexivity.
    - exists BP. split; reflexivity.
  Qed.


  Lemma w_consistent ty fld : (ty = 1%Z \/ ty = 4%Z) -> (fld = "CloseRemainderTo" \/ fld = "AssetCloseTo") ->
    consistent_with (addr_side funcsP grp posn2 fld "X") funcsP grp (GC ty) posn2.
  Proof.
    intros Hty Hfld. constructor.
    - cbn. repeat constructor; cbn; intuition discriminate.
    - intros t Ht. apply in_grp in Ht. destruct Ht; subst t; reflexivity.
    - intros t i Ht E. apply in_grp in Ht. destruct Ht; subst t; cbn in E; [inversion E; reflexivity | discriminate].
    - intros t off oid Ht Hin. apply in_grp in Ht. destruct Ht; subst t; cbn in Hin; [contradiction|].
      destruct Hin as [E|[]]. inversion E; subst. reflexivity.
    - intros t k f r Ht Hk E. destruct (runs_grp t k f r Ht Hk E) as (-> & -> & ->).
      assert (Hp : posn2 (g_id t) = 0%N \/ posn2 (g_id t) = 1%N)
        by (apply in_grp in Ht; destruct Ht; subst t; [left | right]; reflexivity).
      remember (posn2 (g_id t)) as own eqn:Eown.
      exists (eC2 ty own), (sem_ref (eC2 ty own)), runP.
      split; [split; [reflexivity|]; split; reflexivity|].
      split; [split; cbn [e_size e_own eC2]; destruct Hp as [Hp | Hp]; try rewrite Hp; lia|].
      split; [apply sem_ref_ok|]. split; [reflexivity|]. split; [exact (w_accepts2 ty own Hty Hp)|].
      intros f r E'. cbn in E'. inversion E'; subst f r. split.
      + intros fam Hfam. pose proof (fam_used_grp t fam Ht Hfam) as Hin. simpl in Hin.
        destruct Hfld as [-> | ->];
          repeat (destruct Hin as [<-|Hin]; [apply addr_leaves_ok_plain; vm_compute; reflexivity|]); contradiction.
      + destruct Hfld as [-> | ->]; apply fresh_in_b; vm_compute; reflexivity.
  Qed.

  Lemma w_base_ok : group_base_ok funcsP grp.
  Proof.
    constructor; intros o k f r Ho Hk E; destruct (runs_grp o k f r Ho Hk E) as (-> & -> & ->).
    - exists 100. exact w_run_all.
    - exact w_graph_ok.
    - exact (w_int true).
    - exact (w_int false).
  Qed.

  Lemma w_kind_ok L ty : (L = "Pay" /\ ty = 1%N) \/ (L = "Axfer" /\ ty = 4%N) -> group_kind_ok funcsP grp posn2 L ty 0 0.
  Proof.
    intros HL o k f r fam Ho Hk E Hfam. destruct (runs_grp o k f r Ho Hk E) as (-> & -> & ->).
    pose proof (fam_used_grp o fam Ho Hfam) as Hin. simpl in Hin.
    destruct HL as [[-> ->] | [-> ->]];
      repeat (destruct Hin as [<-|Hin]; [apply type_leaves_okb_sound; vm_compute; reflexivity|]); contradiction.
  Qed.

  Theorem w_closeto t : In t grp ->
    txn_vulnerable funcsP checks_can_close_account "STATELESS" (Some ["Any"; "Unknown"; "Pay"]) grp t = true.
  Proof.
    intros Ht.
    apply (group_closeto_no_miss_partial funcsP grp (GC 1) posn2 "X" t w_base_ok Ht).
    - discriminate.
    - reflexivity.
    - apply in_grp in Ht. destruct Ht; subst t; reflexivity.
    - exact (w_consistent 1 _ (or_introl eq_refl) (or_introl eq_refl)).
    - exact (w_kind_ok "Pay" 1 (or_introl (conj eq_refl eq_refl))).
    - apply in_grp in Ht. destruct Ht; subst t; simpl; auto.
    - repeat split.
    - reflexivity.
  Qed.

  (* for can-close-asset T1's configured type "Pay" makes it ineligible; T2 ("Any") is reported *)
  Theorem w_assetcloseto :
    txn_vulnerable funcsP checks_can_close_asset "STATELESS" (Some ["Any"; "Unknown"; "Axfer"]) grp T2 = true.
  Proof.
    assert (Ht : In T2 grp) by (right; left; reflexivity).
    apply (group_assetcloseto_no_miss_partial funcsP grp (GC 4) posn2 "X" T2 w_base_ok Ht).
    - discriminate.
    - reflexivity.
    - reflexivity.
    - exact (w_consistent 4 _ (or_intror eq_refl) (or_intror eq_refl)).
    - exact (w_kind_ok "Axfer" 4 (or_intror (conj eq_refl eq_refl))).
    - simpl. auto.
    - repeat split.
    - reflexivity.
  Qed.

  Example w_verdicts_computed :
    group_verdict funcsP checks_can_close_account "STATELESS" (Some ["Any"; "Unknown"; "Pay"]) grp = ["T1"; "T2"] /\
    group_verdict funcsP checks_can_close_asset "STATELESS" (Some ["Any"; "Unknown"; "Axfer"]) grp = ["T2"].
  Proof. split; vm_compute; reflexivity. Qed.
End CloseGroupWitness.

(* G2. is-updatable / unprotected-updatable.  One transaction, configured at absolute index 0, calling the
   application of TypeExec.TypeWitness with OnCompletion = UpdateApplication, ApplicationID = 7, sent by "S". *)
Module UpdGroupWitness.
  Import TypeWitness UpdatableWitness.

  Definition TU1 : gtxn := mkTxn "U" "Appl" false None (Some 0) (Some 0%N) [].
  Definition grpU : list gtxn := [TU1].
  Definition funcsU : list (func * fn_result) := [(fT, resT)].
  Definition GU : cgroup := mkCG 1 (e_field eU).
  Definition posnU : string -> N := fun _ => 0%N.

  Lemma runs_grp t k f r : In t grpU -> runs t k -> nth_error funcsU k = Some (f, r) -> t = TU1 /\ k = 0 /\ f = fT /\ r = resT.
  Proof.
    intros [<-|[]] Hk E.
    assert (k = 0) as -> by (destruct Hk as [Hk|Hk]; cbn in Hk; congruence).
    cbn in E. inversion E. auto.
  Qed.

  Lemma fam_used_grp o fam : In o grpU -> fam_used grpU posnU o fam -> In fam [KSelf; KAtIndex 0; KAbs 0].
  Proof.
    intros [<-|[]] [->|[->|[(t' & i & [<-|[]] & Ea & ->)|(t' & off & _ & Hr & ->)]]];
      try (cbn in Ea; inversion Ea); try (cbn in Hr; contradiction); simpl; auto.
  Qed.

  Lemma w_consistent_with (Q : gtxn -> nat -> env -> Prop) : Q TU1 0 eU -> consistent_with Q funcsU grpU GU posnU.
  Proof.
    intros HQ. constructor.
    - cbn. repeat constructor. intros [].
    - intros t [<-|[]]. reflexivity.
    - intros t i [<-|[]] E. cbn in E. inversion E. reflexivity.
    - intros t off oid [<-|[]] Hin. cbn in Hin. contradiction.
    - intros t k f r Ht Hk E. destruct (runs_grp t k f r Ht Hk E) as (-> & -> & -> & ->).
      exists eU, semU, runT. split; [split; [reflexivity|]; split; reflexivity|].
      split; [exact w_env_ok|]. split; [apply sem_ref_ok|]. split; [reflexivity|]. split; [exact w_accepts | exact HQ].
  Qed.

  Lemma w_base_ok : group_base_ok funcsU grpU.
  Proof.
    constructor; intros o k f r Ho Hk E; destruct (runs_grp o k f r Ho Hk E) as (-> & -> & -> & ->).
    - exists 100. exact w_run_all.
    - exact w_graph_ok.
    - exact (w_int true).
    - exact (w_int false).
  Qed.

  Lemma w_kind_ok : group_kind_ok funcsU grpU posnU "ApplUpdateApplication" 6 4 7.
  Proof.
    intros o k f r fam Ho Hk E Hfam. pose proof (fam_used_grp o fam Ho Hfam) as Hin.
    destruct (runs_grp o k f r Ho Hk E) as (-> & -> & -> & ->). simpl in Hin.
    repeat (destruct Hin as [<-|Hin]; [apply type_leaves_okb_sound; vm_compute; reflexivity|]). contradiction.
  Qed.

  Theorem w_updatable : txn_vulnerable funcsU checks_is_updatable "STATEFULL" None grpU TU1 = true.
  Proof.
    apply (group_updatable_no_miss_partial funcsU grpU GU posnU TU1 0 7 (w_consistent_with _ I) w_base_ok
             (or_introl eq_refl) eq_refl w_kind_ok).
    repeat split.
  Qed.

  Theorem w_unprotected_updatable :
    txn_vulnerable funcsU checks_unprotected_updatable "STATEFULL" None grpU TU1 = true.
  Proof.
    apply (group_unprotected_updatable_no_miss_partial funcsU grpU GU posnU "S" TU1 0 7).
    - apply w_consistent_with. intros f r E. cbn in E. inversion E; subst f r. split.
      + intros fam Hfam. pose proof (fam_used_grp TU1 fam (or_introl eq_refl) Hfam) as Hin. simpl in Hin.
        repeat (destruct Hin as [<-|Hin]; [apply addr_leaves_ok_plain; vm_compute; reflexivity|]). contradiction.
      + apply fresh_in_b. vm_compute. reflexivity.
    - exact w_base_ok.
    - left. reflexivity.
    - reflexivity.
    - reflexivity.
    - discriminate.
    - reflexivity.
    - exact w_kind_ok.
    - repeat split.
  Qed.

  Example w_verdicts_computed :
    group_verdict funcsU checks_is_updatable "STATEFULL" None grpU = ["U"] /\
    group_verdict funcsU checks_unprotected_updatable "STATEFULL" None grpU = ["U"] /\
    group_verdict funcsU checks_is_deletable "STATEFULL" None grpU = [].
  Proof. repeat split; vm_compute; reflexivity. Qed.
End UpdGroupWitness.

Print Assumptions group_closeto_no_miss_partial.
Print Assumptions group_assetcloseto_no_miss_partial.
Print Assumptions group_updatable_no_miss_partial.
Print Assumptions group_deletable_no_miss_partial.
Print Assumptions group_unprotected_updatable_no_miss_partial.
Print Assumptions group_unprotected_deletable_no_miss_partial.
Print Assumptions driver_instances.
Print Assumptions txn_vulnerable_perm.
Print Assumptions group_verdict_perm.
Print Assumptions group_verdict_Permutation.
Print Assumptions group_verdict_perm_dup_refuted.
Print Assumptions CloseGroupWitness.w_closeto.
Print Assumptions CloseGroupWitness.w_assetcloseto.
Print Assumptions UpdGroupWitness.w_updatable.
Print Assumptions UpdGroupWitness.w_unprotected_updatable.
