(* Instances of the generic condition lemmas (AssertedLemmas) for the concrete domains of the four analyses. *)
From Coq Require Import ZArith List Bool String.
From Tealer Require Import LeafPrelude Tables Leaves Syntax StackAst Analysis Domains LeafLemmas AssertedLemmas.
Import ListNotations.

(* ------------------------------------------------------------------ integer sets over a universe U *)
Section IntSets.
  Variable U : list Z.
  Definition inU := { x : Z | In x U }.
  Definition zgamma (s : list Z) (v : inU) : Prop := In (proj1_sig v) s.

  Lemma zgamma_univ : forall v, zgamma U v.
  Proof. intros [x H]; exact H. Qed.
  Lemma zgamma_null : forall v, ~ zgamma [] v.
  Proof. intros v H; exact H. Qed.
  Lemma zgamma_union_l : forall a b v, zgamma a v -> zgamma (zunion a b) v.
  Proof. unfold zgamma; intros; apply zunion_In; auto. Qed.
  Lemma zgamma_union_r : forall a b v, zgamma b v -> zgamma (zunion a b) v.
  Proof. unfold zgamma; intros; apply zunion_In; auto. Qed.
  Lemma zgamma_inter : forall a b v, zgamma a v -> zgamma b v -> zgamma (zinter a b) v.
  Proof. unfold zgamma; intros; apply zinter_In; auto. Qed.
  Lemma zgamma_union_inv : forall a b v, zgamma (zunion a b) v -> zgamma a v \/ zgamma b v.
  Proof. unfold zgamma; intros a b v H; apply zunion_In in H; auto. Qed.
  Lemma zgamma_inter_inv : forall a b v, zgamma (zinter a b) v -> zgamma a v /\ zgamma b v.
  Proof. unfold zgamma; intros a b v H; apply zinter_In in H; auto. Qed.

  Variable single : instr -> nat -> list sval -> list Z * list Z.

  Theorem int_conditions_sound : forall rho v, leaf_sound (list Z) single inU zgamma rho v ->
    forall c b, ceval rho c b ->
      if b then zgamma (fst (asserted (list Z) U [] zunion zinter single c)) v
      else zgamma (snd (asserted (list Z) U [] zunion zinter single c)) v.
  Proof.
    intros rho v Hl c b Hc.
    exact (asserted_sound (list Z) U [] zunion zinter single inU zgamma
             zgamma_univ zgamma_union_l zgamma_union_r zgamma_inter rho v Hl c b Hc).
  Qed.

  Theorem int_conditions_exact : forall det,
    (forall op pos args v,
        match det op pos args with
        | Some f => (zgamma (fst (single op pos args)) v <-> f v = true) /\ (zgamma (snd (single op pos args)) v <-> f v = false)
        | None => zgamma (fst (single op pos args)) v /\ zgamma (snd (single op pos args)) v
        end) ->
    forall v c,
      (zgamma (fst (asserted (list Z) U [] zunion zinter single c)) v <-> csat inU det v c true) /\
      (zgamma (snd (asserted (list Z) U [] zunion zinter single c)) v <-> csat inU det v c false).
  Proof.
    intros det Hd v c.
    exact (asserted_exact (list Z) U [] zunion zinter single inU zgamma
             zgamma_univ zgamma_union_l zgamma_union_r zgamma_inter zgamma_null zgamma_union_inv zgamma_inter_inv det Hd v c).
  Qed.
End IntSets.

(* ------------------------------------------------------------------ fee bounds: concrete fees in [0, 2^64) *)
Definition fee_val := { x : Z | (0 <= x <= MAX_UINT64z)%Z }.
Definition fgamma (b : feeval) (v : fee_val) : Prop := fee_gamma b (proj1_sig v).

Lemma fgamma_univ : forall v, fgamma fee_universal_set v.
Proof. intros [x [H0 H1]]; apply fee_universal_gamma; exact H1. Qed.
Lemma fgamma_union_l : forall a b v, fgamma a v -> fgamma (fee_union a b) v.
Proof. unfold fgamma; intros; apply fee_union_exact; auto. Qed.
Lemma fgamma_union_r : forall a b v, fgamma b v -> fgamma (fee_union a b) v.
Proof. unfold fgamma; intros; apply fee_union_exact; auto. Qed.
Lemma fgamma_inter : forall a b v, fgamma a v -> fgamma b v -> fgamma (fee_intersection a b) v.
Proof. unfold fgamma; intros; apply fee_intersection_exact; auto. Qed.

Theorem fee_conditions_sound : forall single rho v, leaf_sound feeval single fee_val fgamma rho v ->
  forall c b, ceval rho c b ->
    if b then fgamma (fst (asserted feeval fee_universal_set fee_null_set fee_union fee_intersection single c)) v
    else fgamma (snd (asserted feeval fee_universal_set fee_null_set fee_union fee_intersection single c)) v.
Proof.
  intros single rho v Hl c b Hc.
  exact (asserted_sound feeval fee_universal_set fee_null_set fee_union fee_intersection single fee_val fgamma
           fgamma_univ fgamma_union_l fgamma_union_r fgamma_inter rho v Hl c b Hc).
Qed.

(* ------------------------------------------------------------------ label sets *)
Definition lgamma (s : list string) (lab : string) : Prop := In lab s.
Section Labels.
  Variable U : list string.
  Definition inL := { l : string | In l U }.
  Definition lg (s : list string) (v : inL) : Prop := In (proj1_sig v) s.
  Lemma lg_univ : forall v, lg U v. Proof. intros [x H]; exact H. Qed.
  Lemma lg_union_l : forall a b v, lg a v -> lg (lunion a b) v. Proof. unfold lg; intros; apply lunion_In; auto. Qed.
  Lemma lg_union_r : forall a b v, lg b v -> lg (lunion a b) v. Proof. unfold lg; intros; apply lunion_In; auto. Qed.
  Lemma lg_inter : forall a b v, lg a v -> lg b v -> lg (linter a b) v. Proof. unfold lg; intros; apply linter_In; auto. Qed.
  Theorem label_conditions_sound : forall single rho v, leaf_sound (list string) single inL lg rho v ->
    forall c b, ceval rho c b ->
      if b then lg (fst (asserted (list string) U [] lunion linter single c)) v
      else lg (snd (asserted (list string) U [] lunion linter single c)) v.
  Proof.
    intros single rho v Hl c b Hc.
    exact (asserted_sound (list string) U [] lunion linter single inL lg lg_univ lg_union_l lg_union_r lg_inter rho v Hl c b Hc).
  Qed.
End Labels.

(* ------------------------------------------------------------------ address sets (well-formed values only) *)
(* the generic lemma needs the laws for all values; addresses need the representation invariant addr_wf,
   so the domain is the subset type of well-formed sets *)
Definition wfaddr := { s : sset | addr_wf s }.
Definition wa_univ : wfaddr := exist _ addr_universal_set addr_universal_wf.
Definition wa_null : wfaddr := exist _ addr_null_set addr_null_wf.
Definition wa_union (a b : wfaddr) : wfaddr :=
  exist _ (addr_union (proj1_sig a) (proj1_sig b)) (addr_union_wf _ _ (proj2_sig a) (proj2_sig b)).
Definition wa_inter (a b : wfaddr) : wfaddr :=
  exist _ (addr_intersection (proj1_sig a) (proj1_sig b)) (addr_intersection_wf _ _ (proj2_sig a) (proj2_sig b)).
Definition addr_name := { n : string | is_marker n = false }.
Definition agamma (s : wfaddr) (n : addr_name) : Prop := addr_gamma (proj1_sig s) (proj1_sig n).

Lemma agamma_univ : forall n, agamma wa_univ n.
Proof. intros [n H]; apply addr_universal_gamma; exact H. Qed.
Lemma agamma_null : forall n, ~ agamma wa_null n.
Proof. intros [n H]; apply addr_null_gamma. Qed.
Lemma agamma_union_l : forall a b n, agamma a n -> agamma (wa_union a b) n.
Proof. intros [a Ha] [b Hb] n H; unfold agamma in *; simpl in *; apply addr_union_exact; auto. Qed.
Lemma agamma_union_r : forall a b n, agamma b n -> agamma (wa_union a b) n.
Proof. intros [a Ha] [b Hb] n H; unfold agamma in *; simpl in *; apply addr_union_exact; auto. Qed.
Lemma agamma_inter : forall a b n, agamma a n -> agamma b n -> agamma (wa_inter a b) n.
Proof. intros [a Ha] [b Hb] n H1 H2; unfold agamma in *; simpl in *; apply addr_intersection_exact; auto. Qed.
Lemma agamma_union_inv : forall a b n, agamma (wa_union a b) n -> agamma a n \/ agamma b n.
Proof. intros [a Ha] [b Hb] n H; unfold agamma in *; simpl in *; apply addr_union_exact in H; auto. Qed.
Lemma agamma_inter_inv : forall a b n, agamma (wa_inter a b) n -> agamma a n /\ agamma b n.
Proof. intros [a Ha] [b Hb] n H; unfold agamma in *; simpl in *; apply addr_intersection_exact in H; auto. Qed.

Theorem addr_conditions_sound : forall single rho n, leaf_sound wfaddr single addr_name agamma rho n ->
  forall c b, ceval rho c b ->
    if b then agamma (fst (asserted wfaddr wa_univ wa_null wa_union wa_inter single c)) n
    else agamma (snd (asserted wfaddr wa_univ wa_null wa_union wa_inter single c)) n.
Proof.
  intros single rho n Hl c b Hc.
  exact (asserted_sound wfaddr wa_univ wa_null wa_union wa_inter single addr_name agamma
           agamma_univ agamma_union_l agamma_union_r agamma_inter rho n Hl c b Hc).
Qed.
